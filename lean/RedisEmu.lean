import RedisEmu.Base
import RedisEmu.Resp
import RedisEmu.Store
import RedisEmu.Cmds
import RedisEmu.Bits
import RedisEmu.Glob
import RedisEmu.Exec
