import RedisEmu.Exec
import RedisEmu.Glob
import RedisEmu.Proofs.AList
import Mathlib.Tactic.SplitIfs
/-
  C06 — keyspace discipline. Theorems about `RedisEmu.Store` / `RedisEmu.Cmds`
  (families `keys` and `mixed` of the correspondence run).
-/
namespace RedisEmu

/-! ### invariant: unique keys and no empty list / hash / set is ever stored -/

def Val.nonEmpty : Val → Bool
  | .list l => !l.isEmpty
  | .hash h => !h.isEmpty
  | .set s => !s.isEmpty
  | _ => true

/-- reachable-state invariant of one database -/
structure Db.Inv (db : Db) : Prop where
  unique : (db.keys.map (·.1)).Nodup
  noEmpty : ∀ p ∈ db.keys, p.2.val.nonEmpty = true

theorem inv_init : ({} : Db).Inv := ⟨by simp, by simp⟩

theorem mem_ainsert {α} (k : Bytes) (v : α) (l : List (Bytes × α)) (p : Bytes × α)
    (hp : p ∈ ainsert k v l) : p = (k, v) ∨ p ∈ l := by
  induction l with
  | nil => simp [ainsert] at hp; exact Or.inl hp
  | cons q r ih =>
    obtain ⟨k', v'⟩ := q
    by_cases h : (k' == k) = true
    · simp only [ainsert, h, ↓reduceIte, List.mem_cons] at hp
      rcases hp with hp | hp
      · exact Or.inl hp
      · exact Or.inr (List.mem_cons_of_mem _ hp)
    · simp only [ainsert, h, Bool.false_eq_true, ↓reduceIte, List.mem_cons] at hp
      rcases hp with hp | hp
      · exact Or.inr (by rw [hp]; exact List.mem_cons_self)
      · rcases ih hp with h1 | h1
        · exact Or.inl h1
        · exact Or.inr (List.mem_cons_of_mem _ h1)

theorem mem_aerase {α} (k : Bytes) (l : List (Bytes × α)) (p : Bytes × α)
    (hp : p ∈ aerase k l) : p ∈ l := by
  induction l with
  | nil => simp [aerase] at hp
  | cons q r ih =>
    obtain ⟨k', v'⟩ := q
    by_cases h : (k' == k) = true
    · simp only [aerase, h, ↓reduceIte] at hp; exact List.mem_cons_of_mem _ hp
    · simp only [aerase, h, Bool.false_eq_true, ↓reduceIte, List.mem_cons] at hp
      rcases hp with hp | hp
      · rw [hp]; exact List.mem_cons_self
      · exact List.mem_cons_of_mem _ (ih hp)

/-- storing a non-empty value keeps the invariant -/
theorem inv_put (db : Db) (k : Bytes) (v : Val) (exp : Option Int) (h : db.Inv) (hv : v.nonEmpty = true) :
    (db.put k v exp).Inv := by
  constructor
  · exact ainsert_keys_nodup k _ db.keys h.unique
  · intro p hp
    rcases mem_ainsert k _ db.keys p hp with e | hm
    · subst e; exact hv
    · exact h.noEmpty p hm

theorem inv_poke (db : Db) (k : Bytes) (e : Entry) (h : db.Inv) (hv : e.val.nonEmpty = true) :
    (db.poke k e).Inv := by
  constructor
  · exact ainsert_keys_nodup k _ db.keys h.unique
  · intro p hp
    rcases mem_ainsert k _ db.keys p hp with e' | hm
    · subst e'; exact hv
    · exact h.noEmpty p hm

theorem inv_del (db : Db) (k : Bytes) (h : db.Inv) : (db.del k).Inv := by
  unfold Db.del
  cases hr : db.raw k with
  | none => simpa using h
  | some e =>
    constructor
    · exact aerase_keys_nodup k db.keys h.unique
    · intro p hp; exact h.noEmpty p (mem_aerase k db.keys p hp)

theorem inv_setDirty (db : Db) (h : db.Inv) : db.setDirty.Inv := ⟨h.unique, h.noEmpty⟩

/-- the in-place update used by every list / hash / set mutator: however the last element
    goes, an emptied aggregate is removed from the keyspace -/
theorem inv_update (db : Db) (k : Bytes) (e : Entry) (v : Val) (h : db.Inv) : (db.update k e v).Inv := by
  unfold Db.update
  cases v with
  | str b => exact inv_setDirty _ (inv_poke db k _ h (by simp [Val.nonEmpty]))
  | corrupt f => exact inv_setDirty _ (inv_poke db k _ h (by simp [Val.nonEmpty]))
  | list l =>
    simp only
    by_cases he : l.isEmpty = true
    · simp only [he, ↓reduceIte]; exact inv_setDirty _ (inv_del db k h)
    · simp only [he, Bool.false_eq_true, ↓reduceIte]
      exact inv_setDirty _ (inv_poke db k _ h (by simp [Val.nonEmpty, he]))
  | hash l =>
    simp only
    by_cases he : l.isEmpty = true
    · simp only [he, ↓reduceIte]; exact inv_setDirty _ (inv_del db k h)
    · simp only [he, Bool.false_eq_true, ↓reduceIte]
      exact inv_setDirty _ (inv_poke db k _ h (by simp [Val.nonEmpty, he]))
  | set l =>
    simp only
    by_cases he : l.isEmpty = true
    · simp only [he, ↓reduceIte]; exact inv_setDirty _ (inv_del db k h)
    · simp only [he, Bool.false_eq_true, ↓reduceIte]
      exact inv_setDirty _ (inv_poke db k _ h (by simp [Val.nonEmpty, he]))

theorem inv_upd (c : Ctx) (db : Db) (k : Bytes) (e : Entry) (v : Val) (h : db.Inv) : (upd c db k e v).Inv := by
  unfold upd bump
  split_ifs
  · exact inv_update _ _ _ _ h
  · exact inv_update _ _ _ _ ⟨h.unique, h.noEmpty⟩

/-- after an update that emptied the aggregate the key is gone for every lookup -/
theorem update_empty_removes (db : Db) (k : Bytes) (e : Entry) (h : db.Inv) :
    (db.update k e (.list [])).raw k = none ∧ (db.update k e (.hash [])).raw k = none ∧
    (db.update k e (.set [])).raw k = none := by
  unfold Db.update Db.del Db.raw Db.setDirty
  refine ⟨?_, ?_, ?_⟩ <;>
  · simp only [List.isEmpty_nil, ↓reduceIte]
    cases hr : alookup k db.keys with
    | none => simp [hr]
    | some _ => simp [alookup_aerase_self_of_unique k db.keys h.unique]

/-! commands that remove elements keep the invariant -/

theorem inv_pop (c : Ctx) (db : Db) (k : Bytes) (n : Option Int) (left : Bool) (h : db.Inv) :
    (cmdPop c db k n left).db.Inv := by
  unfold cmdPop
  cases n with
  | none =>
    unfold cmdPop.go
    cases hl : listOf c db k with
    | error _ => exact h
    | ok o => cases o with
      | none => exact h
      | some p =>
        simp only
        split_ifs <;> simp only [R.ok, R.crashed] <;> first | exact h | exact inv_upd _ _ _ _ _ h
  | some i =>
    simp only
    split_ifs
    · exact h
    · unfold cmdPop.go
      cases hl : listOf c db k with
      | error _ => exact h
      | ok o => cases o with
        | none => exact h
        | some p =>
          simp only
          split_ifs <;> simp only [R.ok, R.crashed] <;> first | exact h | exact inv_upd _ _ _ _ _ h

theorem inv_srem (c : Ctx) (db : Db) (k : Bytes) (ms : List Bytes) (h : db.Inv) : (cmdSRem c db k ms).db.Inv := by
  unfold cmdSRem
  cases hs : setOf c db k with
  | error _ => exact h
  | ok o => cases o with
    | none => exact h
    | some p => simp only; split_ifs <;> simp only [R.ok] <;> first | exact h | exact inv_upd _ _ _ _ _ h

theorem inv_hdel (c : Ctx) (db : Db) (k : Bytes) (fs : List Bytes) (h : db.Inv) : (cmdHDel c db k fs).db.Inv := by
  unfold cmdHDel
  cases hs : hashOf c db k with
  | error _ => exact h
  | ok o => cases o with
    | none => exact h
    | some p => simp only; split_ifs <;> simp only [R.ok] <;> first | exact h | exact inv_upd _ _ _ _ _ h

theorem inv_ltrim (c : Ctx) (db : Db) (k : Bytes) (a b : Int) (h : db.Inv) : (cmdLTrim c db k a b).db.Inv := by
  unfold cmdLTrim
  cases hs : listOf c db k with
  | error _ => exact h
  | ok o => cases o with
    | none => exact h
    | some p => simp only; split_ifs <;> simp only [R.ok] <;> first | exact h | exact inv_upd _ _ _ _ _ h

theorem inv_lrem (c : Ctx) (db : Db) (k : Bytes) (n : Int) (v : Bytes) (h : db.Inv) : (cmdLRem c db k n v).db.Inv := by
  unfold cmdLRem
  cases hs : listOf c db k with
  | error _ => exact h
  | ok o => cases o with
    | none => exact h
    | some p => simp only; split_ifs <;> simp only [R.ok] <;> first | exact h | exact inv_upd _ _ _ _ _ h

/-! ### a command applied to a key of another type fails with WRONGTYPE and changes nothing -/

theorem wrongtype_inert_on_list (c : Ctx) (db : Db) (k : Bytes) (l : List Bytes) (x : Option Int) (i : Nat)
    (h : db.live c.now k = some { val := .list l, exp := x, id := i }) (v f : Bytes) (d : Int)
    (hv : (v.length : Int) ≤ hugeAlloc) :
    (cmdGet c db k = R.ok db wrongType) ∧ (cmdAppend c db k v = R.ok db wrongType) ∧
    (cmdIncrBy c db k d = R.ok db wrongType) ∧ (cmdStrlen c db k = R.ok db wrongType) ∧
    (cmdHSet c db k [(f, v)] false false = R.ok db wrongType) ∧ (cmdHGet c db k f = R.ok db wrongType) ∧
    (cmdHDel c db k [f] = R.ok db wrongType) ∧ (cmdHIncrBy c db k f d = R.ok db wrongType) ∧
    (cmdSAdd c db k [v] = R.ok db wrongType) ∧ (cmdSRem c db k [v] = R.ok db wrongType) ∧
    (cmdSCard c db k = R.ok db wrongType) ∧ (cmdSetRange c db k 0 v = R.ok db wrongType) ∧
    (cmdGetRange c db k 0 1 = R.ok db wrongType) ∧ (cmdGetDel c db k = R.ok db wrongType) := by
  unfold cmdGet cmdAppend setKey cmdIncrBy cmdStrlen cmdHSet cmdHGet cmdHDel cmdHIncrBy cmdSAdd cmdSRem cmdSCard
    cmdSetRange cmdGetRange cmdGetDel hashOf setOf
  have h1 : ¬ ((0 : Int) > hugeAlloc) := by unfold hugeAlloc; omega
  have h2 : ¬ (hugeAlloc < (v.length : Int)) := by omega
  simp [h, R.ok, h1, h2]

theorem wrongtype_inert_on_string (c : Ctx) (db : Db) (k : Bytes) (b : Bytes) (xp : Option Int) (i : Nat)
    (h : db.live c.now k = some { val := .str b, exp := xp, id := i }) (v f : Bytes) (d : Int) (lft x : Bool) :
    (cmdPush c db k [v] lft x = R.ok db wrongType) ∧ (cmdPop c db k none lft = R.ok db wrongType) ∧
    (cmdLLen c db k = R.ok db wrongType) ∧ (cmdLRange c db k 0 1 = R.ok db wrongType) ∧
    (cmdLSet c db k 0 v = R.ok db wrongType) ∧ (cmdLRem c db k 0 v = R.ok db wrongType) ∧
    (cmdLTrim c db k 0 1 = R.ok db wrongType) ∧ (cmdLInsert c db k true v v = R.ok db wrongType) ∧
    (cmdHSet c db k [(f, v)] false false = R.ok db wrongType) ∧ (cmdHGetAll c db k = R.ok db wrongType) ∧
    (cmdHIncrBy c db k f d = R.ok db wrongType) ∧ (cmdSAdd c db k [v] = R.ok db wrongType) ∧
    (cmdSMembers c db k = R.ok db wrongType) ∧ (cmdSMove c db k f v = R.ok db wrongType) := by
  unfold cmdPush cmdPop cmdPop.go cmdLLen cmdLRange cmdLSet cmdLRem cmdLTrim cmdLInsert cmdHSet cmdHGetAll cmdHIncrBy
    cmdSAdd cmdSMembers cmdSMove listOf hashOf setOf
  simp [h, R.ok]

/-! ### RENAME and COPY carry the complete value of any type together with its deadline -/

theorem rename_carries (c : Ctx) (db : Db) (src dst : Bytes) (e : Entry)
    (h : srcLookup c db src = some e) :
    ((cmdRename c db src dst false).db.raw dst).map (fun x => (x.val, x.exp)) = some (e.val, e.exp) ∧
    (cmdRename c db src dst false).reply = vOK := by
  unfold cmdRename
  simp [h, R.ok, Db.raw]

theorem rename_removes_source (c : Ctx) (db : Db) (src dst : Bytes) (e : Entry) (hi : db.Inv)
    (h : srcLookup c db src = some e) (hne : (dst == src) = false) :
    (cmdRename c db src dst false).db.raw src = none := by
  have hraw : db.raw src ≠ none := by
    unfold srcLookup Db.live at h
    intro hn
    split_ifs at h <;> simp [hn] at h
  unfold cmdRename
  simp only [h, Bool.false_and, Bool.false_eq_true, ↓reduceIte, R.ok]
  unfold Db.raw at *
  rw [alookup_ainsert_ne dst src _ _ hne]
  unfold Db.del Db.raw
  cases hr : alookup src db.keys with
  | none => exact absurd hr hraw
  | some _ => simp [alookup_aerase_self_of_unique src db.keys hi.unique]

theorem rename_missing_source (c : Ctx) (db : Db) (src dst : Bytes) (nx : Bool)
    (h : srcLookup c db src = none) :
    cmdRename c db src dst nx = R.ok db errNoSuchKey := by
  unfold cmdRename; simp [h]

theorem copy_carries (c : Ctx) (db : Db) (src dst : Bytes) (e : Entry)
    (h : srcLookup c db src = some e) (hd : srcLookup c db dst = none) :
    ((cmdCopy c db src dst false).db.raw dst).map (fun x => (x.val, x.exp)) = some (e.val, e.exp) ∧
    (cmdCopy c db src dst false).reply = .int 1 := by
  have hne : src ≠ dst := by
    intro heq; subst heq; rw [h] at hd; cases hd
  have hb : (src == dst) = false := by simpa using hne
  unfold cmdCopy
  simp [hb, h, hd, R.ok, Db.raw]

theorem copy_no_replace_refused (c : Ctx) (db : Db) (src dst : Bytes) (e e' : Entry)
    (hne : src ≠ dst)
    (h : srcLookup c db src = some e) (hd : srcLookup c db dst = some e') :
    cmdCopy c db src dst false = R.ok db (.int 0) := by
  have hb : (src == dst) = false := by simpa using hne
  unfold cmdCopy; simp [hb, h, hd]

/-- COPY of a key onto itself is refused (as Redis does) and changes nothing -/
theorem copy_same_key_refused (c : Ctx) (db : Db) (k : Bytes) (b : Bool) :
    (cmdCopy c db k k b).db = db ∧ (cmdCopy c db k k b).reply.isError = true := by
  unfold cmdCopy; simp [R.ok, Value.isError]

/-! ### glob matching (`redisGlob`) -/

theorem glob_star_matches_all (cand : Bytes) : glob [42] cand = true := by
  unfold glob
  cases cand with
  | nil => simp [globAux]
  | cons c cs => simp [globAux]

theorem glob_empty_pattern (cand : Bytes) : glob [] cand = cand.isEmpty := by
  unfold glob
  cases cand <;> simp [globAux]

/-! ### SORT (repaired: it used to ignore BY / LIMIT / GET and to compare nothing) -/


/-- SORT without STORE never changes the database, whatever its options and whatever the keys hold -/
theorem sort_without_store_pure (c : Ctx) (db : Db) (key : Bytes) (by_ : Option Bytes) (limit : Option (Int × Int))
    (gets : List Bytes) (desc alpha : Bool) :
    (cmdSort c db key by_ limit gets desc alpha none).db = db := by
  unfold cmdSort
  split
  · rfl
  · rfl
  · split <;> rfl

/-- SORT of a key that holds a string or a hash fails with WRONGTYPE and changes nothing, STORE or not -/
theorem sort_wrongtype_inert (c : Ctx) (db : Db) (key : Bytes) (by_ : Option Bytes) (limit : Option (Int × Int))
    (gets : List Bytes) (desc alpha : Bool) (store : Option Bytes)
    (h : sortSource c db key = .error ()) :
    cmdSort c db key by_ limit gets desc alpha store = R.ok db wrongType := by
  unfold cmdSort; rw [h]

/-- SORT … STORE of a missing source removes the destination (no empty list is left behind) -/
theorem sort_store_missing_source (c : Ctx) (db : Db) (key d : Bytes) (by_ : Option Bytes) (limit : Option (Int × Int))
    (gets : List Bytes) (desc alpha : Bool) (h : sortSource c db key = .ok none) :
    cmdSort c db key by_ limit gets desc alpha (some d) = R.ok (db.del d) (.int 0) := by
  unfold cmdSort; rw [h]; simp [sortFinish]

/-- what SORT … STORE leaves in the destination: exactly the result, as a list, never an empty one -/
theorem sortFinish_store (db : Db) (d : Bytes) (out : List Value) (hint : Match) (hne : out ≠ []) :
    ((sortFinish db (some d) out hint).db.raw d).map (·.val) =
      some (.list (out.map fun v => match v with | .bulk b => b | _ => [])) := by
  unfold sortFinish
  have : out.isEmpty = false := by cases out <;> simp_all
  simp [this, R.ok, Db.put, Db.raw]
  intro a _; rfl

theorem sortFinish_store_empty (db : Db) (d : Bytes) (hint : Match) :
    (sortFinish db (some d) [] hint).db = db.del d := by
  simp [sortFinish, R.ok]

theorem mapM_some' {α β} (f : α → β) (xs : List α) : xs.mapM (fun x => some (f x)) = some (xs.map f) := by
  induction xs with
  | nil => rfl
  | cons x r ih => simp [List.mapM_cons, ih]

/-- with ALPHA and without BY, LIMIT and GET the reply is a rearrangement of the elements: nothing is
    lost, nothing invented, duplicates keep their number -/
theorem sort_is_rearrangement (c : Ctx) (db : Db) (xs : List Bytes) (isSet desc storing : Bool)
    (out : List Value) (hint : Match)
    (h : sortCompute c db xs isSet none none [] desc true storing = some (out, hint)) :
    out.Perm (xs.map Value.bulk) := by
  unfold sortCompute at h
  simp only [Bool.false_and, Bool.false_eq_true, if_false, Bool.not_false, Bool.or_false,
    if_true, Bool.and_true] at h
  rw [mapM_some'] at h
  simp only [Option.map_some, Option.some.injEq, Prod.mk.injEq] at h
  obtain ⟨hout, _⟩ := h
  subst hout
  simp only [List.isEmpty_nil, if_true, List.map_cons, List.map_nil, beq_self_eq_true]
  have hp := List.mergeSort_perm (xs.map fun x => ({ data := x, str := x, w := .fin ⟨0, 0⟩ } : SortItem))
    (fun a b => if desc then !(sortLess true a b) else !(sortLess true b a))
  have h2 := hp.map (fun it : SortItem => Value.bulk it.data)
  simp only [List.map_map] at h2
  have e : ((fun it : SortItem => Value.bulk it.data) ∘ fun x => ({ data := x, str := x, w := .fin ⟨0, 0⟩ } : SortItem)) = Value.bulk := rfl
  rw [e] at h2
  refine List.Perm.trans ?_ h2
  have flat : ∀ (l : List SortItem), List.flatMap (fun it => [Value.bulk it.data]) l = l.map (fun it => Value.bulk it.data) := by
    intro l; induction l with
    | nil => rfl
    | cons a r ih => simp [List.flatMap_cons, ih]
  rw [flat]
end RedisEmu
