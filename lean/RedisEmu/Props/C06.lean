import RedisEmu.Exec
import RedisEmu.Glob
import RedisEmu.Proofs.AList
import RedisEmu.Proofs.State
import Mathlib.Tactic.SplitIfs
/-
  C06 — keyspace discipline. Theorems about `RedisEmu.Store` / `RedisEmu.Cmds`
  (families `keys` and `mixed` of the correspondence run).
-/
namespace RedisEmu

/-! ### invariant: unique keys and no empty list / hash / set is ever stored -/

def Val.nonEmpty : Val → Bool
  | .list l => !l.isEmpty
  | .hash h => !h.isEmpty
  | .set s => !s.isEmpty
  | _ => true

/-- reachable-state invariant of one database -/
structure Db.Inv (db : Db) : Prop where
  unique : (db.keys.map (·.1)).Nodup
  noEmpty : ∀ p ∈ db.keys, p.2.val.nonEmpty = true

theorem inv_init : ({} : Db).Inv := ⟨by simp, by simp⟩

theorem mem_ainsert {α} (k : Bytes) (v : α) (l : List (Bytes × α)) (p : Bytes × α)
    (hp : p ∈ ainsert k v l) : p = (k, v) ∨ p ∈ l := by
  induction l with
  | nil => simp [ainsert] at hp; exact Or.inl hp
  | cons q r ih =>
    obtain ⟨k', v'⟩ := q
    by_cases h : (k' == k) = true
    · simp only [ainsert, h, ↓reduceIte, List.mem_cons] at hp
      rcases hp with hp | hp
      · exact Or.inl hp
      · exact Or.inr (List.mem_cons_of_mem _ hp)
    · simp only [ainsert, h, Bool.false_eq_true, ↓reduceIte, List.mem_cons] at hp
      rcases hp with hp | hp
      · exact Or.inr (by rw [hp]; exact List.mem_cons_self)
      · rcases ih hp with h1 | h1
        · exact Or.inl h1
        · exact Or.inr (List.mem_cons_of_mem _ h1)

theorem mem_aerase {α} (k : Bytes) (l : List (Bytes × α)) (p : Bytes × α)
    (hp : p ∈ aerase k l) : p ∈ l := by
  induction l with
  | nil => simp [aerase] at hp
  | cons q r ih =>
    obtain ⟨k', v'⟩ := q
    by_cases h : (k' == k) = true
    · simp only [aerase, h, ↓reduceIte] at hp; exact List.mem_cons_of_mem _ hp
    · simp only [aerase, h, Bool.false_eq_true, ↓reduceIte, List.mem_cons] at hp
      rcases hp with hp | hp
      · rw [hp]; exact List.mem_cons_self
      · exact List.mem_cons_of_mem _ (ih hp)

/-- storing a non-empty value keeps the invariant -/
theorem inv_put (db : Db) (k : Bytes) (v : Val) (exp : Option Int) (h : db.Inv) (hv : v.nonEmpty = true) :
    (db.put k v exp).Inv := by
  constructor
  · exact ainsert_keys_nodup k _ db.keys h.unique
  · intro p hp
    rcases mem_ainsert k _ db.keys p hp with e | hm
    · subst e; exact hv
    · exact h.noEmpty p hm

theorem inv_poke (db : Db) (k : Bytes) (e : Entry) (h : db.Inv) (hv : e.val.nonEmpty = true) :
    (db.poke k e).Inv := by
  constructor
  · exact ainsert_keys_nodup k _ db.keys h.unique
  · intro p hp
    rcases mem_ainsert k _ db.keys p hp with e' | hm
    · subst e'; exact hv
    · exact h.noEmpty p hm

theorem inv_del (db : Db) (k : Bytes) (h : db.Inv) : (db.del k).Inv := by
  unfold Db.del
  cases hr : db.raw k with
  | none => simpa using h
  | some e =>
    constructor
    · exact aerase_keys_nodup k db.keys h.unique
    · intro p hp; exact h.noEmpty p (mem_aerase k db.keys p hp)

theorem inv_setDirty (db : Db) (h : db.Inv) : db.setDirty.Inv := ⟨h.unique, h.noEmpty⟩

/-- the in-place update used by every list / hash / set mutator: however the last element
    goes, an emptied aggregate is removed from the keyspace -/
theorem inv_update (db : Db) (k : Bytes) (e : Entry) (v : Val) (h : db.Inv) : (db.update k e v).Inv := by
  unfold Db.update
  cases v with
  | str b => exact inv_setDirty _ (inv_poke db k _ h (by simp [Val.nonEmpty]))
  | corrupt f => exact inv_setDirty _ (inv_poke db k _ h (by simp [Val.nonEmpty]))
  | list l =>
    simp only
    by_cases he : l.isEmpty = true
    · simp only [he, ↓reduceIte]; exact inv_setDirty _ (inv_del db k h)
    · simp only [he, Bool.false_eq_true, ↓reduceIte]
      exact inv_setDirty _ (inv_poke db k _ h (by simp [Val.nonEmpty, he]))
  | hash l =>
    simp only
    by_cases he : l.isEmpty = true
    · simp only [he, ↓reduceIte]; exact inv_setDirty _ (inv_del db k h)
    · simp only [he, Bool.false_eq_true, ↓reduceIte]
      exact inv_setDirty _ (inv_poke db k _ h (by simp [Val.nonEmpty, he]))
  | set l =>
    simp only
    by_cases he : l.isEmpty = true
    · simp only [he, ↓reduceIte]; exact inv_setDirty _ (inv_del db k h)
    · simp only [he, Bool.false_eq_true, ↓reduceIte]
      exact inv_setDirty _ (inv_poke db k _ h (by simp [Val.nonEmpty, he]))

theorem inv_upd (c : Ctx) (db : Db) (k : Bytes) (e : Entry) (v : Val) (h : db.Inv) : (upd c db k e v).Inv := by
  unfold upd bump
  split_ifs
  · exact inv_update _ _ _ _ h
  · exact inv_update _ _ _ _ ⟨h.unique, h.noEmpty⟩

/-- after an update that emptied the aggregate the key is gone for every lookup -/
theorem update_empty_removes (db : Db) (k : Bytes) (e : Entry) (h : db.Inv) :
    (db.update k e (.list [])).raw k = none ∧ (db.update k e (.hash [])).raw k = none ∧
    (db.update k e (.set [])).raw k = none := by
  unfold Db.update Db.del Db.raw Db.setDirty
  refine ⟨?_, ?_, ?_⟩ <;>
  · simp only [List.isEmpty_nil, ↓reduceIte]
    cases hr : alookup k db.keys with
    | none => simp [hr]
    | some _ => simp [alookup_aerase_self_of_unique k db.keys h.unique]

/-! commands that remove elements keep the invariant -/

theorem inv_pop (c : Ctx) (db : Db) (k : Bytes) (n : Option Int) (left : Bool) (h : db.Inv) :
    (cmdPop c db k n left).db.Inv := by
  unfold cmdPop
  cases n with
  | none =>
    unfold cmdPop.go
    cases hl : listOf c db k with
    | error _ => exact h
    | ok o => cases o with
      | none => exact h
      | some p =>
        simp only
        split_ifs <;> simp only [R.ok, R.crashed] <;> first | exact h | exact inv_upd _ _ _ _ _ h
  | some i =>
    simp only
    split_ifs
    · exact h
    · unfold cmdPop.go
      cases hl : listOf c db k with
      | error _ => exact h
      | ok o => cases o with
        | none => exact h
        | some p =>
          simp only
          split_ifs <;> simp only [R.ok, R.crashed] <;> first | exact h | exact inv_upd _ _ _ _ _ h

theorem inv_srem (c : Ctx) (db : Db) (k : Bytes) (ms : List Bytes) (h : db.Inv) : (cmdSRem c db k ms).db.Inv := by
  unfold cmdSRem
  cases hs : setOf c db k with
  | error _ => exact h
  | ok o => cases o with
    | none => exact h
    | some p => simp only; split_ifs <;> simp only [R.ok] <;> first | exact h | exact inv_upd _ _ _ _ _ h

theorem inv_hdel (c : Ctx) (db : Db) (k : Bytes) (fs : List Bytes) (h : db.Inv) : (cmdHDel c db k fs).db.Inv := by
  unfold cmdHDel
  cases hs : hashOf c db k with
  | error _ => exact h
  | ok o => cases o with
    | none => exact h
    | some p => simp only; split_ifs <;> simp only [R.ok] <;> first | exact h | exact inv_upd _ _ _ _ _ h

theorem inv_ltrim (c : Ctx) (db : Db) (k : Bytes) (a b : Int) (h : db.Inv) : (cmdLTrim c db k a b).db.Inv := by
  unfold cmdLTrim
  cases hs : listOf c db k with
  | error _ => exact h
  | ok o => cases o with
    | none => exact h
    | some p => simp only; split_ifs <;> simp only [R.ok] <;> first | exact h | exact inv_upd _ _ _ _ _ h

theorem inv_lrem (c : Ctx) (db : Db) (k : Bytes) (n : Int) (v : Bytes) (h : db.Inv) : (cmdLRem c db k n v).db.Inv := by
  unfold cmdLRem
  cases hs : listOf c db k with
  | error _ => exact h
  | ok o => cases o with
    | none => exact h
    | some p => simp only; split_ifs <;> simp only [R.ok] <;> first | exact h | exact inv_upd _ _ _ _ _ h

/-! ### a command applied to a key of another type fails with WRONGTYPE and changes nothing -/

theorem wrongtype_inert_on_list (c : Ctx) (db : Db) (k : Bytes) (l : List Bytes) (x : Option Int) (i : Nat)
    (h : db.live c.now k = some { val := .list l, exp := x, id := i }) (v f : Bytes) (d : Int)
    (hv : (v.length : Int) ≤ hugeAlloc) :
    (cmdGet c db k = R.ok db wrongType) ∧ (cmdAppend c db k v = R.ok db wrongType) ∧
    (cmdIncrBy c db k d = R.ok db wrongType) ∧ (cmdStrlen c db k = R.ok db wrongType) ∧
    (cmdHSet c db k [(f, v)] false false = R.ok db wrongType) ∧ (cmdHGet c db k f = R.ok db wrongType) ∧
    (cmdHDel c db k [f] = R.ok db wrongType) ∧ (cmdHIncrBy c db k f d = R.ok db wrongType) ∧
    (cmdSAdd c db k [v] = R.ok db wrongType) ∧ (cmdSRem c db k [v] = R.ok db wrongType) ∧
    (cmdSCard c db k = R.ok db wrongType) ∧ (cmdSetRange c db k 0 v = R.ok db wrongType) ∧
    (cmdGetRange c db k 0 1 = R.ok db wrongType) ∧ (cmdGetDel c db k = R.ok db wrongType) := by
  unfold cmdGet cmdAppend setKey cmdIncrBy cmdStrlen cmdHSet cmdHGet cmdHDel cmdHIncrBy cmdSAdd cmdSRem cmdSCard
    cmdSetRange cmdGetRange cmdGetDel hashOf setOf
  have h1 : ¬ ((0 : Int) > hugeAlloc) := by unfold hugeAlloc; omega
  have h2 : ¬ (hugeAlloc < (v.length : Int)) := by omega
  simp [h, R.ok, h1, h2]

theorem wrongtype_inert_on_string (c : Ctx) (db : Db) (k : Bytes) (b : Bytes) (xp : Option Int) (i : Nat)
    (h : db.live c.now k = some { val := .str b, exp := xp, id := i }) (v f : Bytes) (d : Int) (lft x : Bool) :
    (cmdPush c db k [v] lft x = R.ok db wrongType) ∧ (cmdPop c db k none lft = R.ok db wrongType) ∧
    (cmdLLen c db k = R.ok db wrongType) ∧ (cmdLRange c db k 0 1 = R.ok db wrongType) ∧
    (cmdLSet c db k 0 v = R.ok db wrongType) ∧ (cmdLRem c db k 0 v = R.ok db wrongType) ∧
    (cmdLTrim c db k 0 1 = R.ok db wrongType) ∧ (cmdLInsert c db k true v v = R.ok db wrongType) ∧
    (cmdHSet c db k [(f, v)] false false = R.ok db wrongType) ∧ (cmdHGetAll c db k = R.ok db wrongType) ∧
    (cmdHIncrBy c db k f d = R.ok db wrongType) ∧ (cmdSAdd c db k [v] = R.ok db wrongType) ∧
    (cmdSMembers c db k = R.ok db wrongType) ∧ (cmdSMove c db k f v = R.ok db wrongType) := by
  unfold cmdPush cmdPop cmdPop.go cmdLLen cmdLRange cmdLSet cmdLRem cmdLTrim cmdLInsert cmdHSet cmdHGetAll cmdHIncrBy
    cmdSAdd cmdSMembers cmdSMove listOf hashOf setOf
  simp [h, R.ok]

/-! ### RENAME and COPY carry the complete value of any type together with its deadline -/

theorem rename_carries (c : Ctx) (db : Db) (src dst : Bytes) (e : Entry)
    (h : srcLookup c db src = some e) :
    ((cmdRename c db src dst false).db.raw dst).map (fun x => (x.val, x.exp)) = some (e.val, e.exp) ∧
    (cmdRename c db src dst false).reply = vOK := by
  unfold cmdRename
  simp [h, R.ok, Db.raw]

theorem rename_removes_source (c : Ctx) (db : Db) (src dst : Bytes) (e : Entry) (hi : db.Inv)
    (h : srcLookup c db src = some e) (hne : (dst == src) = false) :
    (cmdRename c db src dst false).db.raw src = none := by
  have hraw : db.raw src ≠ none := by
    unfold srcLookup Db.live at h
    intro hn
    split_ifs at h <;> simp [hn] at h
  unfold cmdRename
  simp only [h, Bool.false_and, Bool.false_eq_true, ↓reduceIte, R.ok]
  unfold Db.raw at *
  rw [alookup_ainsert_ne dst src _ _ hne]
  unfold Db.del Db.raw
  cases hr : alookup src db.keys with
  | none => exact absurd hr hraw
  | some _ => simp [alookup_aerase_self_of_unique src db.keys hi.unique]

theorem rename_missing_source (c : Ctx) (db : Db) (src dst : Bytes) (nx : Bool)
    (h : srcLookup c db src = none) :
    cmdRename c db src dst nx = R.ok db errNoSuchKey := by
  unfold cmdRename; simp [h]

theorem copy_carries (c : Ctx) (db : Db) (src dst : Bytes) (e : Entry)
    (h : srcLookup c db src = some e) (hd : srcLookup c db dst = none) :
    ((cmdCopy c db src dst false).db.raw dst).map (fun x => (x.val, x.exp)) = some (e.val, e.exp) ∧
    (cmdCopy c db src dst false).reply = .int 1 := by
  have hne : src ≠ dst := by
    intro heq; subst heq; rw [h] at hd; cases hd
  have hb : (src == dst) = false := by simpa using hne
  unfold cmdCopy
  simp [hb, h, hd, R.ok, Db.raw]

theorem copy_no_replace_refused (c : Ctx) (db : Db) (src dst : Bytes) (e e' : Entry)
    (hne : src ≠ dst)
    (h : srcLookup c db src = some e) (hd : srcLookup c db dst = some e') :
    cmdCopy c db src dst false = R.ok db (.int 0) := by
  have hb : (src == dst) = false := by simpa using hne
  unfold cmdCopy; simp [hb, h, hd]

/-- COPY of a key onto itself is refused (as Redis does) and changes nothing -/
theorem copy_same_key_refused (c : Ctx) (db : Db) (k : Bytes) (b : Bool) :
    (cmdCopy c db k k b).db = db ∧ (cmdCopy c db k k b).reply.isError = true := by
  unfold cmdCopy; simp [R.ok, Value.isError]

/-! ### glob matching (`redisGlob`) -/

theorem glob_star_matches_all (cand : Bytes) : glob [42] cand = true := by
  unfold glob
  cases cand with
  | nil => simp [globAux]
  | cons c cs => simp [globAux]

theorem glob_empty_pattern (cand : Bytes) : glob [] cand = cand.isEmpty := by
  unfold glob
  cases cand <;> simp [globAux]

/-! ### SORT (repaired: it used to ignore BY / LIMIT / GET and to compare nothing) -/


/-- SORT without STORE never changes the database, whatever its options and whatever the keys hold -/
theorem sort_without_store_pure (c : Ctx) (db : Db) (key : Bytes) (by_ : Option Bytes) (limit : Option (Int × Int))
    (gets : List Bytes) (desc alpha : Bool) :
    (cmdSort c db key by_ limit gets desc alpha none).db = db := by
  unfold cmdSort
  split
  · rfl
  · rfl
  · split <;> rfl

/-- SORT of a key that holds a string or a hash fails with WRONGTYPE and changes nothing, STORE or not -/
theorem sort_wrongtype_inert (c : Ctx) (db : Db) (key : Bytes) (by_ : Option Bytes) (limit : Option (Int × Int))
    (gets : List Bytes) (desc alpha : Bool) (store : Option Bytes)
    (h : sortSource c db key = .error ()) :
    cmdSort c db key by_ limit gets desc alpha store = R.ok db wrongType := by
  unfold cmdSort; rw [h]

/-- SORT … STORE of a missing source removes the destination (no empty list is left behind) -/
theorem sort_store_missing_source (c : Ctx) (db : Db) (key d : Bytes) (by_ : Option Bytes) (limit : Option (Int × Int))
    (gets : List Bytes) (desc alpha : Bool) (h : sortSource c db key = .ok none) :
    cmdSort c db key by_ limit gets desc alpha (some d) = R.ok (db.del d) (.int 0) := by
  unfold cmdSort; rw [h]; simp [sortFinish]

/-- what SORT … STORE leaves in the destination: exactly the result, as a list, never an empty one -/
theorem sortFinish_store (db : Db) (d : Bytes) (out : List Value) (hint : Match) (hne : out ≠ []) :
    ((sortFinish db (some d) out hint).db.raw d).map (·.val) =
      some (.list (out.map fun v => match v with | .bulk b => b | _ => [])) := by
  unfold sortFinish
  have : out.isEmpty = false := by cases out <;> simp_all
  simp [this, R.ok, Db.put, Db.raw]
  intro a _; rfl

theorem sortFinish_store_empty (db : Db) (d : Bytes) (hint : Match) :
    (sortFinish db (some d) [] hint).db = db.del d := by
  simp [sortFinish, R.ok]

theorem mapM_some' {α β} (f : α → β) (xs : List α) : xs.mapM (fun x => some (f x)) = some (xs.map f) := by
  induction xs with
  | nil => rfl
  | cons x r ih => simp [List.mapM_cons, ih]

/-- with ALPHA and without BY, LIMIT and GET the reply is a rearrangement of the elements: nothing is
    lost, nothing invented, duplicates keep their number -/
theorem sort_is_rearrangement (c : Ctx) (db : Db) (xs : List Bytes) (isSet desc storing : Bool)
    (out : List Value) (hint : Match)
    (h : sortCompute c db xs isSet none none [] desc true storing = some (out, hint)) :
    out.Perm (xs.map Value.bulk) := by
  unfold sortCompute at h
  simp only [Bool.false_and, Bool.false_eq_true, if_false, Bool.not_false, Bool.or_false,
    if_true, Bool.and_true] at h
  rw [mapM_some'] at h
  simp only [Option.map_some, Option.some.injEq, Prod.mk.injEq] at h
  obtain ⟨hout, _⟩ := h
  subst hout
  simp only [List.isEmpty_nil, if_true, List.map_cons, List.map_nil, beq_self_eq_true]
  have hp := List.mergeSort_perm (xs.map fun x => ({ data := x, str := x, w := .fin ⟨0, 0⟩ } : SortItem))
    (fun a b => if desc then !(sortLess true a b) else !(sortLess true b a))
  have h2 := hp.map (fun it : SortItem => Value.bulk it.data)
  simp only [List.map_map] at h2
  have e : ((fun it : SortItem => Value.bulk it.data) ∘ fun x => ({ data := x, str := x, w := .fin ⟨0, 0⟩ } : SortItem)) = Value.bulk := rfl
  rw [e] at h2
  refine List.Perm.trans ?_ h2
  have flat : ∀ (l : List SortItem), List.flatMap (fun it => [Value.bulk it.data]) l = l.map (fun it => Value.bulk it.data) := by
    intro l; induction l with
    | nil => rfl
    | cons a r ih => simp [List.flatMap_cons, ih]
  rw [flat]

/-! ## failed commands are inert: every command, every argument, every state -/

set_option linter.unusedSectionVars false

/-- a command that answers with an error has left the database exactly as it was -/
structure Inert (db : Db) (r : R) : Prop where
  inert : r.reply.isError = true → r.db = db

macro "inert" : tactic => `(tactic| (repeat' (first
  | (exact ⟨fun _ => rfl⟩)
  | (refine ⟨fun h => ?_⟩; simp [R.ok, Value.isError, vOK, vInt, bulks] at h; done)
  | split
  | dsimp only [R.ok])))

section
variable (c : Ctx) (db : Db) (k k2 v f m : Bytes) (i j : Int) (o : SetOpts) (b b2 : Bool)
  (ks : List Bytes) (kvs : List (Bytes × Bytes)) (oi oj ok' : Option Int) (n : Nat)

theorem setKey_reply_no_error (a a2 : Bool) : (optV (setKey c db k v o a a2).2.1).isError = false := by
  unfold setKey
  repeat' split
  all_goals simp_all [optV, Value.isError, vOK]

theorem set_inert : Inert db (cmdSet c db k v o b) := by
  unfold cmdSet
  repeat' (first | (exact ⟨fun _ => rfl⟩) | (refine ⟨fun h => ?_⟩; simp [R.ok, Value.isError] at h; done) | split | dsimp only [R.ok])
  refine ⟨fun h => ?_⟩
  simp only [setKey_reply_no_error] at h
  cases h
theorem get_inert : Inert db (cmdGet c db k) := by unfold cmdGet; inert
theorem getdel_inert : Inert db (cmdGetDel c db k) := by unfold cmdGetDel; inert
theorem getex_inert (e : Option ExpArg) : Inert db (cmdGetEx c db k e) := by unfold cmdGetEx; inert
theorem strlen_inert : Inert db (cmdStrlen c db k) := by unfold cmdStrlen; inert
theorem getrange_inert : Inert db (cmdGetRange c db k i j) := by unfold cmdGetRange; inert
theorem setrange_inert : Inert db (cmdSetRange c db k i v) := by unfold cmdSetRange; inert
theorem incrby_inert : Inert db (cmdIncrBy c db k i) := by unfold cmdIncrBy; inert
theorem mget_inert : Inert db (cmdMGet c db ks) := by unfold cmdMGet; inert
theorem mset_inert : Inert db (cmdMSet c db kvs b) := by unfold cmdMSet; inert
theorem incrbyfloat_inert : Inert db (cmdIncrByFloat c db k v) := by unfold cmdIncrByFloat; inert
theorem push_inert : Inert db (cmdPush c db k ks b b2) := by unfold cmdPush; inert
theorem llen_inert : Inert db (cmdLLen c db k) := by unfold cmdLLen; inert
theorem lindex_inert : Inert db (cmdLIndex c db k i) := by unfold cmdLIndex; inert
theorem lrange_inert : Inert db (cmdLRange c db k i j) := by unfold cmdLRange; inert
theorem lset_inert : Inert db (cmdLSet c db k i v) := by unfold cmdLSet; inert
theorem linsert_inert : Inert db (cmdLInsert c db k b v m) := by unfold cmdLInsert; inert
theorem lrem_inert : Inert db (cmdLRem c db k i v) := by unfold cmdLRem; inert
theorem ltrim_inert : Inert db (cmdLTrim c db k i j) := by unfold cmdLTrim; inert
theorem lpos_inert : Inert db (cmdLPos c db k v oi oj ok') := by unfold cmdLPos; inert
theorem hset_inert : Inert db (cmdHSet c db k kvs b b2) := by unfold cmdHSet; inert
theorem hget_inert : Inert db (cmdHGet c db k f) := by unfold cmdHGet; inert
theorem hmget_inert : Inert db (cmdHMGet c db k ks) := by unfold cmdHMGet; inert
theorem hgetall_inert : Inert db (cmdHGetAll c db k) := by unfold cmdHGetAll; inert
theorem hkeys_inert : Inert db (cmdHKeys c db k b) := by unfold cmdHKeys; inert
theorem hlen_inert : Inert db (cmdHLen c db k) := by unfold cmdHLen; inert
theorem hexists_inert : Inert db (cmdHExists c db k f) := by unfold cmdHExists; inert
theorem hstrlen_inert : Inert db (cmdHStrlen c db k f) := by unfold cmdHStrlen; inert
theorem hdel_inert : Inert db (cmdHDel c db k ks) := by unfold cmdHDel; inert
theorem hincrby_inert : Inert db (cmdHIncrBy c db k f i) := by unfold cmdHIncrBy; inert
theorem hincrbyfloat_inert : Inert db (cmdHIncrByFloat c db k f v) := by unfold cmdHIncrByFloat; inert
theorem sadd_inert : Inert db (cmdSAdd c db k ks) := by unfold cmdSAdd; inert
theorem srem_inert : Inert db (cmdSRem c db k ks) := by unfold cmdSRem; inert
theorem scard_inert : Inert db (cmdSCard c db k) := by unfold cmdSCard; inert
theorem sismember_inert : Inert db (cmdSIsMember c db k m) := by unfold cmdSIsMember; inert
theorem smismember_inert : Inert db (cmdSMIsMember c db k ks) := by unfold cmdSMIsMember; inert
theorem smembers_inert : Inert db (cmdSMembers c db k) := by unfold cmdSMembers; inert
theorem smove_inert : Inert db (cmdSMove c db k k2 m) := by unfold cmdSMove; inert
theorem setalgebra_inert (op : SetOp) : Inert db (cmdSetAlgebra c db op ks) := by unfold cmdSetAlgebra; inert
theorem setalgebrastore_inert (op : SetOp) : Inert db (cmdSetAlgebraStore c db op k ks) := by unfold cmdSetAlgebraStore; inert
theorem sintercard_inert : Inert db (cmdSInterCard c db i ks j) := by unfold cmdSInterCard; inert
theorem exists_inert : Inert db (cmdExists c db ks) := by unfold cmdExists; inert
theorem type_inert : Inert db (cmdType c db k) := by unfold cmdType; inert
theorem rename_inert : Inert db (cmdRename c db k k2 b) := by unfold cmdRename; inert
theorem copy_inert : Inert db (cmdCopy c db k k2 b) := by unfold cmdCopy; inert
theorem expireat_inert (opt : ExpireOpt) : Inert db (cmdExpireAt c db k i opt) := by unfold cmdExpireAt; inert
theorem persist_inert : Inert db (cmdPersist c db k) := by unfold cmdPersist; inert
theorem ttl_inert (kind : TtlKind) : Inert db (cmdTtl c db k kind) := by unfold cmdTtl; inert
theorem getbit_inert : Inert db (cmdGetBit c db k i) := by unfold cmdGetBit; inert
theorem bitpos_inert (st : Option Int) (en : Option (Int × Bool)) : Inert db (cmdBitPos c db k i st en) := by unfold cmdBitPos; inert
theorem bitop_inert : Inert db (cmdBitOp c db k k2 ks) := by unfold cmdBitOp; inert
theorem bitfieldParsed_inert (ps : List BfParsed) : Inert db (cmdBitfieldParsed c db k ps) := by unfold cmdBitfieldParsed; inert

theorem append_inert : Inert db (cmdAppend c db k v) := by unfold cmdAppend; inert
theorem decrby_inert : Inert db (cmdDecrBy c db k i) := by
  unfold cmdDecrBy
  split
  · exact ⟨fun _ => rfl⟩
  · exact incrby_inert c db k _
theorem pop_inert : Inert db (cmdPop c db k oi b) := by
  have go : ∀ n multi, Inert db (cmdPop.go c db k b n multi) := by
    intro n multi
    unfold cmdPop.go
    inert
  unfold cmdPop
  split
  · split
    · exact ⟨fun _ => rfl⟩
    · exact go _ _
  · exact go _ _
theorem del_inert : Inert db (cmdDel c db ks b) := by
  unfold cmdDel
  refine ⟨fun h => ?_⟩
  simp [R.ok, vInt, Value.isError] at h
theorem bfStep_no_error (buf : Bytes) (p : BfParsed) : (bfStep c buf p).2.2.isError = false := by
  unfold bfStep
  extract_lets a u n nv oob m neg resolved
  split
  · rfl
  · clear_value resolved
    cases resolved <;> rfl
theorem bitfield_inert (ops : List BfOp) : Inert db (cmdBitfield c db k ops) := by
  unfold cmdBitfield
  split
  · exact ⟨fun _ => rfl⟩
  · exact bitfieldParsed_inert c db k _
theorem bitcount_inert (r : Option (Int × Int × Bool)) : Inert db (cmdBitCount c db k r) := by
  unfold cmdBitCount
  split
  · exact ⟨fun _ => rfl⟩
  · split_ifs <;> first
      | exact ⟨fun _ => rfl⟩
      | (extract_lets; split_ifs <;> exact ⟨fun _ => rfl⟩)
  · exact ⟨fun _ => rfl⟩
theorem lmove_inert : Inert db (cmdLMove c db k k2 b b2) := by unfold cmdLMove; inert
theorem lmpop_inert : Inert db (cmdLMPop c db ks b n) := by
  have go : ∀ ks, Inert db (cmdLMPop.go c db b n ks) := by
    intro ks
    induction ks with
    | nil => exact ⟨fun _ => rfl⟩
    | cons x r ih =>
      unfold cmdLMPop.go
      split
      · exact ⟨fun _ => rfl⟩
      · exact ih
      · split
        · exact ih
        · refine ⟨fun h => ?_⟩; simp [R.ok, Value.isError] at h
  unfold cmdLMPop
  exact go ks
theorem bpop_inert : Inert db (runCmd.go c b db ks) := by
  induction ks with
  | nil => exact ⟨fun _ => rfl⟩
  | cons x r ih =>
    unfold runCmd.go
    split
    · exact ⟨fun _ => rfl⟩
    · exact ih
    · split
      · exact ih
      · refine ⟨fun h => ?_⟩; simp [R.ok, Value.isError] at h
theorem sortFinish_inert (store : Option Bytes) (out : List Value) (hint : Match) :
    (sortFinish db store out hint).reply.isError = false := by
  unfold sortFinish
  split
  · rfl
  · split <;> rfl
theorem sort_inert (by_ : Option Bytes) (limit : Option (Int × Int)) (gets : List Bytes) (store : Option Bytes) :
    Inert db (cmdSort c db k by_ limit gets b b2 store) := by
  unfold cmdSort
  split
  · exact ⟨fun _ => rfl⟩
  · refine ⟨fun h => ?_⟩; rw [sortFinish_inert] at h; cases h
  · split
    · exact ⟨fun _ => rfl⟩
    · refine ⟨fun h => ?_⟩; rw [sortFinish_inert] at h; cases h

theorem setbit_inert : Inert db (cmdSetBit c db k i j) := by
  unfold cmdSetBit
  split
  · exact ⟨fun _ => rfl⟩
  · split
    · exact ⟨fun _ => rfl⟩
    · dsimp only
      split
      · rename_i x heq
        refine ⟨fun h => ?_⟩
        exfalso
        unfold cmdBitfieldParsed at heq
        simp only [List.foldl_cons, List.foldl_nil, List.nil_append] at heq
        split at heq
        all_goals first
          | (simp only [R.ok, Value.array.injEq, List.cons.injEq, and_true] at heq
             rw [← heq] at h
             simp only [bfStep_no_error] at h
             cases h)
          | (simp [R.ok, wrongType] at heq)
      · exact bitfieldParsed_inert c db k _
end

theorem onDb_inert (s : State) (ref : Nat) (f : Db → R) (hi : Inert (s.getDb ref) (f (s.getDb ref)))
    (h : (onDb s ref f).reply.isError = true) : ∀ r, (onDb s ref f).st.getDb r = s.getDb r := by
  intro r
  unfold onDb at h ⊢
  simp only at h ⊢
  by_cases e : (ref == r) = true
  · have : ref = r := by simpa using e
    subst this
    rw [getDb_setDb_self]
    exact hi.inert h
  · exact getDb_setDb_ne _ _ _ _ (by simpa using e)

/-- **A command that fails changes nothing.** Whatever the command and its arguments, whatever the
    databases hold: if the reply is an error — wrong type, syntax, range, overflow, not a number, no such
    key, anything — every database of the server is exactly what it was: every key, value, deadline and
    version. -/
theorem failed_command_inert (c : Ctx) (s : State) (conn ref : Nat) (m : Bool) (cmd : Cmd)
    (h : (runCmd c s conn ref m cmd).reply.isError = true) :
    ∀ r, (runCmd c s conn ref m cmd).st.getDb r = s.getDb r := by
  cases cmd
  case copy a b rep dbOpt =>
    simp only [runCmd] at h ⊢
    split at h
    · intro r; simp [*]
    · rename_i hc; simp only [hc, ↓reduceIte] at ⊢; exact onDb_inert s ref _ (copy_inert ..) h
  case lmpop nk ks l cnt =>
    simp only [runCmd] at h ⊢
    split at h
    · intro r; simp [*]
    · split at h
      · intro r; simp [*]
      · rename_i h1 h2; simp only [h1, h2, ↓reduceIte] at ⊢; exact onDb_inert s ref _ (lmpop_inert ..) h
  case set a0 a1 a2 a3 => simp only [runCmd]; exact onDb_inert s ref _ (set_inert ..) h
  case append a0 a1 => simp only [runCmd]; exact onDb_inert s ref _ (append_inert ..) h
  case get a0 => simp only [runCmd]; exact onDb_inert s ref _ (get_inert ..) h
  case getdel a0 => simp only [runCmd]; exact onDb_inert s ref _ (getdel_inert ..) h
  case getex a0 a1 => simp only [runCmd]; exact onDb_inert s ref _ (getex_inert ..) h
  case strlen a0 => simp only [runCmd]; exact onDb_inert s ref _ (strlen_inert ..) h
  case getrange a0 a1 a2 => simp only [runCmd]; exact onDb_inert s ref _ (getrange_inert ..) h
  case setrange a0 a1 a2 => simp only [runCmd]; exact onDb_inert s ref _ (setrange_inert ..) h
  case incrby a0 a1 => simp only [runCmd]; exact onDb_inert s ref _ (incrby_inert ..) h
  case decrby a0 a1 => simp only [runCmd]; exact onDb_inert s ref _ (decrby_inert ..) h
  case incrbyfloat a0 a1 => simp only [runCmd]; exact onDb_inert s ref _ (incrbyfloat_inert ..) h
  case mget a0 => simp only [runCmd]; exact onDb_inert s ref _ (mget_inert ..) h
  case mset a0 a1 => simp only [runCmd]; exact onDb_inert s ref _ (mset_inert ..) h
  case push a0 a1 a2 a3 => simp only [runCmd]; exact onDb_inert s ref _ (push_inert ..) h
  case pop a0 a1 a2 => simp only [runCmd]; exact onDb_inert s ref _ (pop_inert ..) h
  case llen a0 => simp only [runCmd]; exact onDb_inert s ref _ (llen_inert ..) h
  case lindex a0 a1 => simp only [runCmd]; exact onDb_inert s ref _ (lindex_inert ..) h
  case lrange a0 a1 a2 => simp only [runCmd]; exact onDb_inert s ref _ (lrange_inert ..) h
  case lset a0 a1 a2 => simp only [runCmd]; exact onDb_inert s ref _ (lset_inert ..) h
  case linsert a0 a1 a2 a3 => simp only [runCmd]; exact onDb_inert s ref _ (linsert_inert ..) h
  case lrem a0 a1 a2 => simp only [runCmd]; exact onDb_inert s ref _ (lrem_inert ..) h
  case ltrim a0 a1 a2 => simp only [runCmd]; exact onDb_inert s ref _ (ltrim_inert ..) h
  case lpos a0 a1 a2 a3 a4 => simp only [runCmd]; exact onDb_inert s ref _ (lpos_inert ..) h
  case lmove a0 a1 a2 a3 => simp only [runCmd]; exact onDb_inert s ref _ (lmove_inert ..) h
  case hset a0 a1 a2 a3 => simp only [runCmd]; exact onDb_inert s ref _ (hset_inert ..) h
  case hget a0 a1 => simp only [runCmd]; exact onDb_inert s ref _ (hget_inert ..) h
  case hmget a0 a1 => simp only [runCmd]; exact onDb_inert s ref _ (hmget_inert ..) h
  case hgetall a0 => simp only [runCmd]; exact onDb_inert s ref _ (hgetall_inert ..) h
  case hkeys a0 a1 => simp only [runCmd]; exact onDb_inert s ref _ (hkeys_inert ..) h
  case hlen a0 => simp only [runCmd]; exact onDb_inert s ref _ (hlen_inert ..) h
  case hexists a0 a1 => simp only [runCmd]; exact onDb_inert s ref _ (hexists_inert ..) h
  case hstrlen a0 a1 => simp only [runCmd]; exact onDb_inert s ref _ (hstrlen_inert ..) h
  case hdel a0 a1 => simp only [runCmd]; exact onDb_inert s ref _ (hdel_inert ..) h
  case hincrby a0 a1 a2 => simp only [runCmd]; exact onDb_inert s ref _ (hincrby_inert ..) h
  case hincrbyfloat a0 a1 a2 => simp only [runCmd]; exact onDb_inert s ref _ (hincrbyfloat_inert ..) h
  case sadd a0 a1 => simp only [runCmd]; exact onDb_inert s ref _ (sadd_inert ..) h
  case srem a0 a1 => simp only [runCmd]; exact onDb_inert s ref _ (srem_inert ..) h
  case scard a0 => simp only [runCmd]; exact onDb_inert s ref _ (scard_inert ..) h
  case sismember a0 a1 => simp only [runCmd]; exact onDb_inert s ref _ (sismember_inert ..) h
  case smismember a0 a1 => simp only [runCmd]; exact onDb_inert s ref _ (smismember_inert ..) h
  case smembers a0 => simp only [runCmd]; exact onDb_inert s ref _ (smembers_inert ..) h
  case smove a0 a1 a2 => simp only [runCmd]; exact onDb_inert s ref _ (smove_inert ..) h
  case salg a0 a1 => simp only [runCmd]; exact onDb_inert s ref _ (setalgebra_inert ..) h
  case salgStore a0 a1 a2 => simp only [runCmd]; exact onDb_inert s ref _ (setalgebrastore_inert ..) h
  case sintercard a0 a1 a2 => simp only [runCmd]; exact onDb_inert s ref _ (sintercard_inert ..) h
  case del a0 a1 => simp only [runCmd]; exact onDb_inert s ref _ (del_inert ..) h
  case exists_ a0 => simp only [runCmd]; exact onDb_inert s ref _ (exists_inert ..) h
  case touch a0 => simp only [runCmd]; exact onDb_inert s ref _ (exists_inert ..) h
  case type_ a0 => simp only [runCmd]; exact onDb_inert s ref _ (type_inert ..) h
  case rename a0 a1 a2 => simp only [runCmd]; exact onDb_inert s ref _ (rename_inert ..) h
  case sort a0 a1 a2 a3 a4 a5 a6 => simp only [runCmd]; exact onDb_inert s ref _ (sort_inert ..) h
  case persist a0 => simp only [runCmd]; exact onDb_inert s ref _ (persist_inert ..) h
  case ttl a0 a1 => simp only [runCmd]; exact onDb_inert s ref _ (ttl_inert ..) h
  case getbit a0 a1 => simp only [runCmd]; exact onDb_inert s ref _ (getbit_inert ..) h
  case setbit a0 a1 a2 => simp only [runCmd]; exact onDb_inert s ref _ (setbit_inert ..) h
  case bitcount a0 a1 => simp only [runCmd]; exact onDb_inert s ref _ (bitcount_inert ..) h
  case bitpos a0 a1 a2 a3 => simp only [runCmd]; exact onDb_inert s ref _ (bitpos_inert ..) h
  case bitop a0 a1 a2 => simp only [runCmd]; exact onDb_inert s ref _ (bitop_inert ..) h
  case bitfield a0 a1 a2 => simp only [runCmd]; exact onDb_inert s ref _ (bitfield_inert ..) h
  case expire k n u a o => simp only [runCmd]; exact onDb_inert s ref _ (expireat_inert ..) h
  case bpop ks l => simp only [runCmd]; exact onDb_inert s ref _ (bpop_inert ..) h
  case flushdb => by_cases hf : c.q.flushDetaches = true <;> simp [runCmd, hf, Value.isError, vOK] at h
  case flushall => by_cases hf : c.q.flushDetaches = true <;> simp [runCmd, hf, Value.isError, vOK] at h
  case select i =>
    simp only [runCmd]
    intro r
    split
    · rfl
    · simp only [getDb_setSession]; exact getDb_tableRef s _ r
  case watch ks =>
    simp only [runCmd]
    intro r
    split
    · rfl
    · exact getDb_setSession _ _ _ r
  case unwatch => intro r; exact getDb_setSession _ _ _ r
  case hello v =>
    simp only [runCmd]
    intro r
    split
    · split
      · rfl
      · exact getDb_setSession _ _ _ r
    · rfl
  case clientSetname nm =>
    simp only [runCmd]
    intro r
    split
    · rfl
    · exact getDb_setSession _ _ _ r
  case ping o => cases o <;> (intro r; rfl)
  case dbsize => simp only [runCmd]; intro r; split <;> rfl
  all_goals
    simp only [runCmd] at h ⊢
    first
      | exact onDb_inert s ref _ (by inert) h
      | (intro r; first | rfl | trivial)

end RedisEmu
