import RedisEmu.Exec
import RedisEmu.Glob
import RedisEmu.Proofs.AList
import RedisEmu.Proofs.State
import Mathlib.Tactic.SplitIfs
/-
  C06 — keyspace discipline. Theorems about `RedisEmu.Store` / `RedisEmu.Cmds`
  (families `keys` and `mixed` of the correspondence run).
-/
namespace RedisEmu

/-! ### invariant: unique keys and no empty list / hash / set is ever stored -/

def Val.nonEmpty : Val → Bool
  | .list l => !l.isEmpty
  | .hash h => !h.isEmpty
  | .set s => !s.isEmpty
  | _ => true

/-- reachable-state invariant of one database -/
structure Db.Inv (db : Db) : Prop where
  unique : (db.keys.map (·.1)).Nodup
  noEmpty : ∀ p ∈ db.keys, p.2.val.nonEmpty = true

theorem inv_init : ({} : Db).Inv := ⟨by simp, by simp⟩

theorem mem_ainsert {α} (k : Bytes) (v : α) (l : List (Bytes × α)) (p : Bytes × α)
    (hp : p ∈ ainsert k v l) : p = (k, v) ∨ p ∈ l := by
  induction l with
  | nil => simp [ainsert] at hp; exact Or.inl hp
  | cons q r ih =>
    obtain ⟨k', v'⟩ := q
    by_cases h : (k' == k) = true
    · simp only [ainsert, h, ↓reduceIte, List.mem_cons] at hp
      rcases hp with hp | hp
      · exact Or.inl hp
      · exact Or.inr (List.mem_cons_of_mem _ hp)
    · simp only [ainsert, h, Bool.false_eq_true, ↓reduceIte, List.mem_cons] at hp
      rcases hp with hp | hp
      · exact Or.inr (by rw [hp]; exact List.mem_cons_self)
      · rcases ih hp with h1 | h1
        · exact Or.inl h1
        · exact Or.inr (List.mem_cons_of_mem _ h1)

theorem mem_aerase {α} (k : Bytes) (l : List (Bytes × α)) (p : Bytes × α)
    (hp : p ∈ aerase k l) : p ∈ l := by
  induction l with
  | nil => simp [aerase] at hp
  | cons q r ih =>
    obtain ⟨k', v'⟩ := q
    by_cases h : (k' == k) = true
    · simp only [aerase, h, ↓reduceIte] at hp; exact List.mem_cons_of_mem _ hp
    · simp only [aerase, h, Bool.false_eq_true, ↓reduceIte, List.mem_cons] at hp
      rcases hp with hp | hp
      · rw [hp]; exact List.mem_cons_self
      · exact List.mem_cons_of_mem _ (ih hp)

/-- storing a non-empty value keeps the invariant -/
theorem inv_put (db : Db) (k : Bytes) (v : Val) (exp : Option Int) (h : db.Inv) (hv : v.nonEmpty = true) :
    (db.put k v exp).Inv := by
  constructor
  · exact ainsert_keys_nodup k _ db.keys h.unique
  · intro p hp
    rcases mem_ainsert k _ db.keys p hp with e | hm
    · subst e; exact hv
    · exact h.noEmpty p hm

theorem inv_poke (db : Db) (k : Bytes) (e : Entry) (h : db.Inv) (hv : e.val.nonEmpty = true) :
    (db.poke k e).Inv := by
  constructor
  · exact ainsert_keys_nodup k _ db.keys h.unique
  · intro p hp
    rcases mem_ainsert k _ db.keys p hp with e' | hm
    · subst e'; exact hv
    · exact h.noEmpty p hm

theorem inv_del (db : Db) (k : Bytes) (h : db.Inv) : (db.del k).Inv := by
  unfold Db.del
  cases hr : db.raw k with
  | none => simpa using h
  | some e =>
    constructor
    · exact aerase_keys_nodup k db.keys h.unique
    · intro p hp; exact h.noEmpty p (mem_aerase k db.keys p hp)

theorem inv_setDirty (db : Db) (h : db.Inv) : db.setDirty.Inv := ⟨h.unique, h.noEmpty⟩

/-- the in-place update used by every list / hash / set mutator: however the last element
    goes, an emptied aggregate is removed from the keyspace -/
theorem inv_update (db : Db) (k : Bytes) (e : Entry) (v : Val) (h : db.Inv) : (db.update k e v).Inv := by
  unfold Db.update
  cases v with
  | str b => exact inv_setDirty _ (inv_poke db k _ h (by simp [Val.nonEmpty]))
  | corrupt f => exact inv_setDirty _ (inv_poke db k _ h (by simp [Val.nonEmpty]))
  | list l =>
    simp only
    by_cases he : l.isEmpty = true
    · simp only [he, ↓reduceIte]; exact inv_setDirty _ (inv_del db k h)
    · simp only [he, Bool.false_eq_true, ↓reduceIte]
      exact inv_setDirty _ (inv_poke db k _ h (by simp [Val.nonEmpty, he]))
  | hash l =>
    simp only
    by_cases he : l.isEmpty = true
    · simp only [he, ↓reduceIte]; exact inv_setDirty _ (inv_del db k h)
    · simp only [he, Bool.false_eq_true, ↓reduceIte]
      exact inv_setDirty _ (inv_poke db k _ h (by simp [Val.nonEmpty, he]))
  | set l =>
    simp only
    by_cases he : l.isEmpty = true
    · simp only [he, ↓reduceIte]; exact inv_setDirty _ (inv_del db k h)
    · simp only [he, Bool.false_eq_true, ↓reduceIte]
      exact inv_setDirty _ (inv_poke db k _ h (by simp [Val.nonEmpty, he]))

theorem inv_upd (c : Ctx) (db : Db) (k : Bytes) (e : Entry) (v : Val) (h : db.Inv) : (upd c db k e v).Inv := by
  unfold upd bump
  split_ifs
  · exact inv_update _ _ _ _ h
  · exact inv_update _ _ _ _ ⟨h.unique, h.noEmpty⟩

/-- after an update that emptied the aggregate the key is gone for every lookup -/
theorem update_empty_removes (db : Db) (k : Bytes) (e : Entry) (h : db.Inv) :
    (db.update k e (.list [])).raw k = none ∧ (db.update k e (.hash [])).raw k = none ∧
    (db.update k e (.set [])).raw k = none := by
  unfold Db.update Db.del Db.raw Db.setDirty
  refine ⟨?_, ?_, ?_⟩ <;>
  · simp only [List.isEmpty_nil, ↓reduceIte]
    cases hr : alookup k db.keys with
    | none => simp [hr]
    | some _ => simp [alookup_aerase_self_of_unique k db.keys h.unique]

/-! commands that remove elements keep the invariant -/

theorem inv_pop (c : Ctx) (db : Db) (k : Bytes) (n : Option Int) (left : Bool) (h : db.Inv) :
    (cmdPop c db k n left).db.Inv := by
  unfold cmdPop
  cases n with
  | none =>
    unfold cmdPop.go
    cases hl : listOf c db k with
    | error _ => exact h
    | ok o => cases o with
      | none => exact h
      | some p =>
        simp only
        split_ifs <;> simp only [R.ok, R.crashed] <;> first | exact h | exact inv_upd _ _ _ _ _ h
  | some i =>
    simp only
    split_ifs
    · exact h
    · unfold cmdPop.go
      cases hl : listOf c db k with
      | error _ => exact h
      | ok o => cases o with
        | none => exact h
        | some p =>
          simp only
          split_ifs <;> simp only [R.ok, R.crashed] <;> first | exact h | exact inv_upd _ _ _ _ _ h

theorem inv_srem (c : Ctx) (db : Db) (k : Bytes) (ms : List Bytes) (h : db.Inv) : (cmdSRem c db k ms).db.Inv := by
  unfold cmdSRem
  cases hs : setOf c db k with
  | error _ => exact h
  | ok o => cases o with
    | none => exact h
    | some p => simp only; split_ifs <;> simp only [R.ok] <;> first | exact h | exact inv_upd _ _ _ _ _ h

theorem inv_hdel (c : Ctx) (db : Db) (k : Bytes) (fs : List Bytes) (h : db.Inv) : (cmdHDel c db k fs).db.Inv := by
  unfold cmdHDel
  cases hs : hashOf c db k with
  | error _ => exact h
  | ok o => cases o with
    | none => exact h
    | some p => simp only; split_ifs <;> simp only [R.ok] <;> first | exact h | exact inv_upd _ _ _ _ _ h

theorem inv_ltrim (c : Ctx) (db : Db) (k : Bytes) (a b : Int) (h : db.Inv) : (cmdLTrim c db k a b).db.Inv := by
  unfold cmdLTrim
  cases hs : listOf c db k with
  | error _ => exact h
  | ok o => cases o with
    | none => exact h
    | some p => simp only; split_ifs <;> simp only [R.ok] <;> first | exact h | exact inv_upd _ _ _ _ _ h

theorem inv_lrem (c : Ctx) (db : Db) (k : Bytes) (n : Int) (v : Bytes) (h : db.Inv) : (cmdLRem c db k n v).db.Inv := by
  unfold cmdLRem
  cases hs : listOf c db k with
  | error _ => exact h
  | ok o => cases o with
    | none => exact h
    | some p => simp only; split_ifs <;> simp only [R.ok] <;> first | exact h | exact inv_upd _ _ _ _ _ h

/-! ### a command applied to a key of another type fails with WRONGTYPE and changes nothing -/

theorem wrongtype_inert_on_list (c : Ctx) (db : Db) (k : Bytes) (l : List Bytes) (x : Option Int) (i : Nat)
    (h : db.live c.now k = some { val := .list l, exp := x, id := i }) (v f : Bytes) (d : Int)
    (hv : (v.length : Int) ≤ hugeAlloc) :
    (cmdGet c db k = R.ok db wrongType) ∧ (cmdAppend c db k v = R.ok db wrongType) ∧
    (cmdIncrBy c db k d = R.ok db wrongType) ∧ (cmdStrlen c db k = R.ok db wrongType) ∧
    (cmdHSet c db k [(f, v)] false false = R.ok db wrongType) ∧ (cmdHGet c db k f = R.ok db wrongType) ∧
    (cmdHDel c db k [f] = R.ok db wrongType) ∧ (cmdHIncrBy c db k f d = R.ok db wrongType) ∧
    (cmdSAdd c db k [v] = R.ok db wrongType) ∧ (cmdSRem c db k [v] = R.ok db wrongType) ∧
    (cmdSCard c db k = R.ok db wrongType) ∧ (cmdSetRange c db k 0 v = R.ok db wrongType) ∧
    (cmdGetRange c db k 0 1 = R.ok db wrongType) ∧ (cmdGetDel c db k = R.ok db wrongType) := by
  unfold cmdGet cmdAppend setKey cmdIncrBy cmdStrlen cmdHSet cmdHGet cmdHDel cmdHIncrBy cmdSAdd cmdSRem cmdSCard
    cmdSetRange cmdGetRange cmdGetDel hashOf setOf
  have h1 : ¬ ((0 : Int) > hugeAlloc) := by unfold hugeAlloc; omega
  have h2 : ¬ (hugeAlloc < (v.length : Int)) := by omega
  simp [h, R.ok, h1, h2]

theorem wrongtype_inert_on_string (c : Ctx) (db : Db) (k : Bytes) (b : Bytes) (xp : Option Int) (i : Nat)
    (h : db.live c.now k = some { val := .str b, exp := xp, id := i }) (v f : Bytes) (d : Int) (lft x : Bool) :
    (cmdPush c db k [v] lft x = R.ok db wrongType) ∧ (cmdPop c db k none lft = R.ok db wrongType) ∧
    (cmdLLen c db k = R.ok db wrongType) ∧ (cmdLRange c db k 0 1 = R.ok db wrongType) ∧
    (cmdLSet c db k 0 v = R.ok db wrongType) ∧ (cmdLRem c db k 0 v = R.ok db wrongType) ∧
    (cmdLTrim c db k 0 1 = R.ok db wrongType) ∧ (cmdLInsert c db k true v v = R.ok db wrongType) ∧
    (cmdHSet c db k [(f, v)] false false = R.ok db wrongType) ∧ (cmdHGetAll c db k = R.ok db wrongType) ∧
    (cmdHIncrBy c db k f d = R.ok db wrongType) ∧ (cmdSAdd c db k [v] = R.ok db wrongType) ∧
    (cmdSMembers c db k = R.ok db wrongType) ∧ (cmdSMove c db k f v = R.ok db wrongType) := by
  unfold cmdPush cmdPop cmdPop.go cmdLLen cmdLRange cmdLSet cmdLRem cmdLTrim cmdLInsert cmdHSet cmdHGetAll cmdHIncrBy
    cmdSAdd cmdSMembers cmdSMove listOf hashOf setOf
  simp [h, R.ok]

/-! ### RENAME and COPY carry the complete value of any type together with its deadline -/

theorem rename_carries (c : Ctx) (db : Db) (src dst : Bytes) (e : Entry)
    (h : srcLookup c db src = some e) :
    ((cmdRename c db src dst false).db.raw dst).map (fun x => (x.val, x.exp)) = some (e.val, e.exp) ∧
    (cmdRename c db src dst false).reply = vOK := by
  unfold cmdRename
  simp [h, R.ok, Db.raw]

theorem rename_removes_source (c : Ctx) (db : Db) (src dst : Bytes) (e : Entry) (hi : db.Inv)
    (h : srcLookup c db src = some e) (hne : (dst == src) = false) :
    (cmdRename c db src dst false).db.raw src = none := by
  have hraw : db.raw src ≠ none := by
    unfold srcLookup Db.live at h
    intro hn
    split_ifs at h <;> simp [hn] at h
  unfold cmdRename
  simp only [h, Bool.false_and, Bool.false_eq_true, ↓reduceIte, R.ok]
  unfold Db.raw at *
  rw [alookup_ainsert_ne dst src _ _ hne]
  unfold Db.del Db.raw
  cases hr : alookup src db.keys with
  | none => exact absurd hr hraw
  | some _ => simp [alookup_aerase_self_of_unique src db.keys hi.unique]

theorem rename_missing_source (c : Ctx) (db : Db) (src dst : Bytes) (nx : Bool)
    (h : srcLookup c db src = none) :
    cmdRename c db src dst nx = R.ok db errNoSuchKey := by
  unfold cmdRename; simp [h]

theorem copy_carries (c : Ctx) (db : Db) (src dst : Bytes) (e : Entry)
    (h : srcLookup c db src = some e) (hd : srcLookup c db dst = none) :
    ((cmdCopy c db src dst false).db.raw dst).map (fun x => (x.val, x.exp)) = some (e.val, e.exp) ∧
    (cmdCopy c db src dst false).reply = .int 1 := by
  have hne : src ≠ dst := by
    intro heq; subst heq; rw [h] at hd; cases hd
  have hb : (src == dst) = false := by simpa using hne
  unfold cmdCopy
  simp [hb, h, hd, R.ok, Db.raw]

theorem copy_no_replace_refused (c : Ctx) (db : Db) (src dst : Bytes) (e e' : Entry)
    (hne : src ≠ dst)
    (h : srcLookup c db src = some e) (hd : srcLookup c db dst = some e') :
    cmdCopy c db src dst false = R.ok db (.int 0) := by
  have hb : (src == dst) = false := by simpa using hne
  unfold cmdCopy; simp [hb, h, hd]

/-- COPY of a key onto itself is refused (as Redis does) and changes nothing -/
theorem copy_same_key_refused (c : Ctx) (db : Db) (k : Bytes) (b : Bool) :
    (cmdCopy c db k k b).db = db ∧ (cmdCopy c db k k b).reply.isError = true := by
  unfold cmdCopy; simp [R.ok, Value.isError]

/-! ### glob matching (`redisGlob`) -/

theorem glob_star_matches_all (cand : Bytes) : glob [42] cand = true := by
  unfold glob
  cases cand with
  | nil => simp [globAux]
  | cons c cs => simp [globAux]

theorem glob_empty_pattern (cand : Bytes) : glob [] cand = cand.isEmpty := by
  unfold glob
  cases cand <;> simp [globAux]

/-! ### SORT (repaired: it used to ignore BY / LIMIT / GET and to compare nothing) -/


/-- SORT without STORE never changes the database, whatever its options and whatever the keys hold -/
theorem sort_without_store_pure (c : Ctx) (db : Db) (key : Bytes) (by_ : Option Bytes) (limit : Option (Int × Int))
    (gets : List Bytes) (desc alpha : Bool) :
    (cmdSort c db key by_ limit gets desc alpha none).db = db := by
  unfold cmdSort
  split
  · rfl
  · rfl
  · split <;> rfl

/-- SORT of a key that holds a string or a hash fails with WRONGTYPE and changes nothing, STORE or not -/
theorem sort_wrongtype_inert (c : Ctx) (db : Db) (key : Bytes) (by_ : Option Bytes) (limit : Option (Int × Int))
    (gets : List Bytes) (desc alpha : Bool) (store : Option Bytes)
    (h : sortSource c db key = .error ()) :
    cmdSort c db key by_ limit gets desc alpha store = R.ok db wrongType := by
  unfold cmdSort; rw [h]

/-- SORT … STORE of a missing source removes the destination (no empty list is left behind) -/
theorem sort_store_missing_source (c : Ctx) (db : Db) (key d : Bytes) (by_ : Option Bytes) (limit : Option (Int × Int))
    (gets : List Bytes) (desc alpha : Bool) (h : sortSource c db key = .ok none) :
    cmdSort c db key by_ limit gets desc alpha (some d) = R.ok (db.del d) (.int 0) := by
  unfold cmdSort; rw [h]; simp [sortFinish]

/-- what SORT … STORE leaves in the destination: exactly the result, as a list, never an empty one -/
theorem sortFinish_store (db : Db) (d : Bytes) (out : List Value) (hint : Match) (hne : out ≠ []) :
    ((sortFinish db (some d) out hint).db.raw d).map (·.val) =
      some (.list (out.map fun v => match v with | .bulk b => b | _ => [])) := by
  unfold sortFinish
  have : out.isEmpty = false := by cases out <;> simp_all
  simp [this, R.ok, Db.put, Db.raw]
  intro a _; rfl

theorem sortFinish_store_empty (db : Db) (d : Bytes) (hint : Match) :
    (sortFinish db (some d) [] hint).db = db.del d := by
  simp [sortFinish, R.ok]

theorem mapM_some' {α β} (f : α → β) (xs : List α) : xs.mapM (fun x => some (f x)) = some (xs.map f) := by
  induction xs with
  | nil => rfl
  | cons x r ih => simp [List.mapM_cons, ih]

/-- with ALPHA and without BY, LIMIT and GET the reply is a rearrangement of the elements: nothing is
    lost, nothing invented, duplicates keep their number -/
theorem sort_is_rearrangement (c : Ctx) (db : Db) (xs : List Bytes) (isSet desc storing : Bool)
    (out : List Value) (hint : Match)
    (h : sortCompute c db xs isSet none none [] desc true storing = some (out, hint)) :
    out.Perm (xs.map Value.bulk) := by
  unfold sortCompute at h
  simp only [Bool.false_and, Bool.false_eq_true, if_false, Bool.not_false, Bool.or_false,
    if_true, Bool.and_true] at h
  rw [mapM_some'] at h
  simp only [Option.map_some, Option.some.injEq, Prod.mk.injEq] at h
  obtain ⟨hout, _⟩ := h
  subst hout
  simp only [List.isEmpty_nil, if_true, List.map_cons, List.map_nil, beq_self_eq_true]
  have hp := List.mergeSort_perm (xs.map fun x => ({ data := x, str := x, w := .fin ⟨0, 0⟩ } : SortItem))
    (fun a b => if desc then !(sortLess true a b) else !(sortLess true b a))
  have h2 := hp.map (fun it : SortItem => Value.bulk it.data)
  simp only [List.map_map] at h2
  have e : ((fun it : SortItem => Value.bulk it.data) ∘ fun x => ({ data := x, str := x, w := .fin ⟨0, 0⟩ } : SortItem)) = Value.bulk := rfl
  rw [e] at h2
  refine List.Perm.trans ?_ h2
  have flat : ∀ (l : List SortItem), List.flatMap (fun it => [Value.bulk it.data]) l = l.map (fun it => Value.bulk it.data) := by
    intro l; induction l with
    | nil => rfl
    | cons a r ih => simp [List.flatMap_cons, ih]
  rw [flat]

/-! ## failed commands are inert: every command, every argument, every state -/

set_option linter.unusedSectionVars false

/-- a command that answers with an error has left the database exactly as it was -/
structure Inert (db : Db) (r : R) : Prop where
  inert : r.reply.isError = true → r.db = db

macro "inert" : tactic => `(tactic| (repeat' (first
  | (exact ⟨fun _ => rfl⟩)
  | (refine ⟨fun h => ?_⟩; simp [R.ok, Value.isError, vOK, vInt, bulks] at h; done)
  | split
  | dsimp only [R.ok])))

section
variable (c : Ctx) (db : Db) (k k2 v f m : Bytes) (i j : Int) (o : SetOpts) (b b2 : Bool)
  (ks : List Bytes) (kvs : List (Bytes × Bytes)) (oi oj ok' : Option Int) (n : Nat)

theorem setKey_reply_no_error (a a2 : Bool) : (optV (setKey c db k v o a a2).2.1).isError = false := by
  unfold setKey
  repeat' split
  all_goals simp_all [optV, Value.isError, vOK]

theorem set_inert : Inert db (cmdSet c db k v o b) := by
  unfold cmdSet
  repeat' (first | (exact ⟨fun _ => rfl⟩) | (refine ⟨fun h => ?_⟩; simp [R.ok, Value.isError] at h; done) | split | dsimp only [R.ok])
  refine ⟨fun h => ?_⟩
  simp only [setKey_reply_no_error] at h
  cases h
theorem get_inert : Inert db (cmdGet c db k) := by unfold cmdGet; inert
theorem getdel_inert : Inert db (cmdGetDel c db k) := by unfold cmdGetDel; inert
theorem getex_inert (e : Option ExpArg) : Inert db (cmdGetEx c db k e) := by unfold cmdGetEx; inert
theorem strlen_inert : Inert db (cmdStrlen c db k) := by unfold cmdStrlen; inert
theorem getrange_inert : Inert db (cmdGetRange c db k i j) := by unfold cmdGetRange; inert
theorem setrange_inert : Inert db (cmdSetRange c db k i v) := by unfold cmdSetRange; inert
theorem incrby_inert : Inert db (cmdIncrBy c db k i) := by unfold cmdIncrBy; inert
theorem mget_inert : Inert db (cmdMGet c db ks) := by unfold cmdMGet; inert
theorem mset_inert : Inert db (cmdMSet c db kvs b) := by unfold cmdMSet; inert
theorem incrbyfloat_inert : Inert db (cmdIncrByFloat c db k v) := by unfold cmdIncrByFloat; inert
theorem push_inert : Inert db (cmdPush c db k ks b b2) := by unfold cmdPush; inert
theorem llen_inert : Inert db (cmdLLen c db k) := by unfold cmdLLen; inert
theorem lindex_inert : Inert db (cmdLIndex c db k i) := by unfold cmdLIndex; inert
theorem lrange_inert : Inert db (cmdLRange c db k i j) := by unfold cmdLRange; inert
theorem lset_inert : Inert db (cmdLSet c db k i v) := by unfold cmdLSet; inert
theorem linsert_inert : Inert db (cmdLInsert c db k b v m) := by unfold cmdLInsert; inert
theorem lrem_inert : Inert db (cmdLRem c db k i v) := by unfold cmdLRem; inert
theorem ltrim_inert : Inert db (cmdLTrim c db k i j) := by unfold cmdLTrim; inert
theorem lpos_inert : Inert db (cmdLPos c db k v oi oj ok') := by unfold cmdLPos; inert
theorem hset_inert : Inert db (cmdHSet c db k kvs b b2) := by unfold cmdHSet; inert
theorem hget_inert : Inert db (cmdHGet c db k f) := by unfold cmdHGet; inert
theorem hmget_inert : Inert db (cmdHMGet c db k ks) := by unfold cmdHMGet; inert
theorem hgetall_inert : Inert db (cmdHGetAll c db k) := by unfold cmdHGetAll; inert
theorem hkeys_inert : Inert db (cmdHKeys c db k b) := by unfold cmdHKeys; inert
theorem hlen_inert : Inert db (cmdHLen c db k) := by unfold cmdHLen; inert
theorem hexists_inert : Inert db (cmdHExists c db k f) := by unfold cmdHExists; inert
theorem hstrlen_inert : Inert db (cmdHStrlen c db k f) := by unfold cmdHStrlen; inert
theorem hdel_inert : Inert db (cmdHDel c db k ks) := by unfold cmdHDel; inert
theorem hincrby_inert : Inert db (cmdHIncrBy c db k f i) := by unfold cmdHIncrBy; inert
theorem hincrbyfloat_inert : Inert db (cmdHIncrByFloat c db k f v) := by unfold cmdHIncrByFloat; inert
theorem sadd_inert : Inert db (cmdSAdd c db k ks) := by unfold cmdSAdd; inert
theorem srem_inert : Inert db (cmdSRem c db k ks) := by unfold cmdSRem; inert
theorem scard_inert : Inert db (cmdSCard c db k) := by unfold cmdSCard; inert
theorem sismember_inert : Inert db (cmdSIsMember c db k m) := by unfold cmdSIsMember; inert
theorem smismember_inert : Inert db (cmdSMIsMember c db k ks) := by unfold cmdSMIsMember; inert
theorem smembers_inert : Inert db (cmdSMembers c db k) := by unfold cmdSMembers; inert
theorem smove_inert : Inert db (cmdSMove c db k k2 m) := by unfold cmdSMove; inert
theorem setalgebra_inert (op : SetOp) : Inert db (cmdSetAlgebra c db op ks) := by unfold cmdSetAlgebra; inert
theorem setalgebrastore_inert (op : SetOp) : Inert db (cmdSetAlgebraStore c db op k ks) := by unfold cmdSetAlgebraStore; inert
theorem sintercard_inert : Inert db (cmdSInterCard c db i ks j) := by unfold cmdSInterCard; inert
theorem exists_inert : Inert db (cmdExists c db ks) := by unfold cmdExists; inert
theorem type_inert : Inert db (cmdType c db k) := by unfold cmdType; inert
theorem rename_inert : Inert db (cmdRename c db k k2 b) := by unfold cmdRename; inert
theorem copy_inert : Inert db (cmdCopy c db k k2 b) := by unfold cmdCopy; inert
theorem expireat_inert (opt : ExpireOpt) : Inert db (cmdExpireAt c db k i opt) := by unfold cmdExpireAt; inert
theorem persist_inert : Inert db (cmdPersist c db k) := by unfold cmdPersist; inert
theorem ttl_inert (kind : TtlKind) : Inert db (cmdTtl c db k kind) := by unfold cmdTtl; inert
theorem getbit_inert : Inert db (cmdGetBit c db k i) := by unfold cmdGetBit; inert
theorem bitpos_inert (st : Option Int) (en : Option (Int × Bool)) : Inert db (cmdBitPos c db k i st en) := by unfold cmdBitPos; inert
theorem bitop_inert : Inert db (cmdBitOp c db k k2 ks) := by unfold cmdBitOp; inert
theorem bitfieldParsed_inert (ps : List BfParsed) : Inert db (cmdBitfieldParsed c db k ps) := by unfold cmdBitfieldParsed; inert

theorem append_inert : Inert db (cmdAppend c db k v) := by unfold cmdAppend; inert
theorem decrby_inert : Inert db (cmdDecrBy c db k i) := by
  unfold cmdDecrBy
  split
  · exact ⟨fun _ => rfl⟩
  · exact incrby_inert c db k _
theorem pop_inert : Inert db (cmdPop c db k oi b) := by
  have go : ∀ n multi, Inert db (cmdPop.go c db k b n multi) := by
    intro n multi
    unfold cmdPop.go
    inert
  unfold cmdPop
  split
  · split
    · exact ⟨fun _ => rfl⟩
    · exact go _ _
  · exact go _ _
theorem del_inert : Inert db (cmdDel c db ks b) := by
  unfold cmdDel
  refine ⟨fun h => ?_⟩
  simp [R.ok, vInt, Value.isError] at h
theorem bfStep_no_error (buf : Bytes) (p : BfParsed) : (bfStep c buf p).2.2.isError = false := by
  unfold bfStep
  extract_lets a u n nv oob m neg resolved
  split
  · rfl
  · clear_value resolved
    cases resolved <;> rfl
theorem bitfield_inert (ops : List BfOp) : Inert db (cmdBitfield c db k ops) := by
  unfold cmdBitfield
  split
  · exact ⟨fun _ => rfl⟩
  · exact bitfieldParsed_inert c db k _
theorem bitcount_inert (r : Option (Int × Int × Bool)) : Inert db (cmdBitCount c db k r) := by
  unfold cmdBitCount
  split
  · exact ⟨fun _ => rfl⟩
  · split_ifs <;> first
      | exact ⟨fun _ => rfl⟩
      | (extract_lets; split_ifs <;> exact ⟨fun _ => rfl⟩)
  · exact ⟨fun _ => rfl⟩
theorem lmove_inert : Inert db (cmdLMove c db k k2 b b2) := by unfold cmdLMove; inert
theorem lmpop_inert : Inert db (cmdLMPop c db ks b n) := by
  have go : ∀ ks, Inert db (cmdLMPop.go c db b n ks) := by
    intro ks
    induction ks with
    | nil => exact ⟨fun _ => rfl⟩
    | cons x r ih =>
      unfold cmdLMPop.go
      split
      · exact ⟨fun _ => rfl⟩
      · exact ih
      · split
        · exact ih
        · refine ⟨fun h => ?_⟩; simp [R.ok, Value.isError] at h
  unfold cmdLMPop
  exact go ks
theorem bpop_inert : Inert db (runCmd.go c b db ks) := by
  induction ks with
  | nil => exact ⟨fun _ => rfl⟩
  | cons x r ih =>
    unfold runCmd.go
    split
    · exact ⟨fun _ => rfl⟩
    · exact ih
    · split
      · exact ih
      · refine ⟨fun h => ?_⟩; simp [R.ok, Value.isError] at h
theorem sortFinish_inert (store : Option Bytes) (out : List Value) (hint : Match) :
    (sortFinish db store out hint).reply.isError = false := by
  unfold sortFinish
  split
  · rfl
  · split <;> rfl
theorem sort_inert (by_ : Option Bytes) (limit : Option (Int × Int)) (gets : List Bytes) (store : Option Bytes) :
    Inert db (cmdSort c db k by_ limit gets b b2 store) := by
  unfold cmdSort
  split
  · exact ⟨fun _ => rfl⟩
  · refine ⟨fun h => ?_⟩; rw [sortFinish_inert] at h; cases h
  · split
    · exact ⟨fun _ => rfl⟩
    · refine ⟨fun h => ?_⟩; rw [sortFinish_inert] at h; cases h

theorem setbit_inert : Inert db (cmdSetBit c db k i j) := by
  unfold cmdSetBit
  split
  · exact ⟨fun _ => rfl⟩
  · split
    · exact ⟨fun _ => rfl⟩
    · dsimp only
      split
      · rename_i x heq
        refine ⟨fun h => ?_⟩
        exfalso
        unfold cmdBitfieldParsed at heq
        simp only [List.foldl_cons, List.foldl_nil, List.nil_append] at heq
        split at heq
        all_goals first
          | (simp only [R.ok, Value.array.injEq, List.cons.injEq, and_true] at heq
             rw [← heq] at h
             simp only [bfStep_no_error] at h
             cases h)
          | (simp [R.ok, wrongType] at heq)
      · exact bitfieldParsed_inert c db k _
end

theorem onDb_inert (s : State) (ref : Nat) (f : Db → R) (hi : Inert (s.getDb ref) (f (s.getDb ref)))
    (h : (onDb s ref f).reply.isError = true) : ∀ r, (onDb s ref f).st.getDb r = s.getDb r := by
  intro r
  unfold onDb at h ⊢
  simp only at h ⊢
  by_cases e : (ref == r) = true
  · have : ref = r := by simpa using e
    subst this
    rw [getDb_setDb_self]
    exact hi.inert h
  · exact getDb_setDb_ne _ _ _ _ (by simpa using e)

/-- **A command that fails changes nothing.** Whatever the command and its arguments, whatever the
    databases hold: if the reply is an error — wrong type, syntax, range, overflow, not a number, no such
    key, anything — every database of the server is exactly what it was: every key, value, deadline and
    version. -/
theorem failed_command_inert (c : Ctx) (s : State) (conn ref : Nat) (m : Bool) (cmd : Cmd)
    (h : (runCmd c s conn ref m cmd).reply.isError = true) :
    ∀ r, (runCmd c s conn ref m cmd).st.getDb r = s.getDb r := by
  cases cmd
  case copy a b rep dbOpt =>
    simp only [runCmd] at h ⊢
    split at h
    · intro r; simp [*]
    · rename_i hc; simp only [hc, ↓reduceIte] at ⊢; exact onDb_inert s ref _ (copy_inert ..) h
  case lmpop nk ks l cnt =>
    simp only [runCmd] at h ⊢
    split at h
    · intro r; simp [*]
    · split at h
      · intro r; simp [*]
      · rename_i h1 h2; simp only [h1, h2, ↓reduceIte] at ⊢; exact onDb_inert s ref _ (lmpop_inert ..) h
  case set a0 a1 a2 a3 => simp only [runCmd]; exact onDb_inert s ref _ (set_inert ..) h
  case append a0 a1 => simp only [runCmd]; exact onDb_inert s ref _ (append_inert ..) h
  case get a0 => simp only [runCmd]; exact onDb_inert s ref _ (get_inert ..) h
  case getdel a0 => simp only [runCmd]; exact onDb_inert s ref _ (getdel_inert ..) h
  case getex a0 a1 => simp only [runCmd]; exact onDb_inert s ref _ (getex_inert ..) h
  case strlen a0 => simp only [runCmd]; exact onDb_inert s ref _ (strlen_inert ..) h
  case getrange a0 a1 a2 => simp only [runCmd]; exact onDb_inert s ref _ (getrange_inert ..) h
  case setrange a0 a1 a2 => simp only [runCmd]; exact onDb_inert s ref _ (setrange_inert ..) h
  case incrby a0 a1 => simp only [runCmd]; exact onDb_inert s ref _ (incrby_inert ..) h
  case decrby a0 a1 => simp only [runCmd]; exact onDb_inert s ref _ (decrby_inert ..) h
  case incrbyfloat a0 a1 => simp only [runCmd]; exact onDb_inert s ref _ (incrbyfloat_inert ..) h
  case mget a0 => simp only [runCmd]; exact onDb_inert s ref _ (mget_inert ..) h
  case mset a0 a1 => simp only [runCmd]; exact onDb_inert s ref _ (mset_inert ..) h
  case push a0 a1 a2 a3 => simp only [runCmd]; exact onDb_inert s ref _ (push_inert ..) h
  case pop a0 a1 a2 => simp only [runCmd]; exact onDb_inert s ref _ (pop_inert ..) h
  case llen a0 => simp only [runCmd]; exact onDb_inert s ref _ (llen_inert ..) h
  case lindex a0 a1 => simp only [runCmd]; exact onDb_inert s ref _ (lindex_inert ..) h
  case lrange a0 a1 a2 => simp only [runCmd]; exact onDb_inert s ref _ (lrange_inert ..) h
  case lset a0 a1 a2 => simp only [runCmd]; exact onDb_inert s ref _ (lset_inert ..) h
  case linsert a0 a1 a2 a3 => simp only [runCmd]; exact onDb_inert s ref _ (linsert_inert ..) h
  case lrem a0 a1 a2 => simp only [runCmd]; exact onDb_inert s ref _ (lrem_inert ..) h
  case ltrim a0 a1 a2 => simp only [runCmd]; exact onDb_inert s ref _ (ltrim_inert ..) h
  case lpos a0 a1 a2 a3 a4 => simp only [runCmd]; exact onDb_inert s ref _ (lpos_inert ..) h
  case lmove a0 a1 a2 a3 => simp only [runCmd]; exact onDb_inert s ref _ (lmove_inert ..) h
  case hset a0 a1 a2 a3 => simp only [runCmd]; exact onDb_inert s ref _ (hset_inert ..) h
  case hget a0 a1 => simp only [runCmd]; exact onDb_inert s ref _ (hget_inert ..) h
  case hmget a0 a1 => simp only [runCmd]; exact onDb_inert s ref _ (hmget_inert ..) h
  case hgetall a0 => simp only [runCmd]; exact onDb_inert s ref _ (hgetall_inert ..) h
  case hkeys a0 a1 => simp only [runCmd]; exact onDb_inert s ref _ (hkeys_inert ..) h
  case hlen a0 => simp only [runCmd]; exact onDb_inert s ref _ (hlen_inert ..) h
  case hexists a0 a1 => simp only [runCmd]; exact onDb_inert s ref _ (hexists_inert ..) h
  case hstrlen a0 a1 => simp only [runCmd]; exact onDb_inert s ref _ (hstrlen_inert ..) h
  case hdel a0 a1 => simp only [runCmd]; exact onDb_inert s ref _ (hdel_inert ..) h
  case hincrby a0 a1 a2 => simp only [runCmd]; exact onDb_inert s ref _ (hincrby_inert ..) h
  case hincrbyfloat a0 a1 a2 => simp only [runCmd]; exact onDb_inert s ref _ (hincrbyfloat_inert ..) h
  case sadd a0 a1 => simp only [runCmd]; exact onDb_inert s ref _ (sadd_inert ..) h
  case srem a0 a1 => simp only [runCmd]; exact onDb_inert s ref _ (srem_inert ..) h
  case scard a0 => simp only [runCmd]; exact onDb_inert s ref _ (scard_inert ..) h
  case sismember a0 a1 => simp only [runCmd]; exact onDb_inert s ref _ (sismember_inert ..) h
  case smismember a0 a1 => simp only [runCmd]; exact onDb_inert s ref _ (smismember_inert ..) h
  case smembers a0 => simp only [runCmd]; exact onDb_inert s ref _ (smembers_inert ..) h
  case smove a0 a1 a2 => simp only [runCmd]; exact onDb_inert s ref _ (smove_inert ..) h
  case salg a0 a1 => simp only [runCmd]; exact onDb_inert s ref _ (setalgebra_inert ..) h
  case salgStore a0 a1 a2 => simp only [runCmd]; exact onDb_inert s ref _ (setalgebrastore_inert ..) h
  case sintercard a0 a1 a2 => simp only [runCmd]; exact onDb_inert s ref _ (sintercard_inert ..) h
  case del a0 a1 => simp only [runCmd]; exact onDb_inert s ref _ (del_inert ..) h
  case exists_ a0 => simp only [runCmd]; exact onDb_inert s ref _ (exists_inert ..) h
  case touch a0 => simp only [runCmd]; exact onDb_inert s ref _ (exists_inert ..) h
  case type_ a0 => simp only [runCmd]; exact onDb_inert s ref _ (type_inert ..) h
  case rename a0 a1 a2 => simp only [runCmd]; exact onDb_inert s ref _ (rename_inert ..) h
  case sort a0 a1 a2 a3 a4 a5 a6 => simp only [runCmd]; exact onDb_inert s ref _ (sort_inert ..) h
  case persist a0 => simp only [runCmd]; exact onDb_inert s ref _ (persist_inert ..) h
  case ttl a0 a1 => simp only [runCmd]; exact onDb_inert s ref _ (ttl_inert ..) h
  case getbit a0 a1 => simp only [runCmd]; exact onDb_inert s ref _ (getbit_inert ..) h
  case setbit a0 a1 a2 => simp only [runCmd]; exact onDb_inert s ref _ (setbit_inert ..) h
  case bitcount a0 a1 => simp only [runCmd]; exact onDb_inert s ref _ (bitcount_inert ..) h
  case bitpos a0 a1 a2 a3 => simp only [runCmd]; exact onDb_inert s ref _ (bitpos_inert ..) h
  case bitop a0 a1 a2 => simp only [runCmd]; exact onDb_inert s ref _ (bitop_inert ..) h
  case bitfield a0 a1 a2 => simp only [runCmd]; exact onDb_inert s ref _ (bitfield_inert ..) h
  case expire k n u a o => simp only [runCmd]; exact onDb_inert s ref _ (expireat_inert ..) h
  case bpop ks l => simp only [runCmd]; exact onDb_inert s ref _ (bpop_inert ..) h
  case flushdb => by_cases hf : c.q.flushDetaches = true <;> simp [runCmd, hf, Value.isError, vOK] at h
  case flushall => by_cases hf : c.q.flushDetaches = true <;> simp [runCmd, hf, Value.isError, vOK] at h
  case select i =>
    simp only [runCmd]
    intro r
    split
    · rfl
    · simp only [getDb_setSession]; exact getDb_tableRef s _ r
  case watch ks =>
    simp only [runCmd]
    intro r
    split
    · rfl
    · exact getDb_setSession _ _ _ r
  case unwatch => intro r; exact getDb_setSession _ _ _ r
  case hello v =>
    simp only [runCmd]
    intro r
    split
    · split
      · rfl
      · exact getDb_setSession _ _ _ r
    · rfl
  case clientSetname nm =>
    simp only [runCmd]
    intro r
    split
    · rfl
    · exact getDb_setSession _ _ _ r
  case ping o => cases o <;> (intro r; rfl)
  case dbsize => simp only [runCmd]; intro r; trivial
  all_goals
    simp only [runCmd] at h ⊢
    first
      | exact onDb_inert s ref _ (by inert) h
      | (intro r; first | rfl | trivial)


/-! ## the invariant is kept by every command: no empty key, no duplicate key, in every reachable state -/

theorem inv_dirtyUnlessQuirk (c : Ctx) (db : Db) (h : db.Inv) : (dirtyUnlessQuirk c db).Inv := by
  unfold dirtyUnlessQuirk; split
  · exact h
  · exact inv_setDirty _ h

theorem live_nonEmpty {db : Db} {now : Int} {k : Bytes} {e : Entry} (hi : db.Inv) (h : db.live now k = some e) :
    e.val.nonEmpty = true :=
  hi.noEmpty (k, e) (mem_of_alookup k db.keys e (live_some_raw h).1)

theorem srcLookup_nonEmpty {c : Ctx} {db : Db} {k : Bytes} {e : Entry} (hi : db.Inv) (h : srcLookup c db k = some e) :
    e.val.nonEmpty = true := by
  unfold srcLookup at h
  split at h
  · exact hi.noEmpty (k, e) (mem_of_alookup k db.keys e h)
  · exact live_nonEmpty hi h

theorem listOf_nonEmpty {c : Ctx} {db : Db} {k : Bytes} {e : Entry} {l : List Bytes} (hi : db.Inv)
    (h : listOf c db k = .ok (some (e, l))) : l ≠ [] := by
  unfold listOf at h
  split at h
  · rename_i e' hl
    split at h
    · rename_i l' hv
      cases h
      have := live_nonEmpty hi hl
      rw [hv] at this
      intro hn; subst hn; simp [Val.nonEmpty] at this
    · cases h
  · cases h

theorem bump_inv (c : Ctx) (db : Db) (e : Entry) (hi : db.Inv) : (bump c db e).1.Inv := by
  unfold bump; split
  · exact hi
  · exact ⟨hi.unique, hi.noEmpty⟩

theorem bump_val (c : Ctx) (db : Db) (e : Entry) : (bump c db e).2.val = e.val := by
  unfold bump; split <;> rfl

theorem inv_poke_bump {c : Ctx} {db db1 : Db} {e e1 : Entry} (k : Bytes) (e' : Entry) (hi : db.Inv)
    (hb : bump c db e = (db1, e1)) (hv : e'.val.nonEmpty = true) : (db1.poke k e').Inv := by
  have := bump_inv c db e hi
  rw [hb] at this
  exact inv_poke _ _ _ this hv

theorem bump_val' {c : Ctx} {db db1 : Db} {e e1 : Entry} (hb : bump c db e = (db1, e1)) : e1.val = e.val := by
  have := bump_val c db e
  rw [hb] at this
  exact this

attribute [local irreducible] bump

theorem setKey_inv (c : Ctx) (db : Db) (k v : Bytes) (o : SetOpts) (a b : Bool) (h : db.Inv) :
    (setKey c db k v o a b).1.Inv := by
  unfold setKey
  repeat' (first | assumption | rfl | (refine inv_put _ _ _ _ ?_ ?_) | split | dsimp only)

theorem putAll_inv (kvs : List (Bytes × Bytes)) : ∀ (db : Db), db.Inv → (putAll db kvs).Inv := by
  induction kvs with
  | nil => intro db h; exact h
  | cons p r ih =>
    intro db h
    obtain ⟨k, v⟩ := p
    unfold putAll
    exact ih _ (inv_put _ _ _ _ h rfl)

theorem saddAll_nonEmpty (ms : List Bytes) : ∀ (s : List Bytes) (n : Nat), (ms ≠ [] ∨ s ≠ []) → (saddAll ms s n).1 ≠ [] := by
  induction ms with
  | nil => intro s n h; rcases h with h | h; exact absurd rfl h; exact h
  | cons m r ih =>
    intro s n _
    unfold saddAll
    split
    · rename_i hc
      apply ih; right; intro hn; subst hn; simp at hc
    · apply ih; right; simp

theorem ainsert_ne_nil {α} (k : Bytes) (v : α) (l : List (Bytes × α)) : ainsert k v l ≠ [] := by
  cases l with
  | nil => simp [ainsert]
  | cons p r =>
    obtain ⟨k', v'⟩ := p
    unfold ainsert
    split <;> simp

theorem hsetAll_nonEmpty (nx : Bool) (fvs : List (Bytes × Bytes)) : ∀ (h : List (Bytes × Bytes)) (n : Nat),
    (fvs ≠ [] ∨ h ≠ []) → (hsetAll nx fvs h n).1 ≠ [] := by
  induction fvs with
  | nil => intro h n hh; rcases hh with hh | hh; exact absurd rfl hh; exact hh
  | cons p r ih =>
    intro h n _
    obtain ⟨f, v⟩ := p
    unfold hsetAll
    split
    · rename_i x hl
      split
      · apply ih; right; intro hn; subst hn; simp [alookup] at hl
      · apply ih; right; exact ainsert_ne_nil _ _ _
    · apply ih; right; exact ainsert_ne_nil _ _ _

theorem nonEmpty_list {l : List Bytes} (h : l ≠ []) : (Val.list l).nonEmpty = true := by
  cases l with
  | nil => exact absurd rfl h
  | cons _ _ => rfl
theorem nonEmpty_set {l : List Bytes} (h : l ≠ []) : (Val.set l).nonEmpty = true := by
  cases l with
  | nil => exact absurd rfl h
  | cons _ _ => rfl
theorem nonEmpty_hash {l : List (Bytes × Bytes)} (h : l ≠ []) : (Val.hash l).nonEmpty = true := by
  cases l with
  | nil => exact absurd rfl h
  | cons _ _ => rfl

macro "keepinv" : tactic => `(tactic| (repeat' (first
  | assumption
  | rfl
  | (exact setKey_inv _ _ _ _ _ _ _ (by assumption))
  | (exact putAll_inv _ _ (by assumption))
  | (refine inv_put _ _ _ _ ?_ ?_)
  | (refine inv_setDirty _ ?_)
  | (refine inv_del _ _ ?_)
  | (refine inv_upd _ _ _ _ _ ?_)
  | (refine inv_dirtyUnlessQuirk _ _ ?_)
  | (refine inv_poke_bump _ _ (by assumption) (by assumption) ?_)
  | (exact live_nonEmpty (by assumption) (by assumption))
  | (exact srcLookup_nonEmpty (by assumption) (by assumption))
  | (rw [bump_val' (by assumption)]; exact live_nonEmpty (by assumption) (by assumption))
  | (refine nonEmpty_hash (ainsert_ne_nil _ _ _))
  | (refine inv_poke _ _ _ (bump_inv _ _ _ (by assumption)) ?_)
  | (simp only [bump_val]; exact live_nonEmpty (by assumption) (by assumption))
  | (refine nonEmpty_list ?_; rw [ne_eq, List.set_eq_nil_iff]; exact listOf_nonEmpty (by assumption) (by assumption))
  | (simp [Val.nonEmpty, *]; done)
  | split
  | dsimp only [R.ok])))

section
variable (c : Ctx) (db : Db) (k k2 v f m : Bytes) (i j : Int) (o : SetOpts) (b b2 : Bool)
  (ks : List Bytes) (kvs : List (Bytes × Bytes)) (oi oj ok' : Option Int) (n : Nat)
  (h : db.Inv)
include h

theorem set_inv : (cmdSet c db k v o b).db.Inv := by unfold cmdSet; keepinv
theorem get_inv : (cmdGet c db k).db.Inv := by unfold cmdGet; keepinv
theorem getdel_inv : (cmdGetDel c db k).db.Inv := by unfold cmdGetDel; keepinv
theorem getex_inv (e : Option ExpArg) : (cmdGetEx c db k e).db.Inv := by unfold cmdGetEx; keepinv
theorem strlen_inv : (cmdStrlen c db k).db.Inv := by unfold cmdStrlen; keepinv
theorem getrange_inv : (cmdGetRange c db k i j).db.Inv := by unfold cmdGetRange; keepinv
theorem setrange_inv : (cmdSetRange c db k i v).db.Inv := by unfold cmdSetRange; keepinv
theorem incrby_inv : (cmdIncrBy c db k i).db.Inv := by unfold cmdIncrBy; keepinv
theorem mget_inv : (cmdMGet c db ks).db.Inv := by unfold cmdMGet; keepinv
theorem mset_inv : (cmdMSet c db kvs b).db.Inv := by unfold cmdMSet; keepinv
theorem incrbyfloat_inv : (cmdIncrByFloat c db k v).db.Inv := by unfold cmdIncrByFloat; keepinv
theorem push_inv (hks : ks ≠ []) : (cmdPush c db k ks b b2).db.Inv := by
  unfold cmdPush; keepinv
  all_goals (refine nonEmpty_list ?_; simpa using hks)
theorem llen_inv : (cmdLLen c db k).db.Inv := by unfold cmdLLen; keepinv
theorem lindex_inv : (cmdLIndex c db k i).db.Inv := by unfold cmdLIndex; keepinv
theorem lrange_inv : (cmdLRange c db k i j).db.Inv := by unfold cmdLRange; keepinv
theorem lset_inv : (cmdLSet c db k i v).db.Inv := by unfold cmdLSet; keepinv
theorem linsert_inv : (cmdLInsert c db k b v m).db.Inv := by unfold cmdLInsert; keepinv
theorem lpos_inv : (cmdLPos c db k v oi oj ok').db.Inv := by unfold cmdLPos; keepinv
theorem hset_inv (hkvs : kvs ≠ []) : (cmdHSet c db k kvs b b2).db.Inv := by
  unfold cmdHSet; keepinv
  exact nonEmpty_hash (hsetAll_nonEmpty _ _ _ _ (Or.inl hkvs))
theorem hget_inv : (cmdHGet c db k f).db.Inv := by unfold cmdHGet; keepinv
theorem hmget_inv : (cmdHMGet c db k ks).db.Inv := by unfold cmdHMGet; keepinv
theorem hgetall_inv : (cmdHGetAll c db k).db.Inv := by unfold cmdHGetAll; keepinv
theorem hkeys_inv : (cmdHKeys c db k b).db.Inv := by unfold cmdHKeys; keepinv
theorem hlen_inv : (cmdHLen c db k).db.Inv := by unfold cmdHLen; keepinv
theorem hexists_inv : (cmdHExists c db k f).db.Inv := by unfold cmdHExists; keepinv
theorem hstrlen_inv : (cmdHStrlen c db k f).db.Inv := by unfold cmdHStrlen; keepinv
theorem hincrby_inv : (cmdHIncrBy c db k f i).db.Inv := by unfold cmdHIncrBy; keepinv
theorem hincrbyfloat_inv : (cmdHIncrByFloat c db k f v).db.Inv := by unfold cmdHIncrByFloat; keepinv
theorem sadd_inv (hks : ks ≠ []) : (cmdSAdd c db k ks).db.Inv := by
  unfold cmdSAdd; keepinv
  exact nonEmpty_set (saddAll_nonEmpty _ _ _ (Or.inl hks))
theorem scard_inv : (cmdSCard c db k).db.Inv := by unfold cmdSCard; keepinv
theorem sismember_inv : (cmdSIsMember c db k m).db.Inv := by unfold cmdSIsMember; keepinv
theorem smismember_inv : (cmdSMIsMember c db k ks).db.Inv := by unfold cmdSMIsMember; keepinv
theorem smembers_inv : (cmdSMembers c db k).db.Inv := by unfold cmdSMembers; keepinv
theorem smove_inv : (cmdSMove c db k k2 m).db.Inv := by unfold cmdSMove; keepinv
theorem setalgebra_inv (op : SetOp) : (cmdSetAlgebra c db op ks).db.Inv := by unfold cmdSetAlgebra; keepinv
theorem setalgebrastore_inv (op : SetOp) : (cmdSetAlgebraStore c db op k ks).db.Inv := by unfold cmdSetAlgebraStore; keepinv
theorem sintercard_inv : (cmdSInterCard c db i ks j).db.Inv := by unfold cmdSInterCard; keepinv
theorem exists_inv : (cmdExists c db ks).db.Inv := by unfold cmdExists; keepinv
theorem type_inv : (cmdType c db k).db.Inv := by unfold cmdType; keepinv
theorem rename_inv : (cmdRename c db k k2 b).db.Inv := by unfold cmdRename; keepinv
theorem copy_inv : (cmdCopy c db k k2 b).db.Inv := by unfold cmdCopy; keepinv
theorem expireat_inv (opt : ExpireOpt) : (cmdExpireAt c db k i opt).db.Inv := by unfold cmdExpireAt; keepinv
theorem persist_inv : (cmdPersist c db k).db.Inv := by unfold cmdPersist; keepinv
theorem ttl_inv (kind : TtlKind) : (cmdTtl c db k kind).db.Inv := by unfold cmdTtl; keepinv
theorem getbit_inv : (cmdGetBit c db k i).db.Inv := by unfold cmdGetBit; keepinv
theorem bitpos_inv (st : Option Int) (en : Option (Int × Bool)) : (cmdBitPos c db k i st en).db.Inv := by unfold cmdBitPos; keepinv
theorem bitop_inv : (cmdBitOp c db k k2 ks).db.Inv := by unfold cmdBitOp; keepinv
theorem bitfieldParsed_inv (ps : List BfParsed) : (cmdBitfieldParsed c db k ps).db.Inv := by unfold cmdBitfieldParsed; keepinv

theorem append_inv : (cmdAppend c db k v).db.Inv := by
  unfold cmdAppend
  have hk := setKey_inv c db k v { get := true } true (!c.q.appendDropsTtl) h
  split
  rename_i heq
  rw [heq] at hk
  split
  · exact h
  · exact hk
theorem decrby_inv : (cmdDecrBy c db k i).db.Inv := by
  unfold cmdDecrBy
  split
  · exact h
  · exact incrby_inv c db k _ h
theorem del_inv : (cmdDel c db ks b).db.Inv := by
  unfold cmdDel
  have key : ∀ (ks : List Bytes) (acc : Db × Nat), acc.1.Inv →
      (ks.foldl (fun (acc : Db × Nat) (k : Bytes) =>
        match acc with
        | (db, n) =>
          match db.live c.now k with
          | some e =>
            if (b || !c.q.unlinkKeepsObject) = true then (db.del k, n + 1)
            else (db.poke k { val := e.val, exp := some 0, id := e.id }, n + 1)
          | none => if b = true then (db.del k, n) else (db, n)) acc).1.Inv := by
    intro ks
    induction ks with
    | nil => intro acc h; exact h
    | cons x r ih =>
      intro acc hacc
      simp only [List.foldl_cons]
      apply ih
      obtain ⟨d, n⟩ := acc
      dsimp only
      split
      · rename_i e hl
        split
        · exact inv_del _ _ hacc
        · exact inv_poke _ _ _ hacc (live_nonEmpty (e := e) hacc hl)
      · split
        · exact inv_del _ _ hacc
        · exact hacc
  exact key ks (db, 0) h
theorem bitfield_inv (ops : List BfOp) : (cmdBitfield c db k ops).db.Inv := by
  unfold cmdBitfield
  split
  · exact h
  · exact bitfieldParsed_inv c db k h _
theorem setbit_inv : (cmdSetBit c db k i j).db.Inv := by
  unfold cmdSetBit
  split
  · exact h
  · split
    · exact h
    · have hb := bitfieldParsed_inv c db k h [{ kind := .set, signed := false, width := 1, off := i, value := j, ov := .wrap }]
      dsimp only
      split <;> exact hb
theorem bitcount_inv (r : Option (Int × Int × Bool)) : (cmdBitCount c db k r).db.Inv := by
  unfold cmdBitCount
  split
  · exact h
  · split_ifs <;> first
      | exact h
      | (extract_lets; split_ifs <;> exact h)
  · exact h
theorem lmpop_inv : (cmdLMPop c db ks b n).db.Inv := by
  have go : ∀ ks, (cmdLMPop.go c db b n ks).db.Inv := by
    intro ks
    induction ks with
    | nil => exact h
    | cons x r ih =>
      unfold cmdLMPop.go
      split
      · exact h
      · exact ih
      · split
        · exact ih
        · dsimp only [R.ok]; exact inv_upd _ _ _ _ _ h
  unfold cmdLMPop
  exact go ks
theorem bpop_inv : (runCmd.go c b db ks).db.Inv := by
  induction ks with
  | nil => exact h
  | cons x r ih =>
    unfold runCmd.go
    split
    · exact h
    · exact ih
    · split
      · exact ih
      · dsimp only [R.ok]; exact inv_upd _ _ _ _ _ h
theorem sortFinish_inv (store : Option Bytes) (out : List Value) (hint : Match) :
    (sortFinish db store out hint).db.Inv := by
  unfold sortFinish
  split
  · exact h
  · split
    · exact inv_del _ _ h
    · rename_i hne
      refine inv_put _ _ _ _ (inv_del _ _ h) ?_
      refine nonEmpty_list ?_
      intro hn
      simp only [List.map_eq_nil_iff] at hn
      subst hn
      simp at hne
theorem sort_inv (by_ : Option Bytes) (limit : Option (Int × Int)) (gets : List Bytes) (store : Option Bytes) :
    (cmdSort c db k by_ limit gets b b2 store).db.Inv := by
  unfold cmdSort
  split
  · exact h
  · exact sortFinish_inv db h _ _ _
  · split
    · exact h
    · exact sortFinish_inv db h _ _ _

end

/-! LMOVE creates its destination (empty) before it pops: between its two halves the invariant holds for
    every key but the destination, and the push restores it. -/

/-- the invariant, except that key `k` may hold an empty aggregate -/
structure Db.InvX (k : Bytes) (db : Db) : Prop where
  unique : (db.keys.map (·.1)).Nodup
  noEmpty : ∀ p ∈ db.keys, (p.1 == k) = false → p.2.val.nonEmpty = true

theorem invx_of_inv (k : Bytes) (db : Db) (h : db.Inv) : db.InvX k := ⟨h.unique, fun p hp _ => h.noEmpty p hp⟩

theorem mem_ainsert_strong {α} (k : Bytes) (v : α) (l : List (Bytes × α)) (p : Bytes × α)
    (hu : (l.map (·.1)).Nodup) (hp : p ∈ ainsert k v l) : p = (k, v) ∨ (p ∈ l ∧ (p.1 == k) = false) := by
  induction l with
  | nil => simp [ainsert] at hp; exact Or.inl hp
  | cons q r ih =>
    obtain ⟨k', v'⟩ := q
    simp only [List.map_cons, List.nodup_cons] at hu
    by_cases hk : (k' == k) = true
    · have e : k' = k := by simpa using hk
      subst e
      simp only [ainsert, beq_self_eq_true, ↓reduceIte, List.mem_cons] at hp
      rcases hp with hp | hp
      · exact Or.inl hp
      · right
        refine ⟨List.mem_cons_of_mem _ hp, ?_⟩
        cases hpk : p.1 == k' with
        | false => rfl
        | true =>
          have : p.1 = k' := by simpa using hpk
          exact absurd (List.mem_map.mpr ⟨p, hp, this⟩) hu.1
    · simp only [ainsert, hk, Bool.false_eq_true, ↓reduceIte, List.mem_cons] at hp
      rcases hp with hp | hp
      · right
        subst hp
        exact ⟨List.mem_cons_self, by simpa using hk⟩
      · rcases ih hu.2 hp with h1 | ⟨h1, h2⟩
        · exact Or.inl h1
        · exact Or.inr ⟨List.mem_cons_of_mem _ h1, h2⟩

theorem invx_put_self (k : Bytes) (db : Db) (v : Val) (e : Option Int) (h : db.InvX k) : (db.put k v e).InvX k := by
  constructor
  · exact ainsert_keys_nodup k _ db.keys h.unique
  · intro p hp hne
    rcases mem_ainsert_strong k _ db.keys p h.unique hp with e1 | ⟨hm, _⟩
    · subst e1; simp at hne
    · exact h.noEmpty p hm hne

theorem invx_poke (k k' : Bytes) (db : Db) (e : Entry) (h : db.InvX k) (hv : e.val.nonEmpty = true) : (db.poke k' e).InvX k := by
  constructor
  · exact ainsert_keys_nodup k' _ db.keys h.unique
  · intro p hp hne
    rcases mem_ainsert k' _ db.keys p hp with e1 | hm
    · subst e1; exact hv
    · exact h.noEmpty p hm hne

theorem invx_del (k k' : Bytes) (db : Db) (h : db.InvX k) : (db.del k').InvX k := by
  unfold Db.del
  split
  · exact ⟨aerase_keys_nodup k' db.keys h.unique, fun p hp hne => h.noEmpty p (mem_aerase k' db.keys p hp) hne⟩
  · exact h

theorem invx_setDirty (k : Bytes) (db : Db) (h : db.InvX k) : db.setDirty.InvX k := ⟨h.unique, h.noEmpty⟩

theorem invx_update (k k' : Bytes) (db : Db) (e : Entry) (v : Val) (h : db.InvX k) : (db.update k' e v).InvX k := by
  unfold Db.update
  cases v with
  | str b => exact invx_setDirty _ _ (invx_poke k k' db _ h (by simp [Val.nonEmpty]))
  | corrupt f => exact invx_setDirty _ _ (invx_poke k k' db _ h (by simp [Val.nonEmpty]))
  | list l =>
    simp only
    by_cases he : l.isEmpty = true
    · simp only [he, ↓reduceIte]; exact invx_setDirty _ _ (invx_del k k' db h)
    · simp only [he, Bool.false_eq_true, ↓reduceIte]
      exact invx_setDirty _ _ (invx_poke k k' db _ h (by simp [Val.nonEmpty, he]))
  | hash l =>
    simp only
    by_cases he : l.isEmpty = true
    · simp only [he, ↓reduceIte]; exact invx_setDirty _ _ (invx_del k k' db h)
    · simp only [he, Bool.false_eq_true, ↓reduceIte]
      exact invx_setDirty _ _ (invx_poke k k' db _ h (by simp [Val.nonEmpty, he]))
  | set l =>
    simp only
    by_cases he : l.isEmpty = true
    · simp only [he, ↓reduceIte]; exact invx_setDirty _ _ (invx_del k k' db h)
    · simp only [he, Bool.false_eq_true, ↓reduceIte]
      exact invx_setDirty _ _ (invx_poke k k' db _ h (by simp [Val.nonEmpty, he]))

theorem bump_invx (k : Bytes) (c : Ctx) (db : Db) (e : Entry) (h : db.InvX k) : (bump c db e).1.InvX k := by
  unfold bump; split
  · exact h
  · exact ⟨h.unique, h.noEmpty⟩

theorem invx_upd (k k' : Bytes) (c : Ctx) (db : Db) (e : Entry) (v : Val) (h : db.InvX k) : (upd c db k' e v).InvX k := by
  unfold upd
  exact invx_update k k' _ _ _ (bump_invx k c db e h)

/-- the push into the destination restores the full invariant -/
theorem inv_of_invx_poke (k : Bytes) (db : Db) (e : Entry) (h : db.InvX k) (hv : e.val.nonEmpty = true) : (db.poke k e).Inv := by
  constructor
  · exact ainsert_keys_nodup k _ db.keys h.unique
  · intro p hp
    rcases mem_ainsert_strong k _ db.keys p h.unique hp with e1 | ⟨hm, hne⟩
    · subst e1; exact hv
    · exact h.noEmpty p hm hne

theorem lmove_inv (c : Ctx) (db : Db) (k k2 : Bytes) (b b2 : Bool) (h : db.Inv) : (cmdLMove c db k k2 b b2).db.Inv := by
  unfold cmdLMove
  split
  · exact h
  · exact h
  · split
    · exact h
    · dsimp only
      split
      · exact h
      · split
        · repeat' (first | exact h | exact inv_setDirty _ (inv_del _ _ h) | exact inv_upd _ _ _ _ _ h | split | dsimp only)
        · -- destination created if missing, source updated, destination pushed
          have h1 : (match (‹Option (Entry × List Bytes)› : Option (Entry × List Bytes)) with
              | none => db.put k2 (.list []) none
              | some _ => db).InvX k2 := by
            split
            · exact invx_put_self k2 db _ _ (invx_of_inv k2 db h)
            · exact invx_of_inv k2 db h
          have h2 := invx_upd k2 k c _ ‹Entry› (.list (if b = true then List.drop 1 ‹List Bytes› else (‹List Bytes›).dropLast)) h1
          split
          · rename_i de hde
            have h3 := bump_invx k2 c _ de h2
            refine inv_setDirty _ (inv_of_invx_poke k2 _ _ h3 ?_)
            dsimp only
            split
            · rfl
            · refine nonEmpty_list ?_; simp
          · exact h

/-- what the argument parser guarantees about the element lists of the creating commands -/
def Cmd.wf : Cmd → Bool
  | .push _ vs _ _ => !vs.isEmpty
  | .hset _ fvs _ _ => !fvs.isEmpty
  | .sadd _ ms => !ms.isEmpty
  | _ => true

theorem ite_some_cases {α} {c : Prop} [Decidable c] {t e : Option α} {r : α} (h : (if c then t else e) = some r) :
    (c ∧ t = some r) ∨ (¬c ∧ e = some r) := by
  split at h
  · exact Or.inl ⟨‹_›, h⟩
  · exact Or.inr ⟨‹_›, h⟩

/-- every command an optional parse result may hold is well-formed -/
def wfO (o : Option Cmd) : Prop := ∀ c, o = some c → c.wf = true
theorem wfO_none : wfO none := fun _ h => by cases h
theorem wfO_some {c : Cmd} (h : c.wf = true) : wfO (some c) := fun _ e => by cases e; exact h
theorem wfO_pure {c : Cmd} (h : c.wf = true) : wfO (pure c) := wfO_some h
theorem wfO_map {α} {x : Option α} {f : α → Cmd} (h : ∀ a, (f a).wf = true) : wfO (x.map f) := by
  intro c e
  cases x with
  | none => cases e
  | some a => cases e; exact h a
theorem wfO_bind {α} {x : Option α} {f : α → Option Cmd} (h : ∀ a, wfO (f a)) : wfO (x >>= f) := by
  intro c e
  cases x with
  | none => cases e
  | some a => exact h a c e
theorem wfO_bind' {α} {x : Option α} {f : α → Option Cmd} (h : ∀ a, wfO (f a)) : wfO (x.bind f) := by
  intro c e
  cases x with
  | none => cases e
  | some a => exact h a c e
theorem wfO_ite {p : Prop} [Decidable p] {a b : Option Cmd} (ha : wfO a) (hb : wfO b) : wfO (if p then a else b) := by
  split <;> assumption

theorem wfO_hset (k f v : Bytes) (r : List Bytes) (x y : Bool) :
    wfO (Option.map (fun fvs => Cmd.hset k fvs x y) (pairsOf (f :: v :: r))) := by
  intro c e
  unfold pairsOf at e
  cases hp : pairsOf r with
  | none => rw [hp] at e; cases e
  | some l => rw [hp] at e; cases e; rfl

macro "wf_leaf0" : tactic => `(tactic| (repeat' (first
  | exact wfO_none
  | exact wfO_some rfl
  | exact wfO_pure rfl
  | (refine wfO_map fun _ => rfl)
  | (refine wfO_bind fun _ => ?_)
  | (refine wfO_bind' fun _ => ?_)
  | (refine wfO_ite ?_ ?_)
  | split
  | dsimp only)))

/-- LMPOP's argument list (also BLMPOP's after the timeout) never yields a creating command -/
theorem wfO_parseLmpop (a : List Bytes) : wfO (parseLmpop a) := by
  unfold parseLmpop
  wf_leaf0

macro "wf_leaf" : tactic => `(tactic| (repeat' (first
  | exact wfO_none
  | exact wfO_parseLmpop _
  | exact wfO_hset _ _ _ _ _ _
  | exact wfO_some rfl
  | exact wfO_pure rfl
  | (refine wfO_map fun _ => rfl)
  | (refine wfO_bind fun _ => ?_)
  | (refine wfO_bind' fun _ => ?_)
  | (refine wfO_ite ?_ ?_)
  | split
  | dsimp only)))

theorem parseCmd_wf (name : Bytes) (args : List Bytes) (cmd : Cmd) (h : parseCmd name args = some cmd) :
    cmd.wf = true := by
  unfold parseCmd at h
  extract_lets n at h
  iterate 107 ((rcases ite_some_cases h with ⟨-, h'⟩ | ⟨-, h'⟩ <;> clear h <;> (have h := h'; clear h')); rotate_left)
  · cases h
  all_goals (refine (?_ : wfO _) cmd h; clear h)
  all_goals wf_leaf


theorem parseCmdQ_wf (q : Quirks) (name : Bytes) (args : List Bytes) (cmd : Cmd) (h : parseCmdQ q name args = some cmd) :
    cmd.wf = true := by
  unfold parseCmdQ at h
  split at h
  · unfold sintercardByNumkeys at h
    refine (?_ : wfO _) cmd h
    wf_leaf
  · exact parseCmd_wf name args cmd h

/-! ### every command keeps the invariant, in every database of the server -/

/-- every database of the server satisfies the invariant -/
def State.KInv (s : State) : Prop := ∀ r, (s.getDb r).Inv

theorem kinv_init : ({} : State).KInv := fun r => by
  have : ({} : State).getDb r = {} := by simp [State.getDb]
  rw [this]; exact inv_init

theorem kinv_of_getDb_eq (s s' : State) (hs : s.KInv) (h : ∀ r, s'.getDb r = s.getDb r) : s'.KInv := by
  intro r; rw [h r]; exact hs r

theorem onDb_kinv (s : State) (ref : Nat) (f : Db → R) (hs : s.KInv) (h : (f (s.getDb ref)).db.Inv) :
    (onDb s ref f).st.KInv := by
  intro r
  unfold onDb
  by_cases e : (ref == r) = true
  · have : ref = r := by simpa using e
    subst this
    simp only [getDb_setDb_self]
    exact h
  · simp only [getDb_setDb_ne _ _ _ _ (by simpa using e)]
    exact hs r

theorem getDb_flush_heap (s : State) (r : Nat) :
    ({ s with heap := s.heap.map fun (p : Nat × Db) => (p.1, ({ keys := [], nextId := p.2.nextId, dirty := false } : Db)) } : State).getDb r
      = { keys := [], nextId := (s.getDb r).nextId, dirty := false } := by
  simp only [State.getDb]
  induction s.heap with
  | nil => rfl
  | cons p t ih =>
    simp only [List.map_cons, List.find?_cons]
    split
    · rfl
    · exact ih

theorem inv_flushed (n : Nat) : ({ keys := [], nextId := n, dirty := false } : Db).Inv := ⟨by simp, by simp⟩

/-- **No empty key, no duplicate key — after any command.** Every command the argument parser can
    produce (`parseCmdQ_wf`), with any arguments, on any state whose databases satisfy the invariant,
    leaves every database of the server with unique keys and without an empty list, hash or set —
    however the last element went (pop, LREM, LTRIM, LMOVE, SREM, SMOVE, HDEL, SPOP-like paths, STORE forms
    with an empty result, SORT … STORE of nothing). -/
theorem runCmd_inv (c : Ctx) (s : State) (conn ref : Nat) (m : Bool) (cmd : Cmd) (hw : cmd.wf = true)
    (hs : s.KInv) : (runCmd c s conn ref m cmd).st.KInv := by
  cases cmd
  case copy a b rep dbOpt =>
    simp only [runCmd]
    split
    · exact hs
    · exact onDb_kinv s ref _ hs (copy_inv (h := hs ref) ..)
  case lmpop nk ks l cnt =>
    simp only [runCmd]
    split
    · exact hs
    · split
      · exact hs
      · exact onDb_kinv s ref _ hs (lmpop_inv (h := hs ref) ..)
  case set a0 a1 a2 a3 => simp only [runCmd]; exact onDb_kinv s ref _ hs (set_inv (h := hs ref) ..)
  case append a0 a1 => simp only [runCmd]; exact onDb_kinv s ref _ hs (append_inv (h := hs ref) ..)
  case get a0 => simp only [runCmd]; exact onDb_kinv s ref _ hs (get_inv (h := hs ref) ..)
  case getdel a0 => simp only [runCmd]; exact onDb_kinv s ref _ hs (getdel_inv (h := hs ref) ..)
  case getex a0 a1 => simp only [runCmd]; exact onDb_kinv s ref _ hs (getex_inv (h := hs ref) ..)
  case strlen a0 => simp only [runCmd]; exact onDb_kinv s ref _ hs (strlen_inv (h := hs ref) ..)
  case getrange a0 a1 a2 => simp only [runCmd]; exact onDb_kinv s ref _ hs (getrange_inv (h := hs ref) ..)
  case setrange a0 a1 a2 => simp only [runCmd]; exact onDb_kinv s ref _ hs (setrange_inv (h := hs ref) ..)
  case incrby a0 a1 => simp only [runCmd]; exact onDb_kinv s ref _ hs (incrby_inv (h := hs ref) ..)
  case decrby a0 a1 => simp only [runCmd]; exact onDb_kinv s ref _ hs (decrby_inv (h := hs ref) ..)
  case incrbyfloat a0 a1 => simp only [runCmd]; exact onDb_kinv s ref _ hs (incrbyfloat_inv (h := hs ref) ..)
  case mget a0 => simp only [runCmd]; exact onDb_kinv s ref _ hs (mget_inv (h := hs ref) ..)
  case mset a0 a1 => simp only [runCmd]; exact onDb_kinv s ref _ hs (mset_inv (h := hs ref) ..)
  case push a0 a1 a2 a3 => simp only [runCmd]; exact onDb_kinv s ref _ hs (push_inv (h := hs ref) (hks := by simpa [Cmd.wf] using hw) ..)
  case pop a0 a1 a2 => simp only [runCmd]; exact onDb_kinv s ref _ hs (by apply inv_pop; exact hs ref)
  case llen a0 => simp only [runCmd]; exact onDb_kinv s ref _ hs (llen_inv (h := hs ref) ..)
  case lindex a0 a1 => simp only [runCmd]; exact onDb_kinv s ref _ hs (lindex_inv (h := hs ref) ..)
  case lrange a0 a1 a2 => simp only [runCmd]; exact onDb_kinv s ref _ hs (lrange_inv (h := hs ref) ..)
  case lset a0 a1 a2 => simp only [runCmd]; exact onDb_kinv s ref _ hs (lset_inv (h := hs ref) ..)
  case linsert a0 a1 a2 a3 => simp only [runCmd]; exact onDb_kinv s ref _ hs (linsert_inv (h := hs ref) ..)
  case lrem a0 a1 a2 => simp only [runCmd]; exact onDb_kinv s ref _ hs (by apply inv_lrem; exact hs ref)
  case ltrim a0 a1 a2 => simp only [runCmd]; exact onDb_kinv s ref _ hs (by apply inv_ltrim; exact hs ref)
  case lpos a0 a1 a2 a3 a4 => simp only [runCmd]; exact onDb_kinv s ref _ hs (lpos_inv (h := hs ref) ..)
  case lmove a0 a1 a2 a3 => simp only [runCmd]; exact onDb_kinv s ref _ hs (lmove_inv _ _ _ _ _ _ (hs ref))
  case hset a0 a1 a2 a3 => simp only [runCmd]; exact onDb_kinv s ref _ hs (hset_inv (h := hs ref) (hkvs := by simpa [Cmd.wf] using hw) ..)
  case hget a0 a1 => simp only [runCmd]; exact onDb_kinv s ref _ hs (hget_inv (h := hs ref) ..)
  case hmget a0 a1 => simp only [runCmd]; exact onDb_kinv s ref _ hs (hmget_inv (h := hs ref) ..)
  case hgetall a0 => simp only [runCmd]; exact onDb_kinv s ref _ hs (hgetall_inv (h := hs ref) ..)
  case hkeys a0 a1 => simp only [runCmd]; exact onDb_kinv s ref _ hs (hkeys_inv (h := hs ref) ..)
  case hlen a0 => simp only [runCmd]; exact onDb_kinv s ref _ hs (hlen_inv (h := hs ref) ..)
  case hexists a0 a1 => simp only [runCmd]; exact onDb_kinv s ref _ hs (hexists_inv (h := hs ref) ..)
  case hstrlen a0 a1 => simp only [runCmd]; exact onDb_kinv s ref _ hs (hstrlen_inv (h := hs ref) ..)
  case hdel a0 a1 => simp only [runCmd]; exact onDb_kinv s ref _ hs (by apply inv_hdel; exact hs ref)
  case hincrby a0 a1 a2 => simp only [runCmd]; exact onDb_kinv s ref _ hs (hincrby_inv (h := hs ref) ..)
  case hincrbyfloat a0 a1 a2 => simp only [runCmd]; exact onDb_kinv s ref _ hs (hincrbyfloat_inv (h := hs ref) ..)
  case sadd a0 a1 => simp only [runCmd]; exact onDb_kinv s ref _ hs (sadd_inv (h := hs ref) (hks := by simpa [Cmd.wf] using hw) ..)
  case srem a0 a1 => simp only [runCmd]; exact onDb_kinv s ref _ hs (by apply inv_srem; exact hs ref)
  case scard a0 => simp only [runCmd]; exact onDb_kinv s ref _ hs (scard_inv (h := hs ref) ..)
  case sismember a0 a1 => simp only [runCmd]; exact onDb_kinv s ref _ hs (sismember_inv (h := hs ref) ..)
  case smismember a0 a1 => simp only [runCmd]; exact onDb_kinv s ref _ hs (smismember_inv (h := hs ref) ..)
  case smembers a0 => simp only [runCmd]; exact onDb_kinv s ref _ hs (smembers_inv (h := hs ref) ..)
  case smove a0 a1 a2 => simp only [runCmd]; exact onDb_kinv s ref _ hs (smove_inv (h := hs ref) ..)
  case salg a0 a1 => simp only [runCmd]; exact onDb_kinv s ref _ hs (setalgebra_inv (h := hs ref) ..)
  case salgStore a0 a1 a2 => simp only [runCmd]; exact onDb_kinv s ref _ hs (setalgebrastore_inv (h := hs ref) ..)
  case sintercard a0 a1 a2 => simp only [runCmd]; exact onDb_kinv s ref _ hs (sintercard_inv (h := hs ref) ..)
  case del a0 a1 => simp only [runCmd]; exact onDb_kinv s ref _ hs (del_inv (h := hs ref) ..)
  case exists_ a0 => simp only [runCmd]; exact onDb_kinv s ref _ hs (exists_inv (h := hs ref) ..)
  case touch a0 => simp only [runCmd]; exact onDb_kinv s ref _ hs (exists_inv (h := hs ref) ..)
  case type_ a0 => simp only [runCmd]; exact onDb_kinv s ref _ hs (type_inv (h := hs ref) ..)
  case rename a0 a1 a2 => simp only [runCmd]; exact onDb_kinv s ref _ hs (rename_inv (h := hs ref) ..)
  case sort a0 a1 a2 a3 a4 a5 a6 => simp only [runCmd]; exact onDb_kinv s ref _ hs (sort_inv (h := hs ref) ..)
  case persist a0 => simp only [runCmd]; exact onDb_kinv s ref _ hs (persist_inv (h := hs ref) ..)
  case ttl a0 a1 => simp only [runCmd]; exact onDb_kinv s ref _ hs (ttl_inv (h := hs ref) ..)
  case getbit a0 a1 => simp only [runCmd]; exact onDb_kinv s ref _ hs (getbit_inv (h := hs ref) ..)
  case setbit a0 a1 a2 => simp only [runCmd]; exact onDb_kinv s ref _ hs (setbit_inv (h := hs ref) ..)
  case bitcount a0 a1 => simp only [runCmd]; exact onDb_kinv s ref _ hs (bitcount_inv (h := hs ref) ..)
  case bitpos a0 a1 a2 a3 => simp only [runCmd]; exact onDb_kinv s ref _ hs (bitpos_inv (h := hs ref) ..)
  case bitop a0 a1 a2 => simp only [runCmd]; exact onDb_kinv s ref _ hs (bitop_inv (h := hs ref) ..)
  case bitfield a0 a1 a2 => simp only [runCmd]; exact onDb_kinv s ref _ hs (bitfield_inv (h := hs ref) ..)
  case expire k n u a o => simp only [runCmd]; exact onDb_kinv s ref _ hs (expireat_inv (h := hs ref) ..)
  case bpop ks l => simp only [runCmd]; exact onDb_kinv s ref _ hs (bpop_inv (h := hs ref) ..)
  case select i =>
    simp only [runCmd]
    split
    · exact hs
    · apply kinv_of_getDb_eq s _ hs
      intro r
      simp only [getDb_setSession]
      exact getDb_tableRef s _ r
  case flushdb =>
    simp only [runCmd]
    split
    · apply kinv_of_getDb_eq s _ hs
      intro r
      simp only [getDb_setSession]
      rw [getDb_tableRef]
      rfl
    · intro r
      by_cases e : ((s.tableRef (s.session conn).dbIdx).2 == r) = true
      · have : (s.tableRef (s.session conn).dbIdx).2 = r := by simpa using e
        subst this
        simp only [getDb_setDb_self]
        exact inv_flushed _
      · simp only [getDb_setDb_ne _ _ _ _ (by simpa using e)]
        rw [getDb_tableRef]
        exact hs r
  case flushall =>
    simp only [runCmd]
    split
    · apply kinv_of_getDb_eq s _ hs
      intro r
      simp only [getDb_setSession]
      rw [getDb_tableRef]
      rfl
    · intro r
      rw [getDb_flush_heap]
      exact inv_flushed _
  case watch ks =>
    simp only [runCmd]
    split
    · exact hs
    · exact kinv_of_getDb_eq s _ hs (fun r => getDb_setSession _ _ _ r)
  case unwatch => exact kinv_of_getDb_eq s _ hs (fun r => getDb_setSession _ _ _ r)
  case hello v =>
    simp only [runCmd]
    split
    · split
      · exact hs
      · exact kinv_of_getDb_eq s _ hs (fun r => getDb_setSession _ _ _ r)
    · exact hs
  case clientSetname nm =>
    simp only [runCmd]
    split
    · exact hs
    · exact kinv_of_getDb_eq s _ hs (fun r => getDb_setSession _ _ _ r)
  case ping o => cases o <;> exact hs
  case dbsize => simp only [runCmd]; exact hs
  all_goals
    simp only [runCmd]
    first
      | exact hs
      | (apply onDb_kinv s ref _ hs; have h := hs ref; keepinv)


/-- any history of commands the parser can produce keeps the invariant in every database -/
theorem runEvents_inv (evs : List Ev) : ∀ (s : State), s.KInv → (∀ e ∈ evs, e.cmd.wf = true) →
    (runEvents s evs).KInv := by
  induction evs with
  | nil => intro s hs _; exact hs
  | cons e r ih =>
    intro s hs hw
    exact ih _ (runCmd_inv e.c s e.conn e.ref e.inMulti e.cmd (hw e List.mem_cons_self) hs)
      (fun e' he' => hw e' (List.mem_cons_of_mem _ he'))

/-- **A list, hash or set never exists empty** — in any database, after any history of commands
    starting from the empty server: whatever is stored under a key has at least one element, and no key
    is stored twice. -/
theorem reachable_no_empty_key (evs : List Ev) (hw : ∀ e ∈ evs, e.cmd.wf = true) (r : Nat) (k : Bytes) (e : Entry)
    (now : Int) (h : ((runEvents {} evs).getDb r).live now k = some e) : e.val.nonEmpty = true :=
  live_nonEmpty (runEvents_inv evs {} kinv_init hw r) h

end RedisEmu
