import RedisEmu.Dict
import RedisEmu.Proofs.Rev
import RedisEmu.Proofs.DictWF
import RedisEmu.Proofs.GoArithDict
import Mathlib.Tactic.SplitIfs
/-
  C17 — SCAN / HSCAN / SSCAN. Theorems about `RedisEmu.Dict` (tied to `redisDict.go` /
  `dictScanUnlocked` by the exact-layout correspondence of the `scan` harness tool).

  The environment between two calls of an iteration is modelled as *any* well-formed table of *any*
  size in which the element under consideration is still stored: this covers every history of
  insertions, deletions, doublings and halvings.
-/
namespace RedisEmu

/-- table invariant: `2^k` buckets and every item sits in the bucket of its hash -/
structure Dict.WF (d : Dict) : Prop where
  size : d.buckets.size = 2 ^ d.k
  place : ∀ i it, d.slot i = some it → bucketOf d.k it.hash = i

/-- the item is stored (necessarily in its own bucket) -/
def Dict.Holds (d : Dict) (x : Item) : Prop := d.slot (bucketOf d.k x.hash) = some x

theorem bucketOf_eq (k h : Nat) : bucketOf k h = rev k h := by
  unfold bucketOf; exact rev_mod k h

theorem rev_zero (k : Nat) : rev k 0 = 0 := by
  induction k with
  | zero => rfl
  | succ k ih => simp [rev, ih]

/-- the cursor has not passed the item's bucket — in a table of any size -/
def Ahead (c : Nat) (x : Item) : Prop := ∀ k, rev k (c % 2 ^ k) ≤ rev k x.hash

theorem ahead_zero (x : Item) : Ahead 0 x := by
  intro k; simp [rev_zero]

/-- A cursor produced at position `p` of a table of size `2^k`, with the item's bucket at or after
    `p`, is still before (or at) the item's bucket in every table the item may later live in: larger
    (buckets were split) or smaller (buckets were merged). -/
theorem ahead_of_position (k p : Nat) (x : Item) (hp : p < 2 ^ k) (hle : p ≤ rev k x.hash) :
    Ahead (rev k p) x := by
  intro k'
  have hc : rev k p < 2 ^ k := rev_lt k p
  rcases Nat.le_total k k' with h | h
  · -- the table grew by d doublings
    obtain ⟨d, rfl⟩ := Nat.exists_eq_add_of_le h
    have hlt : rev k p < 2 ^ (k + d) :=
      Nat.lt_of_lt_of_le hc (Nat.pow_le_pow_right (by omega) (by omega))
    rw [Nat.mod_eq_of_lt hlt, rev_grow k d _ hc, rev_rev_of_lt k p hp]
    have := rev_shrink k d x.hash
    rw [this] at hle
    exact (Nat.le_div_iff_mul_le (Nat.two_pow_pos d)).mp hle
  · -- the table shrank by d halvings
    obtain ⟨d, rfl⟩ := Nat.exists_eq_add_of_le h
    rw [rev_mod, rev_shrink k' d (rev (k' + d) p), rev_rev_of_lt _ p hp, rev_shrink k' d x.hash]
    exact Nat.div_le_div_right hle

/-! ### one call -/

theorem nextOcc_spec (d : Dict) : ∀ (fuel i : Nat), d.size ≤ i + fuel → i ≤ d.size →
    i ≤ nextOcc d fuel i ∧ nextOcc d fuel i ≤ d.size ∧
    (∀ j, i ≤ j → j < nextOcc d fuel i → d.slot j = none) ∧
    (nextOcc d fuel i < d.size → (d.slot (nextOcc d fuel i)).isSome = true) := by
  intro fuel
  induction fuel with
  | zero =>
    intro i h1 h2
    have : i = d.size := by omega
    subst this
    simp only [nextOcc, Nat.le_refl, Nat.lt_irrefl, false_imp_iff, and_true, true_and]
    intro j a b; omega
  | succ fuel ih =>
    intro i h1 h2
    unfold nextOcc
    split_ifs with ha hb
    · have : i = d.size := by omega
      subst this
      exact ⟨Nat.le_refl _, Nat.le_refl _, fun j h3 h4 => by omega, fun h => by omega⟩
    · exact ⟨Nat.le_refl _, by omega, fun j h3 h4 => by omega, fun _ => hb⟩
    · have hi : i < d.size := by omega
      obtain ⟨r1, r2, r3, r4⟩ := ih (i + 1) (by omega) (by omega)
      refine ⟨by omega, r2, ?_, r4⟩
      intro j h3 h4
      by_cases hj : j = i
      · subst hj
        cases hs : d.slot j with
        | none => rfl
        | some v => simp [hs] at hb
      · exact r3 j (by omega) h4

/-- The scan loop from position `p`: an item stored at or after `p` that the filter accepts is
    either among the emitted keys, or the returned position is still at or before its bucket
    (and inside the table). -/
theorem scanFrom_spec (d : Dict) (f : Bytes → Bool) (x : Item) (hwf : d.WF) (hx : d.Holds x)
    (hf : f x.key = true) :
    ∀ (fuel count p : Nat) (acc : List Bytes), d.size < p + fuel → 1 ≤ count →
      p ≤ bucketOf d.k x.hash →
      x.key ∈ (scanFrom d f fuel count p acc).2 ∨
      ((scanFrom d f fuel count p acc).1 ≤ bucketOf d.k x.hash ∧ (scanFrom d f fuel count p acc).1 < d.size) := by
  have hb : bucketOf d.k x.hash < d.size := by
    rw [bucketOf_eq]; exact rev_lt d.k x.hash
  intro fuel
  induction fuel with
  | zero => intro count p acc h1; omega
  | succ fuel ih =>
    intro count p acc h1 hc hp
    obtain ⟨count, rfl⟩ : ∃ c, count = c + 1 := ⟨count - 1, by omega⟩
    unfold scanFrom
    simp only
    -- the next occupied bucket after p
    obtain ⟨n1, n2, n3, n4⟩ := nextOcc_spec d d.size (p + 1) (by omega) (by omega)
    by_cases hat : p = bucketOf d.k x.hash
    · -- the item's own bucket is visited now: its key is emitted
      have hs : d.slot p = some x := by rw [hat]; exact hx
      simp only [hs, hf, ↓reduceIte]
      left
      split_ifs
      · simp
      · -- whatever happens afterwards, the key is already in the accumulator
        have : ∀ (fu c q : Nat) (a : List Bytes), x.key ∈ a → x.key ∈ (scanFrom d f fu c q a).2 := by
          intro fu
          induction fu with
          | zero => intro c q a ha; simp [scanFrom, ha]
          | succ fu ih2 =>
            intro c q a ha
            cases c with
            | zero => simp [scanFrom, ha]
            | succ c =>
              unfold scanFrom
              simp only
              split_ifs
              · cases hq : d.slot q with
                | none => simp [ha]
                | some it => by_cases hfi : f it.key = true <;> simp [hfi, ha]
              · cases hq : d.slot q with
                | none => exact ih2 _ _ _ ha
                | some it =>
                  by_cases hfi : f it.key = true
                  · simp only [hfi, ↓reduceIte]; exact ih2 _ _ _ (List.mem_cons_of_mem _ ha)
                  · simp only [hfi, Bool.false_eq_true, ↓reduceIte]; exact ih2 _ _ _ ha
        exact this _ _ _ _ List.mem_cons_self
    · -- the item's bucket lies strictly ahead: the next occupied bucket is at or before it
      have hlt : p < bucketOf d.k x.hash := by omega
      have hnext : nextOcc d d.size (p + 1) ≤ bucketOf d.k x.hash := by
        rcases Nat.lt_or_ge (bucketOf d.k x.hash) (nextOcc d d.size (p + 1)) with hcon | hcon
        · have := n3 (bucketOf d.k x.hash) (by omega) hcon
          rw [hx] at this; cases this
        · exact hcon
      have hin : ¬ (nextOcc d d.size (p + 1) ≥ d.size) := by omega
      simp only [hin, ↓reduceIte]
      -- continue from the next occupied bucket with the remaining count
      cases hq : d.slot p with
      | none =>
        simp only
        exact ih (count + 1) _ _ (by omega) (by omega) hnext
      | some it =>
        by_cases hfi : f it.key = true
        · simp only [hfi, ↓reduceIte]
          cases count with
          | zero =>
            -- the requested number of keys is reached: the returned position is the next bucket
            right
            cases fuel with
            | zero => simp [scanFrom]; omega
            | succ fuel => simp [scanFrom]; omega
          | succ count => exact ih (count + 1) _ _ (by omega) (by omega) hnext
        · simp only [hfi, Bool.false_eq_true, ↓reduceIte]
          exact ih (count + 1) _ _ (by omega) (by omega) hnext

/-- the loop always returns a position strictly after the one it started from -/
theorem scanFrom_advances (d : Dict) (f : Bytes → Bool) : ∀ (fuel count p : Nat) (acc : List Bytes),
    1 ≤ fuel → 1 ≤ count → p < d.size → p < (scanFrom d f fuel count p acc).1 := by
  intro fuel
  induction fuel with
  | zero => intro _ _ _ h; omega
  | succ fuel ih =>
    intro count p acc _ hc hps
    obtain ⟨count, rfl⟩ : ∃ c, count = c + 1 := ⟨count - 1, by omega⟩
    unfold scanFrom
    simp only
    obtain ⟨n1, n2, _, _⟩ := nextOcc_spec d d.size (p + 1) (by omega) (by omega)
    split_ifs with hge
    · simp; omega
    · have hlt2 : nextOcc d d.size (p + 1) < d.size := by omega
      cases fuel with
      | zero =>
        cases hq : d.slot p with
        | none => simp [scanFrom]; omega
        | some it => by_cases hfi : f it.key = true <;> simp [hfi, scanFrom] <;> omega
      | succ fuel =>
        cases hq : d.slot p with
        | none =>
          simp only
          have := ih (count + 1) _ acc (by omega) (by omega) hlt2
          omega
        | some it =>
          by_cases hfi : f it.key = true
          · simp only [hfi, ↓reduceIte]
            cases count with
            | zero => simp [scanFrom]; omega
            | succ count =>
              have := ih (count + 1) _ (it.key :: acc) (by omega) (by omega) hlt2
              omega
          · simp only [hfi, Bool.false_eq_true, ↓reduceIte]
            have := ih (count + 1) _ acc (by omega) (by omega) hlt2
            omega

/-- **Termination on a quiet table.** Each call either finishes the iteration (cursor 0) or moves
    the position strictly forward; positions are below the table size `2^k`, so an iteration over an
    unchanged table ends after at most `2^k` calls, whatever COUNT and filter are used. -/
theorem scan_progress (d : Dict) (f : Bytes → Bool) (c n : Nat) (hn : 1 ≤ n) :
    (d.scan f c n).1 = 0 ∨ posOf d c < posOf d (d.scan f c n).1 := by
  unfold Dict.scan
  simp only
  have hstart : posOf d c < d.size := by unfold posOf; exact rev_lt _ _
  have hadv := scanFrom_advances d f (d.size + 1) n (posOf d c) [] (by omega) hn hstart
  generalize (scanFrom d f (d.size + 1) n (posOf d c) []).1 = p' at hadv ⊢
  unfold cursorOf
  split_ifs with hge
  · left; rfl
  · right
    have hlt : p' < 2 ^ d.k := by
      have : d.size = 2 ^ d.k := rfl
      omega
    have e : posOf d (rev d.k p') = p' := by
      unfold posOf
      rw [Nat.mod_eq_of_lt (rev_lt _ _), rev_rev_of_lt _ _ hlt]
    rw [e]
    exact hadv

/-- One SCAN call on any well-formed table holding `x`, from a cursor that has not passed `x`:
    either `x` is returned by this call, or the returned cursor is non-zero and still has not
    passed `x` — in this table and in every other table `x` may be found in next time. -/
theorem scan_call (d : Dict) (f : Bytes → Bool) (x : Item) (c n : Nat) (hwf : d.WF) (hx : d.Holds x)
    (hf : f x.key = true) (hn : 1 ≤ n) (ha : Ahead c x) :
    x.key ∈ (d.scan f c n).2 ∨ ((d.scan f c n).1 ≠ 0 ∧ Ahead (d.scan f c n).1 x) := by
  unfold Dict.scan
  have hp : posOf d c ≤ bucketOf d.k x.hash := by
    unfold posOf; rw [bucketOf_eq]; exact ha d.k
  rcases scanFrom_spec d f x hwf hx hf (d.size + 1) n (posOf d c) [] (by omega) hn hp with h | ⟨h1, h2⟩
  · left; exact h
  · right
    simp only
    unfold cursorOf
    have hnot : ¬ ((scanFrom d f (d.size + 1) n (posOf d c) []).1 ≥ d.size) := by omega
    simp only [hnot, ↓reduceIte]
    have hlt : (scanFrom d f (d.size + 1) n (posOf d c) []).1 < 2 ^ d.k := h2
    rw [bucketOf_eq] at h1
    constructor
    · -- a zero cursor would denote position 0 … but then position ≤ bucket is all we need; non-zero
      -- follows because the loop always moves past the starting bucket
      intro hz
      -- rev k p' = 0 with p' < 2^k means p' = 0, impossible: p' ≥ start + 1
      have hp0 : (scanFrom d f (d.size + 1) n (posOf d c) []).1 = 0 := by
        have := rev_rev_of_lt d.k _ hlt
        rw [hz, rev_zero] at this; exact this.symm
      have hstart : posOf d c < d.size := by unfold posOf; exact rev_lt _ _
      have := scanFrom_advances d f (d.size + 1) n (posOf d c) [] (by omega) hn hstart
      omega
    · exact ahead_of_position d.k _ x hlt h1

/-! ### a whole iteration, with arbitrary table changes between the calls -/

/-- thread the cursor through a sequence of calls; each call sees its own table and COUNT -/
def iterate (f : Bytes → Bool) : List (Dict × Nat) → Nat → List Bytes → Nat × List Bytes
  | [], c, acc => (c, acc)
  | (d, n) :: rest, c, acc =>
    let (c', ks) := d.scan f c n
    iterate f rest c' (acc ++ ks)

/-- what is known about `x` after some calls: already returned, or the cursor has not passed it
    (and, once a call has been made, the cursor is not the terminating 0) -/
def Good (x : Item) (c : Nat) (acc : List Bytes) (started : Prop) : Prop :=
  x.key ∈ acc ∨ (Ahead c x ∧ (started → c ≠ 0))

theorem iterate_good (f : Bytes → Bool) (x : Item) (hf : f x.key = true) :
    ∀ (calls : List (Dict × Nat)) (c : Nat) (acc : List Bytes) (started : Prop),
      (∀ p ∈ calls, p.1.WF ∧ p.1.Holds x ∧ 1 ≤ p.2) →
      Good x c acc started →
      Good x (iterate f calls c acc).1 (iterate f calls c acc).2 (started ∨ calls ≠ []) := by
  intro calls
  induction calls with
  | nil =>
    intro c acc started _ h
    rcases h with h | ⟨h1, h2⟩
    · exact Or.inl h
    · exact Or.inr ⟨h1, fun hs => h2 (hs.resolve_right (by simp))⟩
  | cons p rest ih =>
    intro c acc started hall h
    obtain ⟨d, n⟩ := p
    obtain ⟨hwf, hx, hn⟩ := hall (d, n) List.mem_cons_self
    have hrest : ∀ q ∈ rest, q.1.WF ∧ q.1.Holds x ∧ 1 ≤ q.2 := fun q hq => hall q (List.mem_cons_of_mem _ hq)
    unfold iterate
    simp only
    -- after this call: returned, or a non-zero cursor that has not passed x
    have hstep : Good x (d.scan f c n).1 (acc ++ (d.scan f c n).2) True := by
      rcases h with h | ⟨h1, _⟩
      · exact Or.inl (List.mem_append_left _ h)
      · rcases scan_call d f x c n hwf hx hf hn h1 with r | ⟨r1, r2⟩
        · exact Or.inl (List.mem_append_right _ r)
        · exact Or.inr ⟨r2, fun _ => r1⟩
    rcases ih (d.scan f c n).1 (acc ++ (d.scan f c n).2) True hrest hstep with r | ⟨r1, r2⟩
    · exact Or.inl r
    · exact Or.inr ⟨r1, fun _ => r2 (Or.inl trivial)⟩

/-- **SCAN completeness.** Start with cursor 0 and feed every returned cursor back, each call seeing
    an arbitrary well-formed table (of any size: grown, shrunk, with any other elements added or
    removed) and any COUNT ≥ 1. If the element `x` is stored in every one of those tables and passes
    the filter, then when the cursor comes back as 0 the key of `x` has been returned at least once. -/
theorem scan_complete (f : Bytes → Bool) (x : Item) (hf : f x.key = true)
    (calls : List (Dict × Nat)) (hne : calls ≠ [])
    (hall : ∀ p ∈ calls, p.1.WF ∧ p.1.Holds x ∧ 1 ≤ p.2)
    (hdone : (iterate f calls 0 []).1 = 0) :
    x.key ∈ (iterate f calls 0 []).2 := by
  have h0 : Good x 0 [] False := Or.inr ⟨ahead_zero x, fun h => h.elim⟩
  rcases iterate_good f x hf calls 0 [] False hall h0 with r | ⟨_, r2⟩
  · exact r
  · exact absurd hdone (r2 (Or.inr hne))

/-! ### soundness: only stored keys are returned -/

theorem scanFrom_sound (d : Dict) (f : Bytes → Bool) :
    ∀ (fuel count p : Nat) (acc : List Bytes) (k : Bytes),
      k ∈ (scanFrom d f fuel count p acc).2 → k ∈ acc ∨ ∃ i it, d.slot i = some it ∧ it.key = k ∧ f k = true := by
  intro fuel
  induction fuel with
  | zero => intro count p acc k h; simp [scanFrom] at h; exact Or.inl h
  | succ fuel ih =>
    intro count p acc k h
    cases count with
    | zero => simp [scanFrom] at h; exact Or.inl h
    | succ count =>
      unfold scanFrom at h
      simp only at h
      cases hq : d.slot p with
      | none =>
        simp only [hq] at h
        split_ifs at h
        · simp at h; exact Or.inl h
        · exact ih _ _ _ _ h
      | some it =>
        simp only [hq] at h
        by_cases hfi : f it.key = true
        · simp only [hfi, ↓reduceIte] at h
          have hit : ∀ kk, kk ∈ it.key :: acc → kk ∈ acc ∨ ∃ i it', d.slot i = some it' ∧ it'.key = kk ∧ f kk = true := by
            intro kk hk
            rcases List.mem_cons.mp hk with e | e
            · right; exact ⟨p, it, hq, e.symm, by rw [e]; exact hfi⟩
            · left; exact e
          split_ifs at h
          · simp at h
            rcases h with e | e
            · exact Or.inl e
            · exact hit k (by rw [e]; exact List.mem_cons_self)
          · rcases ih _ _ _ _ h with e | e
            · exact hit k e
            · exact Or.inr e
        · simp only [hfi, Bool.false_eq_true, ↓reduceIte] at h
          split_ifs at h
          · simp at h; exact Or.inl h
          · exact ih _ _ _ _ h

/-- a call never invents a key: everything it returns is stored in the table at the time of the
    call and accepted by the filter -/
theorem scan_sound (d : Dict) (f : Bytes → Bool) (c n : Nat) (k : Bytes) (h : k ∈ (d.scan f c n).2) :
    ∃ i it, d.slot i = some it ∧ it.key = k ∧ f k = true := by
  unfold Dict.scan at h
  rcases scanFrom_sound d f _ _ _ [] k h with e | e
  · simp at e
  · exact e

/-! ### the tables the iteration runs over: `store` and `remove` keep them well-formed and lose nothing

`scan_complete` above quantifies over arbitrary well-formed tables between two calls. The theorems
below show that the tables the code can actually produce are of that kind: starting from the empty
table every `store` / `remove` (with the doublings and halvings they trigger) yields a well-formed
table in which every element that was not removed is still held. -/

theorem wf_empty : Dict.empty.WF := by
  constructor
  · simp [Dict.empty]
  · intro i it h
    have : Dict.empty.slot i = none := by
      rw [Dict.slot_eq]; exact slotOf_replicate 16 i
    rw [this] at h; cases h

theorem wf_of_shape (d : Dict) (h1 : d.buckets.size = 2 ^ d.k)
    (h2 : ∀ i it, slotOf d.buckets i = some it → bucketOf d.k it.hash = i) : d.WF :=
  ⟨h1, fun i it h => h2 i it (by rw [← Dict.slot_eq]; exact h)⟩

theorem rehash_wf (d : Dict) (k' : Nat) : (rehash d k').WF := by
  have hk : (rehash d k').k = k' := by rw [rehash_eq]
  apply wf_of_shape
  · rw [hk]; exact (rehash_shape d k').1
  · rw [hk]; exact (rehash_shape d k').2

/-- `store` keeps the table well-formed -/
theorem store_wf (d d' : Dict) (key : Bytes) (h : Nat) (hw : d.WF) (hs : d.store key h = .ok d') : d'.WF := by
  unfold Dict.store at hs
  simp only at hs
  cases hsl : d.slot (bucketOf d.k h) with
  | none =>
    rw [hsl] at hs
    simp only [StoreResult.ok.injEq] at hs
    subst hs
    apply wf_of_shape
    · simp [hw.size]
    · intro i it hi
      simp only at hi
      rw [slotOf_set] at hi
      split_ifs at hi with hc
      · cases hi; exact hc.1
      · exact hw.place i it (by rw [Dict.slot_eq]; exact hi)
  | some it0 =>
    rw [hsl] at hs
    simp only at hs
    split_ifs at hs with hk
    · cases hs; exact hw
    · cases hg : growTo it0.hash h (31 - d.k) d.k with
      | none => rw [hg] at hs; cases hs
      | some k' =>
        rw [hg] at hs
        simp only [StoreResult.ok.injEq] at hs
        subst hs
        have hk' : (rehash d k').k = k' := by rw [rehash_eq]
        apply wf_of_shape
        · simp only [Array.size_setIfInBounds, hk']; exact (rehash_shape d k').1
        · intro i it hi
          simp only [hk'] at hi ⊢
          rw [slotOf_set] at hi
          split_ifs at hi with hc
          · cases hi; exact hc.1
          · exact (rehash_shape d k').2 i it hi

/-- `store` loses nothing: every element held before is held afterwards (whether or not the table
    was doubled, any number of times, to separate the new element from the occupant of its bucket) -/
theorem store_keeps (d d' : Dict) (key : Bytes) (h : Nat) (x : Item) (hw : d.WF)
    (hs : d.store key h = .ok d') (hx : d.Holds x) : d'.Holds x := by
  unfold Dict.store at hs
  simp only at hs
  unfold Dict.Holds at hx ⊢
  cases hsl : d.slot (bucketOf d.k h) with
  | none =>
    rw [hsl] at hs
    simp only [StoreResult.ok.injEq] at hs
    subst hs
    simp only [Dict.slot_eq] at hx hsl ⊢
    rw [slotOf_set]
    have hne : bucketOf d.k h ≠ bucketOf d.k x.hash := by
      intro e; rw [e, hx] at hsl; cases hsl
    simp [hne, hx]
  | some it0 =>
    rw [hsl] at hs
    simp only at hs
    split_ifs at hs with hk
    · cases hs; exact hx
    · cases hg : growTo it0.hash h (31 - d.k) d.k with
      | none => rw [hg] at hs; cases hs
      | some k' =>
        rw [hg] at hs
        simp only [StoreResult.ok.injEq] at hs
        subst hs
        obtain ⟨hlt, hdiff⟩ := growTo_spec it0.hash h _ _ _ hg
        have hk' : (rehash d k').k = k' := by rw [rehash_eq]
        have hplace : ∀ i it, slotOf d.buckets i = some it → bucketOf d.k it.hash = i :=
          fun i it hi => hw.place i it (by rw [Dict.slot_eq]; exact hi)
        have hsep := sep_of_grow d.k k' d.buckets (by omega) hplace
        simp only [Dict.slot_eq, hk'] at hx hsl ⊢
        have hkept := rehash_content d k' hsep _ x hx
        rw [slotOf_set]
        have hne : bucketOf k' h ≠ bucketOf k' x.hash := by
          intro e
          -- then x shares the old bucket with the new element, so it is the occupant it0
          obtain ⟨dd, rfl⟩ := Nat.exists_eq_add_of_le (Nat.le_of_lt hlt)
          have e2 : bucketOf d.k h = bucketOf d.k x.hash := by
            rw [bucketOf_shrink d.k dd h, bucketOf_shrink d.k dd x.hash, e]
          rw [e2, hx] at hsl
          cases hsl
          exact hdiff (bucketOf_inj _ _ _ e.symm)
        simp [hne, hkept]

/-- after `store` the element is held -/
theorem store_holds (d d' : Dict) (key : Bytes) (h : Nat) (hw : d.WF)
    (hs : d.store key h = .ok d')
    (hkey : ∀ it, d.slot (bucketOf d.k h) = some it → it.key = key → it.hash = h) :
    d'.Holds { hash := h, key := key } := by
  unfold Dict.store at hs
  simp only at hs
  unfold Dict.Holds
  cases hsl : d.slot (bucketOf d.k h) with
  | none =>
    rw [hsl] at hs
    simp only [StoreResult.ok.injEq] at hs
    subst hs
    simp only [Dict.slot_eq] at hsl ⊢
    rw [slotOf_set]
    have hlt : bucketOf d.k h < d.buckets.size := by rw [hw.size]; exact bucketOf_lt _ _
    simp [hlt]
  | some it0 =>
    rw [hsl] at hs
    simp only at hs
    split_ifs at hs with hk
    · cases hs
      have hkk : it0.key = key := by simpa using hk
      have hh := hkey it0 hsl hkk
      rw [hsl]
      cases it0
      simp_all
    · cases hg : growTo it0.hash h (31 - d.k) d.k with
      | none => rw [hg] at hs; cases hs
      | some k' =>
        rw [hg] at hs
        simp only [StoreResult.ok.injEq] at hs
        subst hs
        have hk' : (rehash d k').k = k' := by rw [rehash_eq]
        simp only [Dict.slot_eq, hk']
        rw [slotOf_set]
        have : bucketOf k' h < (rehash d k').buckets.size := by
          rw [(rehash_shape d k').1]; exact bucketOf_lt k' h
        simp [this]

/-- the three shapes the result of `remove` can have -/
theorem remove_cases (d : Dict) (key : Bytes) (h : Nat) :
    (d.remove key h = (d, false)) ∨
    (∃ it d1, d.slot (bucketOf d.k h) = some it ∧ it.key = key ∧
      d1.k = d.k ∧ d1.buckets = d.buckets.setIfInBounds (bucketOf d.k h) none ∧
      ((d.remove key h).1 = d1 ∨
       (d.k > 4 ∧ pairsFree d1.buckets.toList = true ∧ (d.remove key h).1 = rehash d1 (d.k - 1))) ∧
      (d.remove key h).2 = true) := by
  unfold Dict.remove
  simp only
  cases hsl : d.slot (bucketOf d.k h) with
  | none => left; rfl
  | some it =>
    simp only
    by_cases hk : it.key = key
    · right
      have hkk : (it.key != key) = false := by simp [hk]
      simp only [hkk, Bool.false_eq_true, if_false]
      split_ifs with h1 h2
      · refine ⟨it, { d with buckets := d.buckets.setIfInBounds (bucketOf d.k h) none, count := d.count - 1, removals := 0 },
          rfl, hk, rfl, rfl, Or.inr ⟨?_, ?_, rfl⟩, rfl⟩
        · simp only [Bool.and_eq_true, decide_eq_true_eq] at h2; exact h2.1
        · simp only [Bool.and_eq_true, decide_eq_true_eq] at h2; exact h2.2
      · exact ⟨it, { d with buckets := d.buckets.setIfInBounds (bucketOf d.k h) none, count := d.count - 1, removals := 0 },
          rfl, hk, rfl, rfl, Or.inl rfl, rfl⟩
      · exact ⟨it, { d with buckets := d.buckets.setIfInBounds (bucketOf d.k h) none, count := d.count - 1, removals := d.removals + 1 },
          rfl, hk, rfl, rfl, Or.inl rfl, rfl⟩
    · left
      have hkk : (it.key != key) = true := by simp [hk]
      simp [hkk]

theorem wf_after_clear (d d1 : Dict) (b : Nat) (hw : d.WF) (hk : d1.k = d.k)
    (hb : d1.buckets = d.buckets.setIfInBounds b none) : d1.WF := by
  apply wf_of_shape
  · rw [hb, hk]; simp [hw.size]
  · intro i it hi
    rw [hb, slotOf_set] at hi
    rw [hk]
    split_ifs at hi with hc
    exact hw.place i it (by rw [Dict.slot_eq]; exact hi)

/-- `remove` keeps the table well-formed, also when it halves it -/
theorem remove_wf (d : Dict) (key : Bytes) (h : Nat) (hw : d.WF) : (d.remove key h).1.WF := by
  rcases remove_cases d key h with e | ⟨it, d1, _, _, hk, hb, hres, _⟩
  · rw [e]; exact hw
  · rcases hres with e | ⟨_, _, e⟩
    · rw [e]; exact wf_after_clear d d1 _ hw hk hb
    · rw [e]; exact rehash_wf d1 _

/-- `remove` loses nothing but the element it removes: every other element held before is held
    afterwards, also across the halving of the table -/
theorem remove_keeps (d : Dict) (key : Bytes) (h : Nat) (x : Item) (hw : d.WF)
    (hx : d.Holds x) (hne : x.key ≠ key) : (d.remove key h).1.Holds x := by
  rcases remove_cases d key h with e | ⟨it, d1, hsl, hitk, hk, hb, hres, _⟩
  · rw [e]; exact hx
  · -- x is not in the cleared bucket
    have hbx : bucketOf d.k h ≠ bucketOf d.k x.hash := by
      intro e
      unfold Dict.Holds at hx
      rw [e, hx] at hsl
      cases hsl
      exact hne hitk
    have hx1 : slotOf d1.buckets (bucketOf d.k x.hash) = some x := by
      rw [hb, slotOf_set]
      simp only [hbx, false_and, if_false]
      exact hx
    have hw1 := wf_after_clear d d1 _ hw hk hb
    rcases hres with e | ⟨hgt, hfree, e⟩
    · rw [e]; unfold Dict.Holds; rw [hk, Dict.slot_eq]; exact hx1
    · rw [e]
      unfold Dict.Holds
      have hkk : (rehash d1 (d.k - 1)).k = d.k - 1 := by rw [rehash_eq]
      rw [hkk, Dict.slot_eq]
      have hplace : ∀ i it, slotOf d1.buckets i = some it → bucketOf ((d.k - 1) + 1) it.hash = i := by
        intro i it hi
        have : d.k - 1 + 1 = d1.k := by omega
        rw [this]
        exact hw1.place i it (by rw [Dict.slot_eq]; exact hi)
      exact rehash_content d1 (d.k - 1) (sep_of_halve (d.k - 1) d1.buckets hplace hfree) _ x hx1

/-- after a successful `remove` the element is gone (not merely hidden: no bucket holds it) -/
theorem remove_removes (d : Dict) (key : Bytes) (h : Nat) (hw : d.WF)
    (hok : (d.remove key h).2 = true) : ¬ (d.remove key h).1.Holds { hash := h, key := key } := by
  rcases remove_cases d key h with e | ⟨it, d1, hsl, hitk, hk, hb, hres, _⟩
  · rw [e] at hok; cases hok
  · have hb0 : bucketOf d.k h < d.buckets.size := by rw [hw.size]; exact bucketOf_lt _ _
    have hcleared : slotOf d1.buckets (bucketOf d.k h) = none := by
      rw [hb, slotOf_set]; simp [hb0]
    have hw1 := wf_after_clear d d1 _ hw hk hb
    rcases hres with e | ⟨_, _, e⟩
    · rw [e]; unfold Dict.Holds; rw [hk, Dict.slot_eq, hcleared]; simp
    · rw [e]
      intro hh
      unfold Dict.Holds at hh
      rw [Dict.slot_eq] at hh
      obtain ⟨i, hi⟩ := rehash_source d1 _ _ _ hh
      have := hw1.place i _ (by rw [Dict.slot_eq]; exact hi)
      simp only [hk] at this
      rw [← this, hcleared] at hi
      cases hi

/-- **Reachable tables.** Every table built from the empty one by any sequence of `store` and `remove`
    operations (none of which hit the 31-bit collision) is well-formed — so `scan_complete`,
    `scan_sound` and `scan_progress` apply to every table the emulator can be in between two calls. -/
inductive DictOp where
  | store (key : Bytes) (h : Nat)
  | remove (key : Bytes) (h : Nat)

def applyOp (d : Dict) : DictOp → Option Dict
  | .store key h => match d.store key h with | .ok d' => some d' | .crash => none
  | .remove key h => some (d.remove key h).1

def applyOps : Dict → List DictOp → Option Dict
  | d, [] => some d
  | d, op :: r => match applyOp d op with | some d' => applyOps d' r | none => none

theorem reachable_wf (ops : List DictOp) : ∀ (d d' : Dict), d.WF → applyOps d ops = some d' → d'.WF := by
  induction ops with
  | nil => intro d d' hw h; simp only [applyOps, Option.some.injEq] at h; subst h; exact hw
  | cons op r ih =>
    intro d d' hw h
    unfold applyOps at h
    cases op with
    | store key hh =>
      simp only [applyOp] at h
      cases hs : d.store key hh with
      | ok d1 => rw [hs] at h; exact ih d1 d' (store_wf d d1 key hh hw hs) h
      | crash => rw [hs] at h; cases h
    | remove key hh =>
      simp only [applyOp] at h
      exact ih _ d' (remove_wf d key hh hw) h

/-- an element stored once and never removed is held in every later table, whatever else is stored
    or removed, however often the table doubles or halves -/
theorem stored_element_stays (ops : List DictOp) (x : Item)
    (hnot : ∀ op ∈ ops, match op with | .remove key _ => key ≠ x.key | .store _ _ => True) :
    ∀ (d d' : Dict), d.WF → d.Holds x → applyOps d ops = some d' → d'.Holds x := by
  induction ops with
  | nil => intro d d' _ hx h; simp only [applyOps, Option.some.injEq] at h; subst h; exact hx
  | cons op r ih =>
    intro d d' hw hx h
    have hr : ∀ op ∈ r, match op with | .remove key _ => key ≠ x.key | .store _ _ => True :=
      fun o ho => hnot o (List.mem_cons_of_mem _ ho)
    unfold applyOps at h
    cases op with
    | store key hh =>
      simp only [applyOp] at h
      cases hs : d.store key hh with
      | ok d1 =>
        rw [hs] at h
        exact ih hr d1 d' (store_wf d d1 key hh hw hs) (store_keeps d d1 key hh x hw hs hx) h
      | crash => rw [hs] at h; cases h
    | remove key hh =>
      simp only [applyOp] at h
      have hk : key ≠ x.key := hnot (.remove key hh) List.mem_cons_self
      exact ih hr _ d' (remove_wf d key hh hw) (remove_keeps d key hh x hw hx (fun e => hk e.symm)) h

/-! ### the hash that places the elements (`sipHash.go`), as the source has it now -/

/-- The compress round of SipHash translated from the Go source by `tools/go2lean` on this run is the
    model's `Sip.round` (on which `sipHash`, `hash32` and with them every bucket position of the model's
    table are built), for every state of the four words. -/
theorem siphash_round_as_coded (s : Sip) :
    Go.sipRound s.v0.toBitVec s.v1.toBitVec s.v2.toBitVec s.v3.toBitVec =
      (s.round.v0.toBitVec, s.round.v1.toBitVec, s.round.v2.toBitVec, s.round.v3.toBitVec) :=
  go_sipRound s

/-- `(*redisDict).hashToIndex` translated from the Go source on this run — mask with `bucketCount-1`, shift left by
    `32 - bitPos`, `bits.Reverse32` — is the model's `bucketOf k` on the low 32 bits of the hash, for every 64-bit
    hash and every table size `2^k`, `k ≤ 31`.  (`bitPosition`, a lookup in a map built at start-up, is the one
    external: the statement is for `bitPosition(2^k) = k`, which the `scan` tool's bucket-order comparison exercises.) -/
theorem hashToIndex_as_coded (h : BitVec 64) (k : Nat) (hk : k ≤ 31) :
    (Go.hashToIndex h (BitVec.ofNat 32 (2 ^ k)) (BitVec.ofNat 64 k)).toNat = bucketOf k (h.toNat % 2 ^ 32) :=
  go_hashToIndex h k hk

/-- hence a key's bucket in the code is the bucket the model puts it in: `bucketOf k (hash32 key)` -/
theorem hashToIndex_of_key (key : Bytes) (k : Nat) (hk : k ≤ 31) :
    (Go.hashToIndex (sipHash key).toBitVec (BitVec.ofNat 32 (2 ^ k)) (BitVec.ofNat 64 k)).toNat = bucketOf k (hash32 key) := by
  rw [go_hashToIndex _ k hk]; rfl

/-- non-vacuity: 16 buckets, hash 0b…0001 lands in bucket 8 (bit-reversed order), hash 0b…1111 in 15 -/
theorem hashToIndex_examples :
    Go.hashToIndex 1#64 16#32 4#64 = 8#32 ∧ Go.hashToIndex 0xffffffffffffffff#64 16#32 4#64 = 15#32 ∧
    Go.hashToIndex 0x1234567800000002#64 16#32 4#64 = 4#32 := by decide +kernel

/-- `isPowerOfTwo` as translated: true exactly on the powers of two (the table sizes of the dictionary) -/
theorem is_power_of_two_as_coded (n : BitVec 32) : Go.isPowerOfTwo n = true ↔ ∃ k, n.toNat = 2 ^ k :=
  go_isPowerOfTwo n

theorem go_arith_translated_dict :
    ["isPowerOfTwo", "hashToIndex", "sipRound"].all (Go.translated.contains ·) = true := by decide

/-- the reference vector of SipHash-2-4 … with the zero key and the Go code's tail handling the model
    gives this value for the empty input and for "a" (also checked against `calcSipHash` by the `scan` tool) -/
theorem siphash_examples : sipHash [] = 0x1e924b9d737700d7 ∧ (sipHash [97]).toNat % 2 ^ 32 = hash32 [97] := by
  constructor
  · decide +kernel
  · rfl

end RedisEmu
