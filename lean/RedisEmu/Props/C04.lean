import RedisEmu.Exec
import RedisEmu.Proofs.AList
import RedisEmu.Props.C02
import Mathlib.Tactic.SplitIfs
/-
  C04 — hash commands. Theorems about `RedisEmu.Cmds` (family `hash` of the correspondence run).
-/
namespace RedisEmu

/-! ### HINCRBY succeeds exactly when the field is absent or holds an int64 and the sum fits -/

/-- existing integer field, sum in range: reply is the sum, the field holds its decimal form
    (for every sign combination) -/
theorem hincrby_in_range (c : Ctx) (db : Db) (k f old : Bytes) (e : Entry) (h : List (Bytes × Bytes)) (v d : Int)
    (hq : c.q.hincrbyCmpDelta = false)
    (hh : hashOf c db k = .ok (some (e, h))) (hf : alookup f h = some old) (hp : parseInt64 old = some v)
    (hv : inRange64 v = true) (hd : inRange64 d = true) (hin : inRange64 (v + d) = true) :
    (cmdHIncrBy c db k f d).reply = .int (v + d) ∧
    (cmdHIncrBy c db k f d).db = upd c db k e (.hash (ainsert f (showInt (v + d)) h)) := by
  have hgo : goAddOverflow v d = false := by
    cases hg : goAddOverflow v d with
    | false => rfl
    | true => have := (addInt_overflow_iff v d hv hd).mp hg; simp [hin] at this
  have hw := addInt_result v d hv hd hgo
  unfold cmdHIncrBy
  simp [hh, hf, hp, hq, hgo, hw, R.ok]

/-- existing integer field, sum out of range: refused, nothing changes -/
theorem hincrby_overflow_refused (c : Ctx) (db : Db) (k f old : Bytes) (e : Entry) (h : List (Bytes × Bytes)) (v d : Int)
    (hq : c.q.hincrbyCmpDelta = false)
    (hh : hashOf c db k = .ok (some (e, h))) (hf : alookup f h = some old) (hp : parseInt64 old = some v)
    (hv : inRange64 v = true) (hd : inRange64 d = true) (hov : inRange64 (v + d) = false) :
    (cmdHIncrBy c db k f d).reply = errNotInt ∧ (cmdHIncrBy c db k f d).db = db := by
  have hgo := (addInt_overflow_iff v d hv hd).mpr hov
  unfold cmdHIncrBy
  simp [hh, hf, hp, hq, hgo, R.ok]

/-- a field that does not hold an int64 is refused, nothing changes (whatever the quirks) -/
theorem hincrby_non_integer_refused (c : Ctx) (db : Db) (k f old : Bytes) (e : Entry) (h : List (Bytes × Bytes)) (d : Int)
    (hh : hashOf c db k = .ok (some (e, h))) (hf : alookup f h = some old) (hp : parseInt64 old = none) :
    (cmdHIncrBy c db k f d).reply = errNotInt ∧ (cmdHIncrBy c db k f d).db = db := by
  unfold cmdHIncrBy
  simp [hh, hf, hp, R.ok]

/-- an absent field is created holding the increment -/
theorem hincrby_absent_field (c : Ctx) (db : Db) (k f : Bytes) (e : Entry) (h : List (Bytes × Bytes)) (d : Int)
    (hh : hashOf c db k = .ok (some (e, h))) (hf : alookup f h = none) :
    (cmdHIncrBy c db k f d).reply = .int d ∧
    (cmdHIncrBy c db k f d).db = upd c db k e (.hash (ainsert f (showInt d) h)) := by
  unfold cmdHIncrBy
  simp [hh, hf, R.ok]

/-- D10 on the model of the unrepaired code: -5 + 3 is refused although it is in range -/
theorem hincrby_cmpDelta_witness :
    let c : Ctx := { q := { Quirks.none with hincrbyCmpDelta := true }, now := 0 }
    -- key "h", field "f" holding "-5"
    let db := ({} : Db).put [104] (.hash [([102], [45, 53])]) none
    (cmdHIncrBy c db [104] [102] 3).reply.isError = true := by
  decide

/-! ### HSETNX never overwrites -/

theorem hsetnx_existing_untouched (c : Ctx) (db : Db) (k f v old : Bytes) (e : Entry) (h : List (Bytes × Bytes))
    (hq : c.q.hsetnxOverwrites = false)
    (hh : hashOf c db k = .ok (some (e, h))) (hf : alookup f h = some old) :
    (cmdHSet c db k [(f, v)] true false).reply = .int 0 ∧ (cmdHSet c db k [(f, v)] true false).db = db := by
  unfold cmdHSet
  simp [hh, hq, hsetAll, hf, R.ok, vInt]

/-- D11 on the model of the unrepaired code -/
theorem hsetnx_overwrites_witness :
    let c : Ctx := { q := { Quirks.none with hsetnxOverwrites := true }, now := 0 }
    -- key "h", field "f" holding "v"; HSETNX h f w; HGET h f answers "w"
    let db := ({} : Db).put [104] (.hash [([102], [118])]) none
    (cmdHGet c (cmdHSet c db [104] [([102], [119])] true false).db [104] [102]).reply.bulk? = some [119] := by
  decide

/-! ### HSET then HGET, for arbitrary bytes -/

theorem hsetAll_single_lookup (f v : Bytes) (h : List (Bytes × Bytes)) :
    alookup f (hsetAll false [(f, v)] h 0).1 = some v := by
  unfold hsetAll
  cases hl : alookup f h <;> simp [hsetAll]

end RedisEmu
