import RedisEmu.Exec
import RedisEmu.Proofs.Random
import RedisEmu.Proofs.GoArithHash
import RedisEmu.Proofs.AList
import RedisEmu.Props.C02
import Mathlib.Tactic.SplitIfs
/-
  C04 — hash commands. Theorems about `RedisEmu.Cmds` (family `hash` of the correspondence run).
-/
namespace RedisEmu

/-! ### HINCRBY succeeds exactly when the field is absent or holds an int64 and the sum fits -/

/-- existing integer field, sum in range: reply is the sum, the field holds its decimal form
    (for every sign combination) -/
theorem hincrby_in_range (c : Ctx) (db : Db) (k f old : Bytes) (e : Entry) (h : List (Bytes × Bytes)) (v d : Int)
    (hq : c.q.hincrbyCmpDelta = false)
    (hh : hashOf c db k = .ok (some (e, h))) (hf : alookup f h = some old) (hp : parseInt64 old = some v)
    (hv : inRange64 v = true) (hd : inRange64 d = true) (hin : inRange64 (v + d) = true) :
    (cmdHIncrBy c db k f d).reply = .int (v + d) ∧
    (cmdHIncrBy c db k f d).db = upd c db k e (.hash (ainsert f (showInt (v + d)) h)) := by
  have hgo : goAddOverflow v d = false := by
    cases hg : goAddOverflow v d with
    | false => rfl
    | true => have := (addInt_overflow_iff v d hv hd).mp hg; simp [hin] at this
  have hw := addInt_result v d hv hd hgo
  unfold cmdHIncrBy
  simp [hh, hf, hp, hq, hgo, hw, R.ok]

/-- existing integer field, sum out of range: refused, nothing changes -/
theorem hincrby_overflow_refused (c : Ctx) (db : Db) (k f old : Bytes) (e : Entry) (h : List (Bytes × Bytes)) (v d : Int)
    (hq : c.q.hincrbyCmpDelta = false)
    (hh : hashOf c db k = .ok (some (e, h))) (hf : alookup f h = some old) (hp : parseInt64 old = some v)
    (hv : inRange64 v = true) (hd : inRange64 d = true) (hov : inRange64 (v + d) = false) :
    (cmdHIncrBy c db k f d).reply = errNotInt ∧ (cmdHIncrBy c db k f d).db = db := by
  have hgo := (addInt_overflow_iff v d hv hd).mpr hov
  unfold cmdHIncrBy
  simp [hh, hf, hp, hq, hgo, R.ok]

/-- a field that does not hold an int64 is refused, nothing changes (whatever the quirks) -/
theorem hincrby_non_integer_refused (c : Ctx) (db : Db) (k f old : Bytes) (e : Entry) (h : List (Bytes × Bytes)) (d : Int)
    (hh : hashOf c db k = .ok (some (e, h))) (hf : alookup f h = some old) (hp : parseInt64 old = none) :
    (cmdHIncrBy c db k f d).reply = errNotInt ∧ (cmdHIncrBy c db k f d).db = db := by
  unfold cmdHIncrBy
  simp [hh, hf, hp, R.ok]

/-- an absent field is created holding the increment -/
theorem hincrby_absent_field (c : Ctx) (db : Db) (k f : Bytes) (e : Entry) (h : List (Bytes × Bytes)) (d : Int)
    (hh : hashOf c db k = .ok (some (e, h))) (hf : alookup f h = none) :
    (cmdHIncrBy c db k f d).reply = .int d ∧
    (cmdHIncrBy c db k f d).db = upd c db k e (.hash (ainsert f (showInt d) h)) := by
  unfold cmdHIncrBy
  simp [hh, hf, R.ok]

/-- D10 on the model of the unrepaired code: -5 + 3 is refused although it is in range -/
theorem hincrby_cmpDelta_witness :
    let c : Ctx := { q := { Quirks.none with hincrbyCmpDelta := true }, now := 0 }
    -- key "h", field "f" holding "-5"
    let db := ({} : Db).put [104] (.hash [([102], [45, 53])]) none
    (cmdHIncrBy c db [104] [102] 3).reply.isError = true := by
  decide

/-! ### HSETNX never overwrites -/

theorem hsetnx_existing_untouched (c : Ctx) (db : Db) (k f v old : Bytes) (e : Entry) (h : List (Bytes × Bytes))
    (hq : c.q.hsetnxOverwrites = false)
    (hh : hashOf c db k = .ok (some (e, h))) (hf : alookup f h = some old) :
    (cmdHSet c db k [(f, v)] true false).reply = .int 0 ∧ (cmdHSet c db k [(f, v)] true false).db = db := by
  unfold cmdHSet
  simp [hh, hq, hsetAll, hf, R.ok, vInt]

/-- D11 on the model of the unrepaired code -/
theorem hsetnx_overwrites_witness :
    let c : Ctx := { q := { Quirks.none with hsetnxOverwrites := true }, now := 0 }
    -- key "h", field "f" holding "v"; HSETNX h f w; HGET h f answers "w"
    let db := ({} : Db).put [104] (.hash [([102], [118])]) none
    (cmdHGet c (cmdHSet c db [104] [([102], [119])] true false).db [104] [102]).reply.bulk? = some [119] := by
  decide

/-! ### HSET then HGET, for arbitrary bytes -/

theorem hsetAll_single_lookup (f v : Bytes) (h : List (Bytes × Bytes)) :
    alookup f (hsetAll false [(f, v)] h 0).1 = some v := by
  unfold hsetAll
  cases hl : alookup f h <;> simp [hsetAll]


/-! ### a hash is a finite map: HSET / HSETNX / HDEL as operations on the field → value mapping -/

/-- the value HSET leaves under a field: the last one given for it, else what was there -/
def lastFor (f : Bytes) : List (Bytes × Bytes) → Option Bytes
  | [] => none
  | (f', v) :: r => match lastFor f r with
    | some v' => some v'
    | none => if f' == f then some v else none

/-- **HSET** (any number of pairs, fields repeated or not): afterwards a field holds the last value
    given for it, and every field that was not named holds what it held -/
theorem hsetAll_lookup (fvs : List (Bytes × Bytes)) : ∀ (h : List (Bytes × Bytes)) (n : Nat) (f : Bytes),
    alookup f (hsetAll false fvs h n).1 = (match lastFor f fvs with | some v => some v | none => alookup f h) := by
  induction fvs with
  | nil => intro h n f; simp [hsetAll, lastFor]
  | cons p r ih =>
    intro h n f
    obtain ⟨f', v⟩ := p
    have step : ∀ n', alookup f (hsetAll false r (ainsert f' v h) n').1 =
        (match lastFor f ((f', v) :: r) with | some v => some v | none => alookup f h) := by
      intro n'
      rw [ih]
      simp only [lastFor]
      cases hl : lastFor f r with
      | some v' => rfl
      | none =>
        simp only
        by_cases hk : (f' == f) = true
        · have e : f' = f := by simpa using hk
          subst e
          simp
        · have hk' : (f' == f) = false := by simpa using hk
          simp only [hk', Bool.false_eq_true, ↓reduceIte]
          exact alookup_ainsert_ne f' f v h hk'
    unfold hsetAll
    split
    · simp only [Bool.false_eq_true, ↓reduceIte]; exact step _
    · exact step _

/-- **HSETNX** never overwrites: a field that exists keeps its value, whatever is offered -/
theorem hsetAll_nx_keeps (fvs : List (Bytes × Bytes)) : ∀ (h : List (Bytes × Bytes)) (n : Nat) (f old : Bytes),
    alookup f h = some old → alookup f (hsetAll true fvs h n).1 = some old := by
  induction fvs with
  | nil => intro h n f old hl; simpa [hsetAll] using hl
  | cons p r ih =>
    intro h n f old hl
    obtain ⟨f', v⟩ := p
    unfold hsetAll
    split
    · simp only [↓reduceIte]; exact ih h n f old hl
    · rename_i hn
      apply ih
      by_cases hk : (f' == f) = true
      · have e : f' = f := by simpa using hk
        subst e
        rw [hl] at hn; cases hn
      · rw [alookup_ainsert_ne f' f v h (by simpa using hk)]; exact hl

theorem alookup_aerase_self_nodup (f : Bytes) (h : List (Bytes × Bytes)) (hu : (h.map (·.1)).Nodup) :
    alookup f (aerase f h) = none := by
  induction h with
  | nil => rfl
  | cons p r ih =>
    obtain ⟨f', v⟩ := p
    simp only [List.map_cons, List.nodup_cons] at hu
    unfold aerase
    split
    · rename_i hk
      have e : f' = f := by simpa using hk
      subst e
      exact alookup_none_of_not_mem' f' r hu.1
    · rename_i hk
      simp only [alookup, hk, Bool.false_eq_true, ↓reduceIte]
      exact ih hu.2
where
  alookup_none_of_not_mem' (k : Bytes) (l : List (Bytes × Bytes)) (h : k ∉ l.map (·.1)) : alookup k l = none := by
    induction l with
    | nil => rfl
    | cons q r ih =>
      obtain ⟨k', e'⟩ := q
      simp only [List.map_cons, List.mem_cons, not_or] at h
      have hk : (k' == k) = false := by
        cases hkk : k' == k with
        | false => rfl
        | true => exact absurd (by simpa using hkk : k' = k).symm h.1
      simp only [alookup, hk, Bool.false_eq_true, ↓reduceIte]
      exact ih h.2

/-- **HDEL**: a named field is gone, every other field keeps its value (fields are unique: the
    invariant of `ainsert`) — or the hash lost its last field, and with it the key -/
theorem hdelAll_lookup (fs : List Bytes) : ∀ (h : List (Bytes × Bytes)) (n : Nat) (f : Bytes),
    (h.map (·.1)).Nodup →
    alookup f (hdelAll fs h n).1 = (if fs.contains f then none else alookup f h) ∨ (hdelAll fs h n).1 = [] := by
  induction fs with
  | nil => intro h n f _; left; simp [hdelAll]
  | cons g r ih =>
    intro h n f hu
    unfold hdelAll
    split
    · right; rename_i he; simpa using he
    · split
      · rename_i v hg
        rcases ih (aerase g h) (n + 1) f (aerase_keys_nodup g h hu) with h1 | h1
        · left
          rw [h1]
          by_cases hk : (g == f) = true
          · have e : g = f := by simpa using hk
            subst e
            simp [alookup_aerase_self_nodup g h hu]
          · have hk' : (g == f) = false := by simpa using hk
            rw [alookup_aerase_ne g f h hk']
            simp only [List.contains_cons]
            have : (f == g) = false := by
              cases hfg : f == g with
              | false => rfl
              | true => have e : f = g := by simpa using hfg
                        subst e; simp at hk'
            simp [this]
        · right; exact h1
      · rename_i hg
        rcases ih h n f hu with h1 | h1
        · left
          rw [h1]
          simp only [List.contains_cons]
          by_cases hk : (f == g) = true
          · have e : f = g := by simpa using hk
            subst e
            simp [hg]
          · simp [hk]
        · right; exact h1

/-! ### the overflow test of HINCRBY as the Go source has it now (`GoArith.lean`, regenerated) -/

/-- The condition under which `fieldAddInt` (HINCRBY) answers "overflow", translated from the Go source:
    for every stored int64 and every increment, of either sign, it holds exactly when the true sum leaves
    the int64 range. -/
theorem hincrby_guard_as_coded (v d : BitVec 64) :
    Go.fieldAddIntOverflowGuard v d = true ↔
      (v.toInt + d.toInt < -9223372036854775808 ∨ 9223372036854775807 < v.toInt + d.toInt) := by
  have h1 := BitVec.toInt_lt (x := v); have h2 := BitVec.le_toInt (x := v)
  have h3 := BitVec.toInt_lt (x := d); have h4 := BitVec.le_toInt (x := d)
  rw [go_fieldAddIntOverflowGuard]
  unfold goAddOverflow wrap64 twoP63 twoP64
  simp at *
  by_cases hd : 0 < d.toInt <;> simp [hd] <;> omega

/-! ### HRANDFIELD: for every outcome of the random source (`RedisEmu.Random`) -/

/-- **HRANDFIELD** (without WITHVALUES). `h` is the hash as the model stores it (no field twice), `bs` any
    bucket table holding exactly its fields, `rs` whatever `rand.Intn` delivers: the reply only names
    existing fields, distinct ones and min(n, HLEN) of them for a count n ≥ 0, exactly |n| (repeats
    allowed) for n < 0, one field without a count. -/
theorem hrandfield_reply (h : List (Bytes × Bytes)) (bs : Buckets) (count : Option Int) (rs : List Nat) (v : Value)
    (hd : (h.map (·.1)).Nodup) (hb : bs.members.Perm (h.map (·.1))) (hr : randReply bs count rs = some v) :
    validateRandom (h.map (·.1)) count v = true := by
  rw [← validateRandom_perm bs.members _ hb]
  exact random_reply_valid bs count rs v (hb.nodup_iff.mpr hd) hr

/-- WITHVALUES: every drawn field comes with the value the hash holds for it -/
def withValues (h : List (Bytes × Bytes)) (fields : List Bytes) : List (Bytes × Option Bytes) :=
  fields.map fun f => (f, alookup f h)

theorem hrandfield_withvalues (h : List (Bytes × Bytes)) (bs : Buckets) (is : List Nat)
    (hb : bs.members.Perm (h.map (·.1))) (ho : ∀ i ∈ is, bs.occupied i = true) :
    ∀ p ∈ withValues h (keysAt bs is), ∃ v, p.2 = some v ∧ (p.1, v) ∈ h := by
  intro p hp
  unfold withValues at hp
  rw [List.mem_map] at hp
  obtain ⟨f, hf, rfl⟩ := hp
  have hfm : f ∈ h.map (·.1) := hb.mem_iff.mp ((keysAt_spec bs is ho).2 f hf)
  -- a field of the hash has a value, and `alookup` finds one the hash holds
  have : ∀ (l : List (Bytes × Bytes)), f ∈ l.map (·.1) → ∃ v, alookup f l = some v ∧ (f, v) ∈ l := by
    intro l
    induction l with
    | nil => intro hm; simp at hm
    | cons x r ih =>
      intro hm
      by_cases hx : x.1 = f
      · exact ⟨x.2, by simp [alookup, hx], by rw [← hx]; exact List.mem_cons_self⟩
      · have : f ∈ r.map (·.1) := by
          simp only [List.map_cons, List.mem_cons] at hm
          rcases hm with e | e
          · exact absurd e.symm hx
          · exact e
        obtain ⟨v, h1, h2⟩ := ih this
        exact ⟨v, by simp [alookup, hx, h1], List.mem_cons_of_mem _ h2⟩
  exact this h hfm

/-- this property's part of what the translator delivered on this run -/
theorem go_arith_translated_hash : ["fieldAddIntOverflowGuard"].all (Go.translated.contains ·) = true := by decide

end RedisEmu
