import RedisEmu.Persist
import RedisEmu.Proofs.State
import RedisEmu.Exec
import Mathlib.Tactic.SplitIfs
/-
  C19 — persistence. Theorems about `RedisEmu.Persist` (save protocol) and about the dirty bit of
  `RedisEmu.Cmds` (tied to the Go code by the `persist` tool: real save / restart cycles and crash
  copies taken at every stage of every snapshot file, and by the SAVE pseudo-operation of `corr`,
  which compares the dirty bit of every database after every few commands).
-/
namespace RedisEmu

/-! ### a restart restores exactly what was saved -/

theorem load_snapshot (db : Db) : db.snapshot.load.keys = db.keys ∧ db.snapshot.load.nextId = db.nextId ∧
    db.snapshot.load.dirty = false := ⟨rfl, rfl, rfl⟩

/-- every lookup — live or raw, at any time — answers the same on the restored database -/
theorem restored_lookups (db : Db) (now : Int) (k : Bytes) :
    db.snapshot.load.live now k = db.live now k ∧ db.snapshot.load.raw k = db.raw k := ⟨rfl, rfl⟩

/-! ### crash atomicity of the save protocol -/

theorem tmp_ne (name : String) : (tmpOf name == name) = false := by
  unfold tmpOf
  simp only [beq_eq_false_iff_ne, ne_eq]
  intro h
  have := congrArg String.length h
  simp [String.length_append] at this

theorem get_put_ne (fs : FS) (a b : String) (c : FileContent) (h : (a == b) = false) :
    (fs.put a c).get b = fs.get b := by
  unfold FS.put FS.get
  simp only [List.find?_cons, h]
  congr 1
  induction fs with
  | nil => rfl
  | cons p r ih =>
    by_cases hp : (p.1 != a) = true
    · simp only [List.filter_cons, hp, ↓reduceIte, List.find?_cons]
      cases hb : (p.1 == b) <;> simp [ih]
    · simp only [List.filter_cons, hp, Bool.false_eq_true, ↓reduceIte, List.find?_cons]
      have e : p.1 = a := by simpa using hp
      have : (p.1 == b) = false := by rw [e]; exact h
      simp [this, ih]

theorem get_put_self (fs : FS) (a : String) (c : FileContent) : (fs.put a c).get a = some c := by
  unfold FS.put FS.get; simp

theorem get_remove_ne (fs : FS) (a b : String) (h : (a == b) = false) : (fs.remove a).get b = fs.get b := by
  unfold FS.remove FS.get
  congr 1
  induction fs with
  | nil => rfl
  | cons p r ih =>
    by_cases hp : (p.1 != a) = true
    · simp only [List.filter_cons, hp, ↓reduceIte, List.find?_cons]
      cases hb : (p.1 == b) <;> simp [ih]
    · simp only [List.filter_cons, hp, Bool.false_eq_true, ↓reduceIte, List.find?_cons]
      have e : p.1 = a := by simpa using hp
      have : (p.1 == b) = false := by rw [e]; exact h
      simp [this, ih]

/-- a step before the rename never touches the snapshot file itself -/
theorem step_keeps_snapshot (name : String) (s : Snapshot) (fs : FS) (st : SaveStep) (h : st ≠ .rename) :
    (applyStep name s fs st).load name = fs.load name := by
  unfold FS.load
  cases st with
  | rename => exact absurd rfl h
  | createTmp => simp only [applyStep]; rw [get_put_ne _ _ _ _ (tmp_ne name)]
  | writeSome => simp only [applyStep]; rw [get_put_ne _ _ _ _ (tmp_ne name)]
  | closeTmp => simp only [applyStep]; rw [get_put_ne _ _ _ _ (tmp_ne name)]

/-- **Crash atomicity.** Whatever prefix of the save protocol has been executed when the process dies,
    a restart loads the database from its file either exactly as before the save began or exactly as
    the new snapshot — never a partial, mixed or empty one. -/
theorem crash_atomic (name : String) (s : Snapshot) (fs : FS) (n : Nat) :
    (runSteps name s (saveSteps.take n) fs).load name = fs.load name ∨
    (runSteps name s (saveSteps.take n) fs).load name = .ok s := by
  have hr : ∀ fs', (applyStep name s fs' .rename).load name = .ok s := by
    intro fs'
    unfold FS.load
    simp only [applyStep]
    rw [get_remove_ne _ _ _ (tmp_ne name), get_put_self]
  have h1 := step_keeps_snapshot name s
  rcases Nat.lt_or_ge n 5 with hlt | hge
  · left
    have : n = 0 ∨ n = 1 ∨ n = 2 ∨ n = 3 ∨ n = 4 := by omega
    rcases this with h | h | h | h | h <;> subst h <;> simp only [saveSteps, List.take, runSteps]
    · rw [h1 _ _ (by decide)]
    · rw [h1 _ _ (by decide), h1 _ _ (by decide)]
    · rw [h1 _ _ (by decide), h1 _ _ (by decide), h1 _ _ (by decide)]
    · rw [h1 _ _ (by decide), h1 _ _ (by decide), h1 _ _ (by decide), h1 _ _ (by decide)]
  · right
    have : saveSteps.take n = saveSteps := by
      apply List.take_of_length_le; simp [saveSteps]; omega
    rw [this]
    simp only [saveSteps, runSteps]
    exact hr _

/-- the other databases' files are not touched by saving this one -/
theorem save_other_files_untouched (name other : String) (s : Snapshot) (fs : FS) (n : Nat)
    (h1 : (name == other) = false) (h2 : (tmpOf name == other) = false) :
    (runSteps name s (saveSteps.take n) fs).get other = fs.get other := by
  have hstep : ∀ fs' st, (applyStep name s fs' st).get other = fs'.get other := by
    intro fs' st
    cases st <;> simp only [applyStep]
    · exact get_put_ne _ _ _ _ h2
    · exact get_put_ne _ _ _ _ h2
    · exact get_put_ne _ _ _ _ h2
    · rw [get_remove_ne _ _ _ h2, get_put_ne _ _ _ _ h1]
  have : ∀ (l : List SaveStep) fs', (runSteps name s l fs').get other = fs'.get other := by
    intro l
    induction l with
    | nil => intro fs'; rfl
    | cons st r ih => intro fs'; simp only [runSteps]; rw [ih, hstep]
  exact this _ _

/-! ### the dirty bit is complete: a changed keyspace is a dirty database -/

theorem put_dirty (db : Db) (k : Bytes) (v : Val) (e : Option Int) : (db.put k v e).dirty = true := rfl

theorem del_changed_dirty (db : Db) (k : Bytes) (h : (db.del k).keys ≠ db.keys) : (db.del k).dirty = true := by
  unfold Db.del at *
  cases hr : db.raw k with
  | none => simp [hr] at h
  | some e => simp [hr]

theorem update_dirty (db : Db) (k : Bytes) (e : Entry) (v : Val) : (db.update k e v).dirty = true := by
  unfold Db.update
  cases v <;> simp only <;> (try split_ifs) <;> rfl

/-- every in-place change of the model goes through `upd`, which always marks the database dirty -/
theorem upd_dirty (c : Ctx) (db : Db) (k : Bytes) (e : Entry) (v : Val) : (upd c db k e v).dirty = true := by
  unfold upd bump
  split_ifs <;> exact update_dirty _ _ _ _

/-- with the repaired behaviour (quirk off) the deadline-only changes mark it dirty too -/
theorem expire_dirty (c : Ctx) (db : Db) (k : Bytes) (dl : Int) (opt : ExpireOpt)
    (hq : c.q.dirtyIncomplete = false) (h : (cmdExpireAt c db k dl opt).reply = .int 1) :
    (cmdExpireAt c db k dl opt).db.dirty = true := by
  unfold cmdExpireAt at *
  split at h
  · simp [R.ok] at h
  · simp only at h ⊢
    split_ifs at h ⊢
    · simp [R.ok] at h
    · simp [R.ok, dirtyUnlessQuirk, hq, Db.setDirty]

theorem persist_dirty (c : Ctx) (db : Db) (k : Bytes)
    (hq : c.q.dirtyIncomplete = false) (h : (cmdPersist c db k).reply = .int 1) :
    (cmdPersist c db k).db.dirty = true := by
  unfold cmdPersist at *
  split at h
  · simp [R.ok] at h
  · split_ifs at h ⊢
    · simp [R.ok] at h
    · simp [R.ok, dirtyUnlessQuirk, hq, Db.setDirty]

theorem lset_dirty (c : Ctx) (db : Db) (k v : Bytes) (i : Int)
    (hq : c.q.dirtyIncomplete = false) (h : (cmdLSet c db k i v).reply = vOK) :
    (cmdLSet c db k i v).db.dirty = true := by
  unfold cmdLSet at *
  split at h
  · simp [R.ok, wrongType, vOK] at h
  · simp [R.ok, errNoSuchKey, vOK] at h
  · simp only at h ⊢
    split_ifs at h ⊢
    all_goals first
      | (simp [R.ok, errIndex, vOK] at h; done)
      | (simp [R.ok, dirtyUnlessQuirk, hq, Db.setDirty])

/-- the saver: a dirty database is written and becomes clean; a clean one is left alone -/
theorem saver_spec (name : String) (db : Db) (fs : FS) :
    (saveIfDirty name db fs).1.dirty = false ∧
    (db.dirty = true → (saveIfDirty name db fs).2.load name = .ok db.snapshot) ∧
    (db.dirty = false → (saveIfDirty name db fs).2 = fs) := by
  unfold saveIfDirty
  refine ⟨?_, ?_, ?_⟩
  · split_ifs with h
    · rfl
    · simpa using h
  · intro h
    simp only [h, ↓reduceIte]
    have := crash_atomic name db.snapshot fs 5
    have e : saveSteps.take 5 = saveSteps := by simp [saveSteps]
    rw [e] at this
    -- after the complete protocol the file holds the new snapshot
    simp only [saveSteps, runSteps]
    unfold FS.load
    simp only [applyStep]
    rw [get_remove_ne _ _ _ (tmp_ne name), get_put_self]
  · intro h; simp [h]

/-! ### nothing changes unnoticed: from the single mutators to every command, and to the restart -/


/-- a database after a command is either the very same or marked dirty: nothing changes unnoticed -/
def Tracked (db db' : Db) : Prop := db' = db ∨ db'.dirty = true

theorem tracked_refl (db : Db) : Tracked db db := Or.inl rfl
theorem tracked_put (db : Db) (k : Bytes) (v : Val) (e : Option Int) : Tracked db (db.put k v e) := Or.inr rfl
theorem tracked_setDirty (db db' : Db) : Tracked db db'.setDirty := Or.inr rfl
theorem tracked_del (db : Db) (k : Bytes) : Tracked db (db.del k) := by
  unfold Db.del; split
  · exact Or.inr rfl
  · exact Or.inl rfl
theorem tracked_update (db db0 : Db) (k : Bytes) (e : Entry) (v : Val) : Tracked db (db0.update k e v) :=
  Or.inr (update_dirty db0 k e v)
theorem tracked_upd (c : Ctx) (db db0 : Db) (k : Bytes) (e : Entry) (v : Val) : Tracked db (upd c db0 k e v) :=
  Or.inr (upd_dirty c db0 k e v)

theorem tracked_trans {a b d : Db} (h1 : Tracked a b) (h2 : Tracked b d) : Tracked a d := by
  rcases h2 with e | e
  · rw [e]; exact h1
  · exact Or.inr e

theorem tracked_dirtyUnlessQuirk (c : Ctx) (db db' : Db) (hq : c.q.dirtyIncomplete = false) :
    Tracked db (dirtyUnlessQuirk c db') := by
  unfold dirtyUnlessQuirk; rw [hq]; exact Or.inr rfl

theorem setKey_tracked (c : Ctx) (db : Db) (k v : Bytes) (o : SetOpts) (a b : Bool) :
    Tracked db (setKey c db k v o a b).1 := by
  unfold setKey
  repeat' (first | exact tracked_refl _ | exact tracked_put _ _ _ _ | split | dsimp only)

theorem putAll_tracked (kvs : List (Bytes × Bytes)) : ∀ (db0 db : Db), Tracked db0 db → Tracked db0 (putAll db kvs) := by
  induction kvs with
  | nil => intro db0 db h; exact h
  | cons p r ih =>
    intro db0 db h
    obtain ⟨k, v⟩ := p
    unfold putAll
    exact ih db0 _ (tracked_trans h (tracked_put _ _ _ _))

macro "tracked" : tactic => `(tactic| (repeat' (first
  | exact tracked_refl _
  | exact tracked_put _ _ _ _
  | exact tracked_setDirty _ _
  | exact tracked_del _ _
  | exact tracked_update _ _ _ _ _
  | exact tracked_upd _ _ _ _ _ _
  | exact setKey_tracked _ _ _ _ _ _ _
  | exact putAll_tracked _ _ _ (tracked_refl _)
  | (apply tracked_dirtyUnlessQuirk; assumption)
  | exact Or.inr rfl
  | split
  | dsimp only [R.ok])))

section
variable (c : Ctx) (db : Db) (k k2 v f m : Bytes) (i j : Int) (o : SetOpts) (b b2 : Bool)
  (ks : List Bytes) (kvs : List (Bytes × Bytes)) (oi oj ok' : Option Int) (n : Nat)
  (hq : c.q.dirtyIncomplete = false) (hu : c.q.unlinkKeepsObject = false)
include hq hu

theorem set_tracked : Tracked db (cmdSet c db k v o b).db := by unfold cmdSet; tracked
theorem append_tracked : Tracked db (cmdAppend c db k v).db := by
  unfold cmdAppend
  have h := setKey_tracked c db k v { get := true } true (!c.q.appendDropsTtl)
  split
  rename_i heq
  rw [heq] at h
  split
  · exact tracked_refl _
  · exact h
theorem get_tracked : Tracked db (cmdGet c db k).db := by unfold cmdGet; tracked
theorem getdel_tracked : Tracked db (cmdGetDel c db k).db := by unfold cmdGetDel; tracked
theorem getex_tracked (e : Option ExpArg) : Tracked db (cmdGetEx c db k e).db := by unfold cmdGetEx; tracked
theorem strlen_tracked : Tracked db (cmdStrlen c db k).db := by unfold cmdStrlen; tracked
theorem getrange_tracked : Tracked db (cmdGetRange c db k i j).db := by unfold cmdGetRange; tracked
theorem setrange_tracked : Tracked db (cmdSetRange c db k i v).db := by unfold cmdSetRange; tracked
theorem incrby_tracked : Tracked db (cmdIncrBy c db k i).db := by unfold cmdIncrBy; tracked
theorem decrby_tracked : Tracked db (cmdDecrBy c db k i).db := by
  unfold cmdDecrBy
  split
  · exact tracked_refl _
  · exact incrby_tracked (c := c) (db := db) (k := k) (hq := hq) (hu := hu) _
theorem mget_tracked : Tracked db (cmdMGet c db ks).db := by unfold cmdMGet; tracked
theorem mset_tracked : Tracked db (cmdMSet c db kvs b).db := by unfold cmdMSet; tracked
theorem incrbyfloat_tracked : Tracked db (cmdIncrByFloat c db k v).db := by unfold cmdIncrByFloat; tracked
theorem push_tracked : Tracked db (cmdPush c db k ks b b2).db := by unfold cmdPush; tracked
theorem pop_tracked : Tracked db (cmdPop c db k oi b).db := by
  have go : ∀ n multi, Tracked db (cmdPop.go c db k b n multi).db := by
    intro n multi
    unfold cmdPop.go
    tracked
  unfold cmdPop
  split
  · split
    · exact tracked_refl _
    · exact go _ _
  · exact go _ _
theorem llen_tracked : Tracked db (cmdLLen c db k).db := by unfold cmdLLen; tracked
theorem lindex_tracked : Tracked db (cmdLIndex c db k i).db := by unfold cmdLIndex; tracked
theorem lrange_tracked : Tracked db (cmdLRange c db k i j).db := by unfold cmdLRange; tracked
theorem lset_tracked : Tracked db (cmdLSet c db k i v).db := by unfold cmdLSet; tracked
theorem linsert_tracked : Tracked db (cmdLInsert c db k b v m).db := by unfold cmdLInsert; tracked
theorem lrem_tracked : Tracked db (cmdLRem c db k i v).db := by unfold cmdLRem; tracked
theorem ltrim_tracked : Tracked db (cmdLTrim c db k i j).db := by unfold cmdLTrim; tracked
theorem lpos_tracked : Tracked db (cmdLPos c db k v oi oj ok').db := by unfold cmdLPos; tracked
theorem hset_tracked : Tracked db (cmdHSet c db k kvs b b2).db := by unfold cmdHSet; tracked
theorem hget_tracked : Tracked db (cmdHGet c db k f).db := by unfold cmdHGet; tracked
theorem hmget_tracked : Tracked db (cmdHMGet c db k ks).db := by unfold cmdHMGet; tracked
theorem hgetall_tracked : Tracked db (cmdHGetAll c db k).db := by unfold cmdHGetAll; tracked
theorem hkeys_tracked : Tracked db (cmdHKeys c db k b).db := by unfold cmdHKeys; tracked
theorem hlen_tracked : Tracked db (cmdHLen c db k).db := by unfold cmdHLen; tracked
theorem hexists_tracked : Tracked db (cmdHExists c db k f).db := by unfold cmdHExists; tracked
theorem hstrlen_tracked : Tracked db (cmdHStrlen c db k f).db := by unfold cmdHStrlen; tracked
theorem hdel_tracked : Tracked db (cmdHDel c db k ks).db := by unfold cmdHDel; tracked
theorem hincrby_tracked : Tracked db (cmdHIncrBy c db k f i).db := by unfold cmdHIncrBy; tracked
theorem hincrbyfloat_tracked : Tracked db (cmdHIncrByFloat c db k f v).db := by unfold cmdHIncrByFloat; tracked
theorem sadd_tracked : Tracked db (cmdSAdd c db k ks).db := by unfold cmdSAdd; tracked
theorem srem_tracked : Tracked db (cmdSRem c db k ks).db := by unfold cmdSRem; tracked
theorem scard_tracked : Tracked db (cmdSCard c db k).db := by unfold cmdSCard; tracked
theorem sismember_tracked : Tracked db (cmdSIsMember c db k m).db := by unfold cmdSIsMember; tracked
theorem smismember_tracked : Tracked db (cmdSMIsMember c db k ks).db := by unfold cmdSMIsMember; tracked
theorem smembers_tracked : Tracked db (cmdSMembers c db k).db := by unfold cmdSMembers; tracked
theorem smove_tracked : Tracked db (cmdSMove c db k k2 m).db := by unfold cmdSMove; tracked
theorem setalgebra_tracked (op : SetOp) : Tracked db (cmdSetAlgebra c db op ks).db := by unfold cmdSetAlgebra; tracked
theorem setalgebrastore_tracked (op : SetOp) : Tracked db (cmdSetAlgebraStore c db op k ks).db := by unfold cmdSetAlgebraStore; tracked
theorem sintercard_tracked : Tracked db (cmdSInterCard c db i ks j).db := by unfold cmdSInterCard; tracked
theorem del_tracked : Tracked db (cmdDel c db ks b).db := by
  unfold cmdDel
  simp only [hu, Bool.not_false, Bool.or_true, if_true]
  have key : ∀ (ks : List Bytes) (acc : Db × Nat), Tracked db acc.1 →
      Tracked db (ks.foldl (fun (acc : Db × Nat) (k : Bytes) =>
        match acc.1.live c.now k with
        | some _ => (acc.1.del k, acc.2 + 1)
        | none => if b = true then (acc.1.del k, acc.2) else (acc.1, acc.2)) acc).1 := by
    intro ks
    induction ks with
    | nil => intro acc h; exact h
    | cons x r ih =>
      intro acc h
      simp only [List.foldl_cons]
      apply ih
      split
      · exact tracked_trans h (tracked_del _ _)
      · split
        · exact tracked_trans h (tracked_del _ _)
        · exact h
  exact key ks (db, 0) (tracked_refl _)
theorem exists_tracked : Tracked db (cmdExists c db ks).db := by unfold cmdExists; tracked
theorem type_tracked : Tracked db (cmdType c db k).db := by unfold cmdType; tracked
theorem rename_tracked : Tracked db (cmdRename c db k k2 b).db := by unfold cmdRename; tracked
theorem copy_tracked : Tracked db (cmdCopy c db k k2 b).db := by unfold cmdCopy; tracked
theorem expireat_tracked (opt : ExpireOpt) : Tracked db (cmdExpireAt c db k i opt).db := by unfold cmdExpireAt; tracked
theorem persist_tracked : Tracked db (cmdPersist c db k).db := by unfold cmdPersist; tracked
theorem ttl_tracked (kind : TtlKind) : Tracked db (cmdTtl c db k kind).db := by unfold cmdTtl; tracked
theorem getbit_tracked : Tracked db (cmdGetBit c db k i).db := by unfold cmdGetBit; tracked
theorem bitpos_tracked (st : Option Int) (en : Option (Int × Bool)) : Tracked db (cmdBitPos c db k i st en).db := by unfold cmdBitPos; tracked
theorem bitop_tracked : Tracked db (cmdBitOp c db k k2 ks).db := by unfold cmdBitOp; tracked
theorem bitfieldParsed_tracked (ps : List BfParsed) : Tracked db (cmdBitfieldParsed c db k ps).db := by unfold cmdBitfieldParsed; tracked
theorem bitfield_tracked (ops : List BfOp) : Tracked db (cmdBitfield c db k ops).db := by
  unfold cmdBitfield
  split
  · exact tracked_refl _
  · exact bitfieldParsed_tracked (c := c) (db := db) (k := k) (hq := hq) (hu := hu) _
theorem setbit_tracked : Tracked db (cmdSetBit c db k i j).db := by
  unfold cmdSetBit
  split
  · exact tracked_refl _
  · split
    · exact tracked_refl _
    · have h := bitfieldParsed_tracked (c := c) (db := db) (k := k) (hq := hq) (hu := hu) [{ kind := .set, signed := false, width := 1, off := i, value := j, ov := .wrap }]
      dsimp only
      split <;> exact h
theorem bitcount_tracked (r : Option (Int × Int × Bool)) : Tracked db (cmdBitCount c db k r).db := by
  unfold cmdBitCount
  split
  · exact tracked_refl _
  · split_ifs <;> first
      | exact Or.inl rfl
      | (extract_lets; split_ifs <;> exact Or.inl rfl)
  · exact tracked_refl _

theorem lmove_tracked : Tracked db (cmdLMove c db k k2 b b2).db := by
  unfold cmdLMove
  tracked

theorem lmpop_tracked : Tracked db (cmdLMPop c db ks b n).db := by
  have go : ∀ ks, Tracked db (cmdLMPop.go c db b n ks).db := by
    intro ks
    induction ks with
    | nil => exact tracked_refl _
    | cons x r ih =>
      unfold cmdLMPop.go
      split
      · exact tracked_refl _
      · exact ih
      · split
        · exact ih
        · dsimp only [R.ok]; exact tracked_upd _ _ _ _ _ _
  unfold cmdLMPop
  exact go ks

theorem bpop_tracked : Tracked db (runCmd.go c b db ks).db := by
  induction ks with
  | nil => exact tracked_refl _
  | cons x r ih =>
    unfold runCmd.go
    split
    · exact tracked_refl _
    · exact ih
    · split
      · exact ih
      · dsimp only [R.ok]; exact tracked_upd _ _ _ _ _ _

theorem sortFinish_tracked (store : Option Bytes) (out : List Value) (hint : Match) :
    Tracked db (sortFinish db store out hint).db := by
  unfold sortFinish
  split
  · exact tracked_refl _
  · split
    · exact tracked_del _ _
    · exact Or.inr rfl

theorem sort_tracked (by_ : Option Bytes) (limit : Option (Int × Int)) (gets : List Bytes) (store : Option Bytes) :
    Tracked db (cmdSort c db k by_ limit gets b b2 store).db := by
  unfold cmdSort
  split
  · exact tracked_refl _
  · exact sortFinish_tracked (db := db) (hq := hq) (hu := hu) (c := c) _ _ _
  · split
    · exact tracked_refl _
    · exact sortFinish_tracked (db := db) (hq := hq) (hu := hu) (c := c) _ _ _
end

theorem onDb_tracked (s : State) (ref : Nat) (f : Db → R) (h : Tracked (s.getDb ref) (f (s.getDb ref)).db) :
    Tracked (s.getDb ref) ((onDb s ref f).st.getDb ref) := by
  unfold onDb
  rw [getDb_setDb_self]
  exact h

/-- **Nothing changes unnoticed.** Every data command, whatever its arguments and whatever the database
    holds, leaves the connection's database either exactly as it was or marked dirty — so a save that
    writes the dirty databases (`saver_spec`) writes every database that differs from its snapshot. -/
theorem runCmd_tracked (c : Ctx) (s : State) (conn ref : Nat) (m : Bool) (cmd : Cmd)
    (hq : c.q.dirtyIncomplete = false) (hu : c.q.unlinkKeepsObject = false) (hs : cmd.isSession = false) :
    Tracked (s.getDb ref) ((runCmd c s conn ref m cmd).st.getDb ref) := by
  cases cmd <;> (try (simp [Cmd.isSession] at hs; done))
  case copy a b rep dbOpt =>
    simp only [runCmd]
    split
    · exact tracked_refl _
    · exact onDb_tracked s ref _ (copy_tracked (c := c) (hq := hq) (hu := hu) _ _ _ _)
  case lmpop nk ks l cnt =>
    simp only [runCmd]
    split
    · exact tracked_refl _
    · split
      · exact tracked_refl _
      · exact onDb_tracked s ref _ (lmpop_tracked (c := c) (hq := hq) (hu := hu) _ _ _ _)
  case set a0 a1 a2 a3 => simp only [runCmd]; exact onDb_tracked s ref _ (set_tracked (c := c) (hq := hq) (hu := hu) ..)
  case append a0 a1 => simp only [runCmd]; exact onDb_tracked s ref _ (append_tracked (c := c) (hq := hq) (hu := hu) ..)
  case get a0 => simp only [runCmd]; exact onDb_tracked s ref _ (get_tracked (c := c) (hq := hq) (hu := hu) ..)
  case getdel a0 => simp only [runCmd]; exact onDb_tracked s ref _ (getdel_tracked (c := c) (hq := hq) (hu := hu) ..)
  case getex a0 a1 => simp only [runCmd]; exact onDb_tracked s ref _ (getex_tracked (c := c) (hq := hq) (hu := hu) ..)
  case strlen a0 => simp only [runCmd]; exact onDb_tracked s ref _ (strlen_tracked (c := c) (hq := hq) (hu := hu) ..)
  case getrange a0 a1 a2 => simp only [runCmd]; exact onDb_tracked s ref _ (getrange_tracked (c := c) (hq := hq) (hu := hu) ..)
  case setrange a0 a1 a2 => simp only [runCmd]; exact onDb_tracked s ref _ (setrange_tracked (c := c) (hq := hq) (hu := hu) ..)
  case incrby a0 a1 => simp only [runCmd]; exact onDb_tracked s ref _ (incrby_tracked (c := c) (hq := hq) (hu := hu) ..)
  case decrby a0 a1 => simp only [runCmd]; exact onDb_tracked s ref _ (decrby_tracked (c := c) (hq := hq) (hu := hu) ..)
  case incrbyfloat a0 a1 => simp only [runCmd]; exact onDb_tracked s ref _ (incrbyfloat_tracked (c := c) (hq := hq) (hu := hu) ..)
  case mget a0 => simp only [runCmd]; exact onDb_tracked s ref _ (mget_tracked (c := c) (hq := hq) (hu := hu) ..)
  case mset a0 a1 => simp only [runCmd]; exact onDb_tracked s ref _ (mset_tracked (c := c) (hq := hq) (hu := hu) ..)
  case push a0 a1 a2 a3 => simp only [runCmd]; exact onDb_tracked s ref _ (push_tracked (c := c) (hq := hq) (hu := hu) ..)
  case pop a0 a1 a2 => simp only [runCmd]; exact onDb_tracked s ref _ (pop_tracked (c := c) (hq := hq) (hu := hu) ..)
  case llen a0 => simp only [runCmd]; exact onDb_tracked s ref _ (llen_tracked (c := c) (hq := hq) (hu := hu) ..)
  case lindex a0 a1 => simp only [runCmd]; exact onDb_tracked s ref _ (lindex_tracked (c := c) (hq := hq) (hu := hu) ..)
  case lrange a0 a1 a2 => simp only [runCmd]; exact onDb_tracked s ref _ (lrange_tracked (c := c) (hq := hq) (hu := hu) ..)
  case lset a0 a1 a2 => simp only [runCmd]; exact onDb_tracked s ref _ (lset_tracked (c := c) (hq := hq) (hu := hu) ..)
  case linsert a0 a1 a2 a3 => simp only [runCmd]; exact onDb_tracked s ref _ (linsert_tracked (c := c) (hq := hq) (hu := hu) ..)
  case lrem a0 a1 a2 => simp only [runCmd]; exact onDb_tracked s ref _ (lrem_tracked (c := c) (hq := hq) (hu := hu) ..)
  case ltrim a0 a1 a2 => simp only [runCmd]; exact onDb_tracked s ref _ (ltrim_tracked (c := c) (hq := hq) (hu := hu) ..)
  case lpos a0 a1 a2 a3 a4 => simp only [runCmd]; exact onDb_tracked s ref _ (lpos_tracked (c := c) (hq := hq) (hu := hu) ..)
  case lmove a0 a1 a2 a3 => simp only [runCmd]; exact onDb_tracked s ref _ (lmove_tracked (c := c) (hq := hq) (hu := hu) ..)
  case hset a0 a1 a2 a3 => simp only [runCmd]; exact onDb_tracked s ref _ (hset_tracked (c := c) (hq := hq) (hu := hu) ..)
  case hget a0 a1 => simp only [runCmd]; exact onDb_tracked s ref _ (hget_tracked (c := c) (hq := hq) (hu := hu) ..)
  case hmget a0 a1 => simp only [runCmd]; exact onDb_tracked s ref _ (hmget_tracked (c := c) (hq := hq) (hu := hu) ..)
  case hgetall a0 => simp only [runCmd]; exact onDb_tracked s ref _ (hgetall_tracked (c := c) (hq := hq) (hu := hu) ..)
  case hkeys a0 a1 => simp only [runCmd]; exact onDb_tracked s ref _ (hkeys_tracked (c := c) (hq := hq) (hu := hu) ..)
  case hlen a0 => simp only [runCmd]; exact onDb_tracked s ref _ (hlen_tracked (c := c) (hq := hq) (hu := hu) ..)
  case hexists a0 a1 => simp only [runCmd]; exact onDb_tracked s ref _ (hexists_tracked (c := c) (hq := hq) (hu := hu) ..)
  case hstrlen a0 a1 => simp only [runCmd]; exact onDb_tracked s ref _ (hstrlen_tracked (c := c) (hq := hq) (hu := hu) ..)
  case hdel a0 a1 => simp only [runCmd]; exact onDb_tracked s ref _ (hdel_tracked (c := c) (hq := hq) (hu := hu) ..)
  case hincrby a0 a1 a2 => simp only [runCmd]; exact onDb_tracked s ref _ (hincrby_tracked (c := c) (hq := hq) (hu := hu) ..)
  case hincrbyfloat a0 a1 a2 => simp only [runCmd]; exact onDb_tracked s ref _ (hincrbyfloat_tracked (c := c) (hq := hq) (hu := hu) ..)
  case sadd a0 a1 => simp only [runCmd]; exact onDb_tracked s ref _ (sadd_tracked (c := c) (hq := hq) (hu := hu) ..)
  case srem a0 a1 => simp only [runCmd]; exact onDb_tracked s ref _ (srem_tracked (c := c) (hq := hq) (hu := hu) ..)
  case scard a0 => simp only [runCmd]; exact onDb_tracked s ref _ (scard_tracked (c := c) (hq := hq) (hu := hu) ..)
  case sismember a0 a1 => simp only [runCmd]; exact onDb_tracked s ref _ (sismember_tracked (c := c) (hq := hq) (hu := hu) ..)
  case smismember a0 a1 => simp only [runCmd]; exact onDb_tracked s ref _ (smismember_tracked (c := c) (hq := hq) (hu := hu) ..)
  case smembers a0 => simp only [runCmd]; exact onDb_tracked s ref _ (smembers_tracked (c := c) (hq := hq) (hu := hu) ..)
  case smove a0 a1 a2 => simp only [runCmd]; exact onDb_tracked s ref _ (smove_tracked (c := c) (hq := hq) (hu := hu) ..)
  case salg a0 a1 => simp only [runCmd]; exact onDb_tracked s ref _ (setalgebra_tracked (c := c) (hq := hq) (hu := hu) ..)
  case salgStore a0 a1 a2 => simp only [runCmd]; exact onDb_tracked s ref _ (setalgebrastore_tracked (c := c) (hq := hq) (hu := hu) ..)
  case sintercard a0 a1 a2 => simp only [runCmd]; exact onDb_tracked s ref _ (sintercard_tracked (c := c) (hq := hq) (hu := hu) ..)
  case del a0 a1 => simp only [runCmd]; exact onDb_tracked s ref _ (del_tracked (c := c) (hq := hq) (hu := hu) ..)
  case exists_ a0 => simp only [runCmd]; exact onDb_tracked s ref _ (exists_tracked (c := c) (hq := hq) (hu := hu) ..)
  case touch a0 => simp only [runCmd]; exact onDb_tracked s ref _ (exists_tracked (c := c) (hq := hq) (hu := hu) ..)
  case type_ a0 => simp only [runCmd]; exact onDb_tracked s ref _ (type_tracked (c := c) (hq := hq) (hu := hu) ..)
  case rename a0 a1 a2 => simp only [runCmd]; exact onDb_tracked s ref _ (rename_tracked (c := c) (hq := hq) (hu := hu) ..)
  case sort a0 a1 a2 a3 a4 a5 a6 => simp only [runCmd]; exact onDb_tracked s ref _ (sort_tracked (c := c) (hq := hq) (hu := hu) ..)
  case persist a0 => simp only [runCmd]; exact onDb_tracked s ref _ (persist_tracked (c := c) (hq := hq) (hu := hu) ..)
  case ttl a0 a1 => simp only [runCmd]; exact onDb_tracked s ref _ (ttl_tracked (c := c) (hq := hq) (hu := hu) ..)
  case getbit a0 a1 => simp only [runCmd]; exact onDb_tracked s ref _ (getbit_tracked (c := c) (hq := hq) (hu := hu) ..)
  case setbit a0 a1 a2 => simp only [runCmd]; exact onDb_tracked s ref _ (setbit_tracked (c := c) (hq := hq) (hu := hu) ..)
  case bitcount a0 a1 => simp only [runCmd]; exact onDb_tracked s ref _ (bitcount_tracked (c := c) (hq := hq) (hu := hu) ..)
  case bitpos a0 a1 a2 a3 => simp only [runCmd]; exact onDb_tracked s ref _ (bitpos_tracked (c := c) (hq := hq) (hu := hu) ..)
  case bitop a0 a1 a2 => simp only [runCmd]; exact onDb_tracked s ref _ (bitop_tracked (c := c) (hq := hq) (hu := hu) ..)
  case bitfield a0 a1 a2 => simp only [runCmd]; exact onDb_tracked s ref _ (bitfield_tracked (c := c) (hq := hq) (hu := hu) ..)
  case expire k n u a o => simp only [runCmd]; exact onDb_tracked s ref _ (expireat_tracked (c := c) (hq := hq) (hu := hu) ..)
  case bpop ks l => simp only [runCmd]; exact onDb_tracked s ref _ (bpop_tracked (c := c) (hq := hq) (hu := hu) ..)
  all_goals
    simp only [runCmd]
    apply onDb_tracked
    tracked

/-- what ties a running database to its snapshot file: it is marked dirty, or it is what the file holds -/
def InSync (db : Db) (fs : FS) (name : String) : Prop :=
  db.dirty = true ∨ fs.load name = .ok db.snapshot

theorem inSync_after_save (name : String) (db : Db) (fs : FS) (h : InSync db fs name) :
    (saveIfDirty name db fs).2.load name = .ok db.snapshot ∧
    (saveIfDirty name db fs).1.snapshot = db.snapshot ∧ (saveIfDirty name db fs).1.dirty = false := by
  obtain ⟨h1, h2, h3⟩ := saver_spec name db fs
  refine ⟨?_, ?_, h1⟩
  · cases hd : db.dirty with
    | true => exact h2 hd
    | false =>
      rw [h3 hd]
      rcases h with h | h
      · rw [hd] at h; cases h
      · exact h
  · unfold saveIfDirty; split_ifs <;> rfl

theorem inSync_step (db db' : Db) (fs : FS) (name : String) (h : InSync db fs name) (ht : Tracked db db') :
    InSync db' fs name := by
  rcases ht with e | e
  · rw [e]; exact h
  · exact Or.inl e

/-- a run of data commands on one connection's database -/
def runData (c : Ctx) (conn ref : Nat) (m : Bool) : State → List Cmd → State
  | s, [] => s
  | s, cmd :: r => runData c conn ref m (runCmd c s conn ref m cmd).st r

/-- **Restart restores the acknowledged state.** Start from a database that is in step with its
    snapshot file (freshly loaded or just saved); run any sequence of data commands; save; restart:
    the loaded database holds exactly the keys, values, deadlines and versions the running one held —
    whichever commands ran, including those that change values in place, and whether or not the
    save wrote anything. -/
theorem restart_restores (c : Ctx) (conn ref : Nat) (m : Bool) (name : String) (fs : FS)
    (hq : c.q.dirtyIncomplete = false) (hu : c.q.unlinkKeepsObject = false)
    (cmds : List Cmd) (hd : ∀ cmd ∈ cmds, cmd.isSession = false) :
    ∀ (s : State), InSync (s.getDb ref) fs name →
      let db := (runData c conn ref m s cmds).getDb ref
      ∃ snap, (saveIfDirty name db fs).2.load name = .ok snap ∧ snap.load.keys = db.keys ∧ snap.load.nextId = db.nextId := by
  induction cmds with
  | nil =>
    intro s h
    simp only [runData]
    exact ⟨_, (inSync_after_save name _ fs h).1, rfl, rfl⟩
  | cons cmd r ih =>
    intro s h
    simp only [runData]
    apply ih (fun x hx => hd x (List.mem_cons_of_mem _ hx))
    exact inSync_step _ _ fs name h (runCmd_tracked c s conn ref m cmd hq hu (hd cmd List.mem_cons_self))


/-- the hypotheses of `restart_restores` are satisfiable: a database that was just changed -/
example : InSync { keys := [([107], { val := .str [118] })], nextId := 1, dirty := true } [] "snap.db0" := Or.inl rfl

end RedisEmu
