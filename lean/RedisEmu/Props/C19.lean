import RedisEmu.Persist
import RedisEmu.Exec
import Mathlib.Tactic.SplitIfs
/-
  C19 — persistence. Theorems about `RedisEmu.Persist` (save protocol) and about the dirty bit of
  `RedisEmu.Cmds` (tied to the Go code by the `persist` tool: real save / restart cycles and crash
  copies taken at every stage of every snapshot file, and by the SAVE pseudo-operation of `corr`,
  which compares the dirty bit of every database after every few commands).
-/
namespace RedisEmu

/-! ### a restart restores exactly what was saved -/

theorem load_snapshot (db : Db) : db.snapshot.load.keys = db.keys ∧ db.snapshot.load.nextId = db.nextId ∧
    db.snapshot.load.dirty = false := ⟨rfl, rfl, rfl⟩

/-- every lookup — live or raw, at any time — answers the same on the restored database -/
theorem restored_lookups (db : Db) (now : Int) (k : Bytes) :
    db.snapshot.load.live now k = db.live now k ∧ db.snapshot.load.raw k = db.raw k := ⟨rfl, rfl⟩

/-! ### crash atomicity of the save protocol -/

theorem tmp_ne (name : String) : (tmpOf name == name) = false := by
  unfold tmpOf
  simp only [beq_eq_false_iff_ne, ne_eq]
  intro h
  have := congrArg String.length h
  simp [String.length_append] at this

theorem get_put_ne (fs : FS) (a b : String) (c : FileContent) (h : (a == b) = false) :
    (fs.put a c).get b = fs.get b := by
  unfold FS.put FS.get
  simp only [List.find?_cons, h]
  congr 1
  induction fs with
  | nil => rfl
  | cons p r ih =>
    by_cases hp : (p.1 != a) = true
    · simp only [List.filter_cons, hp, ↓reduceIte, List.find?_cons]
      cases hb : (p.1 == b) <;> simp [ih]
    · simp only [List.filter_cons, hp, Bool.false_eq_true, ↓reduceIte, List.find?_cons]
      have e : p.1 = a := by simpa using hp
      have : (p.1 == b) = false := by rw [e]; exact h
      simp [this, ih]

theorem get_put_self (fs : FS) (a : String) (c : FileContent) : (fs.put a c).get a = some c := by
  unfold FS.put FS.get; simp

theorem get_remove_ne (fs : FS) (a b : String) (h : (a == b) = false) : (fs.remove a).get b = fs.get b := by
  unfold FS.remove FS.get
  congr 1
  induction fs with
  | nil => rfl
  | cons p r ih =>
    by_cases hp : (p.1 != a) = true
    · simp only [List.filter_cons, hp, ↓reduceIte, List.find?_cons]
      cases hb : (p.1 == b) <;> simp [ih]
    · simp only [List.filter_cons, hp, Bool.false_eq_true, ↓reduceIte, List.find?_cons]
      have e : p.1 = a := by simpa using hp
      have : (p.1 == b) = false := by rw [e]; exact h
      simp [this, ih]

/-- a step before the rename never touches the snapshot file itself -/
theorem step_keeps_snapshot (name : String) (s : Snapshot) (fs : FS) (st : SaveStep) (h : st ≠ .rename) :
    (applyStep name s fs st).load name = fs.load name := by
  unfold FS.load
  cases st with
  | rename => exact absurd rfl h
  | createTmp => simp only [applyStep]; rw [get_put_ne _ _ _ _ (tmp_ne name)]
  | writeSome => simp only [applyStep]; rw [get_put_ne _ _ _ _ (tmp_ne name)]
  | closeTmp => simp only [applyStep]; rw [get_put_ne _ _ _ _ (tmp_ne name)]

/-- **Crash atomicity.** Whatever prefix of the save protocol has been executed when the process dies,
    a restart loads the database from its file either exactly as before the save began or exactly as
    the new snapshot — never a partial, mixed or empty one. -/
theorem crash_atomic (name : String) (s : Snapshot) (fs : FS) (n : Nat) :
    (runSteps name s (saveSteps.take n) fs).load name = fs.load name ∨
    (runSteps name s (saveSteps.take n) fs).load name = .ok s := by
  have hr : ∀ fs', (applyStep name s fs' .rename).load name = .ok s := by
    intro fs'
    unfold FS.load
    simp only [applyStep]
    rw [get_remove_ne _ _ _ (tmp_ne name), get_put_self]
  have h1 := step_keeps_snapshot name s
  rcases Nat.lt_or_ge n 5 with hlt | hge
  · left
    have : n = 0 ∨ n = 1 ∨ n = 2 ∨ n = 3 ∨ n = 4 := by omega
    rcases this with h | h | h | h | h <;> subst h <;> simp only [saveSteps, List.take, runSteps]
    · rw [h1 _ _ (by decide)]
    · rw [h1 _ _ (by decide), h1 _ _ (by decide)]
    · rw [h1 _ _ (by decide), h1 _ _ (by decide), h1 _ _ (by decide)]
    · rw [h1 _ _ (by decide), h1 _ _ (by decide), h1 _ _ (by decide), h1 _ _ (by decide)]
  · right
    have : saveSteps.take n = saveSteps := by
      apply List.take_of_length_le; simp [saveSteps]; omega
    rw [this]
    simp only [saveSteps, runSteps]
    exact hr _

/-- the other databases' files are not touched by saving this one -/
theorem save_other_files_untouched (name other : String) (s : Snapshot) (fs : FS) (n : Nat)
    (h1 : (name == other) = false) (h2 : (tmpOf name == other) = false) :
    (runSteps name s (saveSteps.take n) fs).get other = fs.get other := by
  have hstep : ∀ fs' st, (applyStep name s fs' st).get other = fs'.get other := by
    intro fs' st
    cases st <;> simp only [applyStep]
    · exact get_put_ne _ _ _ _ h2
    · exact get_put_ne _ _ _ _ h2
    · exact get_put_ne _ _ _ _ h2
    · rw [get_remove_ne _ _ _ h2, get_put_ne _ _ _ _ h1]
  have : ∀ (l : List SaveStep) fs', (runSteps name s l fs').get other = fs'.get other := by
    intro l
    induction l with
    | nil => intro fs'; rfl
    | cons st r ih => intro fs'; simp only [runSteps]; rw [ih, hstep]
  exact this _ _

/-! ### the dirty bit is complete: a changed keyspace is a dirty database -/

theorem put_dirty (db : Db) (k : Bytes) (v : Val) (e : Option Int) : (db.put k v e).dirty = true := rfl

theorem del_changed_dirty (db : Db) (k : Bytes) (h : (db.del k).keys ≠ db.keys) : (db.del k).dirty = true := by
  unfold Db.del at *
  cases hr : db.raw k with
  | none => simp [hr] at h
  | some e => simp [hr]

theorem update_dirty (db : Db) (k : Bytes) (e : Entry) (v : Val) : (db.update k e v).dirty = true := by
  unfold Db.update
  cases v <;> simp only <;> (try split_ifs) <;> rfl

/-- every in-place change of the model goes through `upd`, which always marks the database dirty -/
theorem upd_dirty (c : Ctx) (db : Db) (k : Bytes) (e : Entry) (v : Val) : (upd c db k e v).dirty = true := by
  unfold upd bump
  split_ifs <;> exact update_dirty _ _ _ _

/-- with the repaired behaviour (quirk off) the deadline-only changes mark it dirty too -/
theorem expire_dirty (c : Ctx) (db : Db) (k : Bytes) (dl : Int) (opt : ExpireOpt)
    (hq : c.q.dirtyIncomplete = false) (h : (cmdExpireAt c db k dl opt).reply = .int 1) :
    (cmdExpireAt c db k dl opt).db.dirty = true := by
  unfold cmdExpireAt at *
  split at h
  · simp [R.ok] at h
  · simp only at h ⊢
    split_ifs at h ⊢
    · simp [R.ok] at h
    · simp [R.ok, dirtyUnlessQuirk, hq, Db.setDirty]

theorem persist_dirty (c : Ctx) (db : Db) (k : Bytes)
    (hq : c.q.dirtyIncomplete = false) (h : (cmdPersist c db k).reply = .int 1) :
    (cmdPersist c db k).db.dirty = true := by
  unfold cmdPersist at *
  split at h
  · simp [R.ok] at h
  · split_ifs at h ⊢
    · simp [R.ok] at h
    · simp [R.ok, dirtyUnlessQuirk, hq, Db.setDirty]

theorem lset_dirty (c : Ctx) (db : Db) (k v : Bytes) (i : Int)
    (hq : c.q.dirtyIncomplete = false) (h : (cmdLSet c db k i v).reply = vOK) :
    (cmdLSet c db k i v).db.dirty = true := by
  unfold cmdLSet at *
  split at h
  · simp [R.ok, wrongType, vOK] at h
  · simp [R.ok, errNoSuchKey, vOK] at h
  · simp only at h ⊢
    split_ifs at h ⊢
    all_goals first
      | (simp [R.ok, errIndex, vOK] at h; done)
      | (simp [R.ok, dirtyUnlessQuirk, hq, Db.setDirty])

/-- the saver: a dirty database is written and becomes clean; a clean one is left alone -/
theorem saver_spec (name : String) (db : Db) (fs : FS) :
    (saveIfDirty name db fs).1.dirty = false ∧
    (db.dirty = true → (saveIfDirty name db fs).2.load name = .ok db.snapshot) ∧
    (db.dirty = false → (saveIfDirty name db fs).2 = fs) := by
  unfold saveIfDirty
  refine ⟨?_, ?_, ?_⟩
  · split_ifs with h
    · rfl
    · simpa using h
  · intro h
    simp only [h, ↓reduceIte]
    have := crash_atomic name db.snapshot fs 5
    have e : saveSteps.take 5 = saveSteps := by simp [saveSteps]
    rw [e] at this
    -- after the complete protocol the file holds the new snapshot
    simp only [saveSteps, runSteps]
    unfold FS.load
    simp only [applyStep]
    rw [get_remove_ne _ _ _ (tmp_ne name), get_put_self]
  · intro h; simp [h]

end RedisEmu
