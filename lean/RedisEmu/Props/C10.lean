import RedisEmu.Exec
import RedisEmu.Proofs.AList
import RedisEmu.Proofs.State
import Mathlib.Tactic.SplitIfs
/-
  C10 — WATCH. EXEC runs iff no watched key changed its version.
  Theorems about `watchChanged`, `Db.put` / `del` / `upd` (family `tx` with watches).
-/
namespace RedisEmu

/-- version invariant: every stored id is positive and not above the counter, so a fresh id is
    different from every id ever handed out (and from 0 = "key was missing") -/
def Db.IdInv (db : Db) : Prop := ∀ p ∈ db.keys, 0 < p.2.id ∧ p.2.id ≤ db.nextId

theorem idInv_init : ({} : Db).IdInv := by intro p hp; simp at hp

theorem mem_ainsert' {α} (k : Bytes) (v : α) (l : List (Bytes × α)) (p : Bytes × α)
    (hp : p ∈ ainsert k v l) : p = (k, v) ∨ p ∈ l := by
  induction l with
  | nil => simp [ainsert] at hp; exact Or.inl hp
  | cons q r ih =>
    obtain ⟨k', v'⟩ := q
    by_cases h : (k' == k) = true
    · simp only [ainsert, h, ↓reduceIte, List.mem_cons] at hp
      rcases hp with hp | hp
      · exact Or.inl hp
      · exact Or.inr (List.mem_cons_of_mem _ hp)
    · simp only [ainsert, h, Bool.false_eq_true, ↓reduceIte, List.mem_cons] at hp
      rcases hp with hp | hp
      · exact Or.inr (by rw [hp]; exact List.mem_cons_self)
      · rcases ih hp with h1 | h1
        · exact Or.inl h1
        · exact Or.inr (List.mem_cons_of_mem _ h1)

theorem idInv_put (db : Db) (k : Bytes) (v : Val) (exp : Option Int) (h : db.IdInv) : (db.put k v exp).IdInv := by
  intro p hp
  rcases mem_ainsert' k _ db.keys p hp with e | hm
  · subst e; simp [Db.put]
  · have := h p hm; simp only [Db.put]; omega

/-- Every command that replaces a key (SET, GETSET, MSET, INCR/APPEND/SETRANGE/SETBIT/BITFIELD,
    the STORE forms, BITOP, RENAME/COPY onto it, key creation by a push/HSET/SADD) goes through
    `Db.put`: afterwards the key's version differs from every version recorded earlier — whether
    the key existed (`id₀` = its old id) or not (`id₀ = 0`). -/
theorem put_changes_version (db : Db) (k : Bytes) (v : Val) (exp : Option Int) (h : db.IdInv) (id₀ : Nat)
    (hrec : id₀ = 0 ∨ ∃ e, db.raw k = some e ∧ e.id = id₀) :
    ((db.put k v exp).raw k).map (·.id) ≠ some id₀ := by
  simp only [Db.put, Db.raw, alookup_ainsert_self, Option.map_some, ne_eq, Option.some.injEq]
  rcases hrec with h0 | ⟨e, he, hid⟩
  · omega
  · have := h (k, e) (mem_of_alookup k db.keys e he)
    simp only at this; omega

/-- deleting a key that existed makes it "missing", which differs from its recorded version -/
theorem del_changes_version (db : Db) (k : Bytes) (e : Entry) (h : db.IdInv) (hu : (db.keys.map (·.1)).Nodup)
    (he : db.raw k = some e) : (db.del k).raw k = none ∧ e.id ≠ 0 := by
  constructor
  · unfold Db.del; simp only [he]; unfold Db.raw
    exact alookup_aerase_self_of_unique k db.keys hu
  · have := h (k, e) (mem_of_alookup k db.keys e he); simp only at this; omega

/-- the check EXEC performs, on the model: a watch recorded with the key's current version (or 0
    for a missing key) does not abort; any other recorded version aborts -/
theorem watchChanged_iff (c : Ctx) (s : State) (ref : Nat) (k : Bytes) (id₀ : Nat)
    (hq : c.q.inplaceKeepsVersion = true) :
    watchChanged c s (ref, k, id₀) = false ↔
      ((s.getDb ref).raw k).map (·.id) = some id₀ ∨ ((s.getDb ref).raw k = none ∧ id₀ = 0) := by
  unfold watchChanged
  simp only [hq, ↓reduceIte]
  cases hr : (s.getDb ref).raw k with
  | none => simp
  | some e =>
    simp only [bne_eq_false_iff_eq, Option.map_some, Option.some.injEq, reduceCtorEq, false_and, or_false]
    exact eq_comm

/-- with the repaired behaviour (quirk off) an in-place update hands out a fresh version, so it is
    seen by WATCH exactly like a replacement -/
theorem upd_changes_version (c : Ctx) (db : Db) (k : Bytes) (e : Entry) (l : List Bytes) (x : Bytes)
    (hq : c.q.inplaceKeepsVersion = false) (h : db.IdInv) (he : db.raw k = some e) :
    ((upd c db k e (.list (x :: l))).raw k).map (·.id) ≠ some e.id := by
  unfold upd bump Db.update
  simp only [hq, Bool.false_eq_true, ↓reduceIte, List.isEmpty_cons]
  simp only [Db.setDirty, Db.poke, Db.raw, alookup_ainsert_self, Option.map_some, ne_eq, Option.some.injEq]
  have := h (k, e) (mem_of_alookup k db.keys e he)
  simp only at this; omega

/-- D27 on the model of the unrepaired code: an in-place update keeps the version, EXEC would run -/
theorem upd_keeps_version_witness (c : Ctx) (db : Db) (k : Bytes) (e : Entry) (l : List Bytes) (x : Bytes)
    (hq : c.q.inplaceKeepsVersion = true) :
    ((upd c db k e (.list (x :: l))).raw k).map (·.id) = some e.id := by
  unfold upd bump Db.update
  simp [hq, Db.setDirty, Db.poke, Db.raw]

/-- reads never count as modifications: they return the database they were given -/
theorem reads_dont_modify (c : Ctx) (db : Db) (k f : Bytes) (a b : Int) :
    (cmdGet c db k).db = db ∧ (cmdStrlen c db k).db = db ∧ (cmdGetRange c db k a b).db = db ∧
    (cmdLLen c db k).db = db ∧ (cmdLRange c db k a b).db = db ∧ (cmdLIndex c db k a).db = db ∧
    (cmdHGet c db k f).db = db ∧ (cmdHLen c db k).db = db ∧ (cmdHGetAll c db k).db = db ∧
    (cmdSCard c db k).db = db ∧ (cmdSIsMember c db k f).db = db ∧ (cmdSMembers c db k).db = db ∧
    (cmdExists c db [k]).db = db ∧ (cmdType c db k).db = db ∧ (cmdTtl c db k .pttl).db = db := by
  refine ⟨?_, ?_, ?_, ?_, ?_, ?_, ?_, ?_, ?_, ?_, ?_, ?_, ?_, ?_, ?_⟩
  · unfold cmdGet; split <;> rfl
  · unfold cmdStrlen; split <;> rfl
  · unfold cmdGetRange; split <;> rfl
  · unfold cmdLLen; split <;> (try split) <;> rfl
  · unfold cmdLRange; split <;> (try split) <;> rfl
  · unfold cmdLIndex; split <;> (try simp only) <;> (try split_ifs) <;> rfl
  · unfold cmdHGet; split <;> (try split) <;> rfl
  · unfold cmdHLen; split <;> (try split) <;> rfl
  · unfold cmdHGetAll; split <;> (try split) <;> rfl
  · unfold cmdSCard; split <;> (try split) <;> rfl
  · unfold cmdSIsMember; split <;> (try split) <;> rfl
  · unfold cmdSMembers; split <;> (try split) <;> rfl
  · unfold cmdExists; rfl
  · unfold cmdType; split <;> rfl
  · unfold cmdTtl; split <;> (try split) <;> (try split) <;> rfl

/-- failed writes do not count either: a refused INCRBY returns the database unchanged -/
theorem failed_incrby_doesnt_modify (c : Ctx) (db : Db) (k : Bytes) (d : Int)
    (herr : (cmdIncrBy c db k d).reply.isError = true) : (cmdIncrBy c db k d).db = db := by
  unfold cmdIncrBy at *
  split at herr <;> (try split at herr) <;> (try split at herr) <;> (try split_ifs at herr) <;>
    simp_all [R.ok, Value.isError]

/-- WATCH of a key that is watched already keeps the version recorded by the first WATCH (repaired
    behaviour: the second WATCH used to overwrite it, hiding a modification made in between) -/
theorem rewatch_keeps_first (c : Ctx) (s : State) (conn ref : Nat) (k : Bytes) (id₀ : Nat)
    (h : (ref, k, id₀) ∈ (s.session conn).watches) :
    ((runCmd c s conn ref false (.watch [k])).st.session conn).watches = (s.session conn).watches := by
  have hany : (s.session conn).watches.any (fun (x : Nat × Bytes × Nat) => x.1 == ref && x.2.1 == k) = true := by
    rw [List.any_eq_true]
    exact ⟨(ref, k, id₀), h, by simp⟩
  simp [runCmd, hany]


/-! ## every command, every history

  The theorems above are about the single mutators. What follows carries them to every command of
  the model, then to every history of commands, and ends with the statement EXEC's check is there
  for: it aborts exactly when the watched key was touched (`exec_aborts_iff_watched_key_touched`). -/

set_option linter.unusedSectionVars false

/-- from `db` to `db'` every key is as it was, or carries a version handed out since, or is gone -/
structure VStep (db db' : Db) : Prop where
  mono : db.nextId ≤ db'.nextId
  keys : ∀ k, db'.raw k = db.raw k ∨
              (∃ e, db'.raw k = some e ∧ db.nextId < e.id ∧ e.id ≤ db'.nextId) ∨
              (db'.raw k = none)

theorem vstep_refl (db : Db) : VStep db db := ⟨Nat.le_refl _, fun _ => Or.inl rfl⟩

theorem vstep_trans {a b d : Db} (h1 : VStep a b) (h2 : VStep b d) : VStep a d := by
  refine ⟨Nat.le_trans h1.mono h2.mono, ?_⟩
  intro k
  rcases h2.keys k with e2 | ⟨e, he, hlt, hle⟩ | e2
  · rcases h1.keys k with e1 | ⟨e, he, hlt, hle⟩ | e1
    · exact Or.inl (e2.trans e1)
    · exact Or.inr (Or.inl ⟨e, e2.trans he, hlt, Nat.le_trans hle h2.mono⟩)
    · exact Or.inr (Or.inr (e2.trans e1))
  · exact Or.inr (Or.inl ⟨e, he, Nat.lt_of_le_of_lt h1.mono hlt, hle⟩)
  · exact Or.inr (Or.inr e2)

theorem raw_put_self (db : Db) (k : Bytes) (v : Val) (e : Option Int) :
    (db.put k v e).raw k = some { val := v, exp := e, id := db.nextId + 1 } := by
  simp [Db.put, Db.raw]

theorem raw_put_ne (db : Db) (k k' : Bytes) (v : Val) (e : Option Int) (h : (k == k') = false) :
    (db.put k v e).raw k' = db.raw k' := by
  simp only [Db.put, Db.raw]; exact alookup_ainsert_ne k k' _ db.keys h

theorem vstep_put0 (db : Db) (k : Bytes) (v : Val) (e : Option Int) : VStep db (db.put k v e) := by
  refine ⟨by simp [Db.put], ?_⟩
  intro k'
  by_cases h : (k == k') = true
  · have : k = k' := by simpa using h
    subst this
    exact Or.inr (Or.inl ⟨_, raw_put_self db k v e, by simp, by simp [Db.put]⟩)
  · exact Or.inl (raw_put_ne db k k' v e (by simpa using h))

theorem vstep_put {db db0 : Db} (h : VStep db db0) (k : Bytes) (v : Val) (e : Option Int) : VStep db (db0.put k v e) :=
  vstep_trans h (vstep_put0 db0 k v e)


theorem vstep_setDirty {db db0 : Db} (h : VStep db db0) : VStep db db0.setDirty :=
  ⟨h.mono, h.keys⟩

theorem raw_del_self (db : Db) (k : Bytes) (hu : (db.keys.map (·.1)).Nodup) : (db.del k).raw k = none := by
  unfold Db.del
  cases hr : db.raw k with
  | none => exact hr
  | some e => simp only [Db.raw]; exact alookup_aerase_self_of_unique k db.keys hu

theorem raw_del_ne' (db : Db) (k k' : Bytes) (h : (k == k') = false) : (db.del k).raw k' = db.raw k' := by
  unfold Db.del
  cases hr : db.raw k with
  | none => rfl
  | some e => simp only [Db.raw]; exact alookup_aerase_ne k k' db.keys h

/-- unique keys: part of the database invariant of C06, needed to know that a deleted key is gone -/
def Db.Uniq (db : Db) : Prop := (db.keys.map (·.1)).Nodup

theorem vstep_del0 (db : Db) (k : Bytes) (hu : db.Uniq) : VStep db (db.del k) := by
  refine ⟨by unfold Db.del; split <;> simp, ?_⟩
  intro k'
  by_cases h : (k == k') = true
  · have : k = k' := by simpa using h
    subst this
    exact Or.inr (Or.inr (raw_del_self db k hu))
  · exact Or.inl (raw_del_ne' db k k' (by simpa using h))

theorem bump_spec (c : Ctx) (db : Db) (e : Entry) (hq : c.q.inplaceKeepsVersion = false) :
    (bump c db e).1 = { db with nextId := db.nextId + 1 } ∧ (bump c db e).2 = { e with id := db.nextId + 1 } := by
  unfold bump; simp [hq]

theorem raw_poke_self (db : Db) (k : Bytes) (e : Entry) : (db.poke k e).raw k = some e := by
  simp [Db.poke, Db.raw]

theorem raw_poke_ne' (db : Db) (k k' : Bytes) (e : Entry) (h : (k == k') = false) : (db.poke k e).raw k' = db.raw k' := by
  simp only [Db.poke, Db.raw]; exact alookup_ainsert_ne k k' e db.keys h

/-- a value changed in place under a fresh version -/
theorem vstep_poke_fresh0 (db : Db) (k : Bytes) (e : Entry) (n : Nat) (hn : db.nextId < n) (he : e.id = n) :
    VStep db ({ db with nextId := n }.poke k e) := by
  refine ⟨by simp [Db.poke]; omega, ?_⟩
  intro k'
  by_cases h : (k == k') = true
  · have : k = k' := by simpa using h
    subst this
    refine Or.inr (Or.inl ⟨e, raw_poke_self _ k e, by omega, by simp [Db.poke, he]⟩)
  · exact Or.inl (by rw [raw_poke_ne' _ k k' e (by simpa using h)]; rfl)


/-- the relation the commands are proved to respect: versions move as `VStep` says and keys stay unique -/
structure VS (db db' : Db) : Prop where
  step : VStep db db'
  uniq : db'.Uniq

theorem vs_refl (db : Db) (hu : db.Uniq) : VS db db := ⟨vstep_refl db, hu⟩

theorem vs_put {db db0 : Db} (h : VS db db0) (k : Bytes) (v : Val) (e : Option Int) : VS db (db0.put k v e) :=
  ⟨vstep_put h.step k v e, by simp only [Db.Uniq, Db.put]; exact ainsert_keys_nodup k _ db0.keys h.uniq⟩

theorem vs_setDirty {db db0 : Db} (h : VS db db0) : VS db db0.setDirty := ⟨vstep_setDirty h.step, h.uniq⟩

theorem uniq_del (db : Db) (k : Bytes) (hu : db.Uniq) : (db.del k).Uniq := by
  unfold Db.del
  split
  · simp only [Db.Uniq]; exact aerase_keys_nodup k db.keys hu
  · exact hu

theorem vs_del {db db0 : Db} (h : VS db db0) (k : Bytes) : VS db (db0.del k) :=
  ⟨vstep_trans h.step (vstep_del0 db0 k h.uniq), uniq_del db0 k h.uniq⟩

theorem vs_dirtyUnlessQuirk {db db0 : Db} (c : Ctx) (h : VS db db0) : VS db (dirtyUnlessQuirk c db0) := by
  unfold dirtyUnlessQuirk; split
  · exact h
  · exact vs_setDirty h

theorem uniq_poke (db : Db) (k : Bytes) (e : Entry) (hu : db.Uniq) : (db.poke k e).Uniq := by
  simp only [Db.Uniq, Db.poke]; exact ainsert_keys_nodup k e db.keys hu

/-- a value changed in place after `bump` handed out a fresh version -/
theorem vs_poke_bump {db db0 db1 : Db} (c : Ctx) (h : VS db db0) (hq : c.q.inplaceKeepsVersion = false)
    (e0 e1 e' : Entry) (k : Bytes) (hb : bump c db0 e0 = (db1, e1)) (he : e'.id = e1.id) : VS db (db1.poke k e') := by
  obtain ⟨h1, h2⟩ := bump_spec c db0 e0 hq
  rw [hb] at h1 h2
  simp only at h1 h2
  subst h1
  have hid : e'.id = db0.nextId + 1 := by rw [he, h2]
  refine ⟨vstep_trans h.step (vstep_poke_fresh0 db0 k e' (db0.nextId + 1) (by omega) hid), ?_⟩
  exact uniq_poke _ k e' h.uniq

theorem ite_vs {db a b : Db} (p : Prop) [Decidable p] (ha : VS db a) (hb : VS db b) : VS db (if p then a else b) := by
  split <;> assumption

theorem vs_upd {db db0 : Db} (c : Ctx) (h : VS db db0) (hq : c.q.inplaceKeepsVersion = false)
    (k : Bytes) (e : Entry) (v : Val) : VS db (upd c db0 k e v) := by
  obtain ⟨h1, h2⟩ := bump_spec c db0 e hq
  unfold upd
  cases hb : bump c db0 e with
  | mk db1 e1 =>
    rw [hb] at h1 h2
    simp only at h1 h2 ⊢
    have hv : VS db db1 := by
      subst h1
      exact ⟨vstep_trans h.step ⟨by simp, fun k' => Or.inl rfl⟩, h.uniq⟩
    unfold Db.update
    simp only
    refine ite_vs _ ?_ ?_
    · exact vs_setDirty (vs_del hv k)
    · exact vs_setDirty (vs_poke_bump c h hq e e1 ⟨v, e1.exp, e1.id⟩ k hb rfl)


theorem vs_poke_bump_proj {db db0 : Db} (c : Ctx) (h : VS db db0) (hq : c.q.inplaceKeepsVersion = false)
    (e0 e' : Entry) (k : Bytes) (he : e'.id = (bump c db0 e0).2.id) : VS db ((bump c db0 e0).1.poke k e') :=
  vs_poke_bump c h hq e0 (bump c db0 e0).2 e' k rfl he

attribute [local irreducible] bump

theorem setKey_vs (c : Ctx) (db : Db) (k v : Bytes) (o : SetOpts) (a b : Bool) (hdb : db.Uniq) :
    VS db (setKey c db k v o a b).1 := by
  unfold setKey
  repeat' (first | exact vs_refl _ hdb | exact vs_put (vs_refl _ hdb) _ _ _ | split | dsimp only)

theorem putAll_vs (kvs : List (Bytes × Bytes)) : ∀ (db0 db : Db), VS db0 db → VS db0 (putAll db kvs) := by
  induction kvs with
  | nil => intro db0 db h; exact h
  | cons p r ih =>
    intro db0 db h
    obtain ⟨k, v⟩ := p
    unfold putAll
    exact ih db0 _ (vs_put h _ _ _)

macro "versioned" : tactic => `(tactic| (repeat' (first
  | (exact vs_refl _ (by assumption))
  | assumption
  | (refine vs_put ?_ _ _ _)
  | (refine vs_setDirty ?_)
  | (refine vs_del ?_ _)
  | (refine vs_upd _ ?_ (by assumption) _ _ _)
  | (refine vs_dirtyUnlessQuirk _ ?_)
  | (exact setKey_vs _ _ _ _ _ _ _ (by assumption))
  | (refine putAll_vs _ _ _ ?_)
  | (refine vs_poke_bump _ ?_ (by assumption) _ _ _ _ (by assumption) (by rfl))
  | (refine vs_poke_bump_proj _ ?_ (by assumption) _ _ _ rfl)
  | split
  | dsimp only [R.ok])))

section
variable (c : Ctx) (db : Db) (k k2 v f m : Bytes) (i j : Int) (o : SetOpts) (b b2 : Bool)
  (ks : List Bytes) (kvs : List (Bytes × Bytes)) (oi oj ok' : Option Int) (n : Nat)
  (hq : c.q.inplaceKeepsVersion = false) (hu : c.q.unlinkKeepsObject = false) (hdb : db.Uniq)
include hq hu hdb

theorem set_vs : VS db (cmdSet c db k v o b).db := by unfold cmdSet; versioned
theorem append_vs : VS db (cmdAppend c db k v).db := by
  unfold cmdAppend
  have h := setKey_vs c db k v { get := true } true (!c.q.appendDropsTtl) hdb
  split
  rename_i heq
  rw [heq] at h
  split
  · exact vs_refl _ hdb
  · exact h
theorem get_vs : VS db (cmdGet c db k).db := by unfold cmdGet; versioned
theorem getdel_vs : VS db (cmdGetDel c db k).db := by unfold cmdGetDel; versioned
theorem getex_vs (e : Option ExpArg) : VS db (cmdGetEx c db k e).db := by unfold cmdGetEx; versioned
theorem strlen_vs : VS db (cmdStrlen c db k).db := by unfold cmdStrlen; versioned
theorem getrange_vs : VS db (cmdGetRange c db k i j).db := by unfold cmdGetRange; versioned
theorem setrange_vs : VS db (cmdSetRange c db k i v).db := by unfold cmdSetRange; versioned
theorem incrby_vs : VS db (cmdIncrBy c db k i).db := by unfold cmdIncrBy; versioned
theorem decrby_vs : VS db (cmdDecrBy c db k i).db := by
  unfold cmdDecrBy
  split
  · exact vs_refl _ hdb
  · exact incrby_vs (c := c) (db := db) (k := k) (hq := hq) (hu := hu) (hdb := hdb) _
theorem mget_vs : VS db (cmdMGet c db ks).db := by unfold cmdMGet; versioned
theorem mset_vs : VS db (cmdMSet c db kvs b).db := by unfold cmdMSet; versioned
theorem incrbyfloat_vs : VS db (cmdIncrByFloat c db k v).db := by unfold cmdIncrByFloat; versioned
theorem push_vs : VS db (cmdPush c db k ks b b2).db := by unfold cmdPush; versioned
theorem pop_vs : VS db (cmdPop c db k oi b).db := by
  have go : ∀ n multi, VS db (cmdPop.go c db k b n multi).db := by
    intro n multi
    unfold cmdPop.go
    versioned
  unfold cmdPop
  split
  · split
    · exact vs_refl _ hdb
    · exact go _ _
  · exact go _ _
theorem llen_vs : VS db (cmdLLen c db k).db := by unfold cmdLLen; versioned
theorem lindex_vs : VS db (cmdLIndex c db k i).db := by unfold cmdLIndex; versioned
theorem lrange_vs : VS db (cmdLRange c db k i j).db := by unfold cmdLRange; versioned
theorem lset_vs : VS db (cmdLSet c db k i v).db := by unfold cmdLSet; versioned
theorem linsert_vs : VS db (cmdLInsert c db k b v m).db := by unfold cmdLInsert; versioned
theorem lrem_vs : VS db (cmdLRem c db k i v).db := by unfold cmdLRem; versioned
theorem ltrim_vs : VS db (cmdLTrim c db k i j).db := by unfold cmdLTrim; versioned
theorem lpos_vs : VS db (cmdLPos c db k v oi oj ok').db := by unfold cmdLPos; versioned
theorem hset_vs : VS db (cmdHSet c db k kvs b b2).db := by unfold cmdHSet; versioned
theorem hget_vs : VS db (cmdHGet c db k f).db := by unfold cmdHGet; versioned
theorem hmget_vs : VS db (cmdHMGet c db k ks).db := by unfold cmdHMGet; versioned
theorem hgetall_vs : VS db (cmdHGetAll c db k).db := by unfold cmdHGetAll; versioned
theorem hkeys_vs : VS db (cmdHKeys c db k b).db := by unfold cmdHKeys; versioned
theorem hlen_vs : VS db (cmdHLen c db k).db := by unfold cmdHLen; versioned
theorem hexists_vs : VS db (cmdHExists c db k f).db := by unfold cmdHExists; versioned
theorem hstrlen_vs : VS db (cmdHStrlen c db k f).db := by unfold cmdHStrlen; versioned
theorem hdel_vs : VS db (cmdHDel c db k ks).db := by unfold cmdHDel; versioned
theorem hincrby_vs : VS db (cmdHIncrBy c db k f i).db := by unfold cmdHIncrBy; versioned
theorem hincrbyfloat_vs : VS db (cmdHIncrByFloat c db k f v).db := by unfold cmdHIncrByFloat; versioned
theorem sadd_vs : VS db (cmdSAdd c db k ks).db := by unfold cmdSAdd; versioned
theorem srem_vs : VS db (cmdSRem c db k ks).db := by unfold cmdSRem; versioned
theorem scard_vs : VS db (cmdSCard c db k).db := by unfold cmdSCard; versioned
theorem sismember_vs : VS db (cmdSIsMember c db k m).db := by unfold cmdSIsMember; versioned
theorem smismember_vs : VS db (cmdSMIsMember c db k ks).db := by unfold cmdSMIsMember; versioned
theorem smembers_vs : VS db (cmdSMembers c db k).db := by unfold cmdSMembers; versioned
theorem smove_vs : VS db (cmdSMove c db k k2 m).db := by unfold cmdSMove; versioned
theorem setalgebra_vs (op : SetOp) : VS db (cmdSetAlgebra c db op ks).db := by unfold cmdSetAlgebra; versioned
theorem setalgebrastore_vs (op : SetOp) : VS db (cmdSetAlgebraStore c db op k ks).db := by unfold cmdSetAlgebraStore; versioned
theorem sintercard_vs : VS db (cmdSInterCard c db i ks j).db := by unfold cmdSInterCard; versioned
theorem del_vs : VS db (cmdDel c db ks b).db := by
  unfold cmdDel
  simp only [hu, Bool.not_false, Bool.or_true, if_true]
  have key : ∀ (ks : List Bytes) (acc : Db × Nat), VS db acc.1 →
      VS db (ks.foldl (fun (acc : Db × Nat) (k : Bytes) =>
        match acc.1.live c.now k with
        | some _ => (acc.1.del k, acc.2 + 1)
        | none => if b = true then (acc.1.del k, acc.2) else (acc.1, acc.2)) acc).1 := by
    intro ks
    induction ks with
    | nil => intro acc h; exact h
    | cons x r ih =>
      intro acc h
      simp only [List.foldl_cons]
      apply ih
      split
      · exact vs_del h _
      · split
        · exact vs_del h _
        · exact h
  exact key ks (db, 0) (vs_refl _ hdb)
theorem exists_vs : VS db (cmdExists c db ks).db := by unfold cmdExists; versioned
theorem type_vs : VS db (cmdType c db k).db := by unfold cmdType; versioned
theorem rename_vs : VS db (cmdRename c db k k2 b).db := by unfold cmdRename; versioned
theorem copy_vs : VS db (cmdCopy c db k k2 b).db := by unfold cmdCopy; versioned
theorem expireat_vs (opt : ExpireOpt) : VS db (cmdExpireAt c db k i opt).db := by unfold cmdExpireAt; versioned
theorem persist_vs : VS db (cmdPersist c db k).db := by unfold cmdPersist; versioned
theorem ttl_vs (kind : TtlKind) : VS db (cmdTtl c db k kind).db := by unfold cmdTtl; versioned
theorem getbit_vs : VS db (cmdGetBit c db k i).db := by unfold cmdGetBit; versioned
theorem bitpos_vs (st : Option Int) (en : Option (Int × Bool)) : VS db (cmdBitPos c db k i st en).db := by unfold cmdBitPos; versioned
theorem bitop_vs : VS db (cmdBitOp c db k k2 ks).db := by unfold cmdBitOp; versioned
theorem bitfieldParsed_vs (ps : List BfParsed) : VS db (cmdBitfieldParsed c db k ps).db := by unfold cmdBitfieldParsed; versioned
theorem bitfield_vs (ops : List BfOp) : VS db (cmdBitfield c db k ops).db := by
  unfold cmdBitfield
  split
  · exact vs_refl _ hdb
  · exact bitfieldParsed_vs (c := c) (db := db) (k := k) (hq := hq) (hu := hu) (hdb := hdb) _
theorem setbit_vs : VS db (cmdSetBit c db k i j).db := by
  unfold cmdSetBit
  split
  · exact vs_refl _ hdb
  · split
    · exact vs_refl _ hdb
    · have h := bitfieldParsed_vs (c := c) (db := db) (k := k) (hq := hq) (hu := hu) (hdb := hdb) [{ kind := .set, signed := false, width := 1, off := i, value := j, ov := .wrap }]
      dsimp only
      split <;> exact h
theorem bitcount_vs (r : Option (Int × Int × Bool)) : VS db (cmdBitCount c db k r).db := by
  unfold cmdBitCount
  split
  · exact vs_refl _ hdb
  · split_ifs <;> first
      | exact vs_refl _ hdb
      | (extract_lets; split_ifs <;> exact vs_refl _ hdb)
  · exact vs_refl _ hdb

theorem lmove_vs : VS db (cmdLMove c db k k2 b b2).db := by
  unfold cmdLMove
  versioned

theorem lmpop_vs : VS db (cmdLMPop c db ks b n).db := by
  have go : ∀ ks, VS db (cmdLMPop.go c db b n ks).db := by
    intro ks
    induction ks with
    | nil => exact vs_refl _ hdb
    | cons x r ih =>
      unfold cmdLMPop.go
      split
      · exact vs_refl _ hdb
      · exact ih
      · split
        · exact ih
        · dsimp only [R.ok]; exact vs_upd _ (vs_refl _ hdb) hq _ _ _
  unfold cmdLMPop
  exact go ks

theorem bpop_vs : VS db (runCmd.go c b db ks).db := by
  induction ks with
  | nil => exact vs_refl _ hdb
  | cons x r ih =>
    unfold runCmd.go
    split
    · exact vs_refl _ hdb
    · exact ih
    · split
      · exact ih
      · dsimp only [R.ok]; exact vs_upd _ (vs_refl _ hdb) hq _ _ _

theorem sortFinish_vs (store : Option Bytes) (out : List Value) (hint : Match) :
    VS db (sortFinish db store out hint).db := by
  unfold sortFinish
  split
  · exact vs_refl _ hdb
  · split
    · exact vs_del (vs_refl _ hdb) _
    · exact vs_put (vs_del (vs_refl _ hdb) _) _ _ _

theorem sort_vs (by_ : Option Bytes) (limit : Option (Int × Int)) (gets : List Bytes) (store : Option Bytes) :
    VS db (cmdSort c db k by_ limit gets b b2 store).db := by
  unfold cmdSort
  split
  · exact vs_refl _ hdb
  · exact sortFinish_vs (db := db) (hq := hq) (hu := hu) (hdb := hdb) (c := c) _ _ _
  · split
    · exact vs_refl _ hdb
    · exact sortFinish_vs (db := db) (hq := hq) (hu := hu) (hdb := hdb) (c := c) _ _ _
end



/-! ### from one database to the whole state -/

/-- every database of the server keeps unique keys -/
def State.Uniq (s : State) : Prop := ∀ r, (s.getDb r).Uniq

/-- every database of the server moved as `VS` allows -/
def AllVS (s s' : State) : Prop := ∀ r, VS (s.getDb r) (s'.getDb r)

theorem allvs_refl (s : State) (hs : s.Uniq) : AllVS s s := fun r => vs_refl _ (hs r)

theorem allvs_of_getDb_eq (s s' : State) (hs : s.Uniq) (h : ∀ r, s'.getDb r = s.getDb r) : AllVS s s' := by
  intro r; rw [h r]; exact vs_refl _ (hs r)

theorem onDb_allvs (s : State) (ref : Nat) (f : Db → R) (hs : s.Uniq) (h : VS (s.getDb ref) (f (s.getDb ref)).db) :
    AllVS s (onDb s ref f).st := by
  intro r
  unfold onDb
  by_cases e : (ref == r) = true
  · have : ref = r := by simpa using e
    subst this
    simp only [getDb_setDb_self]
    exact h
  · simp only [getDb_setDb_ne _ _ _ _ (by simpa using e)]
    exact vs_refl _ (hs r)

/-- what FLUSHDB / FLUSHALL leave of a database: nothing but its version counter -/
def flushed (d : Db) : Db := { keys := [], nextId := d.nextId, dirty := false }

theorem vs_flushed (d : Db) : VS d (flushed d) :=
  ⟨⟨Nat.le_refl _, fun _ => Or.inr (Or.inr rfl)⟩, by simp [Db.Uniq, flushed]⟩

theorem find_map_flushed (heap : List (Nat × Db)) (r : Nat) :
    (heap.map fun (p : Nat × Db) => (p.1, flushed p.2)).find? (·.1 == r) = (heap.find? (·.1 == r)).map fun p => (p.1, flushed p.2) := by
  induction heap with
  | nil => rfl
  | cons p t ih =>
    simp only [List.map_cons, List.find?_cons]
    split
    · rfl
    · exact ih

theorem getDb_flushall (s : State) (r : Nat) :
    ({ s with heap := s.heap.map fun (p : Nat × Db) => (p.1, flushed p.2) } : State).getDb r = flushed (s.getDb r) := by
  simp only [State.getDb, find_map_flushed]
  cases List.find? (fun x => x.1 == r) s.heap with
  | some p => rfl
  | none => rfl

/-- **Every command gives every key it changes a new version.** Whatever the command — data or
    session, any arguments, any database contents — each database of the server afterwards relates to
    what it was before as `VStep` says: a key's stored object is the very same, or it carries a version
    handed out by this command, or the key is gone; and keys stay unique. -/
theorem runCmd_versions (c : Ctx) (s : State) (conn ref : Nat) (m : Bool) (cmd : Cmd)
    (hq : c.q.inplaceKeepsVersion = false) (hu : c.q.unlinkKeepsObject = false) (hf : c.q.flushDetaches = false)
    (hs : s.Uniq) : AllVS s (runCmd c s conn ref m cmd).st := by
  cases cmd
  case copy a b rep dbOpt =>
    simp only [runCmd]
    split
    · exact allvs_refl s hs
    · exact onDb_allvs s ref _ hs (copy_vs (c := c) (hq := hq) (hu := hu) (hdb := hs ref) _ _ _ _)
  case lmpop nk ks l cnt =>
    simp only [runCmd]
    split
    · exact allvs_refl s hs
    · split
      · exact allvs_refl s hs
      · exact onDb_allvs s ref _ hs (lmpop_vs (c := c) (hq := hq) (hu := hu) (hdb := hs ref) _ _ _ _)
  case set a0 a1 a2 a3 => simp only [runCmd]; exact onDb_allvs s ref _ hs (set_vs (c := c) (hq := hq) (hu := hu) (hdb := hs ref) ..)
  case append a0 a1 => simp only [runCmd]; exact onDb_allvs s ref _ hs (append_vs (c := c) (hq := hq) (hu := hu) (hdb := hs ref) ..)
  case get a0 => simp only [runCmd]; exact onDb_allvs s ref _ hs (get_vs (c := c) (hq := hq) (hu := hu) (hdb := hs ref) ..)
  case getdel a0 => simp only [runCmd]; exact onDb_allvs s ref _ hs (getdel_vs (c := c) (hq := hq) (hu := hu) (hdb := hs ref) ..)
  case getex a0 a1 => simp only [runCmd]; exact onDb_allvs s ref _ hs (getex_vs (c := c) (hq := hq) (hu := hu) (hdb := hs ref) ..)
  case strlen a0 => simp only [runCmd]; exact onDb_allvs s ref _ hs (strlen_vs (c := c) (hq := hq) (hu := hu) (hdb := hs ref) ..)
  case getrange a0 a1 a2 => simp only [runCmd]; exact onDb_allvs s ref _ hs (getrange_vs (c := c) (hq := hq) (hu := hu) (hdb := hs ref) ..)
  case setrange a0 a1 a2 => simp only [runCmd]; exact onDb_allvs s ref _ hs (setrange_vs (c := c) (hq := hq) (hu := hu) (hdb := hs ref) ..)
  case incrby a0 a1 => simp only [runCmd]; exact onDb_allvs s ref _ hs (incrby_vs (c := c) (hq := hq) (hu := hu) (hdb := hs ref) ..)
  case decrby a0 a1 => simp only [runCmd]; exact onDb_allvs s ref _ hs (decrby_vs (c := c) (hq := hq) (hu := hu) (hdb := hs ref) ..)
  case incrbyfloat a0 a1 => simp only [runCmd]; exact onDb_allvs s ref _ hs (incrbyfloat_vs (c := c) (hq := hq) (hu := hu) (hdb := hs ref) ..)
  case mget a0 => simp only [runCmd]; exact onDb_allvs s ref _ hs (mget_vs (c := c) (hq := hq) (hu := hu) (hdb := hs ref) ..)
  case mset a0 a1 => simp only [runCmd]; exact onDb_allvs s ref _ hs (mset_vs (c := c) (hq := hq) (hu := hu) (hdb := hs ref) ..)
  case push a0 a1 a2 a3 => simp only [runCmd]; exact onDb_allvs s ref _ hs (push_vs (c := c) (hq := hq) (hu := hu) (hdb := hs ref) ..)
  case pop a0 a1 a2 => simp only [runCmd]; exact onDb_allvs s ref _ hs (pop_vs (c := c) (hq := hq) (hu := hu) (hdb := hs ref) ..)
  case llen a0 => simp only [runCmd]; exact onDb_allvs s ref _ hs (llen_vs (c := c) (hq := hq) (hu := hu) (hdb := hs ref) ..)
  case lindex a0 a1 => simp only [runCmd]; exact onDb_allvs s ref _ hs (lindex_vs (c := c) (hq := hq) (hu := hu) (hdb := hs ref) ..)
  case lrange a0 a1 a2 => simp only [runCmd]; exact onDb_allvs s ref _ hs (lrange_vs (c := c) (hq := hq) (hu := hu) (hdb := hs ref) ..)
  case lset a0 a1 a2 => simp only [runCmd]; exact onDb_allvs s ref _ hs (lset_vs (c := c) (hq := hq) (hu := hu) (hdb := hs ref) ..)
  case linsert a0 a1 a2 a3 => simp only [runCmd]; exact onDb_allvs s ref _ hs (linsert_vs (c := c) (hq := hq) (hu := hu) (hdb := hs ref) ..)
  case lrem a0 a1 a2 => simp only [runCmd]; exact onDb_allvs s ref _ hs (lrem_vs (c := c) (hq := hq) (hu := hu) (hdb := hs ref) ..)
  case ltrim a0 a1 a2 => simp only [runCmd]; exact onDb_allvs s ref _ hs (ltrim_vs (c := c) (hq := hq) (hu := hu) (hdb := hs ref) ..)
  case lpos a0 a1 a2 a3 a4 => simp only [runCmd]; exact onDb_allvs s ref _ hs (lpos_vs (c := c) (hq := hq) (hu := hu) (hdb := hs ref) ..)
  case lmove a0 a1 a2 a3 => simp only [runCmd]; exact onDb_allvs s ref _ hs (lmove_vs (c := c) (hq := hq) (hu := hu) (hdb := hs ref) ..)
  case hset a0 a1 a2 a3 => simp only [runCmd]; exact onDb_allvs s ref _ hs (hset_vs (c := c) (hq := hq) (hu := hu) (hdb := hs ref) ..)
  case hget a0 a1 => simp only [runCmd]; exact onDb_allvs s ref _ hs (hget_vs (c := c) (hq := hq) (hu := hu) (hdb := hs ref) ..)
  case hmget a0 a1 => simp only [runCmd]; exact onDb_allvs s ref _ hs (hmget_vs (c := c) (hq := hq) (hu := hu) (hdb := hs ref) ..)
  case hgetall a0 => simp only [runCmd]; exact onDb_allvs s ref _ hs (hgetall_vs (c := c) (hq := hq) (hu := hu) (hdb := hs ref) ..)
  case hkeys a0 a1 => simp only [runCmd]; exact onDb_allvs s ref _ hs (hkeys_vs (c := c) (hq := hq) (hu := hu) (hdb := hs ref) ..)
  case hlen a0 => simp only [runCmd]; exact onDb_allvs s ref _ hs (hlen_vs (c := c) (hq := hq) (hu := hu) (hdb := hs ref) ..)
  case hexists a0 a1 => simp only [runCmd]; exact onDb_allvs s ref _ hs (hexists_vs (c := c) (hq := hq) (hu := hu) (hdb := hs ref) ..)
  case hstrlen a0 a1 => simp only [runCmd]; exact onDb_allvs s ref _ hs (hstrlen_vs (c := c) (hq := hq) (hu := hu) (hdb := hs ref) ..)
  case hdel a0 a1 => simp only [runCmd]; exact onDb_allvs s ref _ hs (hdel_vs (c := c) (hq := hq) (hu := hu) (hdb := hs ref) ..)
  case hincrby a0 a1 a2 => simp only [runCmd]; exact onDb_allvs s ref _ hs (hincrby_vs (c := c) (hq := hq) (hu := hu) (hdb := hs ref) ..)
  case hincrbyfloat a0 a1 a2 => simp only [runCmd]; exact onDb_allvs s ref _ hs (hincrbyfloat_vs (c := c) (hq := hq) (hu := hu) (hdb := hs ref) ..)
  case sadd a0 a1 => simp only [runCmd]; exact onDb_allvs s ref _ hs (sadd_vs (c := c) (hq := hq) (hu := hu) (hdb := hs ref) ..)
  case srem a0 a1 => simp only [runCmd]; exact onDb_allvs s ref _ hs (srem_vs (c := c) (hq := hq) (hu := hu) (hdb := hs ref) ..)
  case scard a0 => simp only [runCmd]; exact onDb_allvs s ref _ hs (scard_vs (c := c) (hq := hq) (hu := hu) (hdb := hs ref) ..)
  case sismember a0 a1 => simp only [runCmd]; exact onDb_allvs s ref _ hs (sismember_vs (c := c) (hq := hq) (hu := hu) (hdb := hs ref) ..)
  case smismember a0 a1 => simp only [runCmd]; exact onDb_allvs s ref _ hs (smismember_vs (c := c) (hq := hq) (hu := hu) (hdb := hs ref) ..)
  case smembers a0 => simp only [runCmd]; exact onDb_allvs s ref _ hs (smembers_vs (c := c) (hq := hq) (hu := hu) (hdb := hs ref) ..)
  case smove a0 a1 a2 => simp only [runCmd]; exact onDb_allvs s ref _ hs (smove_vs (c := c) (hq := hq) (hu := hu) (hdb := hs ref) ..)
  case salg a0 a1 => simp only [runCmd]; exact onDb_allvs s ref _ hs (setalgebra_vs (c := c) (hq := hq) (hu := hu) (hdb := hs ref) ..)
  case salgStore a0 a1 a2 => simp only [runCmd]; exact onDb_allvs s ref _ hs (setalgebrastore_vs (c := c) (hq := hq) (hu := hu) (hdb := hs ref) ..)
  case sintercard a0 a1 a2 => simp only [runCmd]; exact onDb_allvs s ref _ hs (sintercard_vs (c := c) (hq := hq) (hu := hu) (hdb := hs ref) ..)
  case del a0 a1 => simp only [runCmd]; exact onDb_allvs s ref _ hs (del_vs (c := c) (hq := hq) (hu := hu) (hdb := hs ref) ..)
  case exists_ a0 => simp only [runCmd]; exact onDb_allvs s ref _ hs (exists_vs (c := c) (hq := hq) (hu := hu) (hdb := hs ref) ..)
  case touch a0 => simp only [runCmd]; exact onDb_allvs s ref _ hs (exists_vs (c := c) (hq := hq) (hu := hu) (hdb := hs ref) ..)
  case type_ a0 => simp only [runCmd]; exact onDb_allvs s ref _ hs (type_vs (c := c) (hq := hq) (hu := hu) (hdb := hs ref) ..)
  case rename a0 a1 a2 => simp only [runCmd]; exact onDb_allvs s ref _ hs (rename_vs (c := c) (hq := hq) (hu := hu) (hdb := hs ref) ..)
  case sort a0 a1 a2 a3 a4 a5 a6 => simp only [runCmd]; exact onDb_allvs s ref _ hs (sort_vs (c := c) (hq := hq) (hu := hu) (hdb := hs ref) ..)
  case persist a0 => simp only [runCmd]; exact onDb_allvs s ref _ hs (persist_vs (c := c) (hq := hq) (hu := hu) (hdb := hs ref) ..)
  case ttl a0 a1 => simp only [runCmd]; exact onDb_allvs s ref _ hs (ttl_vs (c := c) (hq := hq) (hu := hu) (hdb := hs ref) ..)
  case getbit a0 a1 => simp only [runCmd]; exact onDb_allvs s ref _ hs (getbit_vs (c := c) (hq := hq) (hu := hu) (hdb := hs ref) ..)
  case setbit a0 a1 a2 => simp only [runCmd]; exact onDb_allvs s ref _ hs (setbit_vs (c := c) (hq := hq) (hu := hu) (hdb := hs ref) ..)
  case bitcount a0 a1 => simp only [runCmd]; exact onDb_allvs s ref _ hs (bitcount_vs (c := c) (hq := hq) (hu := hu) (hdb := hs ref) ..)
  case bitpos a0 a1 a2 a3 => simp only [runCmd]; exact onDb_allvs s ref _ hs (bitpos_vs (c := c) (hq := hq) (hu := hu) (hdb := hs ref) ..)
  case bitop a0 a1 a2 => simp only [runCmd]; exact onDb_allvs s ref _ hs (bitop_vs (c := c) (hq := hq) (hu := hu) (hdb := hs ref) ..)
  case bitfield a0 a1 a2 => simp only [runCmd]; exact onDb_allvs s ref _ hs (bitfield_vs (c := c) (hq := hq) (hu := hu) (hdb := hs ref) ..)
  case expire k n u a o => simp only [runCmd]; exact onDb_allvs s ref _ hs (expireat_vs (c := c) (hq := hq) (hu := hu) (hdb := hs ref) ..)
  case bpop ks l => simp only [runCmd]; exact onDb_allvs s ref _ hs (bpop_vs (c := c) (hq := hq) (hu := hu) (hdb := hs ref) ..)
  case select i =>
    simp only [runCmd]
    split
    · exact allvs_refl s hs
    · apply allvs_of_getDb_eq s _ hs
      intro r
      simp only [getDb_setSession]
      exact getDb_tableRef s _ r
  case flushdb =>
    simp only [runCmd, hf, Bool.false_eq_true, ↓reduceIte]
    intro r
    by_cases e : ((s.tableRef (s.session conn).dbIdx).2 == r) = true
    · have : (s.tableRef (s.session conn).dbIdx).2 = r := by simpa using e
      subst this
      simp only [getDb_setDb_self]
      rw [getDb_tableRef]
      exact vs_flushed _
    · simp only [getDb_setDb_ne _ _ _ _ (by simpa using e)]
      rw [getDb_tableRef]
      exact vs_refl _ (hs r)
  case flushall =>
    simp only [runCmd, hf, Bool.false_eq_true, ↓reduceIte]
    intro r
    have := getDb_flushall s r
    simp only [flushed] at this
    rw [this]
    exact vs_flushed _
  case watch ks =>
    simp only [runCmd]
    split
    · exact allvs_refl s hs
    · exact allvs_of_getDb_eq s _ hs (fun r => getDb_setSession _ _ _ r)
  case unwatch => exact allvs_of_getDb_eq s _ hs (fun r => getDb_setSession _ _ _ r)
  case hello v =>
    simp only [runCmd]
    split
    · split
      · exact allvs_refl s hs
      · exact allvs_of_getDb_eq s _ hs (fun r => getDb_setSession _ _ _ r)
    · exact allvs_refl s hs
  case clientSetname nm =>
    simp only [runCmd]
    split
    · exact allvs_refl s hs
    · exact allvs_of_getDb_eq s _ hs (fun r => getDb_setSession _ _ _ r)
  case ping o => cases o <;> exact allvs_refl s hs
  case multi => exact allvs_refl s hs
  case exec => exact allvs_refl s hs
  case discard => exact allvs_refl s hs
  case echo => exact allvs_refl s hs
  case quit => exact allvs_refl s hs
  case clientId => exact allvs_refl s hs
  case clientGetname => exact allvs_refl s hs
  case clientInfo => exact allvs_refl s hs
  case clientList => exact allvs_refl s hs
  case «opaque» => exact allvs_refl s hs
  case dbsize =>
    simp only [runCmd]
    exact allvs_refl s hs
  all_goals
    simp only [runCmd]
    apply onDb_allvs s ref _ hs
    have := hs ref
    versioned


/-! ### any history of commands, and what EXEC's check concludes from it -/

theorem vs_trans {a b d : Db} (h1 : VS a b) (h2 : VS b d) : VS a d := ⟨vstep_trans h1.step h2.step, h2.uniq⟩

/-- the version invariant travels along `VS` -/
theorem idInv_of_vs {db db' : Db} (hi : db.IdInv) (h : VS db db') : db'.IdInv := by
  intro p hp
  have hr : db'.raw p.1 = some p.2 := alookup_of_mem_nodup db'.keys p hp h.uniq
  rcases h.step.keys p.1 with e | ⟨e, he, h1, h2⟩ | e
  · rw [hr] at e
    have := hi (p.1, p.2) (mem_of_alookup p.1 db.keys p.2 e.symm)
    have hm := h.step.mono
    simp only at this; omega
  · rw [hr] at he
    cases he
    omega
  · rw [hr] at e; cases e

/-- the repaired behaviour: the three quirks that touch versions are off -/
def Ev.repaired (e : Ev) : Prop :=
  e.c.q.inplaceKeepsVersion = false ∧ e.c.q.unlinkKeepsObject = false ∧ e.c.q.flushDetaches = false

theorem uniq_of_allvs {s s' : State} (h : AllVS s s') : s'.Uniq := fun r => (h r).uniq

theorem runEvents_versions (evs : List Ev) : ∀ (s : State), s.Uniq → (∀ e ∈ evs, e.repaired) →
    AllVS s (runEvents s evs) := by
  induction evs with
  | nil => intro s hs _; exact allvs_refl s hs
  | cons e r ih =>
    intro s hs hok
    have h1 := runCmd_versions e.c s e.conn e.ref e.inMulti e.cmd
      (hok e List.mem_cons_self).1 (hok e List.mem_cons_self).2.1 (hok e List.mem_cons_self).2.2 hs
    have h2 := ih _ (uniq_of_allvs h1) (fun e' he' => hok e' (List.mem_cons_of_mem _ he'))
    intro x
    exact vs_trans (h1 x) (h2 x)

/-- the invariants of a running server, kept by every history (they hold for the empty server) -/
structure State.VInv (s : State) : Prop where
  uniq : s.Uniq
  ids : ∀ r, (s.getDb r).IdInv

theorem runEvents_vinv (s : State) (evs : List Ev) (h : s.VInv) (hok : ∀ e ∈ evs, e.repaired) :
    (runEvents s evs).VInv :=
  have hv := runEvents_versions evs s h.uniq hok
  ⟨uniq_of_allvs hv, fun r => idInv_of_vs (h.ids r) (hv r)⟩

/-- the version WATCH records for a key: that of the live object, 0 when there is none -/
def recorded (c : Ctx) (s : State) (ref : Nat) (k : Bytes) : Nat :=
  match (s.getDb ref).live c.now k with
  | some e => e.id
  | none => 0

/-- **EXEC aborts exactly when the watched key was touched.** Take any reachable state, WATCH a key
    (recording its version, 0 for a missing or expired key), let any history of commands of any
    connections run — any number, any kind, in-place updates, deletions, re-creations, flushes — and
    then perform EXEC's check at any later clock reading: the check passes if and only if the key's
    live object is exactly what it was at WATCH time — same value, same deadline, same version — or
    it was absent then and is absent now. A change that is undone (delete and re-create, pop and push
    back) still aborts, since the re-created object carries a version handed out later. -/
theorem exec_aborts_iff_watched_key_touched (s : State) (evs : List Ev) (hs : s.VInv)
    (hok : ∀ e ∈ evs, e.repaired) (c c' : Ctx) (hq : c'.q.inplaceKeepsVersion = false) (ref : Nat) (k : Bytes) :
    watchChanged c' (runEvents s evs) (ref, k, recorded c s ref k) = false ↔
      ((runEvents s evs).getDb ref).live c'.now k = (s.getDb ref).live c.now k := by
  have hv := runEvents_versions evs s hs.uniq hok ref
  have hi := hs.ids ref
  have hi' := idInv_of_vs hi hv
  generalize runEvents s evs = s' at *
  unfold watchChanged recorded
  simp only [hq, Bool.false_eq_true, ↓reduceIte]
  constructor
  · intro h
    cases h' : (s'.getDb ref).live c'.now k with
    | some e' =>
      rw [h'] at h
      simp only [bne_eq_false_iff_eq] at h
      obtain ⟨hr', hx'⟩ := live_some_raw h'
      have hb' := hi' (k, e') (mem_of_alookup k _ e' hr')
      cases h0 : (s.getDb ref).live c.now k with
      | none => rw [h0] at h; simp only at h hb'; omega
      | some e =>
        rw [h0] at h
        simp only at h
        obtain ⟨hr, hx⟩ := live_some_raw h0
        have hb := hi (k, e) (mem_of_alookup k _ e hr)
        rcases hv.step.keys k with e1 | ⟨e1, he1, h1, h2⟩ | e1
        · rw [hr', hr] at e1; exact e1
        · rw [hr'] at he1; cases he1; simp only at hb; omega
        · rw [hr'] at e1; cases e1
    | none =>
      rw [h'] at h
      simp only [bne_eq_false_iff_eq] at h
      cases h0 : (s.getDb ref).live c.now k with
      | none => rfl
      | some e =>
        rw [h0] at h
        simp only at h
        obtain ⟨hr, hx⟩ := live_some_raw h0
        have hb := hi (k, e) (mem_of_alookup k _ e hr)
        simp only at hb; omega
  · intro h
    rw [h]
    cases (s.getDb ref).live c.now k <;> simp

/-- the premises are met by the server as it starts, hence (`runEvents_vinv`) by every reachable state -/
theorem vinv_init : ({} : State).VInv :=
  ⟨fun r => by simp [State.getDb, Db.Uniq], fun r => by intro p hp; simp [State.getDb] at hp⟩

end RedisEmu
