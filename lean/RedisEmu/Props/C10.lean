import RedisEmu.Exec
import RedisEmu.Proofs.AList
import RedisEmu.Proofs.State
import Mathlib.Tactic.SplitIfs
/-
  C10 — WATCH. EXEC runs iff no watched key changed its version.
  Theorems about `watchChanged`, `Db.put` / `del` / `upd` (family `tx` with watches).
-/
namespace RedisEmu

/-- version invariant: every stored id is positive and not above the counter, so a fresh id is
    different from every id ever handed out (and from 0 = "key was missing") -/
def Db.IdInv (db : Db) : Prop := ∀ p ∈ db.keys, 0 < p.2.id ∧ p.2.id ≤ db.nextId

theorem idInv_init : ({} : Db).IdInv := by intro p hp; simp at hp

theorem mem_ainsert' {α} (k : Bytes) (v : α) (l : List (Bytes × α)) (p : Bytes × α)
    (hp : p ∈ ainsert k v l) : p = (k, v) ∨ p ∈ l := by
  induction l with
  | nil => simp [ainsert] at hp; exact Or.inl hp
  | cons q r ih =>
    obtain ⟨k', v'⟩ := q
    by_cases h : (k' == k) = true
    · simp only [ainsert, h, ↓reduceIte, List.mem_cons] at hp
      rcases hp with hp | hp
      · exact Or.inl hp
      · exact Or.inr (List.mem_cons_of_mem _ hp)
    · simp only [ainsert, h, Bool.false_eq_true, ↓reduceIte, List.mem_cons] at hp
      rcases hp with hp | hp
      · exact Or.inr (by rw [hp]; exact List.mem_cons_self)
      · rcases ih hp with h1 | h1
        · exact Or.inl h1
        · exact Or.inr (List.mem_cons_of_mem _ h1)

theorem idInv_put (db : Db) (k : Bytes) (v : Val) (exp : Option Int) (h : db.IdInv) : (db.put k v exp).IdInv := by
  intro p hp
  rcases mem_ainsert' k _ db.keys p hp with e | hm
  · subst e; simp [Db.put]
  · have := h p hm; simp only [Db.put]; omega

theorem mem_of_alookup {α} (k : Bytes) (l : List (Bytes × α)) (v : α) (h : alookup k l = some v) :
    (k, v) ∈ l := by
  induction l with
  | nil => simp [alookup] at h
  | cons q r ih =>
    obtain ⟨k', v'⟩ := q
    by_cases hk : (k' == k) = true
    · have e : k' = k := by simpa using hk
      simp only [alookup, hk, ↓reduceIte, Option.some.injEq] at h
      subst e; subst h; exact List.mem_cons_self
    · simp only [alookup, hk, Bool.false_eq_true, ↓reduceIte] at h
      exact List.mem_cons_of_mem _ (ih h)

/-- Every command that replaces a key (SET, GETSET, MSET, INCR/APPEND/SETRANGE/SETBIT/BITFIELD,
    the STORE forms, BITOP, RENAME/COPY onto it, key creation by a push/HSET/SADD) goes through
    `Db.put`: afterwards the key's version differs from every version recorded earlier — whether
    the key existed (`id₀` = its old id) or not (`id₀ = 0`). -/
theorem put_changes_version (db : Db) (k : Bytes) (v : Val) (exp : Option Int) (h : db.IdInv) (id₀ : Nat)
    (hrec : id₀ = 0 ∨ ∃ e, db.raw k = some e ∧ e.id = id₀) :
    ((db.put k v exp).raw k).map (·.id) ≠ some id₀ := by
  simp only [Db.put, Db.raw, alookup_ainsert_self, Option.map_some, ne_eq, Option.some.injEq]
  rcases hrec with h0 | ⟨e, he, hid⟩
  · omega
  · have := h (k, e) (mem_of_alookup k db.keys e he)
    simp only at this; omega

/-- deleting a key that existed makes it "missing", which differs from its recorded version -/
theorem del_changes_version (db : Db) (k : Bytes) (e : Entry) (h : db.IdInv) (hu : (db.keys.map (·.1)).Nodup)
    (he : db.raw k = some e) : (db.del k).raw k = none ∧ e.id ≠ 0 := by
  constructor
  · unfold Db.del; simp only [he]; unfold Db.raw
    exact alookup_aerase_self_of_unique k db.keys hu
  · have := h (k, e) (mem_of_alookup k db.keys e he); simp only at this; omega

/-- the check EXEC performs, on the model: a watch recorded with the key's current version (or 0
    for a missing key) does not abort; any other recorded version aborts -/
theorem watchChanged_iff (c : Ctx) (s : State) (ref : Nat) (k : Bytes) (id₀ : Nat)
    (hq : c.q.inplaceKeepsVersion = true) :
    watchChanged c s (ref, k, id₀) = false ↔
      ((s.getDb ref).raw k).map (·.id) = some id₀ ∨ ((s.getDb ref).raw k = none ∧ id₀ = 0) := by
  unfold watchChanged
  simp only [hq, ↓reduceIte]
  cases hr : (s.getDb ref).raw k with
  | none => simp
  | some e =>
    simp only [bne_eq_false_iff_eq, Option.map_some, Option.some.injEq, reduceCtorEq, false_and, or_false]
    exact eq_comm

/-- with the repaired behaviour (quirk off) an in-place update hands out a fresh version, so it is
    seen by WATCH exactly like a replacement -/
theorem upd_changes_version (c : Ctx) (db : Db) (k : Bytes) (e : Entry) (l : List Bytes) (x : Bytes)
    (hq : c.q.inplaceKeepsVersion = false) (h : db.IdInv) (he : db.raw k = some e) :
    ((upd c db k e (.list (x :: l))).raw k).map (·.id) ≠ some e.id := by
  unfold upd bump Db.update
  simp only [hq, Bool.false_eq_true, ↓reduceIte, List.isEmpty_cons]
  simp only [Db.setDirty, Db.poke, Db.raw, alookup_ainsert_self, Option.map_some, ne_eq, Option.some.injEq]
  have := h (k, e) (mem_of_alookup k db.keys e he)
  simp only at this; omega

/-- D27 on the model of the unrepaired code: an in-place update keeps the version, EXEC would run -/
theorem upd_keeps_version_witness (c : Ctx) (db : Db) (k : Bytes) (e : Entry) (l : List Bytes) (x : Bytes)
    (hq : c.q.inplaceKeepsVersion = true) :
    ((upd c db k e (.list (x :: l))).raw k).map (·.id) = some e.id := by
  unfold upd bump Db.update
  simp [hq, Db.setDirty, Db.poke, Db.raw]

/-- reads never count as modifications: they return the database they were given -/
theorem reads_dont_modify (c : Ctx) (db : Db) (k f : Bytes) (a b : Int) :
    (cmdGet c db k).db = db ∧ (cmdStrlen c db k).db = db ∧ (cmdGetRange c db k a b).db = db ∧
    (cmdLLen c db k).db = db ∧ (cmdLRange c db k a b).db = db ∧ (cmdLIndex c db k a).db = db ∧
    (cmdHGet c db k f).db = db ∧ (cmdHLen c db k).db = db ∧ (cmdHGetAll c db k).db = db ∧
    (cmdSCard c db k).db = db ∧ (cmdSIsMember c db k f).db = db ∧ (cmdSMembers c db k).db = db ∧
    (cmdExists c db [k]).db = db ∧ (cmdType c db k).db = db ∧ (cmdTtl c db k .pttl).db = db := by
  refine ⟨?_, ?_, ?_, ?_, ?_, ?_, ?_, ?_, ?_, ?_, ?_, ?_, ?_, ?_, ?_⟩
  · unfold cmdGet; split <;> rfl
  · unfold cmdStrlen; split <;> rfl
  · unfold cmdGetRange; split <;> rfl
  · unfold cmdLLen; split <;> (try split) <;> rfl
  · unfold cmdLRange; split <;> (try split) <;> rfl
  · unfold cmdLIndex; split <;> (try simp only) <;> (try split_ifs) <;> rfl
  · unfold cmdHGet; split <;> (try split) <;> rfl
  · unfold cmdHLen; split <;> (try split) <;> rfl
  · unfold cmdHGetAll; split <;> (try split) <;> rfl
  · unfold cmdSCard; split <;> (try split) <;> rfl
  · unfold cmdSIsMember; split <;> (try split) <;> rfl
  · unfold cmdSMembers; split <;> (try split) <;> rfl
  · unfold cmdExists; rfl
  · unfold cmdType; split <;> rfl
  · unfold cmdTtl; split <;> (try split) <;> (try split) <;> rfl

/-- failed writes do not count either: a refused INCRBY returns the database unchanged -/
theorem failed_incrby_doesnt_modify (c : Ctx) (db : Db) (k : Bytes) (d : Int)
    (herr : (cmdIncrBy c db k d).reply.isError = true) : (cmdIncrBy c db k d).db = db := by
  unfold cmdIncrBy at *
  split at herr <;> (try split at herr) <;> (try split at herr) <;> (try split_ifs at herr) <;>
    simp_all [R.ok, Value.isError]

/-- WATCH of a key that is watched already keeps the version recorded by the first WATCH (repaired
    behaviour: the second WATCH used to overwrite it, hiding a modification made in between) -/
theorem rewatch_keeps_first (c : Ctx) (s : State) (conn ref : Nat) (k : Bytes) (id₀ : Nat)
    (h : (ref, k, id₀) ∈ (s.session conn).watches) :
    ((runCmd c s conn ref false (.watch [k])).st.session conn).watches = (s.session conn).watches := by
  have hany : (s.session conn).watches.any (fun (x : Nat × Bytes × Nat) => x.1 == ref && x.2.1 == k) = true := by
    rw [List.any_eq_true]
    exact ⟨(ref, k, id₀), h, by simp⟩
  simp [runCmd, hany]

end RedisEmu
