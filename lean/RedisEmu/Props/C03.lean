import RedisEmu.Exec
import RedisEmu.Proofs.GoArithList
import Mathlib.Tactic.SplitIfs
/-
  C03 — list commands. Theorems about `RedisEmu.Cmds` (family `list` of the correspondence run).
-/
namespace RedisEmu

/-! ### index arithmetic of LRANGE and LTRIM, for every pair of `Int` indexes -/

/-- `LRANGE k 0 -1` is the whole list -/
theorem lrange_all (l : List Bytes) : lrangeOf l 0 (-1) = l := by
  unfold lrangeOf
  simp only
  by_cases h : l.length = 0
  · have : l = [] := List.eq_nil_of_length_eq_zero h
    subst this; simp
  · have hpos : (0 : Int) < l.length := by omega
    have e1 : ¬ ((0 : Int) < 0) := by omega
    have e2 : ((-1 : Int) < 0) := by omega
    simp only [e1, e2, ↓reduceIte]
    have e3 : ¬ ((l.length : Int) + -1 < 0) := by omega
    simp only [e3, ↓reduceIte]
    have e4 : ((l.length : Int) + -1 - 0 + 1).toNat = l.length := by omega
    rw [e4]
    simp

/-- in-range non-negative indexes select exactly the elements `start … stop` -/
theorem lrange_in_range (l : List Bytes) (s e : Nat) (h1 : s ≤ e) (h2 : e < l.length) :
    lrangeOf l s e = (l.drop s).take (e - s + 1) := by
  unfold lrangeOf
  simp only
  have a1 : ¬ ((s : Int) < 0) := by omega
  have a2 : ¬ ((e : Int) < 0) := by omega
  have a3 : ¬ ((e : Int) < s) := by omega
  simp only [a1, a2, a3, ↓reduceIte]
  have : ((e : Int) - s + 1).toNat = e - s + 1 := by omega
  simp [this]

/-- negative indexes count from the tail: `-1` is the last element -/
theorem lrange_negative (l : List Bytes) (s e : Nat) (h0 : 1 ≤ e) (h1 : e ≤ s) (h2 : s ≤ l.length) :
    lrangeOf l (-(s : Int)) (-(e : Int)) = (l.drop (l.length - s)).take (s - e + 1) := by
  unfold lrangeOf
  simp only
  by_cases hs : s = 0
  · omega
  · have a1 : (-(s : Int) < 0) := by omega
    have a2 : (-(e : Int) < 0) := by omega
    have a3 : ¬ ((l.length : Int) + -(s : Int) < 0) := by omega
    have a4 : ¬ ((l.length : Int) + -(e : Int) < (l.length : Int) + -(s : Int)) := by omega
    simp only [a1, a2, a3, a4, ↓reduceIte]
    have b1 : ((l.length : Int) + -(s : Int)).toNat = l.length - s := by omega
    have b2 : ((l.length : Int) + -(e : Int) - ((l.length : Int) + -(s : Int)) + 1).toNat = s - e + 1 := by omega
    rw [b1, b2]

/-- whatever the indexes, LRANGE returns a contiguous piece of the list, in list order -/
theorem lrange_infix (l : List Bytes) (start stop : Int) : lrangeOf l start stop <:+: l := by
  unfold lrangeOf
  simp only
  split_ifs
  all_goals first
    | exact List.nil_infix
    | exact (List.take_prefix _ _).isInfix.trans (List.drop_suffix _ _).isInfix

/-- LTRIM keeps exactly what LRANGE with the same arguments shows — for all `Int` arguments -/
theorem ltrim_eq_lrange (l : List Bytes) (start stop : Int) : ltrimOf l start stop = lrangeOf l start stop := by
  unfold ltrimOf lrangeOf
  simp only
  have hn : (0 : Int) ≤ l.length := by omega
  split_ifs <;> try rfl
  all_goals try omega
  all_goals first
    | (rw [List.take_of_length_le (by simp only [List.length_drop]; omega),
           List.take_of_length_le (by simp only [List.length_drop]; omega)]
       try rw [List.drop_eq_nil_of_le (by omega), List.drop_eq_nil_of_le (by omega)])
    | (apply List.drop_eq_nil_of_le; omega)
    | (rw [List.drop_eq_nil_of_le (by omega)]; simp)
    | (rw [List.drop_eq_nil_of_le (by omega), List.drop_eq_nil_of_le (by omega)])

/-! ### LMOVE with source = destination rotates and loses nothing -/

/-- what LMOVE k k does to the element sequence -/
def rotateSelf (l : List Bytes) (srcLeft dstLeft : Bool) : List Bytes :=
  match (if srcLeft then l.head? else l.getLast?) with
  | none => l
  | some x =>
    let rest := if srcLeft then l.drop 1 else l.dropLast
    if dstLeft then x :: rest else rest ++ [x]

/-- the rotation is a permutation: no element lost, none duplicated — for every list, including
    the one-element list on which the unrepaired code loses the element (D09) -/
theorem rotateSelf_perm (l : List Bytes) (a b : Bool) : (rotateSelf l a b).Perm l := by
  unfold rotateSelf
  cases l with
  | nil => cases a <;> simp
  | cons x xs =>
    cases a with
    | true =>
      cases b with
      | true => simp
      | false =>
        simp only [List.head?_cons, List.drop_one, List.tail_cons, Bool.false_eq_true, ↓reduceIte]
        exact List.perm_append_comm (l₁ := xs) (l₂ := [x])
    | false =>
      have hne : (x :: xs) ≠ [] := by simp
      have hsplit : (x :: xs).dropLast ++ [(x :: xs).getLast hne] = x :: xs := List.dropLast_concat_getLast hne
      have hl : (x :: xs).getLast? = some ((x :: xs).getLast hne) := List.getLast?_eq_some_getLast hne
      simp only [hl]
      cases b with
      | true =>
        simp only [Bool.false_eq_true, ↓reduceIte]
        have : (((x :: xs).getLast hne) :: (x :: xs).dropLast).Perm ((x :: xs).dropLast ++ [(x :: xs).getLast hne]) :=
          (List.perm_append_comm (l₁ := (x :: xs).dropLast) (l₂ := [(x :: xs).getLast hne])).symm
        exact this.trans (by rw [hsplit])
      | false =>
        simp only [Bool.false_eq_true, ↓reduceIte]
        rw [hsplit]

/-- LMOVE k k on a live list: the reply is the moved element and the key holds the rotation
    (a one-element list is left exactly as it was) -/
theorem lmove_self_rotates (c : Ctx) (db : Db) (k : Bytes) (e : Entry) (l : List Bytes) (a b : Bool)
    (hq : c.q.lmoveSelfSingleLoses = false)
    (hl : listOf c db k = .ok (some (e, l))) (hne : l ≠ []) :
    ∃ x, (cmdLMove c db k k a b).reply = .bulk x ∧
         (cmdLMove c db k k a b).db =
           (if (if a then l.drop 1 else l.dropLast).isEmpty then db else upd c db k e (.list (rotateSelf l a b))) := by
  have hx : ∃ x, (if a then l.head? else l.getLast?) = some x := by
    cases l with
    | nil => exact absurd rfl hne
    | cons y ys =>
      cases a with
      | true => exact ⟨y, by simp⟩
      | false => exact ⟨(y :: ys).getLast hne, by simpa using List.getLast?_eq_some_getLast hne⟩
  obtain ⟨x, hx⟩ := hx
  refine ⟨x, ?_, ?_⟩
  · unfold cmdLMove
    simp only [hl, hx, hq, beq_self_eq_true, ↓reduceIte, Bool.and_false, Bool.false_eq_true]
    split_ifs <;> rfl
  · unfold cmdLMove rotateSelf
    simp only [hl, hx, hq, beq_self_eq_true, ↓reduceIte, Bool.and_false, Bool.false_eq_true]
    split_ifs <;> rfl

/-- a one-element list rotated onto itself is the same list: nothing to change -/
theorem rotateSelf_single (x : Bytes) (a b : Bool) : rotateSelf [x] a b = [x] := by
  cases a <;> cases b <;> simp [rotateSelf]

/-- the one-element witness of D09 on the model of the unrepaired code: the element is lost -/
theorem lmove_self_single_witness :
    let c : Ctx := { q := { Quirks.none with lmoveSelfSingleLoses := true }, now := 0 }
    -- key "l" holding ["a"]
    let db := ({} : Db).put [108] (.list [[97]]) none
    ((cmdLMove c db [108] [108] true false).db.raw [108]).isNone = true := by
  decide

/-! ### pushes and pops -/

/-- RPUSH on a live list appends in argument order; LPUSH prepends in reverse argument order -/
theorem push_content (c : Ctx) (db : Db) (k : Bytes) (e : Entry) (l vs : List Bytes) (left x : Bool)
    (hl : listOf c db k = .ok (some (e, l))) :
    (cmdPush c db k vs left x).db = upd c db k e (.list (if left then vs.reverse ++ l else l ++ vs)) ∧
    (cmdPush c db k vs left x).reply = vInt (vs.length + l.length) := by
  unfold cmdPush
  simp only [hl]
  cases left <;> simp [vInt, Nat.add_comm]

/-- LPOP without count on a live non-empty list returns the head and keeps the tail in order -/
theorem lpop_head (c : Ctx) (db : Db) (k : Bytes) (e : Entry) (x : Bytes) (xs : List Bytes)
    (hl : listOf c db k = .ok (some (e, x :: xs))) :
    (cmdPop c db k none true).reply = .bulk x ∧ (cmdPop c db k none true).db = upd c db k e (.list xs) := by
  unfold cmdPop cmdPop.go
  simp [hl, R.ok]

/-- LREM never reorders: what remains is a sublist of the original -/
theorem removeN_sublist (v : Bytes) (n : Nat) (l : List Bytes) : (removeN v n l).1.Sublist l := by
  induction l generalizing n with
  | nil => cases n <;> simp [removeN]
  | cons x r ih =>
    cases n with
    | zero => simp [removeN]
    | succ m =>
      unfold removeN
      split_ifs with h
      · exact (ih m).trans (List.sublist_cons_self x r)
      · exact (ih (m + 1)).cons_cons x

/-- … and the number of removed elements is the number reported -/
theorem removeN_length (v : Bytes) (n : Nat) (l : List Bytes) :
    (removeN v n l).1.length + (removeN v n l).2 = l.length := by
  induction l generalizing n with
  | nil => cases n <;> simp [removeN]
  | cons x r ih =>
    cases n with
    | zero => simp [removeN]
    | succ m =>
      unfold removeN
      split_ifs with h
      · have := ih m; simp only [List.length_cons]; omega
      · have := ih (m + 1); simp only [List.length_cons]; omega

/-! ### LINDEX, LINSERT, LSET -/

/-- LINDEX for every integer index: positions 0 … n-1 from the head, -1 … -n from the tail, nil outside -/
theorem lindex_spec (c : Ctx) (db : Db) (k : Bytes) (e : Entry) (l : List Bytes) (i : Int)
    (h : listOf c db k = .ok (some (e, l))) :
    (∀ p : Nat, p < l.length → i = p → (cmdLIndex c db k i).reply = (match l[p]? with | some x => .bulk x | none => .nil)) ∧
    (∀ p : Nat, 1 ≤ p → p ≤ l.length → i = -(p : Int) →
        (cmdLIndex c db k i).reply = (match l[l.length - p]? with | some x => .bulk x | none => .nil)) ∧
    (i ≥ (l.length : Int) ∨ i < -(l.length : Int) → (cmdLIndex c db k i).reply = .nil) ∧
    (cmdLIndex c db k i).db = db := by
  unfold cmdLIndex
  simp only [h]
  refine ⟨?_, ?_, ?_, ?_⟩
  · intro p hp hi
    subst hi
    have a1 : ((p : Int) ≥ 0) := by omega
    have a2 : (decide ((p : Int) < 0) || decide ((p : Int) ≥ (l.length : Int))) = false := by simp; omega
    simp only [a1, ↓reduceIte, a2, Bool.false_eq_true, R.ok, Int.toNat_natCast]
    rfl
  · intro p h1 h2 hi
    subst hi
    have a1 : ¬ (-(p : Int) ≥ 0) := by omega
    have a2 : (decide ((l.length : Int) + -(p : Int) < 0) || decide ((l.length : Int) + -(p : Int) ≥ (l.length : Int))) = false := by
      simp; omega
    have a3 : ((l.length : Int) + -(p : Int)).toNat = l.length - p := by omega
    simp only [a1, ↓reduceIte, a2, Bool.false_eq_true, R.ok, a3]
    rfl
  · intro hi
    by_cases h0 : i ≥ 0
    · have a2 : (decide (i < 0) || decide (i ≥ (l.length : Int))) = true := by simp; omega
      simp only [h0, ↓reduceIte, a2, R.ok]
    · have a2 : (decide ((l.length : Int) + i < 0) || decide ((l.length : Int) + i ≥ (l.length : Int))) = true := by simp; omega
      simp only [h0, ↓reduceIte, a2, R.ok]
  · split_ifs <;> rfl

/-- LINSERT: the new element goes next to the FIRST occurrence of the pivot, everything else keeps its
    place; without the pivot nothing happens -/
theorem insertAt_spec (l : List Bytes) (pivot v : Bytes) (before : Bool) :
    (insertAt l pivot v before = none ↔ pivot ∉ l) ∧
    (∀ l', insertAt l pivot v before = some l' →
      ∃ a b, l = a ++ pivot :: b ∧ pivot ∉ a ∧
        l' = (if before then a ++ v :: pivot :: b else a ++ pivot :: v :: b)) := by
  induction l with
  | nil => simp [insertAt]
  | cons x r ih =>
    unfold insertAt
    by_cases hx : (x == pivot) = true
    · have hxe : x = pivot := by simpa using hx
      subst hxe
      simp only [hx, ↓reduceIte]
      refine ⟨by simp, ?_⟩
      intro l' hl'
      simp only [Option.some.injEq] at hl'
      refine ⟨[], r, by simp, by simp, ?_⟩
      subst hl'; cases before <;> simp
    · have hne : x ≠ pivot := by simpa using hx
      simp only [hx, Bool.false_eq_true, ↓reduceIte]
      refine ⟨?_, ?_⟩
      · simp only [Option.map_eq_none_iff, ih.1, List.mem_cons, not_or]
        constructor
        · intro h; exact ⟨fun e => hne e.symm, h⟩
        · intro h; exact h.2
      · intro l' hl'
        simp only [Option.map_eq_some_iff] at hl'
        obtain ⟨m, hm, rfl⟩ := hl'
        obtain ⟨a, b, h1, h2, h3⟩ := ih.2 m hm
        refine ⟨x :: a, b, by simp [h1], ?_, ?_⟩
        · simp only [List.mem_cons, not_or]; exact ⟨fun e => hne e.symm, h2⟩
        · subst h3; cases before <;> simp

theorem linsert_reply (c : Ctx) (db : Db) (k pivot v : Bytes) (before : Bool) (e : Entry) (l : List Bytes)
    (h : listOf c db k = .ok (some (e, l))) :
    (pivot ∈ l → (cmdLInsert c db k before pivot v).reply = vInt (l.length + 1)) ∧
    (pivot ∉ l → (cmdLInsert c db k before pivot v).reply = .int (-1) ∧ (cmdLInsert c db k before pivot v).db = db) := by
  unfold cmdLInsert
  simp only [h]
  constructor
  · intro hm
    cases hi : insertAt l pivot v before with
    | none => exact absurd hm ((insertAt_spec l pivot v before).1.mp hi)
    | some l' =>
      obtain ⟨a, b, h1, _, h3⟩ := (insertAt_spec l pivot v before).2 l' hi
      simp only [R.ok]
      subst h3; subst h1
      cases before <;> simp [vInt] <;> omega
  · intro hm
    rw [(insertAt_spec l pivot v before).1.mpr hm]
    simp [R.ok]

/-- LSET: position `i` (counted from the tail when negative) gets the new value, every other position keeps
    its element, the length stays -/
theorem lset_positions (l : List Bytes) (j : Nat) (v : Bytes) (p : Nat) :
    (l.set j v).length = l.length ∧ (p ≠ j → (l.set j v)[p]? = l[p]?) ∧ (j < l.length → (l.set j v)[j]? = some v) := by
  refine ⟨List.length_set, ?_, ?_⟩
  · intro h; rw [List.getElem?_set_ne (Ne.symm h)]
  · intro h; rw [List.getElem?_set_self h]

/-! ### the index arithmetic of LRANGE and LTRIM as the Go source has it now (`GoArith.lean`, regenerated) -/

/-- The statements of `lrange` between its comments "convert negative indexes" and "find the start item",
    translated from the Go source on this run, compute for every pair of int64 indexes and every list length the
    bounds `lrangeOf` walks between (`lrangeOf_bounds`) — the function `lrange_all`, `lrange_in_range`,
    `lrange_negative` and `lrange_infix` are about. -/
theorem lrange_clamp_as_coded (s e n : BitVec 64) (hn : 0 ≤ n.toInt) :
    ((Go.lrangeClamp s e n).1.toInt, (Go.lrangeClamp s e n).2.toInt) = lrangeBounds n.toInt s.toInt e.toInt :=
  go_lrangeClamp s e n hn

/-- … and the statements of `ltrim` before its loops compute the positions `ltrimOf` keeps (`ltrimOf_bounds`),
    which are what LRANGE shows (`ltrim_eq_lrange`) -/
theorem ltrim_clamp_as_coded (s e n : BitVec 64) (hn : 0 ≤ n.toInt) :
    ((Go.ltrimClamp s e n).1.toInt, (Go.ltrimClamp s e n).2.toInt) = ltrimBounds n.toInt s.toInt e.toInt :=
  go_ltrimClamp s e n hn

/-- this property's part of what the translator delivered on this run -/
theorem go_arith_translated_list : ["lrangeClamp", "ltrimClamp"].all (Go.translated.contains ·) = true := by decide

end RedisEmu
