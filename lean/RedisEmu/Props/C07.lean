import RedisEmu.Exec
import RedisEmu.Proofs.AList
import RedisEmu.Props.C10
import Mathlib.Tactic.SplitIfs
/-
  C07 — expiry. Theorems about `RedisEmu.Store` / `RedisEmu.Cmds` (family `expiry`).
  Time is the explicit argument `c.now` (nanoseconds); nothing in the model reads a clock.
-/
namespace RedisEmu

/-! ### a key whose deadline has passed is a missing key for the lookup every command uses -/

theorem live_after_deadline (db : Db) (now d : Int) (k : Bytes) (e : Entry)
    (h : db.raw k = some e) (he : e.exp = some d) (hpast : now > d) : db.live now k = none := by
  unfold Db.live Entry.expired
  simp [h, he, hpast]

theorem live_before_deadline (db : Db) (now d : Int) (k : Bytes) (e : Entry)
    (h : db.raw k = some e) (he : e.exp = some d) (hnot : now ≤ d) : db.live now k = some e := by
  unfold Db.live Entry.expired
  have : ¬ (now > d) := by omega
  simp [h, he, this]

theorem live_no_deadline (db : Db) (now : Int) (k : Bytes) (e : Entry)
    (h : db.raw k = some e) (he : e.exp = none) : db.live now k = some e := by
  unfold Db.live Entry.expired
  simp [h, he]

/-- removing the expired object changes nothing any `live` lookup can see -/
theorem live_purge (db : Db) (now : Int) (k k' : Bytes) (e : Entry)
    (h : db.raw k = some e) (hexp : e.expired now = true) (hu : (db.keys.map (·.1)).Nodup) :
    ({ db with keys := aerase k db.keys } : Db).live now k' = db.live now k' := by
  unfold Db.live Db.raw at *
  by_cases hk : (k == k') = true
  · have e' : k = k' := by simpa using hk
    subst e'
    simp [alookup_aerase_self_of_unique k db.keys hu, h, hexp]
  · have hk' : (k == k') = false := by simpa using hk
    simp [alookup_aerase_ne k k' db.keys hk']

/-- reads on an expired key answer exactly as on a missing key -/
theorem get_expired (c : Ctx) (db : Db) (k : Bytes) (h : db.live c.now k = none) :
    (cmdGet c db k).reply = .nil ∧ (cmdExists c db [k]).reply = .int 0 ∧
    (cmdType c db k).reply = .simple (sb "none") ∧ (cmdStrlen c db k).reply = .int 0 ∧
    (cmdTtl c db k .ttl).reply = .int (-2) ∧ (cmdLLen c db k).reply = .int 0 ∧
    (cmdHLen c db k).reply = .int 0 ∧ (cmdSCard c db k).reply = .int 0 := by
  unfold cmdGet cmdExists cmdType cmdStrlen cmdTtl cmdLLen cmdHLen cmdSCard listOf hashOf setOf
  simp [h, R.ok, vInt]

/-- writes on an expired key start from nothing: INCR answers the increment, APPEND the length
    of the argument, RPUSH the number of pushed elements -/
theorem writes_on_expired (c : Ctx) (db : Db) (k v : Bytes) (d : Int) (h : db.live c.now k = none) :
    (cmdIncrBy c db k d).reply = .int d ∧ (cmdAppend c db k v).reply = vInt v.length ∧
    (cmdPush c db k [v] false false).reply = .int 1 := by
  unfold cmdIncrBy cmdAppend setKey cmdPush listOf
  simp [h, R.ok, vInt]

/-! ### TTL reporting -/

theorem ttl_missing (c : Ctx) (db : Db) (k : Bytes) (kind : TtlKind) (h : db.live c.now k = none) :
    (cmdTtl c db k kind).reply = .int (-2) := by
  unfold cmdTtl; simp [h, R.ok]

theorem ttl_persistent (c : Ctx) (db : Db) (k : Bytes) (kind : TtlKind) (e : Entry)
    (h : db.live c.now k = some e) (he : e.exp = none) : (cmdTtl c db k kind).reply = .int (-1) := by
  unfold cmdTtl; simp [h, he, R.ok]

/-- PEXPIRETIME reports the deadline that was set, in milliseconds -/
theorem pexpiretime_reports (c : Ctx) (db : Db) (k : Bytes) (e : Entry) (d : Int)
    (h : db.live c.now k = some e) (he : e.exp = some d) :
    (cmdTtl c db k .pexpiretime).reply = .int (d / msNs) := by
  unfold cmdTtl; simp [h, he]

/-! ### EXPIRE option table (NX / XX / GT / LT) -/

/-- without an option the deadline becomes exactly the requested one -/
theorem expire_sets (c : Ctx) (db : Db) (k : Bytes) (e : Entry) (dl : Int)
    (h : db.live c.now k = some e) :
    (cmdExpireAt c db k dl .none).reply = .int 1 ∧
    ((cmdExpireAt c db k dl .none).db.raw k).map (·.exp) = some (some dl) := by
  unfold cmdExpireAt
  simp only [h]
  constructor
  · simp [R.ok]
  · simp only [R.ok, Bool.false_eq_true, ↓reduceIte]
    unfold bump dirtyUnlessQuirk
    split_ifs <;> simp [Db.poke, Db.raw, Db.setDirty]

/-- NX refuses exactly when the key already has a deadline; XX exactly when it has none;
    GT on a key without deadline never sets; LT on a key without deadline always sets;
    GT / LT on a key with a deadline set exactly when the new one is later / earlier -/
theorem expire_option_table (c : Ctx) (db : Db) (k : Bytes) (e : Entry) (dl : Int)
    (h : db.live c.now k = some e) :
    ((cmdExpireAt c db k dl .nx).reply.int? = some 0 ↔ e.exp.isSome = true) ∧
    ((cmdExpireAt c db k dl .xx).reply.int? = some 0 ↔ e.exp.isNone = true) ∧
    (e.exp = none → (cmdExpireAt c db k dl .gt).reply.int? = some 0) ∧
    (e.exp = none → (cmdExpireAt c db k dl .lt).reply.int? = some 1) ∧
    (∀ old, e.exp = some old → ((cmdExpireAt c db k dl .gt).reply.int? = some 1 ↔ dl > old)) ∧
    (∀ old, e.exp = some old → ((cmdExpireAt c db k dl .lt).reply.int? = some 1 ↔ dl < old)) := by
  unfold cmdExpireAt
  simp only [h]
  refine ⟨?_, ?_, ?_, ?_, ?_, ?_⟩
  · cases he : e.exp <;> simp [R.ok, Value.int?]
  · cases he : e.exp <;> simp [R.ok, Value.int?]
  · intro he; simp [he, R.ok, Value.int?]
  · intro he; simp [he, R.ok, Value.int?]
  · intro old he; by_cases hc : dl > old <;> simp [he, hc, R.ok, Value.int?]
  · intro old he; by_cases hc : dl < old <;> simp [he, hc, R.ok, Value.int?]

/-! ### which commands keep and which clear the deadline -/

/-- plain SET replaces the value and clears the deadline; with KEEPTTL it keeps it -/
theorem set_clears_keepttl_keeps (c : Ctx) (db : Db) (k v : Bytes) (e : Entry)
    (h : db.live c.now k = some e) :
    ((cmdSet c db k v {} false).db.raw k).map (·.exp) = some none ∧
    ((cmdSet c db k v { exp := some .keepttl } false).db.raw k).map (·.exp) = some e.exp := by
  unfold cmdSet setKey
  cases hv : e.val <;> simp [h, hv, ExpArg.invalid, ExpArg.deadline, Db.put, Db.raw, R.ok]

/-- APPEND keeps the deadline (with the repaired behaviour, quirk off); D04 is the quirk on -/
theorem append_keeps_deadline (c : Ctx) (db : Db) (k v b : Bytes) (e : Entry)
    (hq : c.q.appendDropsTtl = false)
    (h : db.live c.now k = some e) (hv : e.val = .str b) :
    ((cmdAppend c db k v).db.raw k).map (·.exp) = some e.exp := by
  unfold cmdAppend setKey
  simp [h, hv, hq, Db.put, Db.raw, R.ok]

theorem append_drops_deadline_witness :
    let c : Ctx := { q := { Quirks.none with appendDropsTtl := true }, now := 0 }
    let db := ({} : Db).put [97] (.str [120]) (some 100)
    ((cmdAppend c db [97] [121]).db.raw [97]).map (·.exp) = some none := by
  decide +kernel

/-- INCRBY keeps the deadline -/
theorem incrby_keeps_deadline (c : Ctx) (db : Db) (k b : Bytes) (e : Entry) (v d : Int)
    (h : db.live c.now k = some e) (hv : e.val = .str b) (hp : parseInt64 b = some v)
    (hgo : goAddOverflow v d = false) :
    ((cmdIncrBy c db k d).db.raw k).map (·.exp) = some e.exp := by
  unfold cmdIncrBy
  simp [h, hv, hp, hgo, R.ok, Db.put, Db.raw]

/-- PERSIST removes the deadline and answers 1 exactly when there was one -/
theorem persist_spec (c : Ctx) (db : Db) (k : Bytes) (e : Entry) (h : db.live c.now k = some e) :
    ((cmdPersist c db k).reply.int? = some 1 ↔ e.exp.isSome = true) := by
  unfold cmdPersist
  cases he : e.exp <;> simp [h, he, R.ok, Value.int?]


/-! ## expired = missing, for every command and every history

  The lemmas above are about the lookup and about single commands. What follows shows that *no* command
  can tell an expired object from a missing key: commands see a database only through its live objects
  (`Sim`), every command function respects that (`_obs`, one per command function), so does every command
  on the whole server (`runCmd_obs`), and so does every history (`expired_is_missing`). -/

set_option linter.unusedSectionVars false

/-- two databases that no command can tell apart at the instant `now`: the same live objects under
    the same keys (whatever expired objects either of them still stores), the same version counter -/
structure Sim (now : Int) (a b : Db) : Prop where
  ua : a.Uniq
  ub : b.Uniq
  next : a.nextId = b.nextId
  live : ∀ k, a.live now k = b.live now k

theorem sim_refl (now : Int) (a : Db) (h : a.Uniq) : Sim now a a := ⟨h, h, rfl, fun _ => rfl⟩

theorem live_put (db : Db) (now : Int) (k k' : Bytes) (v : Val) (x : Option Int) :
    (db.put k v x).live now k' =
      if k == k' then (if ({ val := v, exp := x, id := db.nextId + 1 } : Entry).expired now then none
                       else some { val := v, exp := x, id := db.nextId + 1 })
      else db.live now k' := by
  unfold Db.live
  by_cases h : (k == k') = true
  · have : k = k' := by simpa using h
    subst this
    simp only [raw_put_self, beq_self_eq_true, ↓reduceIte]
  · have h' : (k == k') = false := by simpa using h
    rw [raw_put_ne db k k' v x h']
    simp only [h', Bool.false_eq_true, ↓reduceIte]

theorem live_poke (db : Db) (now : Int) (k k' : Bytes) (e : Entry) :
    (db.poke k e).live now k' = if k == k' then (if e.expired now then none else some e) else db.live now k' := by
  unfold Db.live
  by_cases h : (k == k') = true
  · have : k = k' := by simpa using h
    subst this
    simp only [raw_poke_self, beq_self_eq_true, ↓reduceIte]
  · have h' : (k == k') = false := by simpa using h
    rw [raw_poke_ne' db k k' e h']
    simp only [h', Bool.false_eq_true, ↓reduceIte]

theorem live_del (db : Db) (now : Int) (k k' : Bytes) (hu : db.Uniq) :
    (db.del k).live now k' = if k == k' then none else db.live now k' := by
  unfold Db.live
  by_cases h : (k == k') = true
  · have : k = k' := by simpa using h
    subst this
    simp only [raw_del_self db k hu, beq_self_eq_true, ↓reduceIte]
  · have h' : (k == k') = false := by simpa using h
    rw [raw_del_ne' db k k' h']
    simp only [h', Bool.false_eq_true, ↓reduceIte]

theorem sim_put {now : Int} {a b : Db} (h : Sim now a b) (k : Bytes) (v : Val) (x : Option Int) :
    Sim now (a.put k v x) (b.put k v x) := by
  refine ⟨(vs_put (vs_refl a h.ua) k v x).uniq, (vs_put (vs_refl b h.ub) k v x).uniq, ?_, ?_⟩
  · simp [Db.put, h.next]
  · intro k'
    rw [live_put, live_put, h.next, h.live k']

theorem sim_poke {now : Int} {a b : Db} (h : Sim now a b) (k : Bytes) (e : Entry) :
    Sim now (a.poke k e) (b.poke k e) := by
  refine ⟨uniq_poke a k e h.ua, uniq_poke b k e h.ub, ?_, ?_⟩
  · simp [Db.poke, h.next]
  · intro k'
    rw [live_poke, live_poke, h.live k']

theorem nextId_del (db : Db) (k : Bytes) : (db.del k).nextId = db.nextId := by
  unfold Db.del; split <;> rfl

theorem sim_del {now : Int} {a b : Db} (h : Sim now a b) (k : Bytes) : Sim now (a.del k) (b.del k) := by
  refine ⟨uniq_del a k h.ua, uniq_del b k h.ub, ?_, ?_⟩
  · rw [nextId_del, nextId_del, h.next]
  · intro k'
    rw [live_del a now k k' h.ua, live_del b now k k' h.ub, h.live k']

theorem sim_setDirty {now : Int} {a b : Db} (h : Sim now a b) : Sim now a.setDirty b.setDirty :=
  ⟨h.ua, h.ub, h.next, h.live⟩

theorem sim_dirtyUnlessQuirk {now : Int} {a b : Db} (c : Ctx) (h : Sim now a b) :
    Sim now (dirtyUnlessQuirk c a) (dirtyUnlessQuirk c b) := by
  unfold dirtyUnlessQuirk; split
  · exact h
  · exact sim_setDirty h

theorem sim_bump {now : Int} {a b : Db} (c : Ctx) (h : Sim now a b) (e : Entry) :
    Sim now (bump c a e).1 (bump c b e).1 ∧ (bump c a e).2 = (bump c b e).2 := by
  unfold bump
  split
  · exact ⟨h, rfl⟩
  · exact ⟨⟨h.ua, h.ub, by simp [h.next], h.live⟩, by simp [h.next]⟩

theorem sim_update {now : Int} {a b : Db} (h : Sim now a b) (k : Bytes) (e : Entry) (v : Val) :
    Sim now (a.update k e v) (b.update k e v) := by
  unfold Db.update
  simp only
  have key : ∀ (p : Prop) [Decidable p], Sim now (if p then (a.del k).setDirty else (a.poke k { e with val := v }).setDirty)
      (if p then (b.del k).setDirty else (b.poke k { e with val := v }).setDirty) := by
    intro p _
    split
    · exact sim_setDirty (sim_del h k)
    · exact sim_setDirty (sim_poke h k _)
  exact key _

theorem sim_upd {now : Int} {a b : Db} (c : Ctx) (h : Sim now a b) (k : Bytes) (e : Entry) (v : Val) :
    Sim now (upd c a k e v) (upd c b k e v) := by
  unfold upd
  obtain ⟨h1, h2⟩ := sim_bump c h e
  simp only
  rw [h2]
  exact sim_update h1 k _ v


/-- two outcomes no client can tell apart: same reply, same wake-ups owed, and databases that stay
    indistinguishable -/
structure Obs (now : Int) (r r' : R) : Prop where
  reply : r.reply = r'.reply
  hint : r.hint = r'.hint
  crash : r.crash = r'.crash
  pushed : r.pushed = r'.pushed
  db : Sim now r.db r'.db

section helpers
variable {c : Ctx} {a b : Db} (h : Sim c.now a b)
include h

theorem listOf_sim (k : Bytes) : listOf c a k = listOf c b k := by unfold listOf; rw [h.live]
theorem hashOf_sim (k : Bytes) : hashOf c a k = hashOf c b k := by unfold hashOf; rw [h.live]
theorem setOf_sim (k : Bytes) : setOf c a k = setOf c b k := by unfold setOf; rw [h.live]
theorem setOperand_sim (k : Bytes) : setOperand c a k = setOperand c b k := by unfold setOperand; rw [setOf_sim h]
theorem strValue_sim (k : Bytes) : strValue c a k = strValue c b k := by unfold strValue; rw [h.live]
theorem sortSource_sim (k : Bytes) : sortSource c a k = sortSource c b k := by unfold sortSource; rw [h.live]
theorem srcLookup_sim (hr : c.q.rawLookupSeesExpired = false) (k : Bytes) : srcLookup c a k = srcLookup c b k := by
  unfold srcLookup; simp only [hr, Bool.false_eq_true, ↓reduceIte]; exact h.live k
theorem bump_snd_sim (e : Entry) : (bump c a e).2 = (bump c b e).2 := (sim_bump c h e).2
theorem sim_bump_fst (e : Entry) : Sim c.now (bump c a e).1 (bump c b e).1 := (sim_bump c h e).1
theorem setKey_snd_sim (k v : Bytes) (o : SetOpts) (x y : Bool) : (setKey c a k v o x y).2 = (setKey c b k v o x y).2 := by
  unfold setKey
  simp only [h.live]
  repeat' (first | rfl | split | dsimp only)
theorem setKey_fst_sim (k v : Bytes) (o : SetOpts) (x y : Bool) : Sim c.now (setKey c a k v o x y).1 (setKey c b k v o x y).1 := by
  unfold setKey
  simp only [h.live]
  repeat' (first | assumption | (refine sim_put ?_ _ _ _) | split | dsimp only)
theorem putAll_sim (kvs : List (Bytes × Bytes)) : ∀ (a b : Db), Sim c.now a b → Sim c.now (putAll a kvs) (putAll b kvs) := by
  induction kvs with
  | nil => intro a b h; exact h
  | cons p r ih =>
    intro a b h
    obtain ⟨k, v⟩ := p
    unfold putAll
    exact ih _ _ (sim_put h _ _ _)
theorem setAlgebra_go_sim (rest d : List Bytes) : setAlgebra.go c a rest d = setAlgebra.go c b rest d := by
  induction rest generalizing d with
  | nil => rfl
  | cons k r ih =>
    unfold setAlgebra.go
    rw [setOf_sim h]
    split
    · rfl
    · rfl
    · exact ih _
theorem setAlgebra_sim (op : SetOp) (f : Bytes) (r : List Bytes) : setAlgebra c a op f r = setAlgebra c b op f r := by
  unfold setAlgebra
  simp only [setOf_sim h, setOperand_sim h, setAlgebra_go_sim h]
theorem sintercard_collect_sim (ks : List Bytes) (acc : List (List Bytes)) :
    cmdSInterCard.collect c a ks acc = cmdSInterCard.collect c b ks acc := by
  induction ks generalizing acc with
  | nil => rfl
  | cons k r ih =>
    unfold cmdSInterCard.collect
    rw [setOf_sim h]
    split
    · rfl
    · rfl
    · exact ih _
end helpers

theorem raw_update_ne7 (db : Db) (k k' : Bytes) (e : Entry) (v : Val) (hne : (k == k') = false) :
    (db.update k e v).raw k' = db.raw k' := by
  unfold Db.update
  simp only
  have key : ∀ (p : Prop) [Decidable p], (if p then (db.del k).setDirty else (db.poke k { e with val := v }).setDirty).raw k' = db.raw k' := by
    intro p _
    split
    · exact raw_del_ne' db k k' hne
    · exact raw_poke_ne' db k k' _ hne
  exact key _

theorem raw_upd_ne7 (c : Ctx) (db : Db) (k k' : Bytes) (e : Entry) (v : Val) (hne : (k == k') = false) :
    (upd c db k e v).raw k' = db.raw k' := by
  unfold upd
  simp only
  rw [raw_update_ne7 _ k k' _ v hne]
  unfold bump
  split <;> rfl

theorem listOf_live {c : Ctx} {db : Db} {k : Bytes} {e : Entry} {l : List Bytes}
    (hl : listOf c db k = .ok (some (e, l))) : db.live c.now k = some e := by
  unfold listOf at hl
  split at hl
  · split at hl
    · cases hl; assumption
    · cases hl
  · cases hl

theorem listOf_none_live {c : Ctx} {db : Db} {k : Bytes}
    (hl : listOf c db k = .ok none) : db.live c.now k = none := by
  unfold listOf at hl
  split at hl
  · split at hl <;> cases hl
  · assumption


attribute [local irreducible] bump

macro "obs" : tactic => `(tactic| (repeat' (first
  | assumption
  | rfl
  | (refine Obs.mk rfl rfl rfl rfl ?_)
  | (refine sim_put ?_ _ _ _)
  | (refine sim_setDirty ?_)
  | (refine sim_del ?_ _)
  | (refine sim_upd _ ?_ _ _ _)
  | (refine sim_dirtyUnlessQuirk _ ?_)
  | (refine sim_poke ?_ _ _)
  | (exact sim_bump_fst (by assumption) _)
  | (exact setKey_fst_sim (by assumption) _ _ _ _ _)
  | (exact putAll_sim (by assumption) _ _ _ (by assumption))
  | dsimp only [R.ok]
  | split)))

section
variable (c : Ctx) (a b' : Db) (k k2 v f m : Bytes) (i j : Int) (o : SetOpts) (b b2 : Bool)
  (ks : List Bytes) (kvs : List (Bytes × Bytes)) (oi oj ok' : Option Int) (n : Nat)
  (h : Sim c.now a b') (hr : c.q.rawLookupSeesExpired = false)
include h hr

macro "obs_pre" : tactic => `(tactic| (simp only [Sim.live ‹Sim _ _ _›, listOf_sim ‹Sim _ _ _›, hashOf_sim ‹Sim _ _ _›, setOf_sim ‹Sim _ _ _›,
   setOperand_sim ‹Sim _ _ _›, setKey_snd_sim ‹Sim _ _ _›, setAlgebra_sim ‹Sim _ _ _›, sintercard_collect_sim ‹Sim _ _ _›, srcLookup_sim ‹Sim _ _ _› ‹_ = false›, strValue_sim ‹Sim _ _ _›, sortSource_sim ‹Sim _ _ _›, bump_snd_sim ‹Sim _ _ _›]))

theorem set_obs : Obs c.now (cmdSet c a k v o b) (cmdSet c b' k v o b) := by unfold cmdSet; obs_pre; obs
theorem get_obs : Obs c.now (cmdGet c a k) (cmdGet c b' k) := by unfold cmdGet; obs_pre; obs
theorem getdel_obs : Obs c.now (cmdGetDel c a k) (cmdGetDel c b' k) := by unfold cmdGetDel; obs_pre; obs
theorem getex_obs (e : Option ExpArg) : Obs c.now (cmdGetEx c a k e) (cmdGetEx c b' k e) := by unfold cmdGetEx; obs_pre; obs
theorem strlen_obs : Obs c.now (cmdStrlen c a k) (cmdStrlen c b' k) := by unfold cmdStrlen; obs_pre; obs
theorem getrange_obs : Obs c.now (cmdGetRange c a k i j) (cmdGetRange c b' k i j) := by unfold cmdGetRange; obs_pre; obs
theorem setrange_obs : Obs c.now (cmdSetRange c a k i v) (cmdSetRange c b' k i v) := by unfold cmdSetRange; obs_pre; obs
theorem incrby_obs : Obs c.now (cmdIncrBy c a k i) (cmdIncrBy c b' k i) := by unfold cmdIncrBy; obs_pre; obs
theorem mget_obs : Obs c.now (cmdMGet c a ks) (cmdMGet c b' ks) := by unfold cmdMGet; obs_pre; obs
theorem mset_obs : Obs c.now (cmdMSet c a kvs b) (cmdMSet c b' kvs b) := by unfold cmdMSet; obs_pre; obs
theorem incrbyfloat_obs : Obs c.now (cmdIncrByFloat c a k v) (cmdIncrByFloat c b' k v) := by unfold cmdIncrByFloat; obs_pre; obs
theorem push_obs : Obs c.now (cmdPush c a k ks b b2) (cmdPush c b' k ks b b2) := by unfold cmdPush; obs_pre; obs
theorem llen_obs : Obs c.now (cmdLLen c a k) (cmdLLen c b' k) := by unfold cmdLLen; obs_pre; obs
theorem lindex_obs : Obs c.now (cmdLIndex c a k i) (cmdLIndex c b' k i) := by unfold cmdLIndex; obs_pre; obs
theorem lrange_obs : Obs c.now (cmdLRange c a k i j) (cmdLRange c b' k i j) := by unfold cmdLRange; obs_pre; obs
theorem lset_obs : Obs c.now (cmdLSet c a k i v) (cmdLSet c b' k i v) := by unfold cmdLSet; obs_pre; obs
theorem linsert_obs : Obs c.now (cmdLInsert c a k b v m) (cmdLInsert c b' k b v m) := by unfold cmdLInsert; obs_pre; obs
theorem lrem_obs : Obs c.now (cmdLRem c a k i v) (cmdLRem c b' k i v) := by unfold cmdLRem; obs_pre; obs
theorem ltrim_obs : Obs c.now (cmdLTrim c a k i j) (cmdLTrim c b' k i j) := by unfold cmdLTrim; obs_pre; obs
theorem lpos_obs : Obs c.now (cmdLPos c a k v oi oj ok') (cmdLPos c b' k v oi oj ok') := by unfold cmdLPos; obs_pre; obs
theorem hset_obs : Obs c.now (cmdHSet c a k kvs b b2) (cmdHSet c b' k kvs b b2) := by unfold cmdHSet; obs_pre; obs
theorem hget_obs : Obs c.now (cmdHGet c a k f) (cmdHGet c b' k f) := by unfold cmdHGet; obs_pre; obs
theorem hmget_obs : Obs c.now (cmdHMGet c a k ks) (cmdHMGet c b' k ks) := by unfold cmdHMGet; obs_pre; obs
theorem hgetall_obs : Obs c.now (cmdHGetAll c a k) (cmdHGetAll c b' k) := by unfold cmdHGetAll; obs_pre; obs
theorem hkeys_obs : Obs c.now (cmdHKeys c a k b) (cmdHKeys c b' k b) := by unfold cmdHKeys; obs_pre; obs
theorem hlen_obs : Obs c.now (cmdHLen c a k) (cmdHLen c b' k) := by unfold cmdHLen; obs_pre; obs
theorem hexists_obs : Obs c.now (cmdHExists c a k f) (cmdHExists c b' k f) := by unfold cmdHExists; obs_pre; obs
theorem hstrlen_obs : Obs c.now (cmdHStrlen c a k f) (cmdHStrlen c b' k f) := by unfold cmdHStrlen; obs_pre; obs
theorem hdel_obs : Obs c.now (cmdHDel c a k ks) (cmdHDel c b' k ks) := by unfold cmdHDel; obs_pre; obs
theorem hincrby_obs : Obs c.now (cmdHIncrBy c a k f i) (cmdHIncrBy c b' k f i) := by unfold cmdHIncrBy; obs_pre; obs
theorem hincrbyfloat_obs : Obs c.now (cmdHIncrByFloat c a k f v) (cmdHIncrByFloat c b' k f v) := by unfold cmdHIncrByFloat; obs_pre; obs
theorem sadd_obs : Obs c.now (cmdSAdd c a k ks) (cmdSAdd c b' k ks) := by unfold cmdSAdd; obs_pre; obs
theorem srem_obs : Obs c.now (cmdSRem c a k ks) (cmdSRem c b' k ks) := by unfold cmdSRem; obs_pre; obs
theorem scard_obs : Obs c.now (cmdSCard c a k) (cmdSCard c b' k) := by unfold cmdSCard; obs_pre; obs
theorem sismember_obs : Obs c.now (cmdSIsMember c a k m) (cmdSIsMember c b' k m) := by unfold cmdSIsMember; obs_pre; obs
theorem smismember_obs : Obs c.now (cmdSMIsMember c a k ks) (cmdSMIsMember c b' k ks) := by unfold cmdSMIsMember; obs_pre; obs
theorem smembers_obs : Obs c.now (cmdSMembers c a k) (cmdSMembers c b' k) := by unfold cmdSMembers; obs_pre; obs
theorem smove_obs : Obs c.now (cmdSMove c a k k2 m) (cmdSMove c b' k k2 m) := by unfold cmdSMove; obs_pre; obs
theorem setalgebra_obs (op : SetOp) : Obs c.now (cmdSetAlgebra c a op ks) (cmdSetAlgebra c b' op ks) := by unfold cmdSetAlgebra; obs_pre; obs
theorem setalgebrastore_obs (op : SetOp) : Obs c.now (cmdSetAlgebraStore c a op k ks) (cmdSetAlgebraStore c b' op k ks) := by unfold cmdSetAlgebraStore; obs_pre; obs
theorem sintercard_obs : Obs c.now (cmdSInterCard c a i ks j) (cmdSInterCard c b' i ks j) := by unfold cmdSInterCard; obs_pre; obs
theorem exists_obs : Obs c.now (cmdExists c a ks) (cmdExists c b' ks) := by unfold cmdExists; obs_pre; obs
theorem type_obs : Obs c.now (cmdType c a k) (cmdType c b' k) := by unfold cmdType; obs_pre; obs
theorem rename_obs : Obs c.now (cmdRename c a k k2 b) (cmdRename c b' k k2 b) := by unfold cmdRename; obs_pre; obs
theorem copy_obs : Obs c.now (cmdCopy c a k k2 b) (cmdCopy c b' k k2 b) := by unfold cmdCopy; obs_pre; obs
theorem expireat_obs (opt : ExpireOpt) : Obs c.now (cmdExpireAt c a k i opt) (cmdExpireAt c b' k i opt) := by unfold cmdExpireAt; obs_pre; obs
theorem persist_obs : Obs c.now (cmdPersist c a k) (cmdPersist c b' k) := by unfold cmdPersist; obs_pre; obs
theorem ttl_obs (kind : TtlKind) : Obs c.now (cmdTtl c a k kind) (cmdTtl c b' k kind) := by unfold cmdTtl; obs_pre; obs
theorem getbit_obs : Obs c.now (cmdGetBit c a k i) (cmdGetBit c b' k i) := by unfold cmdGetBit; obs_pre; obs
theorem bitpos_obs (st : Option Int) (en : Option (Int × Bool)) : Obs c.now (cmdBitPos c a k i st en) (cmdBitPos c b' k i st en) := by unfold cmdBitPos; obs_pre; obs
theorem bitop_obs : Obs c.now (cmdBitOp c a k k2 ks) (cmdBitOp c b' k k2 ks) := by unfold cmdBitOp; obs_pre; obs
theorem bitfieldParsed_obs (ps : List BfParsed) : Obs c.now (cmdBitfieldParsed c a k ps) (cmdBitfieldParsed c b' k ps) := by unfold cmdBitfieldParsed; obs_pre; obs

theorem append_obs : Obs c.now (cmdAppend c a k v) (cmdAppend c b' k v) := by unfold cmdAppend; obs_pre; obs
theorem decrby_obs : Obs c.now (cmdDecrBy c a k i) (cmdDecrBy c b' k i) := by
  unfold cmdDecrBy
  split
  · exact ⟨rfl, rfl, rfl, rfl, h⟩
  · exact incrby_obs c a b' k _ h hr
theorem pop_obs : Obs c.now (cmdPop c a k oi b) (cmdPop c b' k oi b) := by
  have go : ∀ n multi, Obs c.now (cmdPop.go c a k b n multi) (cmdPop.go c b' k b n multi) := by
    intro n multi
    unfold cmdPop.go
    obs_pre; obs
  unfold cmdPop
  split
  · split
    · exact ⟨rfl, rfl, rfl, rfl, h⟩
    · exact go _ _
  · exact go _ _
theorem bitfield_obs (ops : List BfOp) : Obs c.now (cmdBitfield c a k ops) (cmdBitfield c b' k ops) := by
  unfold cmdBitfield
  split
  · exact ⟨rfl, rfl, rfl, rfl, h⟩
  · exact bitfieldParsed_obs c a b' k h hr _
theorem setbit_obs : Obs c.now (cmdSetBit c a k i j) (cmdSetBit c b' k i j) := by
  unfold cmdSetBit
  split
  · exact ⟨rfl, rfl, rfl, rfl, h⟩
  · split
    · exact ⟨rfl, rfl, rfl, rfl, h⟩
    · have hb := bitfieldParsed_obs c a b' k h hr [{ kind := .set, signed := false, width := 1, off := i, value := j, ov := .wrap }]
      dsimp only
      rw [hb.reply]
      split
      · exact ⟨rfl, hb.hint, hb.crash, hb.pushed, hb.db⟩
      · exact ⟨hb.reply, hb.hint, hb.crash, hb.pushed, hb.db⟩
theorem bitcount_obs (r : Option (Int × Int × Bool)) : Obs c.now (cmdBitCount c a k r) (cmdBitCount c b' k r) := by
  unfold cmdBitCount
  rw [h.live]
  split
  · exact ⟨rfl, rfl, rfl, rfl, h⟩
  · split_ifs <;> first
      | exact ⟨rfl, rfl, rfl, rfl, h⟩
      | (extract_lets; split_ifs <;> exact ⟨rfl, rfl, rfl, rfl, h⟩)
  · exact ⟨rfl, rfl, rfl, rfl, h⟩
theorem lmpop_obs : Obs c.now (cmdLMPop c a ks b n) (cmdLMPop c b' ks b n) := by
  have go : ∀ ks, Obs c.now (cmdLMPop.go c a b n ks) (cmdLMPop.go c b' b n ks) := by
    intro ks
    induction ks with
    | nil => exact ⟨rfl, rfl, rfl, rfl, h⟩
    | cons x r ih =>
      unfold cmdLMPop.go
      rw [listOf_sim h]
      split
      · exact ⟨rfl, rfl, rfl, rfl, h⟩
      · exact ih
      · split
        · exact ih
        · obs
  unfold cmdLMPop
  exact go ks
theorem bpop_obs : Obs c.now (runCmd.go c b a ks) (runCmd.go c b b' ks) := by
  induction ks with
  | nil => exact ⟨rfl, rfl, rfl, rfl, h⟩
  | cons x r ih =>
    unfold runCmd.go
    rw [listOf_sim h]
    split
    · exact ⟨rfl, rfl, rfl, rfl, h⟩
    · exact ih
    · split
      · exact ih
      · obs
theorem sortFinish_obs (store : Option Bytes) (out : List Value) (hint : Match) :
    Obs c.now (sortFinish a store out hint) (sortFinish b' store out hint) := by
  unfold sortFinish
  obs
theorem sortCompute_sim (xs : List Bytes) (isSet : Bool) (by_ : Option Bytes) (limit : Option (Int × Int))
    (gets : List Bytes) (x y z : Bool) :
    sortCompute c a xs isSet by_ limit gets x y z = sortCompute c b' xs isSet by_ limit gets x y z := by
  unfold sortCompute
  simp only [strValue_sim h]
theorem sort_obs (by_ : Option Bytes) (limit : Option (Int × Int)) (gets : List Bytes) (store : Option Bytes) :
    Obs c.now (cmdSort c a k by_ limit gets b b2 store) (cmdSort c b' k by_ limit gets b b2 store) := by
  unfold cmdSort
  simp only [sortSource_sim h, sortCompute_sim c a b' h hr]
  split
  · exact ⟨rfl, rfl, rfl, rfl, h⟩
  · exact sortFinish_obs c a b' h hr _ _ _
  · split
    · exact ⟨rfl, rfl, rfl, rfl, h⟩
    · exact sortFinish_obs c a b' h hr _ _ _

theorem del_obs : Obs c.now (cmdDel c a ks b) (cmdDel c b' ks b) := by
  unfold cmdDel
  have key : ∀ (ks : List Bytes) (x y : Db × Nat), Sim c.now x.1 y.1 → x.2 = y.2 →
      let step := fun (acc : Db × Nat) (k : Bytes) =>
        match acc with
        | (db, n) =>
          match db.live c.now k with
          | some e =>
            if (b || !c.q.unlinkKeepsObject) = true then (db.del k, n + 1)
            else (db.poke k { val := e.val, exp := some 0, id := e.id }, n + 1)
          | none => if b = true then (db.del k, n) else (db, n)
      Sim c.now (ks.foldl step x).1 (ks.foldl step y).1 ∧ (ks.foldl step x).2 = (ks.foldl step y).2 := by
    intro ks
    induction ks with
    | nil => intro x y h1 h2; exact ⟨h1, h2⟩
    | cons k r ih =>
      intro x y h1 h2
      simp only [List.foldl_cons]
      apply ih
      · obtain ⟨d, n⟩ := x
        obtain ⟨d', n'⟩ := y
        dsimp only at h1 h2 ⊢
        rw [h1.live k]
        split
        · split
          · exact sim_del h1 _
          · exact sim_poke h1 _ _
        · split
          · exact sim_del h1 _
          · exact h1
      · obtain ⟨d, n⟩ := x
        obtain ⟨d', n'⟩ := y
        dsimp only at h1 h2 ⊢
        rw [h1.live k, h2]
        split
        · split <;> rfl
        · split <;> rfl
  obtain ⟨k1, k2⟩ := key ks (a, 0) (b', 0) h rfl
  dsimp only at k1 k2 ⊢
  refine ⟨?_, rfl, rfl, rfl, ?_⟩
  · simp only [R.ok]; exact congrArg vInt k2
  · exact k1

theorem lmove_tail (A B : Db) (se : Entry) (v : Val) (x : Bytes) (h1 : Sim c.now A B) (hraw : A.raw k2 = B.raw k2)
    (hne : (k == k2) = false) :
    Obs c.now
      (match (upd c A k se v).raw k2 with
        | some de =>
          let dl := match de.val with | .list l => l | _ => []
          let dl' := if b2 then x :: dl else dl ++ [x]
          let (db3, de3) := bump c (upd c A k se v) de
          { db := (db3.poke k2 { de3 with val := .list dl' }).setDirty, reply := .bulk x, pushed := [(k2, 1)] }
        | none => R.crashed a "lmove: destination vanished")
      (match (upd c B k se v).raw k2 with
        | some de =>
          let dl := match de.val with | .list l => l | _ => []
          let dl' := if b2 then x :: dl else dl ++ [x]
          let (db3, de3) := bump c (upd c B k se v) de
          { db := (db3.poke k2 { de3 with val := .list dl' }).setDirty, reply := .bulk x, pushed := [(k2, 1)] }
        | none => R.crashed b' "lmove: destination vanished") := by
  have h2 := sim_upd c h1 k se v
  rw [raw_upd_ne7 _ _ _ _ _ _ hne, raw_upd_ne7 _ _ _ _ _ _ hne, hraw]
  split
  · rename_i de hde
    dsimp only
    rw [bump_snd_sim h2]
    exact ⟨rfl, rfl, rfl, rfl, sim_setDirty (sim_poke (sim_bump_fst h2 de) _ _)⟩
  · exact ⟨rfl, rfl, rfl, rfl, h⟩

theorem lmove_obs : Obs c.now (cmdLMove c a k k2 b b2) (cmdLMove c b' k k2 b b2) := by
  unfold cmdLMove
  simp only [listOf_sim h]
  split
  · exact ⟨rfl, rfl, rfl, rfl, h⟩
  · exact ⟨rfl, rfl, rfl, rfl, h⟩
  · split
    · exact ⟨rfl, rfl, rfl, rfl, h⟩
    · rename_i se sl hsrc _ dstInfo hdst
      split
      · exact ⟨rfl, rfl, rfl, rfl, h⟩
      · rename_i x hx
        split
        · obs
        · rename_i hne
          have hne' : (k == k2) = false := by simpa using hne
          cases dstInfo with
          | none =>
            dsimp only
            exact lmove_tail c a b' k k2 b2 h hr _ _ se _ x (sim_put h _ _ _)
              (by rw [raw_put_self, raw_put_self, h.next]) hne'
          | some p =>
            obtain ⟨de0, dl0⟩ := p
            have hb := listOf_live hdst
            have ha := hb
            rw [← h.live] at ha
            dsimp only
            exact lmove_tail c a b' k k2 b2 h hr _ _ se _ x h
              (by rw [(live_some_raw ha).1, (live_some_raw hb).1]) hne'
end


/-! ### expired = missing -/

/-- the database with every expired object removed (what an eager expiry would leave) -/
def Db.purge (now : Int) (db : Db) : Db := { db with keys := db.keys.filter fun p => !p.2.expired now }

theorem alookup_filter_none (k : Bytes) (l : List (Bytes × Entry)) (p : Bytes × Entry → Bool)
    (h : alookup k l = none) : alookup k (l.filter p) = none := by
  induction l with
  | nil => rfl
  | cons q r ih =>
    obtain ⟨k', e'⟩ := q
    by_cases hk : (k' == k) = true
    · simp [alookup, hk] at h
    · simp only [alookup, hk, Bool.false_eq_true, ↓reduceIte] at h
      simp only [List.filter_cons]
      split
      · simp only [alookup, hk, Bool.false_eq_true, ↓reduceIte]; exact ih h
      · exact ih h

theorem alookup_none_of_not_mem (k : Bytes) (l : List (Bytes × Entry)) (h : k ∉ l.map (·.1)) : alookup k l = none := by
  induction l with
  | nil => rfl
  | cons q r ih =>
    obtain ⟨k', e'⟩ := q
    simp only [List.map_cons, List.mem_cons, not_or] at h
    have hk : (k' == k) = false := by
      cases hkk : k' == k with
      | false => rfl
      | true => exact absurd (by simpa using hkk : k' = k).symm h.1
    simp only [alookup, hk, Bool.false_eq_true, ↓reduceIte]
    exact ih h.2

def liveOf (now : Int) : Option Entry → Option Entry
  | some e => if e.expired now then none else some e
  | none => none

theorem live_filter (now : Int) (k : Bytes) (l : List (Bytes × Entry)) (hu : (l.map (·.1)).Nodup) :
    liveOf now (alookup k (l.filter fun p => !p.2.expired now)) = liveOf now (alookup k l) := by
  induction l with
  | nil => rfl
  | cons q r ih =>
    obtain ⟨k', e'⟩ := q
    simp only [List.map_cons, List.nodup_cons] at hu
    by_cases hk : (k' == k) = true
    · have e : k' = k := by simpa using hk
      subst e
      simp only [List.filter_cons]
      cases hx : e'.expired now with
      | true =>
        simp only [Bool.not_true, Bool.false_eq_true, ↓reduceIte, alookup, beq_self_eq_true]
        rw [alookup_filter_none k' r _ (alookup_none_of_not_mem k' r hu.1)]
        simp [liveOf, hx]
      | false =>
        simp only [Bool.not_false, ↓reduceIte, alookup, beq_self_eq_true]
    · simp only [List.filter_cons]
      split
      · simp only [alookup, hk, Bool.false_eq_true, ↓reduceIte]; exact ih hu.2
      · simp only [alookup, hk, Bool.false_eq_true, ↓reduceIte]; exact ih hu.2

theorem live_eq_liveOf (now : Int) (db : Db) (k : Bytes) : db.live now k = liveOf now (db.raw k) := by
  unfold Db.live liveOf; rfl

theorem live_purge_eq (now : Int) (db : Db) (hu : db.Uniq) (k : Bytes) : (db.purge now).live now k = db.live now k := by
  rw [live_eq_liveOf, live_eq_liveOf]
  exact live_filter now k db.keys hu

theorem uniq_purge (now : Int) (db : Db) (hu : db.Uniq) : (db.purge now).Uniq := by
  unfold Db.Uniq Db.purge at *
  exact List.Nodup.sublist (List.Sublist.map _ List.filter_sublist) hu

/-- a database and its purged copy cannot be told apart -/
theorem sim_purge (now : Int) (db : Db) (hu : db.Uniq) : Sim now (db.purge now) db :=
  ⟨uniq_purge now db hu, hu, rfl, live_purge_eq now db hu⟩

/-- after the purge nothing expired is stored: every stored key is a live key -/
theorem purge_all_live (now : Int) (db : Db) (p : Bytes × Entry) (hp : p ∈ (db.purge now).keys) : p.2.expired now = false := by
  unfold Db.purge at hp
  simp only [List.mem_filter, Bool.not_eq_eq_eq_not, Bool.not_true] at hp
  exact hp.2


theorem mem_liveKeys (db : Db) (now : Int) (hu : db.Uniq) (k : Bytes) :
    k ∈ db.liveKeys now ↔ (db.live now k).isSome = true := by
  unfold Db.liveKeys
  constructor
  · intro hm
    obtain ⟨p, hp, hk⟩ := List.mem_map.mp hm
    obtain ⟨hp1, hp2⟩ := List.mem_filter.mp hp
    have hraw : db.raw k = some p.2 := by
      have := alookup_of_mem_nodup db.keys p hp1 hu
      rw [hk] at this; exact this
    unfold Db.live
    rw [hraw]
    have hx : p.2.expired now = false := by simpa using hp2
    simp [hx]
  · intro hl
    cases hlv : db.live now k with
    | none => rw [hlv] at hl; cases hl
    | some e =>
      obtain ⟨h1, h2⟩ := live_some_raw hlv
      have hm := mem_of_alookup k db.keys e h1
      exact List.mem_map.mpr ⟨(k, e), List.mem_filter.mpr ⟨hm, by simp [h2]⟩, rfl⟩

theorem nodup_liveKeys (db : Db) (now : Int) (hu : db.Uniq) : (db.liveKeys now).Nodup := by
  unfold Db.liveKeys Db.Uniq at *
  exact List.Nodup.sublist (List.Sublist.map _ List.filter_sublist) hu

/-- DBSIZE counts the live keys: the same number on both sides -/
theorem liveKeys_length_sim {now : Int} {a b : Db} (h : Sim now a b) :
    (a.liveKeys now).length = (b.liveKeys now).length := by
  apply List.Perm.length_eq
  rw [List.perm_ext_iff_of_nodup (nodup_liveKeys a now h.ua) (nodup_liveKeys b now h.ub)]
  intro k
  rw [mem_liveKeys a now h.ua, mem_liveKeys b now h.ub, h.live]

/-! ### the whole server -/

/-- two servers that differ at most in what expired objects their databases still store -/
structure SimS (now : Int) (s s' : State) : Prop where
  sessions : s.sessions = s'.sessions
  table : s.table = s'.table
  nextRef : s.nextRef = s'.nextRef
  refs : s.heap.map (·.1) = s'.heap.map (·.1)
  dbs : ∀ r, Sim now (s.getDb r) (s'.getDb r)

/-- two outcomes of a command no client can tell apart -/
structure ObsOut (now : Int) (o o' : Out) : Prop where
  reply : o.reply = o'.reply
  hint : o.hint = o'.hint
  crash : o.crash = o'.crash
  pushed : o.pushed = o'.pushed
  judged : o.judged = o'.judged
  st : SimS now o.st o'.st

theorem obsOut_same {now : Int} {s s' : State} (hs : SimS now s s') (v : Value) (hint : Match) :
    ObsOut now { st := s, reply := v, hint := hint } { st := s', reply := v, hint := hint } :=
  ⟨rfl, rfl, rfl, rfl, rfl, hs⟩

theorem any_of_refs {s s' : State} (h : s.heap.map (·.1) = s'.heap.map (·.1)) (ref : Nat) :
    s.heap.any (·.1 == ref) = s'.heap.any (·.1 == ref) := by
  have e1 : s.heap.any (·.1 == ref) = (s.heap.map (·.1)).any (· == ref) := by rw [List.any_map]; rfl
  have e2 : s'.heap.any (·.1 == ref) = (s'.heap.map (·.1)).any (· == ref) := by rw [List.any_map]; rfl
  rw [e1, e2, h]

theorem refs_setDb {s s' : State} (h : s.heap.map (·.1) = s'.heap.map (·.1)) (ref : Nat) (d d' : Db) :
    (s.setDb ref d).heap.map (·.1) = (s'.setDb ref d').heap.map (·.1) := by
  unfold State.setDb
  simp only
  rw [any_of_refs h ref]
  split
  · have m1 : ∀ (l : List (Nat × Db)) (x : Db), (l.map fun (p : Nat × Db) => if p.1 == ref then (p.1, x) else (p.1, p.2)).map (·.1) = l.map (·.1) := by
      intro l x
      induction l with
      | nil => rfl
      | cons p t ih => simp only [List.map_cons, ih]; split <;> rfl
    rw [m1, m1, h]
  · simp only [List.map_append, h, List.map_cons, List.map_nil]

theorem simS_setDb {now : Int} {s s' : State} (hs : SimS now s s') (ref : Nat) (d d' : Db) (hd : Sim now d d') :
    SimS now (s.setDb ref d) (s'.setDb ref d') := by
  refine ⟨?_, ?_, ?_, refs_setDb hs.refs ref d d', ?_⟩
  · simp [hs.sessions]
  · simp [hs.table]
  · simp [State.setDb, hs.nextRef]
  · intro r
    by_cases e : (ref == r) = true
    · have : ref = r := by simpa using e
      subst this
      rw [getDb_setDb_self, getDb_setDb_self]; exact hd
    · rw [getDb_setDb_ne _ _ _ _ (by simpa using e), getDb_setDb_ne _ _ _ _ (by simpa using e)]
      exact hs.dbs r

theorem simS_setSession {now : Int} {s s' : State} (hs : SimS now s s') (conn : Nat) (x : Session) :
    SimS now (s.setSession conn x) (s'.setSession conn x) := by
  refine ⟨?_, ?_, ?_, ?_, ?_⟩
  · unfold State.setSession; simp only [hs.sessions]
  · simp [hs.table]
  · simp [State.setSession, hs.nextRef]
  · simp [hs.refs]
  · intro r; rw [getDb_setSession, getDb_setSession]; exact hs.dbs r

theorem session_simS {now : Int} {s s' : State} (hs : SimS now s s') (conn : Nat) : s.session conn = s'.session conn := by
  unfold State.session; rw [hs.sessions]

theorem uniq_empty : ({} : Db).Uniq := by simp [Db.Uniq]

theorem simS_tableRef {now : Int} {s s' : State} (hs : SimS now s s') (i : Nat) :
    SimS now (s.tableRef i).1 (s'.tableRef i).1 ∧ (s.tableRef i).2 = (s'.tableRef i).2 := by
  unfold State.tableRef
  rw [hs.table]
  split
  · exact ⟨hs, rfl⟩
  · refine ⟨⟨hs.sessions, by simp [hs.table, hs.nextRef], by simp [hs.nextRef], by simp [hs.refs, hs.nextRef], ?_⟩, hs.nextRef⟩
    intro r
    have e1 := getDb_tableRef s i r
    have e2 := getDb_tableRef s' i r
    unfold State.tableRef at e1 e2
    rw [hs.table] at e1
    simp only [*] at e1 e2
    rw [e1, e2]
    exact hs.dbs r

theorem onDb_obs {now : Int} {s s' : State} (hs : SimS now s s') (ref : Nat) (f : Db → R)
    (hf : ∀ a b, Sim now a b → Obs now (f a) (f b)) : ObsOut now (onDb s ref f) (onDb s' ref f) := by
  have h := hf _ _ (hs.dbs ref)
  unfold onDb
  exact ⟨h.reply, h.hint, h.crash, by simp only [h.pushed], rfl, simS_setDb hs ref _ _ h.db⟩

/-- **No command can tell an expired key from a missing one.** Two servers whose databases hold the same
    live objects — whatever expired objects either still stores — give, for every command, any arguments,
    any connection: the same reply, the same wake-ups, and states that are again indistinguishable. -/
theorem runCmd_obs (c : Ctx) (s s' : State) (conn ref : Nat) (m : Bool) (cmd : Cmd)
    (hr : c.q.rawLookupSeesExpired = false) (hf : c.q.flushDetaches = false)
    (hs : SimS c.now s s') : ObsOut c.now (runCmd c s conn ref m cmd) (runCmd c s' conn ref m cmd) := by
  cases cmd
  case copy a b rep dbOpt =>
    simp only [runCmd]
    split
    · exact obsOut_same hs _ _
    · exact onDb_obs hs _ _ (fun a b h => copy_obs (h := h) (hr := hr) ..)
  case lmpop nk ks l cnt =>
    simp only [runCmd]
    split
    · exact obsOut_same hs _ _
    · split
      · exact obsOut_same hs _ _
      · exact onDb_obs hs _ _ (fun a b h => lmpop_obs (h := h) (hr := hr) ..)
  case set a0 a1 a2 a3 => simp only [runCmd]; exact onDb_obs hs _ _ (fun a b h => set_obs (h := h) (hr := hr) ..)
  case append a0 a1 => simp only [runCmd]; exact onDb_obs hs _ _ (fun a b h => append_obs (h := h) (hr := hr) ..)
  case get a0 => simp only [runCmd]; exact onDb_obs hs _ _ (fun a b h => get_obs (h := h) (hr := hr) ..)
  case getdel a0 => simp only [runCmd]; exact onDb_obs hs _ _ (fun a b h => getdel_obs (h := h) (hr := hr) ..)
  case getex a0 a1 => simp only [runCmd]; exact onDb_obs hs _ _ (fun a b h => getex_obs (h := h) (hr := hr) ..)
  case strlen a0 => simp only [runCmd]; exact onDb_obs hs _ _ (fun a b h => strlen_obs (h := h) (hr := hr) ..)
  case getrange a0 a1 a2 => simp only [runCmd]; exact onDb_obs hs _ _ (fun a b h => getrange_obs (h := h) (hr := hr) ..)
  case setrange a0 a1 a2 => simp only [runCmd]; exact onDb_obs hs _ _ (fun a b h => setrange_obs (h := h) (hr := hr) ..)
  case incrby a0 a1 => simp only [runCmd]; exact onDb_obs hs _ _ (fun a b h => incrby_obs (h := h) (hr := hr) ..)
  case decrby a0 a1 => simp only [runCmd]; exact onDb_obs hs _ _ (fun a b h => decrby_obs (h := h) (hr := hr) ..)
  case incrbyfloat a0 a1 => simp only [runCmd]; exact onDb_obs hs _ _ (fun a b h => incrbyfloat_obs (h := h) (hr := hr) ..)
  case mget a0 => simp only [runCmd]; exact onDb_obs hs _ _ (fun a b h => mget_obs (h := h) (hr := hr) ..)
  case mset a0 a1 => simp only [runCmd]; exact onDb_obs hs _ _ (fun a b h => mset_obs (h := h) (hr := hr) ..)
  case push a0 a1 a2 a3 => simp only [runCmd]; exact onDb_obs hs _ _ (fun a b h => push_obs (h := h) (hr := hr) ..)
  case pop a0 a1 a2 => simp only [runCmd]; exact onDb_obs hs _ _ (fun a b h => pop_obs (h := h) (hr := hr) ..)
  case llen a0 => simp only [runCmd]; exact onDb_obs hs _ _ (fun a b h => llen_obs (h := h) (hr := hr) ..)
  case lindex a0 a1 => simp only [runCmd]; exact onDb_obs hs _ _ (fun a b h => lindex_obs (h := h) (hr := hr) ..)
  case lrange a0 a1 a2 => simp only [runCmd]; exact onDb_obs hs _ _ (fun a b h => lrange_obs (h := h) (hr := hr) ..)
  case lset a0 a1 a2 => simp only [runCmd]; exact onDb_obs hs _ _ (fun a b h => lset_obs (h := h) (hr := hr) ..)
  case linsert a0 a1 a2 a3 => simp only [runCmd]; exact onDb_obs hs _ _ (fun a b h => linsert_obs (h := h) (hr := hr) ..)
  case lrem a0 a1 a2 => simp only [runCmd]; exact onDb_obs hs _ _ (fun a b h => lrem_obs (h := h) (hr := hr) ..)
  case ltrim a0 a1 a2 => simp only [runCmd]; exact onDb_obs hs _ _ (fun a b h => ltrim_obs (h := h) (hr := hr) ..)
  case lpos a0 a1 a2 a3 a4 => simp only [runCmd]; exact onDb_obs hs _ _ (fun a b h => lpos_obs (h := h) (hr := hr) ..)
  case lmove a0 a1 a2 a3 => simp only [runCmd]; exact onDb_obs hs _ _ (fun a b h => lmove_obs (h := h) (hr := hr) ..)
  case hset a0 a1 a2 a3 => simp only [runCmd]; exact onDb_obs hs _ _ (fun a b h => hset_obs (h := h) (hr := hr) ..)
  case hget a0 a1 => simp only [runCmd]; exact onDb_obs hs _ _ (fun a b h => hget_obs (h := h) (hr := hr) ..)
  case hmget a0 a1 => simp only [runCmd]; exact onDb_obs hs _ _ (fun a b h => hmget_obs (h := h) (hr := hr) ..)
  case hgetall a0 => simp only [runCmd]; exact onDb_obs hs _ _ (fun a b h => hgetall_obs (h := h) (hr := hr) ..)
  case hkeys a0 a1 => simp only [runCmd]; exact onDb_obs hs _ _ (fun a b h => hkeys_obs (h := h) (hr := hr) ..)
  case hlen a0 => simp only [runCmd]; exact onDb_obs hs _ _ (fun a b h => hlen_obs (h := h) (hr := hr) ..)
  case hexists a0 a1 => simp only [runCmd]; exact onDb_obs hs _ _ (fun a b h => hexists_obs (h := h) (hr := hr) ..)
  case hstrlen a0 a1 => simp only [runCmd]; exact onDb_obs hs _ _ (fun a b h => hstrlen_obs (h := h) (hr := hr) ..)
  case hdel a0 a1 => simp only [runCmd]; exact onDb_obs hs _ _ (fun a b h => hdel_obs (h := h) (hr := hr) ..)
  case hincrby a0 a1 a2 => simp only [runCmd]; exact onDb_obs hs _ _ (fun a b h => hincrby_obs (h := h) (hr := hr) ..)
  case hincrbyfloat a0 a1 a2 => simp only [runCmd]; exact onDb_obs hs _ _ (fun a b h => hincrbyfloat_obs (h := h) (hr := hr) ..)
  case sadd a0 a1 => simp only [runCmd]; exact onDb_obs hs _ _ (fun a b h => sadd_obs (h := h) (hr := hr) ..)
  case srem a0 a1 => simp only [runCmd]; exact onDb_obs hs _ _ (fun a b h => srem_obs (h := h) (hr := hr) ..)
  case scard a0 => simp only [runCmd]; exact onDb_obs hs _ _ (fun a b h => scard_obs (h := h) (hr := hr) ..)
  case sismember a0 a1 => simp only [runCmd]; exact onDb_obs hs _ _ (fun a b h => sismember_obs (h := h) (hr := hr) ..)
  case smismember a0 a1 => simp only [runCmd]; exact onDb_obs hs _ _ (fun a b h => smismember_obs (h := h) (hr := hr) ..)
  case smembers a0 => simp only [runCmd]; exact onDb_obs hs _ _ (fun a b h => smembers_obs (h := h) (hr := hr) ..)
  case smove a0 a1 a2 => simp only [runCmd]; exact onDb_obs hs _ _ (fun a b h => smove_obs (h := h) (hr := hr) ..)
  case salg a0 a1 => simp only [runCmd]; exact onDb_obs hs _ _ (fun a b h => setalgebra_obs (h := h) (hr := hr) ..)
  case salgStore a0 a1 a2 => simp only [runCmd]; exact onDb_obs hs _ _ (fun a b h => setalgebrastore_obs (h := h) (hr := hr) ..)
  case sintercard a0 a1 a2 => simp only [runCmd]; exact onDb_obs hs _ _ (fun a b h => sintercard_obs (h := h) (hr := hr) ..)
  case del a0 a1 => simp only [runCmd]; exact onDb_obs hs _ _ (fun a b h => del_obs (h := h) (hr := hr) ..)
  case exists_ a0 => simp only [runCmd]; exact onDb_obs hs _ _ (fun a b h => exists_obs (h := h) (hr := hr) ..)
  case touch a0 => simp only [runCmd]; exact onDb_obs hs _ _ (fun a b h => exists_obs (h := h) (hr := hr) ..)
  case type_ a0 => simp only [runCmd]; exact onDb_obs hs _ _ (fun a b h => type_obs (h := h) (hr := hr) ..)
  case rename a0 a1 a2 => simp only [runCmd]; exact onDb_obs hs _ _ (fun a b h => rename_obs (h := h) (hr := hr) ..)
  case sort a0 a1 a2 a3 a4 a5 a6 => simp only [runCmd]; exact onDb_obs hs _ _ (fun a b h => sort_obs (h := h) (hr := hr) ..)
  case persist a0 => simp only [runCmd]; exact onDb_obs hs _ _ (fun a b h => persist_obs (h := h) (hr := hr) ..)
  case ttl a0 a1 => simp only [runCmd]; exact onDb_obs hs _ _ (fun a b h => ttl_obs (h := h) (hr := hr) ..)
  case getbit a0 a1 => simp only [runCmd]; exact onDb_obs hs _ _ (fun a b h => getbit_obs (h := h) (hr := hr) ..)
  case setbit a0 a1 a2 => simp only [runCmd]; exact onDb_obs hs _ _ (fun a b h => setbit_obs (h := h) (hr := hr) ..)
  case bitcount a0 a1 => simp only [runCmd]; exact onDb_obs hs _ _ (fun a b h => bitcount_obs (h := h) (hr := hr) ..)
  case bitpos a0 a1 a2 a3 => simp only [runCmd]; exact onDb_obs hs _ _ (fun a b h => bitpos_obs (h := h) (hr := hr) ..)
  case bitop a0 a1 a2 => simp only [runCmd]; exact onDb_obs hs _ _ (fun a b h => bitop_obs (h := h) (hr := hr) ..)
  case bitfield a0 a1 a2 => simp only [runCmd]; exact onDb_obs hs _ _ (fun a b h => bitfield_obs (h := h) (hr := hr) ..)
  case expire k n u a o => simp only [runCmd]; exact onDb_obs hs _ _ (fun a b h => expireat_obs (h := h) (hr := hr) ..)
  case bpop ks l => simp only [runCmd]; exact onDb_obs hs _ _ (fun a b h => bpop_obs (h := h) (hr := hr) ..)
  case select i =>
    simp only [runCmd]
    split
    · exact obsOut_same hs _ _
    · obtain ⟨h1, h2⟩ := simS_tableRef hs i.toNat
      rw [h2, session_simS h1 conn]
      exact ⟨rfl, rfl, rfl, rfl, rfl, simS_setSession h1 _ _⟩
  case flushdb =>
    simp only [runCmd, hf, Bool.false_eq_true, ↓reduceIte]
    rw [session_simS hs conn]
    obtain ⟨h1, h2⟩ := simS_tableRef hs (s'.session conn).dbIdx
    rw [h2]
    refine ⟨rfl, rfl, rfl, rfl, rfl, simS_setDb h1 _ _ _ ?_⟩
    rw [(h1.dbs _).next]
    exact sim_refl _ _ (by simp [Db.Uniq])
  case flushall =>
    simp only [runCmd, hf, Bool.false_eq_true, ↓reduceIte]
    refine ⟨rfl, rfl, rfl, rfl, rfl, ⟨hs.sessions, hs.table, hs.nextRef, ?_, ?_⟩⟩
    · simp only [List.map_map]
      exact hs.refs
    · intro r
      have e1 := getDb_flushall s r
      have e2 := getDb_flushall s' r
      simp only [flushed] at e1 e2
      rw [e1, e2, (hs.dbs r).next]
      exact sim_refl _ _ (by simp [Db.Uniq])
  case watch ks =>
    simp only [runCmd]
    split
    · exact obsOut_same hs _ _
    · rw [session_simS hs conn]
      simp only [(hs.dbs ref).live]
      exact ⟨rfl, rfl, rfl, rfl, rfl, simS_setSession hs _ _⟩
  case unwatch =>
    simp only [runCmd]
    rw [session_simS hs conn]
    exact ⟨rfl, rfl, rfl, rfl, rfl, simS_setSession hs _ _⟩
  case hello v =>
    simp only [runCmd]
    rw [session_simS hs conn]
    split
    · split
      · exact obsOut_same hs _ _
      · exact ⟨rfl, rfl, rfl, rfl, rfl, simS_setSession hs _ _⟩
    · exact obsOut_same hs _ _
  case clientSetname nm =>
    simp only [runCmd]
    rw [session_simS hs conn]
    split
    · exact obsOut_same hs _ _
    · exact ⟨rfl, rfl, rfl, rfl, rfl, simS_setSession hs _ _⟩
  case ping o => cases o <;> exact obsOut_same hs _ _
  case multi => exact obsOut_same hs _ _
  case exec => exact obsOut_same hs _ _
  case discard => exact obsOut_same hs _ _
  case echo => exact obsOut_same hs _ _
  case quit => exact obsOut_same hs _ _
  case clientId => simp only [runCmd]; rw [session_simS hs conn]; exact obsOut_same hs _ _
  case clientGetname => simp only [runCmd]; rw [session_simS hs conn]; exact obsOut_same hs _ _
  case clientInfo => exact obsOut_same hs _ _
  case clientList => exact obsOut_same hs _ _
  case «opaque» => exact ⟨rfl, rfl, rfl, rfl, rfl, hs⟩
  case dbsize =>
    simp only [runCmd, hr, Bool.false_eq_true, ↓reduceIte]
    rw [liveKeys_length_sim (hs.dbs _)]
    exact obsOut_same hs _ _
  all_goals
    simp only [runCmd]
    refine onDb_obs hs _ _ (fun a b h => ?_)
    try obs_pre
    obs


/-! ### any history -/

theorem expired_mono (e : Entry) (now now' : Int) (h : now ≤ now') (hx : e.expired now = true) : e.expired now' = true := by
  unfold Entry.expired at *
  cases hd : e.exp with
  | none => rw [hd] at hx; cases hx
  | some d =>
    rw [hd] at hx
    simp only [decide_eq_true_eq] at hx ⊢
    omega

/-- what cannot be told apart now cannot be told apart later: objects expire on both sides alike -/
theorem sim_later {now now' : Int} {a b : Db} (hle : now ≤ now') (h : Sim now a b) : Sim now' a b := by
  refine ⟨h.ua, h.ub, h.next, ?_⟩
  intro k
  have hk := h.live k
  unfold Db.live at hk ⊢
  cases ha : a.raw k with
  | none =>
    cases hb : b.raw k with
    | none => rfl
    | some eb =>
      rw [ha, hb] at hk
      simp only at hk ⊢
      cases hx : eb.expired now with
      | true => rw [expired_mono eb now now' hle hx]; rfl
      | false => rw [hx] at hk; cases hk
  | some ea =>
    cases hb : b.raw k with
    | none =>
      rw [ha, hb] at hk
      simp only at hk ⊢
      cases hx : ea.expired now with
      | true => rw [expired_mono ea now now' hle hx]; rfl
      | false => rw [hx] at hk; cases hk
    | some eb =>
      rw [ha, hb] at hk
      simp only at hk ⊢
      cases hxa : ea.expired now with
      | true =>
        cases hxb : eb.expired now with
        | true => rw [expired_mono ea now now' hle hxa, expired_mono eb now now' hle hxb]; rfl
        | false => rw [hxa, hxb] at hk; cases hk
      | false =>
        cases hxb : eb.expired now with
        | true => rw [hxa, hxb] at hk; cases hk
        | false =>
          rw [hxa, hxb] at hk
          simp only [Bool.false_eq_true, ↓reduceIte, Option.some.injEq] at hk
          rw [hk]

theorem simS_later {now now' : Int} {s s' : State} (hle : now ≤ now') (h : SimS now s s') : SimS now' s s' :=
  ⟨h.sessions, h.table, h.nextRef, h.refs, fun r => sim_later hle (h.dbs r)⟩

/-- the replies a history of commands receives -/
def replies : State → List Ev → List Value
  | _, [] => []
  | s, e :: r => (runCmd e.c s e.conn e.ref e.inMulti e.cmd).reply :: replies (runCmd e.c s e.conn e.ref e.inMulti e.cmd).st r

/-- the clocks the commands saw do not run backwards -/
def clocksFrom : Int → List Ev → Prop
  | _, [] => True
  | now, e :: r => now ≤ e.c.now ∧ clocksFrom e.c.now r

theorem history_obs (evs : List Ev) : ∀ (now : Int) (s s' : State), SimS now s s' → clocksFrom now evs →
    (∀ e ∈ evs, e.c.q.rawLookupSeesExpired = false ∧ e.c.q.flushDetaches = false) →
    replies s evs = replies s' evs := by
  induction evs with
  | nil => intro _ _ _ _ _ _; rfl
  | cons e r ih =>
    intro now s s' hs hc hq
    have hs' := simS_later hc.1 hs
    have ho := runCmd_obs e.c s s' e.conn e.ref e.inMulti e.cmd (hq e List.mem_cons_self).1 (hq e List.mem_cons_self).2 hs'
    unfold replies
    rw [ho.reply]
    congr 1
    exact ih e.c.now _ _ ho.st hc.2 (fun e' he' => hq e' (List.mem_cons_of_mem _ he'))

/-- the server with every expired object removed from every database -/
def purgeS (now : Int) (s : State) : State :=
  { s with heap := s.heap.map fun (p : Nat × Db) => (p.1, p.2.purge now) }

theorem getDb_purgeS (now : Int) (s : State) (r : Nat) : (purgeS now s).getDb r = (s.getDb r).purge now := by
  simp only [State.getDb, purgeS]
  induction s.heap with
  | nil => rfl
  | cons p t ih =>
    simp only [List.map_cons, List.find?_cons]
    split
    · rfl
    · exact ih

theorem simS_purgeS (now : Int) (s : State) (hu : s.Uniq) : SimS now (purgeS now s) s := by
  refine ⟨rfl, rfl, rfl, ?_, ?_⟩
  · simp only [purgeS, List.map_map]; rfl
  · intro r
    rw [getDb_purgeS]
    exact sim_purge now _ (hu r)

/-- **From the deadline on, an expired key is a missing key — for every command, in every history.**
    Remove every expired object from every database of a server (any reachable one: unique keys is all
    that is asked), then let any history of commands of any connections run on both servers, the clocks
    not running backwards: every reply is the same. No command returns, counts, matches, moves, copies,
    watches or is refused because of expired data. -/
theorem expired_is_missing (now : Int) (s : State) (hu : s.Uniq) (evs : List Ev) (hc : clocksFrom now evs)
    (hq : ∀ e ∈ evs, e.c.q.rawLookupSeesExpired = false ∧ e.c.q.flushDetaches = false) :
    replies (purgeS now s) evs = replies s evs :=
  history_obs evs now _ _ (simS_purgeS now s hu) hc hq

/-- and the purged server really holds nothing expired -/
theorem purgeS_holds_nothing_expired (now : Int) (s : State) (r : Nat) (p : Bytes × Entry)
    (hp : p ∈ ((purgeS now s).getDb r).keys) : p.2.expired now = false := by
  rw [getDb_purgeS] at hp
  exact purge_all_live now _ p hp

end RedisEmu
