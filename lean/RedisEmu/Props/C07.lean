import RedisEmu.Exec
import RedisEmu.Proofs.AList
import Mathlib.Tactic.SplitIfs
/-
  C07 — expiry. Theorems about `RedisEmu.Store` / `RedisEmu.Cmds` (family `expiry`).
  Time is the explicit argument `c.now` (nanoseconds); nothing in the model reads a clock.
-/
namespace RedisEmu

/-! ### a key whose deadline has passed is a missing key for the lookup every command uses -/

theorem live_after_deadline (db : Db) (now d : Int) (k : Bytes) (e : Entry)
    (h : db.raw k = some e) (he : e.exp = some d) (hpast : now > d) : db.live now k = none := by
  unfold Db.live Entry.expired
  simp [h, he, hpast]

theorem live_before_deadline (db : Db) (now d : Int) (k : Bytes) (e : Entry)
    (h : db.raw k = some e) (he : e.exp = some d) (hnot : now ≤ d) : db.live now k = some e := by
  unfold Db.live Entry.expired
  have : ¬ (now > d) := by omega
  simp [h, he, this]

theorem live_no_deadline (db : Db) (now : Int) (k : Bytes) (e : Entry)
    (h : db.raw k = some e) (he : e.exp = none) : db.live now k = some e := by
  unfold Db.live Entry.expired
  simp [h, he]

/-- removing the expired object changes nothing any `live` lookup can see -/
theorem live_purge (db : Db) (now : Int) (k k' : Bytes) (e : Entry)
    (h : db.raw k = some e) (hexp : e.expired now = true) (hu : (db.keys.map (·.1)).Nodup) :
    ({ db with keys := aerase k db.keys } : Db).live now k' = db.live now k' := by
  unfold Db.live Db.raw at *
  by_cases hk : (k == k') = true
  · have e' : k = k' := by simpa using hk
    subst e'
    simp [alookup_aerase_self_of_unique k db.keys hu, h, hexp]
  · have hk' : (k == k') = false := by simpa using hk
    simp [alookup_aerase_ne k k' db.keys hk']

/-- reads on an expired key answer exactly as on a missing key -/
theorem get_expired (c : Ctx) (db : Db) (k : Bytes) (h : db.live c.now k = none) :
    (cmdGet c db k).reply = .nil ∧ (cmdExists c db [k]).reply = .int 0 ∧
    (cmdType c db k).reply = .simple (sb "none") ∧ (cmdStrlen c db k).reply = .int 0 ∧
    (cmdTtl c db k .ttl).reply = .int (-2) ∧ (cmdLLen c db k).reply = .int 0 ∧
    (cmdHLen c db k).reply = .int 0 ∧ (cmdSCard c db k).reply = .int 0 := by
  unfold cmdGet cmdExists cmdType cmdStrlen cmdTtl cmdLLen cmdHLen cmdSCard listOf hashOf setOf
  simp [h, R.ok, vInt]

/-- writes on an expired key start from nothing: INCR answers the increment, APPEND the length
    of the argument, RPUSH the number of pushed elements -/
theorem writes_on_expired (c : Ctx) (db : Db) (k v : Bytes) (d : Int) (h : db.live c.now k = none) :
    (cmdIncrBy c db k d).reply = .int d ∧ (cmdAppend c db k v).reply = vInt v.length ∧
    (cmdPush c db k [v] false false).reply = .int 1 := by
  unfold cmdIncrBy cmdAppend setKey cmdPush listOf
  simp [h, R.ok, vInt]

/-! ### TTL reporting -/

theorem ttl_missing (c : Ctx) (db : Db) (k : Bytes) (kind : TtlKind) (h : db.live c.now k = none) :
    (cmdTtl c db k kind).reply = .int (-2) := by
  unfold cmdTtl; simp [h, R.ok]

theorem ttl_persistent (c : Ctx) (db : Db) (k : Bytes) (kind : TtlKind) (e : Entry)
    (h : db.live c.now k = some e) (he : e.exp = none) : (cmdTtl c db k kind).reply = .int (-1) := by
  unfold cmdTtl; simp [h, he, R.ok]

/-- PEXPIRETIME reports the deadline that was set, in milliseconds -/
theorem pexpiretime_reports (c : Ctx) (db : Db) (k : Bytes) (e : Entry) (d : Int)
    (h : db.live c.now k = some e) (he : e.exp = some d) :
    (cmdTtl c db k .pexpiretime).reply = .int (d / msNs) := by
  unfold cmdTtl; simp [h, he]

/-! ### EXPIRE option table (NX / XX / GT / LT) -/

/-- without an option the deadline becomes exactly the requested one -/
theorem expire_sets (c : Ctx) (db : Db) (k : Bytes) (e : Entry) (dl : Int)
    (h : db.live c.now k = some e) :
    (cmdExpireAt c db k dl .none).reply = .int 1 ∧
    ((cmdExpireAt c db k dl .none).db.raw k).map (·.exp) = some (some dl) := by
  unfold cmdExpireAt
  simp only [h]
  constructor
  · simp [R.ok]
  · simp only [R.ok, Bool.false_eq_true, ↓reduceIte]
    unfold bump dirtyUnlessQuirk
    split_ifs <;> simp [Db.poke, Db.raw, Db.setDirty]

/-- NX refuses exactly when the key already has a deadline; XX exactly when it has none;
    GT on a key without deadline never sets; LT on a key without deadline always sets;
    GT / LT on a key with a deadline set exactly when the new one is later / earlier -/
theorem expire_option_table (c : Ctx) (db : Db) (k : Bytes) (e : Entry) (dl : Int)
    (h : db.live c.now k = some e) :
    ((cmdExpireAt c db k dl .nx).reply.int? = some 0 ↔ e.exp.isSome = true) ∧
    ((cmdExpireAt c db k dl .xx).reply.int? = some 0 ↔ e.exp.isNone = true) ∧
    (e.exp = none → (cmdExpireAt c db k dl .gt).reply.int? = some 0) ∧
    (e.exp = none → (cmdExpireAt c db k dl .lt).reply.int? = some 1) ∧
    (∀ old, e.exp = some old → ((cmdExpireAt c db k dl .gt).reply.int? = some 1 ↔ dl > old)) ∧
    (∀ old, e.exp = some old → ((cmdExpireAt c db k dl .lt).reply.int? = some 1 ↔ dl < old)) := by
  unfold cmdExpireAt
  simp only [h]
  refine ⟨?_, ?_, ?_, ?_, ?_, ?_⟩
  · cases he : e.exp <;> simp [R.ok, Value.int?]
  · cases he : e.exp <;> simp [R.ok, Value.int?]
  · intro he; simp [he, R.ok, Value.int?]
  · intro he; simp [he, R.ok, Value.int?]
  · intro old he; by_cases hc : dl > old <;> simp [he, hc, R.ok, Value.int?]
  · intro old he; by_cases hc : dl < old <;> simp [he, hc, R.ok, Value.int?]

/-! ### which commands keep and which clear the deadline -/

/-- plain SET replaces the value and clears the deadline; with KEEPTTL it keeps it -/
theorem set_clears_keepttl_keeps (c : Ctx) (db : Db) (k v : Bytes) (e : Entry)
    (h : db.live c.now k = some e) :
    ((cmdSet c db k v {} false).db.raw k).map (·.exp) = some none ∧
    ((cmdSet c db k v { exp := some .keepttl } false).db.raw k).map (·.exp) = some e.exp := by
  unfold cmdSet setKey
  cases hv : e.val <;> simp [h, hv, ExpArg.invalid, ExpArg.deadline, Db.put, Db.raw, R.ok]

/-- APPEND keeps the deadline (with the repaired behaviour, quirk off); D04 is the quirk on -/
theorem append_keeps_deadline (c : Ctx) (db : Db) (k v b : Bytes) (e : Entry)
    (hq : c.q.appendDropsTtl = false)
    (h : db.live c.now k = some e) (hv : e.val = .str b) :
    ((cmdAppend c db k v).db.raw k).map (·.exp) = some e.exp := by
  unfold cmdAppend setKey
  simp [h, hv, hq, Db.put, Db.raw, R.ok]

theorem append_drops_deadline_witness :
    let c : Ctx := { q := { Quirks.none with appendDropsTtl := true }, now := 0 }
    let db := ({} : Db).put [97] (.str [120]) (some 100)
    ((cmdAppend c db [97] [121]).db.raw [97]).map (·.exp) = some none := by
  decide +kernel

/-- INCRBY keeps the deadline -/
theorem incrby_keeps_deadline (c : Ctx) (db : Db) (k b : Bytes) (e : Entry) (v d : Int)
    (h : db.live c.now k = some e) (hv : e.val = .str b) (hp : parseInt64 b = some v)
    (hgo : goAddOverflow v d = false) :
    ((cmdIncrBy c db k d).db.raw k).map (·.exp) = some e.exp := by
  unfold cmdIncrBy
  simp [h, hv, hp, hgo, R.ok, Db.put, Db.raw]

/-- PERSIST removes the deadline and answers 1 exactly when there was one -/
theorem persist_spec (c : Ctx) (db : Db) (k : Bytes) (e : Entry) (h : db.live c.now k = some e) :
    ((cmdPersist c db k).reply.int? = some 1 ↔ e.exp.isSome = true) := by
  unfold cmdPersist
  cases he : e.exp <;> simp [h, he, R.ok, Value.int?]

end RedisEmu
