import RedisEmu.Exec
import Mathlib.Tactic.SplitIfs
/-
  C18 — bitmap commands. Theorems about `RedisEmu.Bits` (family `bits` of the correspondence run
  and the pure-function grid over the hook exports).
-/
namespace RedisEmu

/-! ### signed overflow detection of BITFIELD INCRBY -/

/-- For every width below 64 the Go test (computed in wrapped int64) is exactly
    "the true sum leaves the signed `bits`-wide range", for every field value in range and every
    int64 increment. -/
theorem signedOverflow_correct_below_64 (a b : Int) (bits : Nat) (hb1 : 1 ≤ bits) (hb2 : bits < 64)
    (ha : -(2 : Int) ^ (bits - 1) ≤ a ∧ a < (2 : Int) ^ (bits - 1)) (hb : inRange64 b = true) :
    goSignedSumOverflow a b bits = specSignedOverflow a b bits := by
  have hP1 : (1 : Int) ≤ (2 : Int) ^ (bits - 1) := by
    have : (0 : Int) < (2 : Int) ^ (bits - 1) := Int.pow_pos (by omega)
    omega
  have hP2 : (2 : Int) ^ (bits - 1) ≤ 4611686018427387904 := by
    have h1 : (2 : Nat) ^ (bits - 1) ≤ 2 ^ 62 := Nat.pow_le_pow_right (by omega) (by omega)
    have h2 : (((2 : Nat) ^ (bits - 1) : Nat) : Int) = (2 : Int) ^ (bits - 1) := by
      simp [Int.natCast_pow]
    have h3 : (((2 : Nat) ^ (bits - 1) : Nat) : Int) ≤ ((2 ^ 62 : Nat) : Int) := Int.ofNat_le.mpr h1
    rw [h2] at h3
    simpa using h3
  unfold goSignedSumOverflow specSignedOverflow wrap64 inRange64 twoP63 twoP64 at *
  simp only [Bool.and_eq_true, decide_eq_true_eq] at hb
  generalize (2 : Int) ^ (bits - 1) = P at *
  by_cases hpos : b > 0
  · simp only [hpos, ↓reduceIte]
    rw [Bool.eq_iff_iff]
    simp only [decide_eq_true_eq, Bool.or_eq_true]
    constructor
    · intro h; right; omega
    · rintro (h | h) <;> omega
  · simp only [hpos, ↓reduceIte]
    rw [Bool.eq_iff_iff]
    simp only [decide_eq_true_eq, Bool.or_eq_true]
    constructor
    · intro h; left; omega
    · rintro (h | h) <;> omega

/-- D45: for i64 the wrapped test reports an overflow that does not exist (-1 + 1) -/
theorem signedOverflow_wrong_at_64 :
    goSignedSumOverflow (-1) 1 64 = true ∧ specSignedOverflow (-1) 1 64 = false := by
  decide

/-! ### writes touch only the addressed bits; reads return what was written -/

set_option maxRecDepth 100000 in
/-- the byte-level write, checked over the complete table of bytes × positions × bits -/
theorem setBitInByte_testBit :
    ∀ n < 256, ∀ pos < 8, ∀ j < 8, ∀ v : Bool,
      (setBitInByte (UInt8.ofNat n) pos v).toNat.testBit (7 - j) =
        (if j = pos then v else (UInt8.ofNat n).toNat.testBit (7 - j)) := by
  decide +kernel

theorem setBitInByte_spec (b : UInt8) (pos j : Nat) (v : Bool) (hp : pos < 8) (hj : j < 8) :
    (setBitInByte b pos v).toNat.testBit (7 - j) = (if j = pos then v else b.toNat.testBit (7 - j)) := by
  have h := setBitInByte_testBit b.toNat (UInt8.toNat_lt b) pos hp j hj v
  simpa using h

theorem setBit1_length (s : Bytes) (i : Nat) (v : Bool) : (setBit1 s i v).length = s.length := by
  unfold setBit1
  cases s[i / 8]? <;> simp

/-- writing bit `i` changes bit `i` and no other bit -/
theorem bitAt_setBit1 (s : Bytes) (i j : Nat) (v : Bool) (hi : i < 8 * s.length) :
    bitAt (setBit1 s i v) j = (if j = i then v else bitAt s j) := by
  have hidx : i / 8 < s.length := by omega
  have hget : s[i / 8]? = some s[i / 8] := List.getElem?_eq_getElem hidx
  unfold setBit1
  rw [hget]
  simp only
  unfold bitAt
  by_cases hb : j / 8 = i / 8
  · rw [hb, List.getElem?_set_self hidx, hget]
    simp only
    rw [setBitInByte_spec _ _ _ _ (Nat.mod_lt _ (by omega)) (Nat.mod_lt _ (by omega))]
    have : (j % 8 = i % 8) ↔ (j = i) := by omega
    simp only [this]
  · rw [List.getElem?_set_ne (Ne.symm hb)]
    have : j ≠ i := fun e => hb (by rw [e])
    simp [this]

/-- folding single-bit writes over positions `a … a+n-1` -/
theorem bitAt_fold (g : Nat → Bool) (a n : Nat) :
    ∀ (s : Bytes), a + n ≤ 8 * s.length → ∀ x,
      bitAt ((List.range n).foldl (fun acc j => setBit1 acc (a + j) (g j)) s) x =
        (if a ≤ x ∧ x < a + n then g (x - a) else bitAt s x) ∧
      ((List.range n).foldl (fun acc j => setBit1 acc (a + j) (g j)) s).length = s.length := by
  induction n with
  | zero =>
    intro s _ x
    simp only [List.range_zero, List.foldl_nil, Nat.add_zero, and_true]
    have : ¬ (a ≤ x ∧ x < a) := by omega
    simp [this]
  | succ n ih =>
    intro s hlen x
    rw [List.range_succ, List.foldl_append]
    simp only [List.foldl_cons, List.foldl_nil]
    have h1 := ih s (by omega)
    have hl := (h1 0).2
    constructor
    · rw [bitAt_setBit1 _ _ _ _ (by rw [hl]; omega), (h1 x).1]
      by_cases hx : x = a + n
      · subst hx; simp
      · simp only [hx, ↓reduceIte]
        by_cases hr : a ≤ x ∧ x < a + n
        · have : a ≤ x ∧ x < a + (n + 1) := by omega
          simp [hr, this]
        · have : ¬ (a ≤ x ∧ x < a + (n + 1)) := by omega
          simp [hr, this]
    · rw [setBit1_length, hl]

/-- BITFIELD SET / SETBIT: after writing the low `w` bits of `val` at offset `a`, bit `x` of the
    string is bit `a+w-1-x` of the value inside the field and unchanged outside it -/
theorem bitAt_setBits (s : Bytes) (a w val x : Nat) (h : a + w ≤ 8 * s.length) :
    bitAt (setBits s a w val) x =
      (if a ≤ x ∧ x < a + w then val.testBit (a + w - 1 - x) else bitAt s x) := by
  unfold setBits
  have := (bitAt_fold (fun j => val.testBit (w - 1 - j)) a w s h x).1
  rw [this]
  by_cases hr : a ≤ x ∧ x < a + w
  · simp only [hr, and_self, ↓reduceIte]
    congr 1; omega
  · simp [hr]

theorem setBits_length (s : Bytes) (a w val : Nat) (h : a + w ≤ 8 * s.length) :
    (setBits s a w val).length = s.length := by
  unfold setBits
  exact (bitAt_fold (fun j => val.testBit (w - 1 - j)) a w s h 0).2

/-- the value read from a field, bit by bit: bit `t` of the result is string bit `a+w-1-t` -/
theorem extractBits_testBit (s : Bytes) (a : Nat) : ∀ (w t : Nat),
    (extractBits s a w).testBit t = (decide (t < w) && bitAt s (a + w - 1 - t)) := by
  intro w
  induction w with
  | zero => intro t; simp [extractBits]
  | succ w ih =>
    intro t
    unfold extractBits at *
    rw [List.range_succ, List.foldl_append]
    simp only [List.foldl_cons, List.foldl_nil]
    cases t with
    | zero =>
      have : a + (w + 1) - 1 - 0 = a + w := by omega
      rw [this]
      cases hb : bitAt s (a + w) <;> simp [Nat.testBit_zero, Nat.add_mod, Nat.mul_mod]
    | succ t =>
      have e : ∀ (m : Nat) (b : Nat), b < 2 → (m * 2 + b).testBit (t + 1) = m.testBit t := by
        intro m b hb
        rw [Nat.testBit_succ]
        congr 1; omega
      rw [e _ _ (by split <;> omega), ih t]
      have : a + (w + 1) - 1 - (t + 1) = a + w - 1 - t := by omega
      rw [this]
      by_cases ht : t < w
      · have : t + 1 < w + 1 := by omega
        simp [ht, this]
      · have : ¬ (t + 1 < w + 1) := by omega
        simp [ht, this]

/-- GET after SET on the same field returns the value written, reduced to the field width;
    this holds for every string, every (aligned or unaligned) offset and every width -/
theorem extract_after_set (s : Bytes) (a w val : Nat) (h : a + w ≤ 8 * s.length) :
    extractBits (setBits s a w val) a w = val % 2 ^ w := by
  apply Nat.eq_of_testBit_eq
  intro t
  rw [extractBits_testBit, Nat.testBit_mod_two_pow]
  by_cases ht : t < w
  · rw [bitAt_setBits _ _ _ _ _ h]
    have hr : a ≤ a + w - 1 - t ∧ a + w - 1 - t < a + w := by omega
    simp only [ht, decide_true, hr, and_self, ↓reduceIte, Bool.true_and]
    congr 1; omega
  · simp [ht]

/-- a field disjoint from the written one reads the same before and after -/
theorem extract_disjoint (s : Bytes) (a w val a' w' : Nat) (h : a + w ≤ 8 * s.length)
    (hd : a' + w' ≤ a ∨ a + w ≤ a') :
    extractBits (setBits s a w val) a' w' = extractBits s a' w' := by
  apply Nat.eq_of_testBit_eq
  intro t
  rw [extractBits_testBit, extractBits_testBit]
  by_cases ht : t < w'
  · rw [bitAt_setBits _ _ _ _ _ h]
    have : ¬ (a ≤ a' + w' - 1 - t ∧ a' + w' - 1 - t < a + w) := by omega
    simp [this]
  · simp [ht]

end RedisEmu
