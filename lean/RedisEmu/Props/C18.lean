import RedisEmu.Exec
import RedisEmu.Proofs.GoArithBits
import Mathlib.Tactic.SplitIfs
/-
  C18 — bitmap commands. Theorems about `RedisEmu.Bits` (family `bits` of the correspondence run
  and the pure-function grid over the hook exports).
-/
namespace RedisEmu

/-! ### signed overflow detection of BITFIELD INCRBY -/

/-- For every width below 64 the Go test (computed in wrapped int64) is exactly
    "the true sum leaves the signed `bits`-wide range", for every field value in range and every
    int64 increment. -/
theorem signedOverflow_correct_below_64 (a b : Int) (bits : Nat) (hb1 : 1 ≤ bits) (hb2 : bits < 64)
    (ha : -(2 : Int) ^ (bits - 1) ≤ a ∧ a < (2 : Int) ^ (bits - 1)) (hb : inRange64 b = true) :
    goSignedSumOverflow a b bits = specSignedOverflow a b bits := by
  have hP1 : (1 : Int) ≤ (2 : Int) ^ (bits - 1) := by
    have : (0 : Int) < (2 : Int) ^ (bits - 1) := Int.pow_pos (by omega)
    omega
  have hP2 : (2 : Int) ^ (bits - 1) ≤ 4611686018427387904 := by
    have h1 : (2 : Nat) ^ (bits - 1) ≤ 2 ^ 62 := Nat.pow_le_pow_right (by omega) (by omega)
    have h2 : (((2 : Nat) ^ (bits - 1) : Nat) : Int) = (2 : Int) ^ (bits - 1) := by
      simp [Int.natCast_pow]
    have h3 : (((2 : Nat) ^ (bits - 1) : Nat) : Int) ≤ ((2 ^ 62 : Nat) : Int) := Int.ofNat_le.mpr h1
    rw [h2] at h3
    simpa using h3
  unfold goSignedSumOverflow specSignedOverflow wrap64 inRange64 twoP63 twoP64 at *
  simp only [Bool.and_eq_true, decide_eq_true_eq] at hb
  generalize (2 : Int) ^ (bits - 1) = P at *
  by_cases hpos : b > 0
  · simp only [hpos, ↓reduceIte]
    rw [Bool.eq_iff_iff]
    simp only [decide_eq_true_eq, Bool.or_eq_true]
    constructor
    · intro h; right; omega
    · rintro (h | h) <;> omega
  · simp only [hpos, ↓reduceIte]
    rw [Bool.eq_iff_iff]
    simp only [decide_eq_true_eq, Bool.or_eq_true]
    constructor
    · intro h; left; omega
    · rintro (h | h) <;> omega

/-- D45: for i64 the wrapped test reports an overflow that does not exist (-1 + 1) -/
theorem signedOverflow_wrong_at_64 :
    goSignedSumOverflow (-1) 1 64 = true ∧ specSignedOverflow (-1) 1 64 = false := by
  decide

/-! ### writes touch only the addressed bits; reads return what was written -/

set_option maxRecDepth 100000 in
/-- the byte-level write, checked over the complete table of bytes × positions × bits -/
theorem setBitInByte_testBit :
    ∀ n < 256, ∀ pos < 8, ∀ j < 8, ∀ v : Bool,
      (setBitInByte (UInt8.ofNat n) pos v).toNat.testBit (7 - j) =
        (if j = pos then v else (UInt8.ofNat n).toNat.testBit (7 - j)) := by
  decide +kernel

theorem setBitInByte_spec (b : UInt8) (pos j : Nat) (v : Bool) (hp : pos < 8) (hj : j < 8) :
    (setBitInByte b pos v).toNat.testBit (7 - j) = (if j = pos then v else b.toNat.testBit (7 - j)) := by
  have h := setBitInByte_testBit b.toNat (UInt8.toNat_lt b) pos hp j hj v
  simpa using h

theorem setBit1_length (s : Bytes) (i : Nat) (v : Bool) : (setBit1 s i v).length = s.length := by
  unfold setBit1
  cases s[i / 8]? <;> simp

/-- writing bit `i` changes bit `i` and no other bit -/
theorem bitAt_setBit1 (s : Bytes) (i j : Nat) (v : Bool) (hi : i < 8 * s.length) :
    bitAt (setBit1 s i v) j = (if j = i then v else bitAt s j) := by
  have hidx : i / 8 < s.length := by omega
  have hget : s[i / 8]? = some s[i / 8] := List.getElem?_eq_getElem hidx
  unfold setBit1
  rw [hget]
  simp only
  unfold bitAt
  by_cases hb : j / 8 = i / 8
  · rw [hb, List.getElem?_set_self hidx, hget]
    simp only
    rw [setBitInByte_spec _ _ _ _ (Nat.mod_lt _ (by omega)) (Nat.mod_lt _ (by omega))]
    have : (j % 8 = i % 8) ↔ (j = i) := by omega
    simp only [this]
  · rw [List.getElem?_set_ne (Ne.symm hb)]
    have : j ≠ i := fun e => hb (by rw [e])
    simp [this]

/-- folding single-bit writes over positions `a … a+n-1` -/
theorem bitAt_fold (g : Nat → Bool) (a n : Nat) :
    ∀ (s : Bytes), a + n ≤ 8 * s.length → ∀ x,
      bitAt ((List.range n).foldl (fun acc j => setBit1 acc (a + j) (g j)) s) x =
        (if a ≤ x ∧ x < a + n then g (x - a) else bitAt s x) ∧
      ((List.range n).foldl (fun acc j => setBit1 acc (a + j) (g j)) s).length = s.length := by
  induction n with
  | zero =>
    intro s _ x
    simp only [List.range_zero, List.foldl_nil, Nat.add_zero, and_true]
    have : ¬ (a ≤ x ∧ x < a) := by omega
    simp [this]
  | succ n ih =>
    intro s hlen x
    rw [List.range_succ, List.foldl_append]
    simp only [List.foldl_cons, List.foldl_nil]
    have h1 := ih s (by omega)
    have hl := (h1 0).2
    constructor
    · rw [bitAt_setBit1 _ _ _ _ (by rw [hl]; omega), (h1 x).1]
      by_cases hx : x = a + n
      · subst hx; simp
      · simp only [hx, ↓reduceIte]
        by_cases hr : a ≤ x ∧ x < a + n
        · have : a ≤ x ∧ x < a + (n + 1) := by omega
          simp [hr, this]
        · have : ¬ (a ≤ x ∧ x < a + (n + 1)) := by omega
          simp [hr, this]
    · rw [setBit1_length, hl]

/-- BITFIELD SET / SETBIT: after writing the low `w` bits of `val` at offset `a`, bit `x` of the
    string is bit `a+w-1-x` of the value inside the field and unchanged outside it -/
theorem bitAt_setBits (s : Bytes) (a w val x : Nat) (h : a + w ≤ 8 * s.length) :
    bitAt (setBits s a w val) x =
      (if a ≤ x ∧ x < a + w then val.testBit (a + w - 1 - x) else bitAt s x) := by
  unfold setBits
  have := (bitAt_fold (fun j => val.testBit (w - 1 - j)) a w s h x).1
  rw [this]
  by_cases hr : a ≤ x ∧ x < a + w
  · simp only [hr, and_self, ↓reduceIte]
    congr 1; omega
  · simp [hr]

theorem setBits_length (s : Bytes) (a w val : Nat) (h : a + w ≤ 8 * s.length) :
    (setBits s a w val).length = s.length := by
  unfold setBits
  exact (bitAt_fold (fun j => val.testBit (w - 1 - j)) a w s h 0).2

/-- the value read from a field, bit by bit: bit `t` of the result is string bit `a+w-1-t` -/
theorem extractBits_testBit (s : Bytes) (a : Nat) : ∀ (w t : Nat),
    (extractBits s a w).testBit t = (decide (t < w) && bitAt s (a + w - 1 - t)) := by
  intro w
  induction w with
  | zero => intro t; simp [extractBits]
  | succ w ih =>
    intro t
    unfold extractBits at *
    rw [List.range_succ, List.foldl_append]
    simp only [List.foldl_cons, List.foldl_nil]
    cases t with
    | zero =>
      have : a + (w + 1) - 1 - 0 = a + w := by omega
      rw [this]
      cases hb : bitAt s (a + w) <;> simp [Nat.testBit_zero, Nat.add_mod, Nat.mul_mod]
    | succ t =>
      have e : ∀ (m : Nat) (b : Nat), b < 2 → (m * 2 + b).testBit (t + 1) = m.testBit t := by
        intro m b hb
        rw [Nat.testBit_succ]
        congr 1; omega
      rw [e _ _ (by split <;> omega), ih t]
      have : a + (w + 1) - 1 - (t + 1) = a + w - 1 - t := by omega
      rw [this]
      by_cases ht : t < w
      · have : t + 1 < w + 1 := by omega
        simp [ht, this]
      · have : ¬ (t + 1 < w + 1) := by omega
        simp [ht, this]

/-- GET after SET on the same field returns the value written, reduced to the field width;
    this holds for every string, every (aligned or unaligned) offset and every width -/
theorem extract_after_set (s : Bytes) (a w val : Nat) (h : a + w ≤ 8 * s.length) :
    extractBits (setBits s a w val) a w = val % 2 ^ w := by
  apply Nat.eq_of_testBit_eq
  intro t
  rw [extractBits_testBit, Nat.testBit_mod_two_pow]
  by_cases ht : t < w
  · rw [bitAt_setBits _ _ _ _ _ h]
    have hr : a ≤ a + w - 1 - t ∧ a + w - 1 - t < a + w := by omega
    simp only [ht, decide_true, hr, and_self, ↓reduceIte, Bool.true_and]
    congr 1; omega
  · simp [ht]

/-- a field disjoint from the written one reads the same before and after -/
theorem extract_disjoint (s : Bytes) (a w val a' w' : Nat) (h : a + w ≤ 8 * s.length)
    (hd : a' + w' ≤ a ∨ a + w ≤ a') :
    extractBits (setBits s a w val) a' w' = extractBits s a' w' := by
  apply Nat.eq_of_testBit_eq
  intro t
  rw [extractBits_testBit, extractBits_testBit]
  by_cases ht : t < w'
  · rw [bitAt_setBits _ _ _ _ _ h]
    have : ¬ (a ≤ a' + w' - 1 - t ∧ a' + w' - 1 - t < a + w) := by omega
    simp [this]
  · simp [ht]


/-! ### BITOP: bit by bit, operands zero-padded to the longest -/

/-- a bit, read through the zero-padded view of the string -/
theorem bitAt_getD (s : Bytes) (j : Nat) : bitAt s j = (s.getD (j / 8) 0).toNat.testBit (7 - j % 8) := by
  unfold bitAt
  rw [List.getD_eq_getElem?_getD]
  cases s[j / 8]? with
  | none => simp
  | some b => simp

/-- the boolean operation a BITOP name stands for (anything but AND / OR is XOR, as in `byteOp`) -/
def boolOp (op : Bytes) (x y : Bool) : Bool :=
  if op == sb "and" then x && y else if op == sb "or" then x || y else xor x y

theorem byteOp_testBit (op : Bytes) (a b : UInt8) (t : Nat) :
    (byteOp op a b).toNat.testBit t = boolOp op (a.toNat.testBit t) (b.toNat.testBit t) := by
  unfold byteOp boolOp
  split
  · rw [UInt8.toNat_and, Nat.testBit_and]
  · split
    · rw [UInt8.toNat_or, Nat.testBit_or]
    · rw [UInt8.toNat_xor, Nat.testBit_xor]

theorem bitAt_padTo (s : Bytes) (n j : Nat) : bitAt (padTo s n) j = bitAt s j := by
  rw [bitAt_getD, bitAt_getD]
  unfold padTo
  split
  · congr 2
    rw [List.getD_eq_getElem?_getD, List.getD_eq_getElem?_getD]
    by_cases h : j / 8 < s.length
    · rw [List.getElem?_append_left h]
    · rw [List.getElem?_append_right (by omega)]
      have : s[j / 8]? = none := List.getElem?_eq_none (by omega)
      rw [this]
      cases hr : (List.replicate (n - s.length) (0 : UInt8))[j / 8 - s.length]? with
      | none => rfl
      | some x =>
        have := List.mem_replicate.mp (List.mem_of_getElem? hr)
        simp [this.2]
  · rfl

/-- one round of the fold: the accumulator combined with the next operand -/
theorem bitAt_bitopStep (op : Bytes) (acc x : Bytes) (L j : Nat) (hj : j < 8 * L) :
    bitAt ((List.range L).map fun i => byteOp op (acc.getD i 0) (x.getD i 0)) j =
      boolOp op (bitAt acc j) (bitAt x j) := by
  have hidx : j / 8 < L := by omega
  rw [bitAt_getD, bitAt_getD acc, bitAt_getD x]
  rw [List.getD_eq_getElem?_getD, List.getElem?_map, List.getElem?_range hidx]
  simp only [Option.map_some, Option.getD_some]
  exact byteOp_testBit op _ _ _

/-- **BITOP AND / OR / XOR**: every bit of the result is the operation applied, operand after operand, to
    the corresponding bits of the operands, each read as zero beyond its end -/
theorem bitop_fold_bits (op : Bytes) (L j : Nat) (hj : j < 8 * L) (r : List Bytes) : ∀ (acc : Bytes),
    bitAt (r.foldl (fun acc x => (List.range L).map fun i => byteOp op (acc.getD i 0) (x.getD i 0)) acc) j =
      r.foldl (fun b x => boolOp op b (bitAt x j)) (bitAt acc j) := by
  induction r with
  | nil => intro acc; rfl
  | cons x r ih =>
    intro acc
    simp only [List.foldl_cons]
    rw [ih, bitAt_bitopStep op acc x L j hj]

/-- … starting from the first operand padded with zeros -/
theorem bitop_bits (op : Bytes) (v : Bytes) (r : List Bytes) (L j : Nat) (hj : j < 8 * L) :
    bitAt (r.foldl (fun acc x => (List.range L).map fun i => byteOp op (acc.getD i 0) (x.getD i 0)) (padTo v L)) j =
      r.foldl (fun b x => boolOp op b (bitAt x j)) (bitAt v j) := by
  rw [bitop_fold_bits op L j hj r, bitAt_padTo]

/-- the result is as long as the longest operand (when there is more than one) -/
theorem bitop_length (op : Bytes) (L : Nat) (x : Bytes) (r : List Bytes) (acc : Bytes) :
    ((x :: r).foldl (fun acc x => (List.range L).map fun i => byteOp op (acc.getD i 0) (x.getD i 0)) acc).length = L := by
  induction r generalizing x acc with
  | nil => simp
  | cons y r ih =>
    rw [List.foldl_cons]
    exact ih y _

/-- **BITOP NOT**: every bit inverted, same length -/
theorem bitop_not_bits (v : Bytes) (j : Nat) (hj : j < 8 * v.length) :
    bitAt (v.map fun b => (255 - b.toNat).toUInt8) j = !bitAt v j := by
  have hidx : j / 8 < v.length := by omega
  unfold bitAt
  rw [List.getElem?_map, List.getElem?_eq_getElem hidx]
  simp only [Option.map_some]
  have key : ∀ (n : Nat), n < 256 → ∀ t, t < 8 → ((255 - n).toUInt8).toNat.testBit t = !n.testBit t := by
    decide +kernel
  exact key _ (UInt8.toNat_lt _) _ (by omega)


/-! ### BITCOUNT: the number of set bits -/

theorem foldl_add_shift (f : UInt8 → Nat) (l : List UInt8) (a : Nat) :
    l.foldl (fun acc x => acc + f x) a = a + l.foldl (fun acc x => acc + f x) 0 := by
  induction l generalizing a with
  | nil => simp
  | cons x r ih =>
    simp only [List.foldl_cons]
    rw [ih (a + f x), ih (0 + f x)]
    omega

theorem popcount8_eq (b : UInt8) :
    popcount8 b = ((List.range 8).filter fun j => b.toNat.testBit (7 - j)).length := by
  have key : ∀ n : Nat, n < 256 →
      ((List.range 8).filter fun i => n.testBit i).length = ((List.range 8).filter fun j => n.testBit (7 - j)).length := by
    decide +kernel
  exact key _ (UInt8.toNat_lt b)

theorem bitAt_cons_lt (b : UInt8) (r : Bytes) (j : Nat) (hj : j < 8) : bitAt (b :: r) j = b.toNat.testBit (7 - j) := by
  unfold bitAt
  have : j / 8 = 0 := by omega
  have h2 : j % 8 = j := by omega
  simp [this, h2]

theorem bitAt_cons_ge (b : UInt8) (r : Bytes) (j : Nat) : bitAt (b :: r) (j + 8) = bitAt r j := by
  unfold bitAt
  have : (j + 8) / 8 = j / 8 + 1 := by omega
  have h2 : (j + 8) % 8 = j % 8 := by omega
  simp [this, h2]

/-- the byte-wise population count is the number of set bit positions of the string -/
theorem popcount_bits (s : Bytes) :
    s.foldl (fun acc x => acc + popcount8 x) 0 = ((List.range (8 * s.length)).filter fun j => bitAt s j).length := by
  induction s with
  | nil => simp
  | cons b r ih =>
    simp only [List.foldl_cons, List.length_cons]
    rw [foldl_add_shift, ih]
    have hr : 8 * (r.length + 1) = 8 + 8 * r.length := by omega
    rw [hr, List.range_add, List.filter_append, List.length_append, List.filter_map, List.length_map]
    congr 1
    · rw [Nat.zero_add, popcount8_eq]
      apply congrArg List.length
      apply List.filter_congr
      intro j hj
      rw [bitAt_cons_lt b r j (List.mem_range.mp hj)]
    · apply congrArg List.length
      apply List.filter_congr
      intro j _
      simp only [Function.comp]
      rw [Nat.add_comm, bitAt_cons_ge]

/-- **BITCOUNT key** answers the number of set bits of the string -/
theorem bitcount_whole (c : Ctx) (db : Db) (k b : Bytes) (x : Option Int) (i : Nat)
    (hl : db.live c.now k = some { val := .str b, exp := x, id := i }) :
    (cmdBitCount c db k none).reply = vInt ((List.range (8 * b.length)).filter fun j => bitAt b j).length := by
  unfold cmdBitCount
  rw [hl]
  simp only
  cases b with
  | nil => simp [R.ok, vInt]
  | cons y r =>
    have hlen : ((y :: r).length : Int) = (r.length : Int) + 1 := by simp
    simp only [List.isEmpty_cons, Bool.false_eq_true, ↓reduceIte]
    have h0 : ¬ ((0 : Int) ≥ ((y :: r).length : Int)) := by rw [hlen]; omega
    have h1 : ¬ (((y :: r).length : Int) - 1 < 0) := by rw [hlen]; omega
    have h2 : ¬ (((y :: r).length : Int) - 1 ≥ ((y :: r).length : Int)) := by omega
    simp only [h0, h1, h2, Int.lt_irrefl, decide_false, Bool.and_false, Bool.false_eq_true, ↓reduceIte, R.ok]
    rw [← popcount_bits]
    have ht : (((y :: r).length : Int) - 1 - 0 + 1).toNat = (y :: r).length := by omega
    simp only [Int.toNat_zero, List.drop_zero, ht, List.take_length]

/-! ### the arithmetic helpers of `bitMath.go` as the Go source has them now
    (`GoArith.lean`, written by `tools/go2lean` from /repo's working tree before every build) -/

/-- BITFIELD INCRBY / SET on a signed field: the Go test `isSignedSumOverflow`, for every width i1..i64,
    every field value of that width and every int64 operand, is what `bfStep` uses as "out of bounds" —
    the true sum leaves the signed range of the field. -/
theorem bitfield_signed_overflow_as_coded (a b : BitVec 64) (bits : Nat) (h1 : 1 ≤ bits) (h2 : bits ≤ 64)
    (hr : -(2 : Int) ^ (bits - 1) ≤ a.toInt ∧ a.toInt < (2 : Int) ^ (bits - 1)) :
    Go.isSignedSumOverflow a b (BitVec.ofNat 64 bits) = specSignedOverflow a.toInt b.toInt bits :=
  go_isSignedSumOverflow a b bits h1 h2 hr

/-- BITFIELD SET passes 0 as the field value: only the operand has to fit (`specSignedRange`) -/
theorem bitfield_set_overflow_as_coded (b : BitVec 64) (bits : Nat) (h1 : 1 ≤ bits) (h2 : bits ≤ 64) :
    Go.isSignedSumOverflow 0#64 b (BitVec.ofNat 64 bits) = specSignedRange b.toInt bits := by
  have hp : (0 : Int) < (2 : Int) ^ (bits - 1) := Int.pow_pos (by omega)
  rw [go_isSignedSumOverflow 0#64 b bits h1 h2 (by simp)]
  simp [specSignedOverflow, specSignedRange]

/-- unsigned fields u1..u63: on a value that is not negative the Go test `isUnsignedOverflow` is
    "does not fit into the field" (the caller tests `newValue < 0` first) -/
theorem bitfield_unsigned_overflow_as_coded (v : BitVec 64) (bits : Nat) (h1 : 1 ≤ bits) (h2 : bits ≤ 63)
    (hv : 0 ≤ v.toInt) :
    Go.isUnsignedOverflow v (BitVec.ofNat 64 bits) = decide (v.toInt ≥ (2 : Int) ^ bits) :=
  go_isUnsignedOverflow v bits h1 h2 hv

/-- OVERFLOW SAT: `saturateValue` gives the bound of the field on the side the operand pushes to -/
theorem bitfield_saturation_as_coded (v : BitVec 64) (bits : Nat) (h1 : 1 ≤ bits) :
    (bits ≤ 64 → (Go.saturateValue true v (BitVec.ofNat 64 bits)).toInt =
        if v.toInt < 0 then -(2 : Int) ^ (bits - 1) else (2 : Int) ^ (bits - 1) - 1) ∧
    (bits ≤ 63 → (Go.saturateValue false v (BitVec.ofNat 64 bits)).toInt =
        if v.toInt < 0 then 0 else (2 : Int) ^ bits - 1) :=
  ⟨fun h => go_saturateValue_signed v bits h1 h, fun h => go_saturateValue_unsigned v bits h1 h⟩

/-- what the translator delivered on this run for the bitmap commands (each property pins its own part of the list, so
    that a function of another property that leaves the translatable subset does not touch this one) -/
theorem go_arith_translated_bits :
    ["isSignedSumOverflow", "isUnsignedOverflow", "saturateValue", "signExtend", "bitcountClamp", "bitcountMasks",
      "setbitOffsetGuard"].all (Go.translated.contains ·) = true := by decide

/-- `signExtend(value, bits)` translated from the Go source on this run: on a field value of width 1..64 it returns the
    two's-complement reading of the field — the model's `toSigned`, which `GET i<w>` and the signed `INCRBY` / `SET`
    of `bfStep` report.  (Shown through `BitVec.signExtend`: `go_signExtend_eq`.) -/
theorem bitfield_sign_extend_as_coded (w : Nat) (hw1 : 1 ≤ w) (hw : w ≤ 64) (u : Nat) (hu : u < 2 ^ w) :
    (Go.signExtend (BitVec.ofNat 64 u) (BitVec.ofNat 64 w)).toInt = toSigned u w :=
  go_signExtend w hw1 hw u hu

/-- non-vacuity: 0xff as i8 is -1, 0x7f stays 127, a full-width value is itself -/
theorem bitfield_sign_extend_examples :
    (Go.signExtend 255#64 8#64).toInt = -1 ∧ (Go.signExtend 127#64 8#64).toInt = 127 ∧
    (Go.signExtend 0x8000000000000000#64 64#64).toInt = -9223372036854775808 := by decide

/-- The range arithmetic of BITCOUNT translated from `fnBitCount` on this run (negative indexes from the end, a start
    beyond the end and an end before the start count nothing, the end clamped onto the last unit): it leaves early
    exactly when `bitcountBounds` is `none` and otherwise ends with the same first and last unit, for every pair of
    int64 arguments and every positive length (bytes, or bits in BIT mode). -/
theorem bitcount_range_as_coded (s e n : BitVec 64) (hn : 0 < n.toInt) :
    (match Go.bitcountClamp s e n with
     | (true, _, _) => none
     | (false, a, z) => some (a.toInt, z.toInt)) = bitcountBounds n.toInt s.toInt e.toInt :=
  go_bitcountClamp s e n hn

/-- … and `bitcountBounds` is what the model's BITCOUNT counts between (without the recorded deviation D44) -/
theorem bitcount_model_bounds (c : Ctx) (db : Db) (k b : Bytes) (e : Entry) (s t : Int) (m : Bool)
    (hq1 : c.q.bitcountClamp = false)
    (hl : db.live c.now k = some e) (hv : e.val = .str b) (hb : b.isEmpty = false) :
    (cmdBitCount c db k (some (s, t, m))).reply =
      match bitcountBounds (if m then (b.length : Int) * 8 else b.length) s t with
      | none => .int 0
      | some (a, z) =>
        if m then vInt ((List.range (z - a + 1).toNat).filter fun j => bitAt b (a.toNat + j)).length
        else vInt (((b.drop a.toNat).take (z - a + 1).toNat).foldl (fun acc x => acc + popcount8 x) 0) :=
  cmdBitCount_bounds c db k b e s t m hq1 hl hv hb

/-- non-vacuity: 3 bytes, `BITCOUNT k -2 -1` counts bytes 1..2; `5 9` nothing; `0 100` is clamped to 0..2 -/
theorem bitcount_range_examples :
    bitcountBounds 3 (-2) (-1) = some (1, 2) ∧ bitcountBounds 3 5 9 = none ∧ bitcountBounds 3 0 100 = some (0, 2) ∧
    Go.bitcountClamp (BitVec.ofInt 64 (-2)) (BitVec.ofInt 64 (-1)) 3#64 = (false, 1#64, 2#64) ∧
    (Go.bitcountClamp 5#64 9#64 3#64).1 = true := by decide

/-- The first-byte and last-byte masks of `countSetBitRange` (BITCOUNT … BIT) translated from the Go source on this run:
    for every pair of non-negative bit positions the first keeps the bits from position `start % 8` on, the second the
    bits up to position `end % 8` (position 0 = most significant bit, as `bitAt` numbers them: `masks_select`). -/
theorem bitcount_masks_as_coded (s e : BitVec 64) (hs : 0 ≤ s.toInt) (he : 0 ≤ e.toInt) :
    (Go.bitcountMasks s e).1.toNat = 2 ^ (8 - s.toNat % 8) - 1 ∧
    (Go.bitcountMasks s e).2.toNat = 256 - 2 ^ (7 - e.toNat % 8) :=
  go_bitcountMasks s e hs he

theorem bitcount_masks_examples : Go.bitcountMasks 3#64 13#64 = (0x1f#8, 0xfc#8) := by decide

/-- The offset test of `fnSetBit` (the `if` that answers "bit offset is not an integer or out of range"), translated on
    this run, is the test of the model's `cmdSetBit`: a negative offset, or one beyond the 2^32 bits a 512 MB string has. -/
theorem setbit_offset_guard_as_coded (o : BitVec 64) :
    Go.setbitOffsetGuard o = (decide (o.toInt < 0) || decide (o.toInt ≥ 4294967296)) :=
  go_setbitOffsetGuard o

/-- non-vacuity: i8, 100 + 100 overflows, 100 + 27 does not; i64 at the edge -/
theorem bitfield_signed_overflow_examples :
    Go.isSignedSumOverflow 100#64 100#64 8#64 = true ∧ Go.isSignedSumOverflow 100#64 27#64 8#64 = false ∧
    Go.isSignedSumOverflow (BitVec.ofInt 64 (-1)) 1#64 64#64 = false ∧
    Go.isSignedSumOverflow (BitVec.ofInt 64 9223372036854775807) 1#64 64#64 = true := by decide

/-- "is the new value out of bounds?" as `bitfieldWrite` decides it (lines "detect underflow and overflow"),
    with the helpers as translated from `bitMath.go` -/
def bfOutOfBoundsGo (signed isSet : Bool) (n value : BitVec 64) (bits : Nat) : Bool :=
  let newValue := if isSet then value else n + value
  if signed then
    (if isSet then Go.isSignedSumOverflow 0#64 value (BitVec.ofNat 64 bits)
     else Go.isSignedSumOverflow n value (BitVec.ofNat 64 bits))
  else BitVec.slt newValue 0#64 || Go.isUnsignedOverflow newValue (BitVec.ofNat 64 bits)

/-- … is the `oob` of the model's `bfStep` (quirks off): for a signed field the operand (SET) or the true sum
    (INCRBY) leaves the field's range; for an unsigned one the new value — the sum wrapped to 64 bits — is
    negative or does not fit. For every width, every field value of that width and every int64 operand. -/
theorem bitfield_out_of_bounds_as_coded (signed isSet : Bool) (n value : BitVec 64) (bits : Nat)
    (h1 : 1 ≤ bits) (hs : signed = true → bits ≤ 64) (hu : signed = false → bits ≤ 63)
    (hr : signed = true → -(2 : Int) ^ (bits - 1) ≤ n.toInt ∧ n.toInt < (2 : Int) ^ (bits - 1)) :
    bfOutOfBoundsGo signed isSet n value bits =
      (if signed then
         (if isSet then specSignedRange value.toInt bits else specSignedOverflow n.toInt value.toInt bits)
       else
         let newValue : Int := if isSet then value.toInt else wrap64 (n.toInt + value.toInt)
         decide (newValue < 0) || decide (newValue ≥ (2 : Int) ^ bits)) := by
  unfold bfOutOfBoundsGo
  cases signed with
  | true =>
    simp only [↓reduceIte]
    cases isSet with
    | true =>
      simp only [↓reduceIte]
      have hp : (0 : Int) < (2 : Int) ^ (bits - 1) := Int.pow_pos (by omega)
      rw [go_isSignedSumOverflow 0#64 value bits h1 (hs rfl) (by simp)]
      simp [specSignedOverflow, specSignedRange]
    | false =>
      simp only [Bool.false_eq_true, ↓reduceIte]
      exact go_isSignedSumOverflow n value bits h1 (hs rfl) (hr rfl)
  | false =>
    simp only [Bool.false_eq_true, ↓reduceIte]
    have key : ∀ x : BitVec 64, (BitVec.slt x 0#64 || Go.isUnsignedOverflow x (BitVec.ofNat 64 bits)) =
        (decide (x.toInt < 0) || decide (x.toInt ≥ (2 : Int) ^ bits)) := by
      intro x
      by_cases hx : x.toInt < 0
      · have : BitVec.slt x 0#64 = true := by simp [BitVec.slt, hx]
        simp [this, hx]
      · have hsl : BitVec.slt x 0#64 = false := by simp [BitVec.slt]; omega
        rw [hsl, go_isUnsignedOverflow x bits h1 (hu rfl) (by omega)]
        simp [hx]
    cases isSet with
    | true => simp only [↓reduceIte]; exact key value
    | false =>
      simp only [Bool.false_eq_true, ↓reduceIte]
      rw [key (n + value), toInt_add_wrap]

end RedisEmu
