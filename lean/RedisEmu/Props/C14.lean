import RedisEmu.Exec
import RedisEmu.Proofs.State
import Mathlib.Tactic.SplitIfs
/-
  C14 — databases, flushes, per-connection session state.
  Theorems about `RedisEmu.Exec` (family `db` of the correspondence run).
-/
namespace RedisEmu

/-! ### SELECT -/

/-- an out-of-range index is rejected and nothing changes (in particular the selection) -/
theorem select_out_of_range (c : Ctx) (s : State) (conn ref : Nat) (m : Bool) (i : Int) (h : i < 0 ∨ i > 15) :
    (runCmd c s conn ref m (.select i)).st = s ∧ (runCmd c s conn ref m (.select i)).reply = errDbRange := by
  unfold runCmd
  have : (decide (i < 0) || decide (i > 15)) = true := by
    rcases h with h | h <;> simp [h]
  simp [this]

/-- an index 0…15 is accepted: the connection now addresses that index, no data changes -/
theorem select_in_range (c : Ctx) (s : State) (conn ref : Nat) (m : Bool) (i : Int) (h0 : 0 ≤ i) (h1 : i ≤ 15) :
    let o := runCmd c s conn ref m (.select i)
    o.reply = vOK ∧ (o.st.session conn).dbIdx = i.toNat ∧
    (∀ r, (s.heap.any (·.1 == r)) = true → o.st.getDb r = s.getDb r) := by
  unfold runCmd
  have : (decide (i < 0) || decide (i > 15)) = false := by
    simp; omega
  simp only [this, Bool.false_eq_true, ↓reduceIte]
  refine ⟨by simp, by simp, ?_⟩
  intro r hr
  unfold State.tableRef
  split
  · simp [State.getDb, State.setSession]
  · simp only [State.getDb, State.setSession]
    -- a new database object is appended to the heap; existing references resolve as before
    have : ∀ (l : List (Nat × Db)) (x : Nat × Db), l.any (·.1 == r) = true →
        (l ++ [x]).find? (·.1 == r) = l.find? (·.1 == r) := by
      intro l x hl
      rw [List.find?_append]
      cases hf : l.find? (·.1 == r) with
      | some _ => simp
      | none =>
        rw [List.find?_eq_none] at hf
        rw [List.any_eq_true] at hl
        obtain ⟨p, hp, hpr⟩ := hl
        exact absurd hpr (hf p hp)
    rw [this s.heap _ hr]

/-! ### a data command only touches the database it is bound to -/

theorem onDb_other_untouched (s : State) (ref ref' : Nat) (f : Db → R) (h : (ref == ref') = false) :
    (onDb s ref f).st.getDb ref' = s.getDb ref' ∧ (onDb s ref f).st.sessions = s.sessions ∧
    (onDb s ref f).st.table = s.table := by
  unfold onDb
  exact ⟨getDb_setDb_ne s ref ref' _ h, by simp, by simp⟩

/-- … and what it does there is exactly what the single-database semantics says -/
theorem onDb_bound_db (s : State) (ref : Nat) (f : Db → R) :
    (onDb s ref f).st.getDb ref = (f (s.getDb ref)).db ∧ (onDb s ref f).reply = (f (s.getDb ref)).reply := by
  unfold onDb
  exact ⟨getDb_setDb_self s ref _, rfl⟩

/-! ### FLUSHDB / FLUSHALL (repaired behaviour, quirk off): the state every client sees -/

theorem flushall_empties_everything (c : Ctx) (s : State) (conn ref : Nat) (m : Bool)
    (hq : c.q.flushDetaches = false) :
    ∀ r, (((runCmd c s conn ref m .flushall).st.getDb r).keys = []) := by
  intro r
  unfold runCmd
  simp only [hq, Bool.false_eq_true, ↓reduceIte, State.getDb]
  induction s.heap with
  | nil => simp
  | cons p t ih =>
    obtain ⟨i, d⟩ := p
    simp only [List.map_cons, List.find?_cons]
    cases (i == r) <;> simp_all

/-- D42 on the model of the unrepaired code: after FLUSHDB by another connection the first
    connection still reads its key -/
theorem flush_detaches_witness :
    let c : Ctx := { q := { Quirks.none with flushDetaches := true }, now := 0 }
    let s0 := (State.init.connect 1 1).connect 2 2
    let s1 := (dispatchParsed c s0 1 [] (.set [107] [118] {} false)).st     -- conn 1: SET k v
    let s2 := (dispatchParsed c s1 2 [] .flushdb).st                         -- conn 2: FLUSHDB
    (dispatchParsed c s2 1 [] (.get [107])).reply.bulk? = some [118] := by   -- conn 1: GET k → "v"
  decide +kernel

theorem flush_visible_to_all_witness :
    let c : Ctx := { q := Quirks.none, now := 0 }
    let s0 := (State.init.connect 1 1).connect 2 2
    let s1 := (dispatchParsed c s0 1 [] (.set [107] [118] {} false)).st
    let s2 := (dispatchParsed c s1 2 [] .flushdb).st
    (dispatchParsed c s2 1 [] (.get [107])).reply.isNil = true := by
  decide +kernel

/-! ### session state belongs to one connection -/

/-- protocol version, client name, selected database, queue and watches of another connection are
    not changed by the session-level commands of this one -/
theorem session_private (c : Ctx) (s : State) (conn conn' ref : Nat) (m : Bool) (v : Int) (nm : Bytes)
    (h : (conn == conn') = false) :
    ((runCmd c s conn ref m (.hello (some v))).st.session conn' = s.session conn') ∧
    ((runCmd c s conn ref m (.clientSetname nm)).st.session conn' = s.session conn') ∧
    ((runCmd c s conn ref m .unwatch).st.session conn' = s.session conn') := by
  refine ⟨?_, ?_, ?_⟩
  · unfold runCmd; simp only; split_ifs <;> first | rfl | exact session_setSession_ne _ _ _ _ h
  · unfold runCmd; simp only; split_ifs <;> first | rfl | exact session_setSession_ne _ _ _ _ h
  · unfold runCmd; exact session_setSession_ne _ _ _ _ h

/-- HELLO with an unsupported version is refused and changes nothing (repaired behaviour) -/
theorem hello_unsupported_refused (c : Ctx) (s : State) (conn ref : Nat) (m : Bool) (v : Int)
    (hq : c.q.helloAnyVersion = false) (hv : v ≠ 2 ∧ v ≠ 3) :
    (runCmd c s conn ref m (.hello (some v))).st = s ∧
    (runCmd c s conn ref m (.hello (some v))).reply.isError = true := by
  unfold runCmd
  simp [hq, hv.1, hv.2, Value.isError]

/-- HELLO 2 / HELLO 3 switch exactly this connection's protocol -/
theorem hello_switches (c : Ctx) (s : State) (conn ref : Nat) (m : Bool) (v : Int) (hv : v = 2 ∨ v = 3) :
    ((runCmd c s conn ref m (.hello (some v))).st.session conn).resp = v := by
  unfold runCmd
  rcases hv with h | h <;> subst h <;> simp


/-! ### every data command, whatever its arguments -/

/-- what a data command may change: nothing but the database it is bound to -/
structure Local (s : State) (ref : Nat) (o : Out) : Prop where
  others : ∀ r, (ref == r) = false → o.st.getDb r = s.getDb r
  sessions : o.st.sessions = s.sessions
  table : o.st.table = s.table

theorem onDb_local (s : State) (ref : Nat) (f : Db → R) : Local s ref (onDb s ref f) :=
  ⟨fun r h => (onDb_other_untouched s ref r f h).1, by unfold onDb; simp, by unfold onDb; simp⟩

theorem same_local (s : State) (ref : Nat) (v : Value) : Local s ref { st := s, reply := v } :=
  ⟨fun _ _ => rfl, rfl, rfl⟩

/-- **A data command touches nothing but its own database.** Every command that is not a session or
    server command — any arguments, any state — leaves every other database, every connection's session
    (selected database, protocol, name, queue, watches) and the table of databases exactly as they were. -/
theorem data_command_local (c : Ctx) (s : State) (conn ref : Nat) (m : Bool) (cmd : Cmd)
    (hs : cmd.isSession = false) : Local s ref (runCmd c s conn ref m cmd) := by
  cases cmd <;> (try (simp [Cmd.isSession] at hs; done))
  all_goals simp only [runCmd]
  all_goals repeat' (first | exact onDb_local s ref _ | exact same_local s ref _ | split)

/-- … and what it answers and does there depends on nothing but that database: two servers that agree
    on it get the same reply and end with the same database. -/
theorem data_command_depends_on_own_db (c : Ctx) (s s' : State) (conn ref : Nat) (m : Bool) (cmd : Cmd)
    (hs : cmd.isSession = false) (hdb : s.getDb ref = s'.getDb ref) :
    (runCmd c s conn ref m cmd).reply = (runCmd c s' conn ref m cmd).reply ∧
    (runCmd c s conn ref m cmd).st.getDb ref = (runCmd c s' conn ref m cmd).st.getDb ref := by
  cases cmd <;> (try (simp [Cmd.isSession] at hs; done))
  all_goals simp only [runCmd]
  all_goals repeat' (first
    | (rw [(onDb_bound_db s ref _).1, (onDb_bound_db s ref _).2, (onDb_bound_db s' ref _).1, (onDb_bound_db s' ref _).2, hdb]; exact ⟨rfl, rfl⟩)
    | exact ⟨rfl, hdb⟩
    | split)

/-! ### SELECT inside a transaction (D25) -/

/-- the transaction `MULTI / SELECT 1 / SET k v / EXEC` of connection 1, then `GET k` by connection 2,
    which stays in database 0 -/
def selectInMulti (q : Quirks) : Out :=
  let c : Ctx := { q := q, now := 0 }
  let s0 := (State.init.connect 1 1).connect 2 2
  let s1 := (dispatch c s0 1 [sb "MULTI"]).st
  let s2 := (dispatch c s1 1 [sb "SELECT", sb "1"]).st
  let s3 := (dispatch c s2 1 [sb "SET", sb "k", sb "v"]).st
  let s4 := (dispatch c s3 1 [sb "EXEC"]).st
  dispatch c s4 2 [sb "GET", sb "k"]

/-- as the property asks: the SET runs in the database the transaction has selected by then, so a
    connection in database 0 does not see the key -/
theorem select_in_multi_binds_following_commands : (selectInMulti Quirks.none).reply.isNil = true := by
  decide +kernel

/-- D25 (known finding, the tree as it is): the SET was bound to database 0 when it was queued and
    writes there although the connection has selected database 1 by the time it runs -/
theorem select_in_multi_witness :
    (selectInMulti { Quirks.none with multiBindsAtQueue := true }).reply.bulk? = some (sb "v") := by
  decide +kernel

/-- for every transaction, with the quirk off: each queued command runs on the database its connection
    has selected at that moment (`Queued.ref` is the current selection, whatever was recorded) -/
theorem queued_ref_is_current_selection (x : Queued) (q : Quirks) (cur : Nat) (h : q.multiBindsAtQueue = false) :
    x.ref q cur = cur := by
  simp [Queued.ref, h]

end RedisEmu
