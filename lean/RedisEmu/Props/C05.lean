import RedisEmu.Exec
import RedisEmu.Proofs.Random
import RedisEmu.Props.C06
import Mathlib.Tactic.SplitIfs
/-
  C05 — set commands and set algebra. Theorems about `RedisEmu.Cmds` (family `set`).
  `S k` below is the operand a key denotes: its members, or nothing when the key is missing.
-/
namespace RedisEmu

/-- the set a key denotes for the algebra commands (missing key = empty set) -/
def operandSet (c : Ctx) (db : Db) (k : Bytes) : List Bytes := (setOperand c db k).getD []

def wellTyped (c : Ctx) (db : Db) (k : Bytes) : Prop := (setOperand c db k).isSome = true

theorem setOperand_cases (c : Ctx) (db : Db) (k : Bytes) :
    (setOf c db k = .error () ∧ setOperand c db k = none) ∨
    (setOf c db k = .ok none ∧ setOperand c db k = some []) ∨
    (∃ e s, setOf c db k = .ok (some (e, s)) ∧ setOperand c db k = some s) := by
  unfold setOperand
  cases h : setOf c db k with
  | error u => left; cases u; simp
  | ok o =>
    cases o with
    | none => right; left; simp
    | some p => right; right; obtain ⟨e, s⟩ := p; exact ⟨e, s, rfl, by simp⟩

/-! ### SINTER -/

theorem inter_go_spec (c : Ctx) (db : Db) (rest : List Bytes) :
    ∀ (d s : List Bytes), setAlgebra.go c db rest d = some s → (∀ k ∈ rest, wellTyped c db k) →
      ∀ m, m ∈ s ↔ (m ∈ d ∧ ∀ k ∈ rest, m ∈ operandSet c db k) := by
  induction rest with
  | nil =>
    intro d s h _ m
    simp only [setAlgebra.go, Option.some.injEq] at h
    subst h; simp
  | cons k r ih =>
    intro d s h hw m
    rcases setOperand_cases c db k with ⟨he, ho⟩ | ⟨he, ho⟩ | ⟨e, sk, he, ho⟩
    · have := hw k (by simp); simp [wellTyped, ho] at this
    · simp only [setAlgebra.go, he, Option.some.injEq] at h
      subst h
      simp [operandSet, ho]
    · simp only [setAlgebra.go, he] at h
      have hr := ih (d.filter (sk.contains ·)) s h (fun k' hk' => hw k' (by simp [hk'])) m
      rw [hr]
      simp only [List.mem_filter, List.contains_iff_mem, List.mem_cons, forall_eq_or_imp, operandSet, ho,
        Option.getD_some]
      constructor
      · rintro ⟨⟨h1, h2⟩, h3⟩; exact ⟨h1, h2, h3⟩
      · rintro ⟨h1, h2, h3⟩; exact ⟨⟨h1, h2⟩, h3⟩

/-- SINTER returns exactly the mathematical intersection of its operands, for any operand list
    (repeats included), missing keys being empty sets -/
theorem sinter_is_intersection (c : Ctx) (db : Db) (first : Bytes) (rest : List Bytes) (s : List Bytes)
    (h : setAlgebra c db .inter first rest = some s) (hw : ∀ k ∈ first :: rest, wellTyped c db k) :
    ∀ m, m ∈ s ↔ ∀ k ∈ first :: rest, m ∈ operandSet c db k := by
  intro m
  unfold setAlgebra at h
  rcases setOperand_cases c db first with ⟨he, ho⟩ | ⟨he, ho⟩ | ⟨e, sf, he, ho⟩
  · have := hw first (by simp); simp [wellTyped, ho] at this
  · simp only [he, Option.isNone_none, ↓reduceIte, Option.some.injEq] at h
    subst h
    simp [operandSet, ho]
  · simp only [he, Option.isNone_some, Bool.false_eq_true, ↓reduceIte] at h
    have := inter_go_spec c db rest sf s h (fun k hk => hw k (by simp [hk])) m
    rw [this]
    simp [operandSet, ho]

/-! ### SUNION and SDIFF -/

theorem mem_dedup (l : List Bytes) (m : Bytes) : m ∈ dedup l ↔ m ∈ l := by
  induction l with
  | nil => simp [dedup]
  | cons x r ih =>
    simp only [dedup, List.mem_cons, List.mem_filter, ih, bne_iff_ne, ne_eq]
    constructor
    · rintro (h | ⟨h, _⟩)
      · exact Or.inl h
      · exact Or.inr h
    · intro h
      by_cases hx : m = x
      · exact Or.inl hx
      · rcases h with h | h
        · exact absurd h hx
        · exact Or.inr ⟨h, hx⟩

theorem union_fold_spec (c : Ctx) (db : Db) (rest : List Bytes) :
    ∀ (d s : List Bytes),
      rest.foldl (fun acc k => match acc with
        | none => none
        | some d => match setOperand c db k with
          | none => none
          | some s => some (dedup (d ++ s))) (some d) = some s →
      ∀ m, m ∈ s ↔ (m ∈ d ∨ ∃ k ∈ rest, m ∈ operandSet c db k) := by
  induction rest with
  | nil => intro d s h m; simp only [List.foldl_nil, Option.some.injEq] at h; subst h; simp
  | cons k r ih =>
    intro d s h m
    simp only [List.foldl_cons] at h
    cases ho : setOperand c db k with
    | none =>
      simp only [ho] at h
      -- the accumulator stays `none`
      have : ∀ (l : List Bytes), l.foldl (fun acc k => match acc with
        | none => none
        | some d => match setOperand c db k with
          | none => none
          | some s => some (dedup (d ++ s))) (none : Option (List Bytes)) = none := by
        intro l; induction l with
        | nil => rfl
        | cons _ _ ih2 => simpa using ih2
      rw [this r] at h; cases h
    | some sk =>
      simp only [ho] at h
      rw [ih (dedup (d ++ sk)) s h m]
      simp only [mem_dedup, List.mem_append, List.mem_cons, exists_eq_or_imp, operandSet, ho, Option.getD_some]
      constructor
      · rintro ((h1 | h1) | h1)
        · exact Or.inl h1
        · exact Or.inr (Or.inl h1)
        · exact Or.inr (Or.inr h1)
      · rintro (h1 | h1 | h1)
        · exact Or.inl (Or.inl h1)
        · exact Or.inl (Or.inr h1)
        · exact Or.inr h1

/-- SUNION returns exactly the union of its operands -/
theorem sunion_is_union (c : Ctx) (db : Db) (first : Bytes) (rest : List Bytes) (s : List Bytes)
    (h : setAlgebra c db .union first rest = some s) :
    ∀ m, m ∈ s ↔ ∃ k ∈ first :: rest, m ∈ operandSet c db k := by
  intro m
  unfold setAlgebra at h
  rcases setOperand_cases c db first with ⟨he, ho⟩ | ⟨he, ho⟩ | ⟨e, sf, he, ho⟩
  · simp [he] at h
  · simp only [he] at h
    rw [union_fold_spec c db rest [] s h m]
    simp [operandSet, ho]
  · simp only [he] at h
    rw [union_fold_spec c db rest sf s h m]
    simp [operandSet, ho]

theorem diff_fold_spec (c : Ctx) (db : Db) (rest : List Bytes) :
    ∀ (d s : List Bytes),
      rest.foldl (fun acc k => match acc with
        | none => none
        | some d => match setOperand c db k with
          | none => none
          | some s => some (d.filter (!s.contains ·))) (some d) = some s →
      ∀ m, m ∈ s ↔ (m ∈ d ∧ ∀ k ∈ rest, m ∉ operandSet c db k) := by
  induction rest with
  | nil => intro d s h m; simp only [List.foldl_nil, Option.some.injEq] at h; subst h; simp
  | cons k r ih =>
    intro d s h m
    simp only [List.foldl_cons] at h
    cases ho : setOperand c db k with
    | none =>
      simp only [ho] at h
      have : ∀ (l : List Bytes), l.foldl (fun acc k => match acc with
        | none => none
        | some d => match setOperand c db k with
          | none => none
          | some s => some (d.filter (!s.contains ·))) (none : Option (List Bytes)) = none := by
        intro l; induction l with
        | nil => rfl
        | cons _ _ ih2 => simpa using ih2
      rw [this r] at h; cases h
    | some sk =>
      simp only [ho] at h
      rw [ih (d.filter (!sk.contains ·)) s h m]
      simp only [List.mem_filter, Bool.not_eq_eq_eq_not, Bool.not_true, List.mem_cons, forall_eq_or_imp,
        operandSet, ho, Option.getD_some]
      have hc : (sk.contains m = false) ↔ m ∉ sk := by
        rw [← List.contains_iff_mem]; simp
      rw [hc]
      constructor
      · rintro ⟨⟨h1, h2⟩, h3⟩; exact ⟨h1, h2, h3⟩
      · rintro ⟨h1, h2, h3⟩; exact ⟨⟨h1, h2⟩, h3⟩

/-- SDIFF returns exactly the first operand minus all the others -/
theorem sdiff_is_difference (c : Ctx) (db : Db) (first : Bytes) (rest : List Bytes) (s : List Bytes)
    (h : setAlgebra c db .diff first rest = some s) :
    ∀ m, m ∈ s ↔ (m ∈ operandSet c db first ∧ ∀ k ∈ rest, m ∉ operandSet c db k) := by
  intro m
  unfold setAlgebra at h
  rcases setOperand_cases c db first with ⟨he, ho⟩ | ⟨he, ho⟩ | ⟨e, sf, he, ho⟩
  · simp [he] at h
  · simp only [he, Option.isNone_none, ↓reduceIte, Option.some.injEq] at h
    subst h
    simp [operandSet, ho]
  · simp only [he, Option.isNone_some, Bool.false_eq_true, ↓reduceIte] at h
    rw [diff_fold_spec c db rest sf s h m]
    simp [operandSet, ho]

/-! ### the non-STORE forms never modify an operand; the STORE forms replace the destination -/

theorem algebra_pure (c : Ctx) (db : Db) (op : SetOp) (ks : List Bytes) :
    (cmdSetAlgebra c db op ks).db = db := by
  unfold cmdSetAlgebra
  cases ks with
  | nil => rfl
  | cons f r => simp only; cases h : setAlgebra c db op f r <;> simp [R.ok]

/-- a non-empty result replaces the destination (whatever it held, operand or not) with exactly
    that result and no deadline; an empty result deletes it -/
theorem store_replaces (c : Ctx) (db : Db) (op : SetOp) (dst f : Bytes) (r s : List Bytes)
    (h : setAlgebra c db op f r = some s) :
    (cmdSetAlgebraStore c db op dst (f :: r)).db =
      (if s.isEmpty then db.del dst else db.put dst (.set s) none) ∧
    (cmdSetAlgebraStore c db op dst (f :: r)).reply = vInt s.length := by
  unfold cmdSetAlgebraStore
  simp only [h]
  split_ifs with he
  · have : s = [] := by simpa using he
    subst this; exact ⟨rfl, rfl⟩
  · exact ⟨rfl, rfl⟩

/-- a wrong-typed operand makes the STORE form fail without touching anything -/
theorem store_wrongtype_inert (c : Ctx) (db : Db) (op : SetOp) (dst f : Bytes) (r : List Bytes)
    (h : setAlgebra c db op f r = none) :
    (cmdSetAlgebraStore c db op dst (f :: r)).db = db ∧
    (cmdSetAlgebraStore c db op dst (f :: r)).reply = wrongType := by
  unfold cmdSetAlgebraStore
  simp [h, R.ok]

/-! ### SINTERCARD and its LIMIT clause (known finding D88) -/

/-- how a parsed SINTERCARD splits its words: (numkeys, number of keys, limit) -/
def sintercardShape : Option Cmd → Option (Int × Nat × Int)
  | some (.sintercard nk ks lim) => some (nk, ks.length, lim)
  | _ => none

/-- D88: a trailing `LIMIT <integer>` is read as the option although numkeys makes the two words keys
    (`SINTERCARD 4 k k limit 1`: Redis intersects the four keys `k k limit 1`) -/
theorem sintercard_limit_greedy_witness :
    sintercardShape (parseCmdQ { Quirks.none with sintercardLimitGreedy := true } (sb "SINTERCARD")
        [sb "4", sb "k", sb "k", sb "limit", sb "1"]) = some (4, 2, 1) ∧
    sintercardShape (parseCmdQ Quirks.none (sb "SINTERCARD")
        [sb "4", sb "k", sb "k", sb "limit", sb "1"]) = some (4, 4, 0) := by
  decide +kernel

/-! ### a set is a set: SADD / SREM as operations on membership, for every argument list -/

/-- after SADD the members are exactly the old ones and the added ones -/
theorem saddAll_mem (ms : List Bytes) : ∀ (s : List Bytes) (n : Nat) (x : Bytes),
    x ∈ (saddAll ms s n).1 ↔ x ∈ s ∨ x ∈ ms := by
  induction ms with
  | nil => intro s n x; simp [saddAll]
  | cons m r ih =>
    intro s n x
    unfold saddAll
    split
    · rename_i hc
      rw [ih]
      have hm : m ∈ s := by simpa using hc
      constructor
      · rintro (h | h)
        · exact Or.inl h
        · exact Or.inr (List.mem_cons_of_mem _ h)
      · rintro (h | h)
        · exact Or.inl h
        · rcases List.mem_cons.mp h with e | e
          · subst e; exact Or.inl hm
          · exact Or.inr e
    · rw [ih]
      simp only [List.mem_append, List.mem_cons, List.not_mem_nil, or_false]
      constructor
      · rintro ((h | h) | h)
        · exact Or.inl h
        · exact Or.inr (Or.inl h)
        · exact Or.inr (Or.inr h)
      · rintro (h | h | h)
        · exact Or.inl (Or.inl h)
        · exact Or.inl (Or.inr h)
        · exact Or.inr h

/-- no member is ever held twice -/
theorem saddAll_nodup (ms : List Bytes) : ∀ (s : List Bytes) (n : Nat), s.Nodup → (saddAll ms s n).1.Nodup := by
  induction ms with
  | nil => intro s n h; exact h
  | cons m r ih =>
    intro s n h
    unfold saddAll
    split
    · exact ih s n h
    · rename_i hc
      apply ih
      have hm : m ∉ s := by simpa using hc
      rw [List.nodup_append]
      refine ⟨h, by simp, ?_⟩
      intro a ha b hb
      simp at hb
      subst hb
      intro e
      subst e
      exact hm ha

/-- the reply of SADD is the number of members that were really added -/
theorem saddAll_count (ms : List Bytes) : ∀ (s : List Bytes) (n : Nat),
    (saddAll ms s n).2 + s.length = n + (saddAll ms s n).1.length := by
  induction ms with
  | nil => intro s n; simp [saddAll]
  | cons m r ih =>
    intro s n
    unfold saddAll
    split
    · exact ih s n
    · have := ih (s ++ [m]) (n + 1)
      simp only [List.length_append, List.length_singleton] at this
      omega

/-- after SREM the members are exactly the old ones that were not named -/
theorem sremAll_mem (ms : List Bytes) : ∀ (s : List Bytes) (n : Nat) (x : Bytes), s.Nodup →
    (x ∈ (sremAll ms s n).1 ↔ x ∈ s ∧ x ∉ ms) := by
  induction ms with
  | nil => intro s n x _; simp [sremAll]
  | cons m r ih =>
    intro s n x hn
    unfold sremAll
    split
    · rename_i he
      have : s = [] := by simpa using he
      subst this
      simp
    · split
      · rename_i hc
        rw [ih _ _ _ (hn.erase m)]
        rw [hn.mem_erase_iff]
        simp only [List.mem_cons, not_or]
        constructor
        · rintro ⟨⟨h1, h2⟩, h3⟩; exact ⟨h2, h1, h3⟩
        · rintro ⟨h1, h2, h3⟩; exact ⟨⟨h2, h1⟩, h3⟩
      · rename_i hc
        have hm : m ∉ s := by simpa using hc
        rw [ih _ _ _ hn]
        simp only [List.mem_cons, not_or]
        constructor
        · rintro ⟨h1, h2⟩; exact ⟨h1, fun e => hm (e ▸ h1), h2⟩
        · rintro ⟨h1, _, h3⟩; exact ⟨h1, h3⟩

theorem sremAll_nodup (ms : List Bytes) : ∀ (s : List Bytes) (n : Nat), s.Nodup → (sremAll ms s n).1.Nodup := by
  induction ms with
  | nil => intro s n h; exact h
  | cons m r ih =>
    intro s n h
    unfold sremAll
    split
    · exact h
    · split
      · exact ih _ _ (h.erase m)
      · exact ih _ _ h

/-- the reply of SREM is the number of members that were really removed -/
theorem sremAll_count (ms : List Bytes) : ∀ (s : List Bytes) (n : Nat),
    (sremAll ms s n).2 + (sremAll ms s n).1.length = n + s.length := by
  induction ms with
  | nil => intro s n; simp [sremAll]
  | cons m r ih =>
    intro s n
    unfold sremAll
    split
    · rfl
    · split
      · rename_i hc
        have hm : m ∈ s := by simpa using hc
        have := ih (s.erase m) (n + 1)
        rw [List.length_erase_of_mem hm] at this
        have hp : 0 < s.length := List.length_pos_of_mem hm
        omega
      · exact ih s n


set_option linter.unusedSectionVars false

/-! ### no member twice, no field twice — in every stored set and hash, after every command -/

/-- a set without a repeated member, a hash without a repeated field -/
def Val.distinct : Val → Prop
  | .set s => s.Nodup
  | .hash h => (h.map (·.1)).Nodup
  | _ => True

/-- every stored set / hash is duplicate-free -/
structure Db.Distinct (db : Db) : Prop where
  all : ∀ p ∈ db.keys, p.2.val.distinct

theorem distinct_init : ({} : Db).Distinct := ⟨by intro p hp; simp at hp⟩

theorem distinct_put (db : Db) (k : Bytes) (v : Val) (x : Option Int) (h : db.Distinct) (hv : v.distinct) :
    (db.put k v x).Distinct := by
  refine ⟨fun p hp => ?_⟩
  rcases mem_ainsert k _ db.keys p hp with e | hm
  · subst e; exact hv
  · exact h.all p hm

theorem distinct_poke (db : Db) (k : Bytes) (e : Entry) (h : db.Distinct) (hv : e.val.distinct) :
    (db.poke k e).Distinct := by
  refine ⟨fun p hp => ?_⟩
  rcases mem_ainsert k _ db.keys p hp with e' | hm
  · subst e'; exact hv
  · exact h.all p hm

theorem distinct_del (db : Db) (k : Bytes) (h : db.Distinct) : (db.del k).Distinct := by
  unfold Db.del
  split
  · exact ⟨fun p hp => h.all p (mem_aerase k db.keys p hp)⟩
  · exact h

theorem distinct_setDirty (db : Db) (h : db.Distinct) : db.setDirty.Distinct := ⟨h.all⟩

theorem distinct_dirtyUnlessQuirk (c : Ctx) (db : Db) (h : db.Distinct) : (dirtyUnlessQuirk c db).Distinct := by
  unfold dirtyUnlessQuirk; split
  · exact h
  · exact distinct_setDirty _ h

theorem distinct_bump (c : Ctx) (db : Db) (e : Entry) (h : db.Distinct) : (bump c db e).1.Distinct := by
  unfold bump; split
  · exact h
  · exact ⟨h.all⟩

theorem distinct_update (db : Db) (k : Bytes) (e : Entry) (v : Val) (h : db.Distinct) (hv : v.distinct) :
    (db.update k e v).Distinct := by
  unfold Db.update
  simp only
  have key : ∀ (p : Prop) [Decidable p], (if p then (db.del k).setDirty else (db.poke k { e with val := v }).setDirty).Distinct := by
    intro p _
    split
    · exact distinct_setDirty _ (distinct_del db k h)
    · exact distinct_setDirty _ (distinct_poke db k _ h hv)
  exact key _

theorem distinct_upd (c : Ctx) (db : Db) (k : Bytes) (e : Entry) (v : Val) (h : db.Distinct) (hv : v.distinct) :
    (upd c db k e v).Distinct := by
  unfold upd
  exact distinct_update _ _ _ _ (distinct_bump c db e h) hv

theorem live_distinct {db : Db} {now : Int} {k : Bytes} {e : Entry} (hi : db.Distinct) (h : db.live now k = some e) :
    e.val.distinct :=
  hi.all (k, e) (mem_of_alookup k db.keys e (live_some_raw h).1)

theorem srcLookup_distinct {c : Ctx} {db : Db} {k : Bytes} {e : Entry} (hi : db.Distinct) (h : srcLookup c db k = some e) :
    e.val.distinct := by
  unfold srcLookup at h
  split at h
  · exact hi.all (k, e) (mem_of_alookup k db.keys e h)
  · exact live_distinct hi h

theorem setOf_distinct {c : Ctx} {db : Db} {k : Bytes} {e : Entry} {s : List Bytes} (hi : db.Distinct)
    (h : setOf c db k = .ok (some (e, s))) : s.Nodup := by
  unfold setOf at h
  split at h
  · rename_i e' hl
    split at h
    · rename_i s' hv
      cases h
      have := live_distinct hi hl
      rw [hv] at this
      exact this
    · cases h
  · cases h

theorem hashOf_distinct {c : Ctx} {db : Db} {k : Bytes} {e : Entry} {hh : List (Bytes × Bytes)} (hi : db.Distinct)
    (h : hashOf c db k = .ok (some (e, hh))) : (hh.map (·.1)).Nodup := by
  unfold hashOf at h
  split at h
  · rename_i e' hl
    split at h
    · rename_i s' hv
      cases h
      have := live_distinct hi hl
      rw [hv] at this
      exact this
    · cases h
  · cases h

theorem dedup_nodup (l : List Bytes) : (dedup l).Nodup := by
  induction l with
  | nil => simp [dedup]
  | cons x r ih =>
    unfold dedup
    rw [List.nodup_cons]
    refine ⟨?_, ih.filter _⟩
    intro hm
    have := (List.mem_filter.mp hm).2
    simp at this

theorem inter_go_nodup (c : Ctx) (db : Db) (rest : List Bytes) : ∀ (d s : List Bytes), d.Nodup →
    setAlgebra.go c db rest d = some s → s.Nodup := by
  induction rest with
  | nil => intro d s hd h; simp only [setAlgebra.go] at h; cases h; exact hd
  | cons k r ih =>
    intro d s hd h
    unfold setAlgebra.go at h
    split at h
    · cases h
    · cases h; exact List.nodup_nil
    · exact ih _ s (hd.filter _) h

theorem fold_nodup_diff (c : Ctx) (db : Db) (rest : List Bytes) : ∀ (acc : Option (List Bytes)) (s : List Bytes),
    (∀ d, acc = some d → d.Nodup) →
    rest.foldl (fun acc k => match acc with
        | none => none
        | some d => match setOperand c db k with
          | none => none
          | some s => some (d.filter (!s.contains ·))) acc = some s → s.Nodup := by
  induction rest with
  | nil => intro acc s ha h; exact ha s h
  | cons k r ih =>
    intro acc s ha h
    simp only [List.foldl_cons] at h
    refine ih _ s ?_ h
    intro d hd
    split at hd
    · cases hd
    · rename_i d0
      split at hd
      · cases hd
      · cases hd; exact (ha d0 rfl).filter _

theorem fold_nodup_union (c : Ctx) (db : Db) (rest : List Bytes) : ∀ (acc : Option (List Bytes)) (s : List Bytes),
    (∀ d, acc = some d → d.Nodup) →
    rest.foldl (fun acc k => match acc with
        | none => none
        | some d => match setOperand c db k with
          | none => none
          | some s => some (dedup (d ++ s))) acc = some s → s.Nodup := by
  induction rest with
  | nil => intro acc s ha h; exact ha s h
  | cons k r ih =>
    intro acc s ha h
    simp only [List.foldl_cons] at h
    refine ih _ s ?_ h
    intro d hd
    split at hd
    · cases hd
    · split at hd
      · cases hd
      · cases hd; exact dedup_nodup _

/-- the result of SINTER / SUNION / SDIFF has no repeated member -/
theorem setAlgebra_nodup (c : Ctx) (db : Db) (op : SetOp) (f : Bytes) (r s : List Bytes) (hi : db.Distinct)
    (h : setAlgebra c db op f r = some s) : s.Nodup := by
  unfold setAlgebra at h
  split at h
  · cases h
  · rename_i firstInfo hf
    have hm : (match firstInfo with | some (_, s) => s | none => []).Nodup := by
      cases firstInfo with
      | none => exact List.nodup_nil
      | some p => obtain ⟨e, m⟩ := p; exact setOf_distinct hi hf
    dsimp only at h
    split at h
    · split at h
      · cases h; exact List.nodup_nil
      · exact fold_nodup_diff c db r _ s (fun d hd => by cases hd; exact hm) h
    · exact fold_nodup_union c db r _ s (fun d hd => by cases hd; exact hm) h
    · split at h
      · cases h; exact List.nodup_nil
      · exact inter_go_nodup c db r _ s hm h

theorem hsetAll_fields (nx : Bool) (fvs : List (Bytes × Bytes)) : ∀ (h : List (Bytes × Bytes)) (n : Nat),
    (h.map (·.1)).Nodup → ((hsetAll nx fvs h n).1.map (·.1)).Nodup := by
  induction fvs with
  | nil => intro h n hu; exact hu
  | cons p r ih =>
    intro h n hu
    obtain ⟨f, v⟩ := p
    unfold hsetAll
    split
    · split
      · exact ih h n hu
      · exact ih _ _ (ainsert_keys_nodup f v h hu)
    · exact ih _ _ (ainsert_keys_nodup f v h hu)

theorem hdelAll_fields (fs : List Bytes) : ∀ (h : List (Bytes × Bytes)) (n : Nat),
    (h.map (·.1)).Nodup → ((hdelAll fs h n).1.map (·.1)).Nodup := by
  induction fs with
  | nil => intro h n hu; exact hu
  | cons g r ih =>
    intro h n hu
    unfold hdelAll
    split
    · exact hu
    · split
      · exact ih _ _ (aerase_keys_nodup g h hu)
      · exact ih _ _ hu

theorem saddAll_nodup' {ms s r : List Bytes} {n k : Nat} (h : saddAll ms s n = (r, k)) (hs : s.Nodup) : r.Nodup := by
  have := saddAll_nodup ms s n hs; rw [h] at this; exact this
theorem sremAll_nodup' {ms s r : List Bytes} {n k : Nat} (h : sremAll ms s n = (r, k)) (hs : s.Nodup) : r.Nodup := by
  have := sremAll_nodup ms s n hs; rw [h] at this; exact this
theorem hsetAll_fields' {nx : Bool} {fvs hh r : List (Bytes × Bytes)} {n k : Nat} (h : hsetAll nx fvs hh n = (r, k))
    (hs : (hh.map (·.1)).Nodup) : (r.map (·.1)).Nodup := by
  have := hsetAll_fields nx fvs hh n hs; rw [h] at this; exact this
theorem hdelAll_fields' {fs : List Bytes} {hh r : List (Bytes × Bytes)} {n k : Nat} (h : hdelAll fs hh n = (r, k))
    (hs : (hh.map (·.1)).Nodup) : (r.map (·.1)).Nodup := by
  have := hdelAll_fields fs hh n hs; rw [h] at this; exact this
theorem nodup_snoc {l : List Bytes} {m : Bytes} (hl : l.Nodup) (hm : ¬ (l.contains m) = true) : (l ++ [m]).Nodup := by
  have hm' : m ∉ l := by simpa using hm
  rw [List.nodup_append]
  refine ⟨hl, by simp, ?_⟩
  intro a ha b hb
  simp at hb
  subst hb
  intro e
  subst e
  exact hm' ha

theorem distinct_poke_bump {c : Ctx} {db db1 : Db} {e e1 : Entry} (k : Bytes) (e' : Entry) (hi : db.Distinct)
    (hb : bump c db e = (db1, e1)) (hv : e'.val.distinct) : (db1.poke k e').Distinct := by
  have := distinct_bump c db e hi
  rw [hb] at this
  exact distinct_poke _ _ _ this hv

attribute [local irreducible] bump

theorem setKey_distinct (c : Ctx) (db : Db) (k v : Bytes) (o : SetOpts) (a b : Bool) (h : db.Distinct) :
    (setKey c db k v o a b).1.Distinct := by
  unfold setKey
  repeat' (first | assumption | trivial | (refine distinct_put _ _ _ _ ?_ ?_) | split | dsimp only)

theorem putAll_distinct (kvs : List (Bytes × Bytes)) : ∀ (db : Db), db.Distinct → (putAll db kvs).Distinct := by
  induction kvs with
  | nil => intro db h; exact h
  | cons p r ih =>
    intro db h
    obtain ⟨k, v⟩ := p
    unfold putAll
    exact ih _ (distinct_put _ _ _ _ h trivial)

macro "keepd" : tactic => `(tactic| (repeat' (first
  | assumption
  | trivial
  | (exact setKey_distinct _ _ _ _ _ _ _ (by assumption))
  | (exact putAll_distinct _ _ (by assumption))
  | (refine distinct_put _ _ _ _ ?_ ?_)
  | (refine distinct_setDirty _ ?_)
  | (refine distinct_del _ _ ?_)
  | (refine distinct_upd _ _ _ _ _ ?_ ?_)
  | (refine distinct_dirtyUnlessQuirk _ _ ?_)
  | (refine distinct_poke _ _ _ (distinct_bump _ _ _ ?_) ?_)
  | (exact live_distinct (by assumption) (by assumption))
  | (exact srcLookup_distinct (by assumption) (by assumption))
  | (simp only [bump_val]; exact live_distinct (by assumption) (by assumption))
  | (refine distinct_poke_bump _ _ (by assumption) (by assumption) ?_)
  | (rw [bump_val' (by assumption)]; exact live_distinct (by assumption) (by assumption))
  | (exact saddAll_nodup' (by assumption) (setOf_distinct (by assumption) (by assumption)))
  | (exact saddAll_nodup' (by assumption) List.nodup_nil)
  | (exact sremAll_nodup' (by assumption) (setOf_distinct (by assumption) (by assumption)))
  | (exact hsetAll_fields' (by assumption) (hashOf_distinct (by assumption) (by assumption)))
  | (exact hsetAll_fields' (by assumption) List.nodup_nil)
  | (exact hdelAll_fields' (by assumption) (hashOf_distinct (by assumption) (by assumption)))
  | (exact (setOf_distinct (by assumption) (by assumption)).erase _)
  | (exact nodup_snoc (setOf_distinct (by assumption) (by assumption)) (by assumption))
  | (exact saddAll_nodup _ _ _ (setOf_distinct (by assumption) (by assumption)))
  | (exact saddAll_nodup _ _ _ List.nodup_nil)
  | (exact sremAll_nodup _ _ _ (setOf_distinct (by assumption) (by assumption)))
  | (exact hsetAll_fields _ _ _ _ (hashOf_distinct (by assumption) (by assumption)))
  | (exact hsetAll_fields _ _ _ _ List.nodup_nil)
  | (exact hdelAll_fields _ _ _ (hashOf_distinct (by assumption) (by assumption)))
  | (exact ainsert_keys_nodup _ _ _ (hashOf_distinct (by assumption) (by assumption)))
  | (exact setAlgebra_nodup _ _ _ _ _ _ (by assumption) (by assumption))
  | (simp only [Val.distinct, List.map_cons, List.map_nil, List.nodup_cons, List.not_mem_nil, not_false_eq_true, List.nodup_nil, and_self]; done)
  | split
  | dsimp only [R.ok, Val.distinct])))

section
variable (c : Ctx) (db : Db) (k k2 v f m : Bytes) (i j : Int) (o : SetOpts) (b b2 : Bool)
  (ks : List Bytes) (kvs : List (Bytes × Bytes)) (oi oj ok' : Option Int) (n : Nat)
  (h : db.Distinct)
include h

theorem set_distinct : (cmdSet c db k v o b).db.Distinct := by unfold cmdSet; keepd
theorem get_distinct : (cmdGet c db k).db.Distinct := by unfold cmdGet; keepd
theorem getdel_distinct : (cmdGetDel c db k).db.Distinct := by unfold cmdGetDel; keepd
theorem getex_distinct (e : Option ExpArg) : (cmdGetEx c db k e).db.Distinct := by unfold cmdGetEx; keepd
theorem strlen_distinct : (cmdStrlen c db k).db.Distinct := by unfold cmdStrlen; keepd
theorem getrange_distinct : (cmdGetRange c db k i j).db.Distinct := by unfold cmdGetRange; keepd
theorem setrange_distinct : (cmdSetRange c db k i v).db.Distinct := by unfold cmdSetRange; keepd
theorem incrby_distinct : (cmdIncrBy c db k i).db.Distinct := by unfold cmdIncrBy; keepd
theorem mget_distinct : (cmdMGet c db ks).db.Distinct := by unfold cmdMGet; keepd
theorem mset_distinct : (cmdMSet c db kvs b).db.Distinct := by unfold cmdMSet; keepd
theorem incrbyfloat_distinct : (cmdIncrByFloat c db k v).db.Distinct := by unfold cmdIncrByFloat; keepd
theorem push_distinct : (cmdPush c db k ks b b2).db.Distinct := by unfold cmdPush; keepd
theorem llen_distinct : (cmdLLen c db k).db.Distinct := by unfold cmdLLen; keepd
theorem lindex_distinct : (cmdLIndex c db k i).db.Distinct := by unfold cmdLIndex; keepd
theorem lrange_distinct : (cmdLRange c db k i j).db.Distinct := by unfold cmdLRange; keepd
theorem lset_distinct : (cmdLSet c db k i v).db.Distinct := by unfold cmdLSet; keepd
theorem linsert_distinct : (cmdLInsert c db k b v m).db.Distinct := by unfold cmdLInsert; keepd
theorem lrem_distinct : (cmdLRem c db k i v).db.Distinct := by unfold cmdLRem; keepd
theorem ltrim_distinct : (cmdLTrim c db k i j).db.Distinct := by unfold cmdLTrim; keepd
theorem lpos_distinct : (cmdLPos c db k v oi oj ok').db.Distinct := by unfold cmdLPos; keepd
theorem hset_distinct : (cmdHSet c db k kvs b b2).db.Distinct := by unfold cmdHSet; keepd
theorem hget_distinct : (cmdHGet c db k f).db.Distinct := by unfold cmdHGet; keepd
theorem hmget_distinct : (cmdHMGet c db k ks).db.Distinct := by unfold cmdHMGet; keepd
theorem hgetall_distinct : (cmdHGetAll c db k).db.Distinct := by unfold cmdHGetAll; keepd
theorem hkeys_distinct : (cmdHKeys c db k b).db.Distinct := by unfold cmdHKeys; keepd
theorem hlen_distinct : (cmdHLen c db k).db.Distinct := by unfold cmdHLen; keepd
theorem hexists_distinct : (cmdHExists c db k f).db.Distinct := by unfold cmdHExists; keepd
theorem hstrlen_distinct : (cmdHStrlen c db k f).db.Distinct := by unfold cmdHStrlen; keepd
theorem hdel_distinct : (cmdHDel c db k ks).db.Distinct := by unfold cmdHDel; keepd
theorem hincrby_distinct : (cmdHIncrBy c db k f i).db.Distinct := by unfold cmdHIncrBy; keepd
theorem hincrbyfloat_distinct : (cmdHIncrByFloat c db k f v).db.Distinct := by unfold cmdHIncrByFloat; keepd
theorem sadd_distinct : (cmdSAdd c db k ks).db.Distinct := by unfold cmdSAdd; keepd
theorem srem_distinct : (cmdSRem c db k ks).db.Distinct := by unfold cmdSRem; keepd
theorem scard_distinct : (cmdSCard c db k).db.Distinct := by unfold cmdSCard; keepd
theorem sismember_distinct : (cmdSIsMember c db k m).db.Distinct := by unfold cmdSIsMember; keepd
theorem smismember_distinct : (cmdSMIsMember c db k ks).db.Distinct := by unfold cmdSMIsMember; keepd
theorem smembers_distinct : (cmdSMembers c db k).db.Distinct := by unfold cmdSMembers; keepd
theorem smove_distinct : (cmdSMove c db k k2 m).db.Distinct := by unfold cmdSMove; keepd
theorem setalgebra_distinct (op : SetOp) : (cmdSetAlgebra c db op ks).db.Distinct := by unfold cmdSetAlgebra; keepd
theorem setalgebrastore_distinct (op : SetOp) : (cmdSetAlgebraStore c db op k ks).db.Distinct := by unfold cmdSetAlgebraStore; keepd
theorem sintercard_distinct : (cmdSInterCard c db i ks j).db.Distinct := by unfold cmdSInterCard; keepd
theorem exists_distinct : (cmdExists c db ks).db.Distinct := by unfold cmdExists; keepd
theorem type_distinct : (cmdType c db k).db.Distinct := by unfold cmdType; keepd
theorem rename_distinct : (cmdRename c db k k2 b).db.Distinct := by unfold cmdRename; keepd
theorem copy_distinct : (cmdCopy c db k k2 b).db.Distinct := by unfold cmdCopy; keepd
theorem expireat_distinct (opt : ExpireOpt) : (cmdExpireAt c db k i opt).db.Distinct := by unfold cmdExpireAt; keepd
theorem persist_distinct : (cmdPersist c db k).db.Distinct := by unfold cmdPersist; keepd
theorem ttl_distinct (kind : TtlKind) : (cmdTtl c db k kind).db.Distinct := by unfold cmdTtl; keepd
theorem getbit_distinct : (cmdGetBit c db k i).db.Distinct := by unfold cmdGetBit; keepd
theorem bitpos_distinct (st : Option Int) (en : Option (Int × Bool)) : (cmdBitPos c db k i st en).db.Distinct := by unfold cmdBitPos; keepd
theorem bitop_distinct : (cmdBitOp c db k k2 ks).db.Distinct := by unfold cmdBitOp; keepd
theorem bitfieldParsed_distinct (ps : List BfParsed) : (cmdBitfieldParsed c db k ps).db.Distinct := by unfold cmdBitfieldParsed; keepd

theorem append_distinct : (cmdAppend c db k v).db.Distinct := by
  unfold cmdAppend
  have hk := setKey_distinct c db k v { get := true } true (!c.q.appendDropsTtl) h
  split
  rename_i heq
  rw [heq] at hk
  split
  · exact h
  · exact hk
theorem decrby_distinct : (cmdDecrBy c db k i).db.Distinct := by
  unfold cmdDecrBy
  split
  · exact h
  · exact incrby_distinct c db k _ h
theorem pop_distinct : (cmdPop c db k oi b).db.Distinct := by
  have go : ∀ n multi, (cmdPop.go c db k b n multi).db.Distinct := by
    intro n multi
    unfold cmdPop.go
    keepd
  unfold cmdPop
  split
  · split
    · exact h
    · exact go _ _
  · exact go _ _
theorem del_distinct : (cmdDel c db ks b).db.Distinct := by
  unfold cmdDel
  have key : ∀ (ks : List Bytes) (acc : Db × Nat), acc.1.Distinct →
      (ks.foldl (fun (acc : Db × Nat) (k : Bytes) =>
        match acc with
        | (db, n) =>
          match db.live c.now k with
          | some e =>
            if (b || !c.q.unlinkKeepsObject) = true then (db.del k, n + 1)
            else (db.poke k { val := e.val, exp := some 0, id := e.id }, n + 1)
          | none => if b = true then (db.del k, n) else (db, n)) acc).1.Distinct := by
    intro ks
    induction ks with
    | nil => intro acc h; exact h
    | cons x r ih =>
      intro acc hacc
      simp only [List.foldl_cons]
      apply ih
      obtain ⟨d, n⟩ := acc
      dsimp only
      split
      · rename_i e hl
        split
        · exact distinct_del _ _ hacc
        · exact distinct_poke _ _ _ hacc (live_distinct (e := e) hacc hl)
      · split
        · exact distinct_del _ _ hacc
        · exact hacc
  exact key ks (db, 0) h
theorem bitfield_distinct (ops : List BfOp) : (cmdBitfield c db k ops).db.Distinct := by
  unfold cmdBitfield
  split
  · exact h
  · exact bitfieldParsed_distinct c db k h _
theorem setbit_distinct : (cmdSetBit c db k i j).db.Distinct := by
  unfold cmdSetBit
  split
  · exact h
  · split
    · exact h
    · have hb := bitfieldParsed_distinct c db k h [{ kind := .set, signed := false, width := 1, off := i, value := j, ov := .wrap }]
      dsimp only
      split <;> exact hb
theorem bitcount_distinct (r : Option (Int × Int × Bool)) : (cmdBitCount c db k r).db.Distinct := by
  unfold cmdBitCount
  split
  · exact h
  · split_ifs <;> first
      | exact h
      | (extract_lets; split_ifs <;> exact h)
  · exact h
theorem lmove_distinct : (cmdLMove c db k k2 b b2).db.Distinct := by unfold cmdLMove; keepd
theorem lmpop_distinct : (cmdLMPop c db ks b n).db.Distinct := by
  have go : ∀ ks, (cmdLMPop.go c db b n ks).db.Distinct := by
    intro ks
    induction ks with
    | nil => exact h
    | cons x r ih =>
      unfold cmdLMPop.go
      split
      · exact h
      · exact ih
      · split
        · exact ih
        · dsimp only [R.ok]; exact distinct_upd _ _ _ _ _ h trivial
  unfold cmdLMPop
  exact go ks
theorem bpop_distinct : (runCmd.go c b db ks).db.Distinct := by
  induction ks with
  | nil => exact h
  | cons x r ih =>
    unfold runCmd.go
    split
    · exact h
    · exact ih
    · split
      · exact ih
      · dsimp only [R.ok]; exact distinct_upd _ _ _ _ _ h trivial
theorem sortFinish_distinct (store : Option Bytes) (out : List Value) (hint : Match) :
    (sortFinish db store out hint).db.Distinct := by
  unfold sortFinish
  keepd
theorem sort_distinct (by_ : Option Bytes) (limit : Option (Int × Int)) (gets : List Bytes) (store : Option Bytes) :
    (cmdSort c db k by_ limit gets b b2 store).db.Distinct := by
  unfold cmdSort
  split
  · exact h
  · exact sortFinish_distinct db h _ _ _
  · split
    · exact h
    · exact sortFinish_distinct db h _ _ _
end

/-- every database of the server holds duplicate-free sets and hashes -/
def State.DInv (s : State) : Prop := ∀ r, (s.getDb r).Distinct

theorem dinv_init : ({} : State).DInv := fun r => by
  have : ({} : State).getDb r = {} := by simp [State.getDb]
  rw [this]; exact distinct_init

theorem dinv_of_getDb_eq (s s' : State) (hs : s.DInv) (h : ∀ r, s'.getDb r = s.getDb r) : s'.DInv := by
  intro r; rw [h r]; exact hs r

theorem onDb_dinv (s : State) (ref : Nat) (f : Db → R) (hs : s.DInv) (h : (f (s.getDb ref)).db.Distinct) :
    (onDb s ref f).st.DInv := by
  intro r
  unfold onDb
  by_cases e : (ref == r) = true
  · have : ref = r := by simpa using e
    subst this
    simp only [getDb_setDb_self]
    exact h
  · simp only [getDb_setDb_ne _ _ _ _ (by simpa using e)]
    exact hs r

theorem distinct_flushed (n : Nat) : ({ keys := [], nextId := n, dirty := false } : Db).Distinct := ⟨by simp⟩

/-- **A set never holds a member twice, a hash never a field twice** — after any command, with any
    arguments, in every database of the server. -/
theorem runCmd_distinct (c : Ctx) (s : State) (conn ref : Nat) (m : Bool) (cmd : Cmd)
    (hs : s.DInv) : (runCmd c s conn ref m cmd).st.DInv := by
  cases cmd
  case copy a b rep dbOpt =>
    simp only [runCmd]
    split
    · exact hs
    · exact onDb_dinv s ref _ hs (copy_distinct (h := hs ref) ..)
  case lmpop nk ks l cnt =>
    simp only [runCmd]
    split
    · exact hs
    · split
      · exact hs
      · exact onDb_dinv s ref _ hs (lmpop_distinct (h := hs ref) ..)
  case set a0 a1 a2 a3 => simp only [runCmd]; exact onDb_dinv s ref _ hs (set_distinct (h := hs ref) ..)
  case append a0 a1 => simp only [runCmd]; exact onDb_dinv s ref _ hs (append_distinct (h := hs ref) ..)
  case get a0 => simp only [runCmd]; exact onDb_dinv s ref _ hs (get_distinct (h := hs ref) ..)
  case getdel a0 => simp only [runCmd]; exact onDb_dinv s ref _ hs (getdel_distinct (h := hs ref) ..)
  case getex a0 a1 => simp only [runCmd]; exact onDb_dinv s ref _ hs (getex_distinct (h := hs ref) ..)
  case strlen a0 => simp only [runCmd]; exact onDb_dinv s ref _ hs (strlen_distinct (h := hs ref) ..)
  case getrange a0 a1 a2 => simp only [runCmd]; exact onDb_dinv s ref _ hs (getrange_distinct (h := hs ref) ..)
  case setrange a0 a1 a2 => simp only [runCmd]; exact onDb_dinv s ref _ hs (setrange_distinct (h := hs ref) ..)
  case incrby a0 a1 => simp only [runCmd]; exact onDb_dinv s ref _ hs (incrby_distinct (h := hs ref) ..)
  case decrby a0 a1 => simp only [runCmd]; exact onDb_dinv s ref _ hs (decrby_distinct (h := hs ref) ..)
  case incrbyfloat a0 a1 => simp only [runCmd]; exact onDb_dinv s ref _ hs (incrbyfloat_distinct (h := hs ref) ..)
  case mget a0 => simp only [runCmd]; exact onDb_dinv s ref _ hs (mget_distinct (h := hs ref) ..)
  case mset a0 a1 => simp only [runCmd]; exact onDb_dinv s ref _ hs (mset_distinct (h := hs ref) ..)
  case push a0 a1 a2 a3 => simp only [runCmd]; exact onDb_dinv s ref _ hs (push_distinct (h := hs ref) ..)
  case pop a0 a1 a2 => simp only [runCmd]; exact onDb_dinv s ref _ hs (pop_distinct (h := hs ref) ..)
  case llen a0 => simp only [runCmd]; exact onDb_dinv s ref _ hs (llen_distinct (h := hs ref) ..)
  case lindex a0 a1 => simp only [runCmd]; exact onDb_dinv s ref _ hs (lindex_distinct (h := hs ref) ..)
  case lrange a0 a1 a2 => simp only [runCmd]; exact onDb_dinv s ref _ hs (lrange_distinct (h := hs ref) ..)
  case lset a0 a1 a2 => simp only [runCmd]; exact onDb_dinv s ref _ hs (lset_distinct (h := hs ref) ..)
  case linsert a0 a1 a2 a3 => simp only [runCmd]; exact onDb_dinv s ref _ hs (linsert_distinct (h := hs ref) ..)
  case lrem a0 a1 a2 => simp only [runCmd]; exact onDb_dinv s ref _ hs (lrem_distinct (h := hs ref) ..)
  case ltrim a0 a1 a2 => simp only [runCmd]; exact onDb_dinv s ref _ hs (ltrim_distinct (h := hs ref) ..)
  case lpos a0 a1 a2 a3 a4 => simp only [runCmd]; exact onDb_dinv s ref _ hs (lpos_distinct (h := hs ref) ..)
  case lmove a0 a1 a2 a3 => simp only [runCmd]; exact onDb_dinv s ref _ hs (lmove_distinct (h := hs ref) ..)
  case hset a0 a1 a2 a3 => simp only [runCmd]; exact onDb_dinv s ref _ hs (hset_distinct (h := hs ref) ..)
  case hget a0 a1 => simp only [runCmd]; exact onDb_dinv s ref _ hs (hget_distinct (h := hs ref) ..)
  case hmget a0 a1 => simp only [runCmd]; exact onDb_dinv s ref _ hs (hmget_distinct (h := hs ref) ..)
  case hgetall a0 => simp only [runCmd]; exact onDb_dinv s ref _ hs (hgetall_distinct (h := hs ref) ..)
  case hkeys a0 a1 => simp only [runCmd]; exact onDb_dinv s ref _ hs (hkeys_distinct (h := hs ref) ..)
  case hlen a0 => simp only [runCmd]; exact onDb_dinv s ref _ hs (hlen_distinct (h := hs ref) ..)
  case hexists a0 a1 => simp only [runCmd]; exact onDb_dinv s ref _ hs (hexists_distinct (h := hs ref) ..)
  case hstrlen a0 a1 => simp only [runCmd]; exact onDb_dinv s ref _ hs (hstrlen_distinct (h := hs ref) ..)
  case hdel a0 a1 => simp only [runCmd]; exact onDb_dinv s ref _ hs (hdel_distinct (h := hs ref) ..)
  case hincrby a0 a1 a2 => simp only [runCmd]; exact onDb_dinv s ref _ hs (hincrby_distinct (h := hs ref) ..)
  case hincrbyfloat a0 a1 a2 => simp only [runCmd]; exact onDb_dinv s ref _ hs (hincrbyfloat_distinct (h := hs ref) ..)
  case sadd a0 a1 => simp only [runCmd]; exact onDb_dinv s ref _ hs (sadd_distinct (h := hs ref) ..)
  case srem a0 a1 => simp only [runCmd]; exact onDb_dinv s ref _ hs (srem_distinct (h := hs ref) ..)
  case scard a0 => simp only [runCmd]; exact onDb_dinv s ref _ hs (scard_distinct (h := hs ref) ..)
  case sismember a0 a1 => simp only [runCmd]; exact onDb_dinv s ref _ hs (sismember_distinct (h := hs ref) ..)
  case smismember a0 a1 => simp only [runCmd]; exact onDb_dinv s ref _ hs (smismember_distinct (h := hs ref) ..)
  case smembers a0 => simp only [runCmd]; exact onDb_dinv s ref _ hs (smembers_distinct (h := hs ref) ..)
  case smove a0 a1 a2 => simp only [runCmd]; exact onDb_dinv s ref _ hs (smove_distinct (h := hs ref) ..)
  case salg a0 a1 => simp only [runCmd]; exact onDb_dinv s ref _ hs (setalgebra_distinct (h := hs ref) ..)
  case salgStore a0 a1 a2 => simp only [runCmd]; exact onDb_dinv s ref _ hs (setalgebrastore_distinct (h := hs ref) ..)
  case sintercard a0 a1 a2 => simp only [runCmd]; exact onDb_dinv s ref _ hs (sintercard_distinct (h := hs ref) ..)
  case del a0 a1 => simp only [runCmd]; exact onDb_dinv s ref _ hs (del_distinct (h := hs ref) ..)
  case exists_ a0 => simp only [runCmd]; exact onDb_dinv s ref _ hs (exists_distinct (h := hs ref) ..)
  case touch a0 => simp only [runCmd]; exact onDb_dinv s ref _ hs (exists_distinct (h := hs ref) ..)
  case type_ a0 => simp only [runCmd]; exact onDb_dinv s ref _ hs (type_distinct (h := hs ref) ..)
  case rename a0 a1 a2 => simp only [runCmd]; exact onDb_dinv s ref _ hs (rename_distinct (h := hs ref) ..)
  case sort a0 a1 a2 a3 a4 a5 a6 => simp only [runCmd]; exact onDb_dinv s ref _ hs (sort_distinct (h := hs ref) ..)
  case persist a0 => simp only [runCmd]; exact onDb_dinv s ref _ hs (persist_distinct (h := hs ref) ..)
  case ttl a0 a1 => simp only [runCmd]; exact onDb_dinv s ref _ hs (ttl_distinct (h := hs ref) ..)
  case getbit a0 a1 => simp only [runCmd]; exact onDb_dinv s ref _ hs (getbit_distinct (h := hs ref) ..)
  case setbit a0 a1 a2 => simp only [runCmd]; exact onDb_dinv s ref _ hs (setbit_distinct (h := hs ref) ..)
  case bitcount a0 a1 => simp only [runCmd]; exact onDb_dinv s ref _ hs (bitcount_distinct (h := hs ref) ..)
  case bitpos a0 a1 a2 a3 => simp only [runCmd]; exact onDb_dinv s ref _ hs (bitpos_distinct (h := hs ref) ..)
  case bitop a0 a1 a2 => simp only [runCmd]; exact onDb_dinv s ref _ hs (bitop_distinct (h := hs ref) ..)
  case bitfield a0 a1 a2 => simp only [runCmd]; exact onDb_dinv s ref _ hs (bitfield_distinct (h := hs ref) ..)
  case expire k n u a o => simp only [runCmd]; exact onDb_dinv s ref _ hs (expireat_distinct (h := hs ref) ..)
  case bpop ks l => simp only [runCmd]; exact onDb_dinv s ref _ hs (bpop_distinct (h := hs ref) ..)
  case select i =>
    simp only [runCmd]
    split
    · exact hs
    · apply dinv_of_getDb_eq s _ hs
      intro r
      simp only [getDb_setSession]
      exact getDb_tableRef s _ r
  case flushdb =>
    simp only [runCmd]
    split
    · apply dinv_of_getDb_eq s _ hs
      intro r
      simp only [getDb_setSession]
      rw [getDb_tableRef]
      rfl
    · intro r
      by_cases e : ((s.tableRef (s.session conn).dbIdx).2 == r) = true
      · have : (s.tableRef (s.session conn).dbIdx).2 = r := by simpa using e
        subst this
        simp only [getDb_setDb_self]
        exact distinct_flushed _
      · simp only [getDb_setDb_ne _ _ _ _ (by simpa using e)]
        rw [getDb_tableRef]
        exact hs r
  case flushall =>
    simp only [runCmd]
    split
    · apply dinv_of_getDb_eq s _ hs
      intro r
      simp only [getDb_setSession]
      rw [getDb_tableRef]
      rfl
    · intro r
      rw [getDb_flush_heap]
      exact distinct_flushed _
  case watch ks =>
    simp only [runCmd]
    split
    · exact hs
    · exact dinv_of_getDb_eq s _ hs (fun r => getDb_setSession _ _ _ r)
  case unwatch => exact dinv_of_getDb_eq s _ hs (fun r => getDb_setSession _ _ _ r)
  case hello v =>
    simp only [runCmd]
    split
    · split
      · exact hs
      · exact dinv_of_getDb_eq s _ hs (fun r => getDb_setSession _ _ _ r)
    · exact hs
  case clientSetname nm =>
    simp only [runCmd]
    split
    · exact hs
    · exact dinv_of_getDb_eq s _ hs (fun r => getDb_setSession _ _ _ r)
  case ping o => cases o <;> exact hs
  case dbsize => simp only [runCmd]; exact hs
  all_goals
    simp only [runCmd]
    first
      | exact hs
      | (apply onDb_dinv s ref _ hs; have h := hs ref; keepd)

theorem runEvents_distinct (evs : List Ev) : ∀ (s : State), s.DInv → (runEvents s evs).DInv := by
  induction evs with
  | nil => intro s hs; exact hs
  | cons e r ih => intro s hs; exact ih _ (runCmd_distinct e.c s e.conn e.ref e.inMulti e.cmd hs)

/-- in every reachable state SCARD is the number of different members: the stored set of a live key
    has no repeated member (so SADD / SREM / SISMEMBER / the set algebra see a mathematical set) -/
theorem reachable_sets_are_sets (evs : List Ev) (r : Nat) (k : Bytes) (e : Entry) (now : Int) (members : List Bytes)
    (h : ((runEvents {} evs).getDb r).live now k = some e) (hv : e.val = .set members) : members.Nodup := by
  have := live_distinct (runEvents_distinct evs {} dinv_init r) h
  rw [hv] at this
  exact this

/-! ### SRANDMEMBER: for every outcome of the random source (`RedisEmu.Random`) -/

/-- **SRANDMEMBER.** `m` are the members of the set as the model stores them (no member twice, C05's
    `Db.Distinct`), `bs` any bucket table holding exactly those members, `rs` whatever `rand.Intn` delivers.
    If the selection comes to an end, the reply is one member (no count), min(n, SCARD) distinct members
    (count n ≥ 0), or exactly |n| members with repeats allowed (count n < 0) — `validateRandom`, the same
    predicate the correspondence run applies to every SRANDMEMBER reply of the implementation. -/
theorem srandmember_reply (m : List Bytes) (bs : Buckets) (count : Option Int) (rs : List Nat) (v : Value)
    (hd : m.Nodup) (hb : bs.members.Perm m) (h : randReply bs count rs = some v) :
    validateRandom m count v = true := by
  rw [← validateRandom_perm bs.members m hb]
  exact random_reply_valid bs count rs v (hb.nodup_iff.mpr hd) h

/-- a positive count: distinct members, as many as asked for or all of them -/
theorem srandmember_positive_count (bs : Buckets) (n : Nat) (rs is : List Nat) (hm : bs.members.Nodup)
    (h : pickUnique bs n rs = some is) :
    (keysAt bs is).Nodup ∧ (keysAt bs is).length = min n bs.members.length ∧ ∀ k ∈ keysAt bs is, k ∈ bs.members := by
  have ⟨hl, hn, ho⟩ := pickUnique_spec bs n rs is h
  have ⟨kl, km⟩ := keysAt_spec bs is ho
  exact ⟨keysAt_nodup bs hm is hn ho, by rw [kl, hl], km⟩

/-- a negative count: exactly |count| members, repeats allowed -/
theorem srandmember_negative_count (bs : Buckets) (n : Nat) (rs is : List Nat) (h : pickRandom bs n rs = some is) :
    (keysAt bs is).length = n ∧ ∀ k ∈ keysAt bs is, k ∈ bs.members := by
  have ⟨hl, ho⟩ := pickRandom_spec bs n rs is h
  have ⟨kl, km⟩ := keysAt_spec bs is ho
  exact ⟨by rw [kl, hl], km⟩

/-- non-vacuity: a table of four buckets with three members; a sequence that hits an empty bucket and
    a bucket twice; count 5 gives the three members, count -4 gives four with a repeat -/
theorem srandmember_examples :
    let bs : Buckets := [some [97], none, some [98], some [99]]
    randReply bs (some 5) [1, 0, 0, 2, 1, 3, 3] = some (.array [.bulk [97], .bulk [98], .bulk [99]]) ∧
    randReply bs (some (-4)) [1, 0, 0, 2, 1, 3] = some (.array [.bulk [97], .bulk [97], .bulk [98], .bulk [99]]) ∧
    randReply bs none [5, 6] = some (.bulk [98]) ∧
    randReply bs (some 2) [1, 1, 1] = none := by
  refine ⟨rfl, rfl, rfl, rfl⟩

/-! ### SINTERCARD with LIMIT, SMOVE -/

/-- SINTERCARD of two sets: the number of members of the first that the second has too, cut at LIMIT when
    LIMIT is positive; nothing is changed -/
theorem sintercard_two (c : Ctx) (db : Db) (k1 k2 : Bytes) (e1 e2 : Entry) (s1 s2 : List Bytes) (limit : Int)
    (h1 : setOf c db k1 = .ok (some (e1, s1))) (h2 : setOf c db k2 = .ok (some (e2, s2))) :
    cmdSInterCard c db 2 [k1, k2] limit =
      R.ok db (vInt (if limit > 0 && limit.toNat < (s1.filter (s2.contains ·)).length then limit.toNat
                     else (s1.filter (s2.contains ·)).length)) := by
  unfold cmdSInterCard
  simp [cmdSInterCard.collect, h1, h2]

/-- a missing key among the operands makes the intersection empty -/
theorem sintercard_missing (c : Ctx) (db : Db) (k1 k2 : Bytes) (e1 : Entry) (s1 : List Bytes) (limit : Int)
    (h1 : setOf c db k1 = .ok (some (e1, s1))) (h2 : setOf c db k2 = .ok none) :
    cmdSInterCard c db 2 [k1, k2] limit = R.ok db (.int 0) := by
  unfold cmdSInterCard
  simp [cmdSInterCard.collect, h1, h2]

/-- SMOVE of a member the source has, to another set: it leaves the source, the destination has it, reply 1;
    a member the source does not have: nothing happens, reply 0 -/
theorem smove_absent (c : Ctx) (db : Db) (src dst m : Bytes) (se : Entry) (ss : List Bytes)
    (h1 : setOf c db src = .ok (some (se, ss))) (hm : ss.contains m = false) :
    cmdSMove c db src dst m = R.ok db (.int 0) := by
  unfold cmdSMove
  have hm' : m ∉ ss := by simpa using hm
  simp [h1, hm']

theorem smove_wrongtype_destination_inert (c : Ctx) (db : Db) (src dst m : Bytes) (se : Entry) (ss : List Bytes)
    (h1 : setOf c db src = .ok (some (se, ss))) (hm : ss.contains m = true) (hne : (src == dst) = false)
    (h2 : setOf c db dst = .error ()) :
    cmdSMove c db src dst m = R.ok db wrongType := by
  unfold cmdSMove
  have hm' : m ∈ ss := by simpa using hm
  have hne' : src ≠ dst := by simpa using hne
  simp [h1, hm', hne', h2]

end RedisEmu
