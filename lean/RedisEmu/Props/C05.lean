import RedisEmu.Exec
import Mathlib.Tactic.SplitIfs
/-
  C05 — set commands and set algebra. Theorems about `RedisEmu.Cmds` (family `set`).
  `S k` below is the operand a key denotes: its members, or nothing when the key is missing.
-/
namespace RedisEmu

/-- the set a key denotes for the algebra commands (missing key = empty set) -/
def operandSet (c : Ctx) (db : Db) (k : Bytes) : List Bytes := (setOperand c db k).getD []

def wellTyped (c : Ctx) (db : Db) (k : Bytes) : Prop := (setOperand c db k).isSome = true

theorem setOperand_cases (c : Ctx) (db : Db) (k : Bytes) :
    (setOf c db k = .error () ∧ setOperand c db k = none) ∨
    (setOf c db k = .ok none ∧ setOperand c db k = some []) ∨
    (∃ e s, setOf c db k = .ok (some (e, s)) ∧ setOperand c db k = some s) := by
  unfold setOperand
  cases h : setOf c db k with
  | error u => left; cases u; simp
  | ok o =>
    cases o with
    | none => right; left; simp
    | some p => right; right; obtain ⟨e, s⟩ := p; exact ⟨e, s, rfl, by simp⟩

/-! ### SINTER -/

theorem inter_go_spec (c : Ctx) (db : Db) (rest : List Bytes) :
    ∀ (d s : List Bytes), setAlgebra.go c db rest d = some s → (∀ k ∈ rest, wellTyped c db k) →
      ∀ m, m ∈ s ↔ (m ∈ d ∧ ∀ k ∈ rest, m ∈ operandSet c db k) := by
  induction rest with
  | nil =>
    intro d s h _ m
    simp only [setAlgebra.go, Option.some.injEq] at h
    subst h; simp
  | cons k r ih =>
    intro d s h hw m
    rcases setOperand_cases c db k with ⟨he, ho⟩ | ⟨he, ho⟩ | ⟨e, sk, he, ho⟩
    · have := hw k (by simp); simp [wellTyped, ho] at this
    · simp only [setAlgebra.go, he, Option.some.injEq] at h
      subst h
      simp [operandSet, ho]
    · simp only [setAlgebra.go, he] at h
      have hr := ih (d.filter (sk.contains ·)) s h (fun k' hk' => hw k' (by simp [hk'])) m
      rw [hr]
      simp only [List.mem_filter, List.contains_iff_mem, List.mem_cons, forall_eq_or_imp, operandSet, ho,
        Option.getD_some]
      constructor
      · rintro ⟨⟨h1, h2⟩, h3⟩; exact ⟨h1, h2, h3⟩
      · rintro ⟨h1, h2, h3⟩; exact ⟨⟨h1, h2⟩, h3⟩

/-- SINTER returns exactly the mathematical intersection of its operands, for any operand list
    (repeats included), missing keys being empty sets -/
theorem sinter_is_intersection (c : Ctx) (db : Db) (first : Bytes) (rest : List Bytes) (s : List Bytes)
    (h : setAlgebra c db .inter first rest = some s) (hw : ∀ k ∈ first :: rest, wellTyped c db k) :
    ∀ m, m ∈ s ↔ ∀ k ∈ first :: rest, m ∈ operandSet c db k := by
  intro m
  unfold setAlgebra at h
  rcases setOperand_cases c db first with ⟨he, ho⟩ | ⟨he, ho⟩ | ⟨e, sf, he, ho⟩
  · have := hw first (by simp); simp [wellTyped, ho] at this
  · simp only [he, Option.isNone_none, ↓reduceIte, Option.some.injEq] at h
    subst h
    simp [operandSet, ho]
  · simp only [he, Option.isNone_some, Bool.false_eq_true, ↓reduceIte] at h
    have := inter_go_spec c db rest sf s h (fun k hk => hw k (by simp [hk])) m
    rw [this]
    simp [operandSet, ho]

/-! ### SUNION and SDIFF -/

theorem mem_dedup (l : List Bytes) (m : Bytes) : m ∈ dedup l ↔ m ∈ l := by
  induction l with
  | nil => simp [dedup]
  | cons x r ih =>
    simp only [dedup, List.mem_cons, List.mem_filter, ih, bne_iff_ne, ne_eq]
    constructor
    · rintro (h | ⟨h, _⟩)
      · exact Or.inl h
      · exact Or.inr h
    · intro h
      by_cases hx : m = x
      · exact Or.inl hx
      · rcases h with h | h
        · exact absurd h hx
        · exact Or.inr ⟨h, hx⟩

theorem union_fold_spec (c : Ctx) (db : Db) (rest : List Bytes) :
    ∀ (d s : List Bytes),
      rest.foldl (fun acc k => match acc with
        | none => none
        | some d => match setOperand c db k with
          | none => none
          | some s => some (dedup (d ++ s))) (some d) = some s →
      ∀ m, m ∈ s ↔ (m ∈ d ∨ ∃ k ∈ rest, m ∈ operandSet c db k) := by
  induction rest with
  | nil => intro d s h m; simp only [List.foldl_nil, Option.some.injEq] at h; subst h; simp
  | cons k r ih =>
    intro d s h m
    simp only [List.foldl_cons] at h
    cases ho : setOperand c db k with
    | none =>
      simp only [ho] at h
      -- the accumulator stays `none`
      have : ∀ (l : List Bytes), l.foldl (fun acc k => match acc with
        | none => none
        | some d => match setOperand c db k with
          | none => none
          | some s => some (dedup (d ++ s))) (none : Option (List Bytes)) = none := by
        intro l; induction l with
        | nil => rfl
        | cons _ _ ih2 => simpa using ih2
      rw [this r] at h; cases h
    | some sk =>
      simp only [ho] at h
      rw [ih (dedup (d ++ sk)) s h m]
      simp only [mem_dedup, List.mem_append, List.mem_cons, exists_eq_or_imp, operandSet, ho, Option.getD_some]
      constructor
      · rintro ((h1 | h1) | h1)
        · exact Or.inl h1
        · exact Or.inr (Or.inl h1)
        · exact Or.inr (Or.inr h1)
      · rintro (h1 | h1 | h1)
        · exact Or.inl (Or.inl h1)
        · exact Or.inl (Or.inr h1)
        · exact Or.inr h1

/-- SUNION returns exactly the union of its operands -/
theorem sunion_is_union (c : Ctx) (db : Db) (first : Bytes) (rest : List Bytes) (s : List Bytes)
    (h : setAlgebra c db .union first rest = some s) :
    ∀ m, m ∈ s ↔ ∃ k ∈ first :: rest, m ∈ operandSet c db k := by
  intro m
  unfold setAlgebra at h
  rcases setOperand_cases c db first with ⟨he, ho⟩ | ⟨he, ho⟩ | ⟨e, sf, he, ho⟩
  · simp [he] at h
  · simp only [he] at h
    rw [union_fold_spec c db rest [] s h m]
    simp [operandSet, ho]
  · simp only [he] at h
    rw [union_fold_spec c db rest sf s h m]
    simp [operandSet, ho]

theorem diff_fold_spec (c : Ctx) (db : Db) (rest : List Bytes) :
    ∀ (d s : List Bytes),
      rest.foldl (fun acc k => match acc with
        | none => none
        | some d => match setOperand c db k with
          | none => none
          | some s => some (d.filter (!s.contains ·))) (some d) = some s →
      ∀ m, m ∈ s ↔ (m ∈ d ∧ ∀ k ∈ rest, m ∉ operandSet c db k) := by
  induction rest with
  | nil => intro d s h m; simp only [List.foldl_nil, Option.some.injEq] at h; subst h; simp
  | cons k r ih =>
    intro d s h m
    simp only [List.foldl_cons] at h
    cases ho : setOperand c db k with
    | none =>
      simp only [ho] at h
      have : ∀ (l : List Bytes), l.foldl (fun acc k => match acc with
        | none => none
        | some d => match setOperand c db k with
          | none => none
          | some s => some (d.filter (!s.contains ·))) (none : Option (List Bytes)) = none := by
        intro l; induction l with
        | nil => rfl
        | cons _ _ ih2 => simpa using ih2
      rw [this r] at h; cases h
    | some sk =>
      simp only [ho] at h
      rw [ih (d.filter (!sk.contains ·)) s h m]
      simp only [List.mem_filter, Bool.not_eq_eq_eq_not, Bool.not_true, List.mem_cons, forall_eq_or_imp,
        operandSet, ho, Option.getD_some]
      have hc : (sk.contains m = false) ↔ m ∉ sk := by
        rw [← List.contains_iff_mem]; simp
      rw [hc]
      constructor
      · rintro ⟨⟨h1, h2⟩, h3⟩; exact ⟨h1, h2, h3⟩
      · rintro ⟨h1, h2, h3⟩; exact ⟨⟨h1, h2⟩, h3⟩

/-- SDIFF returns exactly the first operand minus all the others -/
theorem sdiff_is_difference (c : Ctx) (db : Db) (first : Bytes) (rest : List Bytes) (s : List Bytes)
    (h : setAlgebra c db .diff first rest = some s) :
    ∀ m, m ∈ s ↔ (m ∈ operandSet c db first ∧ ∀ k ∈ rest, m ∉ operandSet c db k) := by
  intro m
  unfold setAlgebra at h
  rcases setOperand_cases c db first with ⟨he, ho⟩ | ⟨he, ho⟩ | ⟨e, sf, he, ho⟩
  · simp [he] at h
  · simp only [he, Option.isNone_none, ↓reduceIte, Option.some.injEq] at h
    subst h
    simp [operandSet, ho]
  · simp only [he, Option.isNone_some, Bool.false_eq_true, ↓reduceIte] at h
    rw [diff_fold_spec c db rest sf s h m]
    simp [operandSet, ho]

/-! ### the non-STORE forms never modify an operand; the STORE forms replace the destination -/

theorem algebra_pure (c : Ctx) (db : Db) (op : SetOp) (ks : List Bytes) :
    (cmdSetAlgebra c db op ks).db = db := by
  unfold cmdSetAlgebra
  cases ks with
  | nil => rfl
  | cons f r => simp only; cases h : setAlgebra c db op f r <;> simp [R.ok]

/-- a non-empty result replaces the destination (whatever it held, operand or not) with exactly
    that result and no deadline; an empty result deletes it -/
theorem store_replaces (c : Ctx) (db : Db) (op : SetOp) (dst f : Bytes) (r s : List Bytes)
    (h : setAlgebra c db op f r = some s) :
    (cmdSetAlgebraStore c db op dst (f :: r)).db =
      (if s.isEmpty then db.del dst else db.put dst (.set s) none) ∧
    (cmdSetAlgebraStore c db op dst (f :: r)).reply = vInt s.length := by
  unfold cmdSetAlgebraStore
  simp only [h]
  split_ifs with he
  · have : s = [] := by simpa using he
    subst this; exact ⟨rfl, rfl⟩
  · exact ⟨rfl, rfl⟩

/-- a wrong-typed operand makes the STORE form fail without touching anything -/
theorem store_wrongtype_inert (c : Ctx) (db : Db) (op : SetOp) (dst f : Bytes) (r : List Bytes)
    (h : setAlgebra c db op f r = none) :
    (cmdSetAlgebraStore c db op dst (f :: r)).db = db ∧
    (cmdSetAlgebraStore c db op dst (f :: r)).reply = wrongType := by
  unfold cmdSetAlgebraStore
  simp [h, R.ok]

/-! ### SINTERCARD and its LIMIT clause (known finding D88) -/

/-- how a parsed SINTERCARD splits its words: (numkeys, number of keys, limit) -/
def sintercardShape : Option Cmd → Option (Int × Nat × Int)
  | some (.sintercard nk ks lim) => some (nk, ks.length, lim)
  | _ => none

/-- D88: a trailing `LIMIT <integer>` is read as the option although numkeys makes the two words keys
    (`SINTERCARD 4 k k limit 1`: Redis intersects the four keys `k k limit 1`) -/
theorem sintercard_limit_greedy_witness :
    sintercardShape (parseCmdQ { Quirks.none with sintercardLimitGreedy := true } (sb "SINTERCARD")
        [sb "4", sb "k", sb "k", sb "limit", sb "1"]) = some (4, 2, 1) ∧
    sintercardShape (parseCmdQ Quirks.none (sb "SINTERCARD")
        [sb "4", sb "k", sb "k", sb "limit", sb "1"]) = some (4, 4, 0) := by
  decide +kernel

/-! ### a set is a set: SADD / SREM as operations on membership, for every argument list -/

/-- after SADD the members are exactly the old ones and the added ones -/
theorem saddAll_mem (ms : List Bytes) : ∀ (s : List Bytes) (n : Nat) (x : Bytes),
    x ∈ (saddAll ms s n).1 ↔ x ∈ s ∨ x ∈ ms := by
  induction ms with
  | nil => intro s n x; simp [saddAll]
  | cons m r ih =>
    intro s n x
    unfold saddAll
    split
    · rename_i hc
      rw [ih]
      have hm : m ∈ s := by simpa using hc
      constructor
      · rintro (h | h)
        · exact Or.inl h
        · exact Or.inr (List.mem_cons_of_mem _ h)
      · rintro (h | h)
        · exact Or.inl h
        · rcases List.mem_cons.mp h with e | e
          · subst e; exact Or.inl hm
          · exact Or.inr e
    · rw [ih]
      simp only [List.mem_append, List.mem_cons, List.not_mem_nil, or_false]
      constructor
      · rintro ((h | h) | h)
        · exact Or.inl h
        · exact Or.inr (Or.inl h)
        · exact Or.inr (Or.inr h)
      · rintro (h | h | h)
        · exact Or.inl (Or.inl h)
        · exact Or.inl (Or.inr h)
        · exact Or.inr h

/-- no member is ever held twice -/
theorem saddAll_nodup (ms : List Bytes) : ∀ (s : List Bytes) (n : Nat), s.Nodup → (saddAll ms s n).1.Nodup := by
  induction ms with
  | nil => intro s n h; exact h
  | cons m r ih =>
    intro s n h
    unfold saddAll
    split
    · exact ih s n h
    · rename_i hc
      apply ih
      have hm : m ∉ s := by simpa using hc
      rw [List.nodup_append]
      refine ⟨h, by simp, ?_⟩
      intro a ha b hb
      simp at hb
      subst hb
      intro e
      subst e
      exact hm ha

/-- the reply of SADD is the number of members that were really added -/
theorem saddAll_count (ms : List Bytes) : ∀ (s : List Bytes) (n : Nat),
    (saddAll ms s n).2 + s.length = n + (saddAll ms s n).1.length := by
  induction ms with
  | nil => intro s n; simp [saddAll]
  | cons m r ih =>
    intro s n
    unfold saddAll
    split
    · exact ih s n
    · have := ih (s ++ [m]) (n + 1)
      simp only [List.length_append, List.length_singleton] at this
      omega

/-- after SREM the members are exactly the old ones that were not named -/
theorem sremAll_mem (ms : List Bytes) : ∀ (s : List Bytes) (n : Nat) (x : Bytes), s.Nodup →
    (x ∈ (sremAll ms s n).1 ↔ x ∈ s ∧ x ∉ ms) := by
  induction ms with
  | nil => intro s n x _; simp [sremAll]
  | cons m r ih =>
    intro s n x hn
    unfold sremAll
    split
    · rename_i he
      have : s = [] := by simpa using he
      subst this
      simp
    · split
      · rename_i hc
        rw [ih _ _ _ (hn.erase m)]
        rw [hn.mem_erase_iff]
        simp only [List.mem_cons, not_or]
        constructor
        · rintro ⟨⟨h1, h2⟩, h3⟩; exact ⟨h2, h1, h3⟩
        · rintro ⟨h1, h2, h3⟩; exact ⟨⟨h2, h1⟩, h3⟩
      · rename_i hc
        have hm : m ∉ s := by simpa using hc
        rw [ih _ _ _ hn]
        simp only [List.mem_cons, not_or]
        constructor
        · rintro ⟨h1, h2⟩; exact ⟨h1, fun e => hm (e ▸ h1), h2⟩
        · rintro ⟨h1, _, h3⟩; exact ⟨h1, h3⟩

theorem sremAll_nodup (ms : List Bytes) : ∀ (s : List Bytes) (n : Nat), s.Nodup → (sremAll ms s n).1.Nodup := by
  induction ms with
  | nil => intro s n h; exact h
  | cons m r ih =>
    intro s n h
    unfold sremAll
    split
    · exact h
    · split
      · exact ih _ _ (h.erase m)
      · exact ih _ _ h

/-- the reply of SREM is the number of members that were really removed -/
theorem sremAll_count (ms : List Bytes) : ∀ (s : List Bytes) (n : Nat),
    (sremAll ms s n).2 + (sremAll ms s n).1.length = n + s.length := by
  induction ms with
  | nil => intro s n; simp [sremAll]
  | cons m r ih =>
    intro s n
    unfold sremAll
    split
    · rfl
    · split
      · rename_i hc
        have hm : m ∈ s := by simpa using hc
        have := ih (s.erase m) (n + 1)
        rw [List.length_erase_of_mem hm] at this
        have hp : 0 < s.length := List.length_pos_of_mem hm
        omega
      · exact ih s n

end RedisEmu
