import RedisEmu.Exec
import RedisEmu.Proofs.State
import Mathlib.Tactic.SplitIfs
/-
  C15 — RESP2 and RESP3 carry the same information. Theorems about `down` (= `resp3To2` of
  `resp.go` after the repair of D03) and about HELLO.
-/
namespace RedisEmu

mutual
  /-- only RESP2 types: simple string, error, integer, bulk string, nil, array of those -/
  def Value.isResp2 : Value → Bool
    | .simple _ | .error _ | .int _ | .bulk _ | .nil => true
    | .array xs => Value.allResp2 xs
    | _ => false
  def Value.allResp2 : List Value → Bool
    | [] => true
    | x :: xs => x.isResp2 && Value.allResp2 xs
end

mutual
  /-- the reply shapes handlers build: everything except push messages and stream end marks;
      map keys and pair members are scalars (as `nativeValueToResp` produces them) -/
  def Value.replyShape : Value → Bool
    | .push _ _ | .endMark => false
    | .array xs | .set xs => Value.allShape xs
    | .map kvs | .attr kvs => Value.pairsShape kvs
    | .pairs kvs => Value.pairsScalar kvs
    | _ => true
  def Value.allShape : List Value → Bool
    | [] => true
    | x :: xs => x.replyShape && Value.allShape xs
  def Value.pairsShape : List (Value × Value) → Bool
    | [] => true
    | (_, v) :: r => v.replyShape && Value.pairsShape r
  def Value.pairsScalar : List (Value × Value) → Bool
    | [] => true
    | (k, v) :: r => k.isResp2 && v.isResp2 && Value.pairsScalar r
end

mutual
  /-- **Under RESP2 only RESP2 types are emitted**: the down-conversion of any reply a handler can
      build — nil, nested arrays, maps, sets, doubles, big numbers, booleans, verbatim text, blob
      errors, pair lists — contains RESP2 types only. -/
  theorem down_isResp2 : ∀ (v : Value), v.replyShape = true → (down v).isResp2 = true
    | .simple _, _ | .error _, _ | .int _, _ | .bulk _, _ | .nil, _ | .null, _ => by simp [down, Value.isResp2]
    | .double _, _ | .big _, _ | .verbatim _ _, _ | .blobErr _, _ => by simp [down, Value.isResp2]
    | .bool true, _ | .bool false, _ => by simp [down, Value.isResp2]
    | .array xs, h => by
        simp only [down, Value.isResp2]; exact downList_allResp2 xs (by simpa [Value.replyShape] using h)
    | .set xs, h => by
        simp only [down, Value.isResp2]; exact downList_allResp2 xs (by simpa [Value.replyShape] using h)
    | .map kvs, h => by
        simp only [down, Value.isResp2]; exact downMap_allResp2 kvs (by simpa [Value.replyShape] using h)
    | .attr kvs, h => by
        simp only [down, Value.isResp2]; exact downMap_allResp2 kvs (by simpa [Value.replyShape] using h)
    | .pairs kvs, h => by
        simp only [down, Value.isResp2]; exact flatPairs_allResp2 kvs (by simpa [Value.replyShape] using h)
    | .push _ _, h | .endMark, h => by simp [Value.replyShape] at h
  theorem downList_allResp2 : ∀ (xs : List Value), Value.allShape xs = true → Value.allResp2 (downList xs) = true
    | [], _ => by simp [downList, Value.allResp2]
    | x :: xs, h => by
        simp only [Value.allShape, Bool.and_eq_true] at h
        simp only [downList, Value.allResp2, Bool.and_eq_true]
        exact ⟨down_isResp2 x h.1, downList_allResp2 xs h.2⟩
  theorem downMap_allResp2 : ∀ (kvs : List (Value × Value)), Value.pairsShape kvs = true →
      Value.allResp2 (downMap kvs) = true
    | [], _ => by simp [downMap, Value.allResp2]
    | (k, v) :: r, h => by
        simp only [Value.pairsShape, Bool.and_eq_true] at h
        simp only [downMap, Value.allResp2, Value.isResp2, Bool.true_and, Bool.and_eq_true]
        exact ⟨down_isResp2 v h.1, downMap_allResp2 r h.2⟩
  theorem flatPairs_allResp2 : ∀ (kvs : List (Value × Value)), Value.pairsScalar kvs = true →
      Value.allResp2 (flatPairs kvs) = true
    | [], _ => by simp [flatPairs, Value.allResp2]
    | (k, v) :: r, h => by
        simp only [Value.pairsScalar, Bool.and_eq_true] at h
        simp only [flatPairs, Value.allResp2, Bool.and_eq_true]
        exact ⟨h.1.1, h.1.2, flatPairs_allResp2 r h.2⟩
end

/-! ### the conversion is the canonical one of the property text -/

mutual
  /-- map keys are bulk strings (what every handler produces) -/
  def Value.bulkKeys : Value → Bool
    | .array xs | .set xs => Value.allBulkKeys xs
    | .map kvs | .attr kvs => Value.kvBulkKeys kvs
    | .pairs _ => false
    | _ => true
  def Value.allBulkKeys : List Value → Bool
    | [] => true
    | x :: xs => x.bulkKeys && Value.allBulkKeys xs
  def Value.kvBulkKeys : List (Value × Value) → Bool
    | [] => true
    | (k, v) :: r => (match k with | .bulk _ => true | _ => false) && v.bulkKeys && Value.kvBulkKeys r
end

mutual
  /-- **`resp3To2` is the canonical down-conversion**: map → flat key/value array (same keys, values
      converted, same order), set → array, double / big number / verbatim → string, boolean → 0/1,
      null → nil, nesting preserved — for every reply whose map keys are bulk strings. -/
  theorem down_eq_spec : ∀ (v : Value), v.bulkKeys = true → down v = downSpec v
    | .simple _, _ | .error _, _ | .int _, _ | .bulk _, _ | .nil, _ | .null, _ => by simp [down, downSpec]
    | .double _, _ | .big _, _ | .verbatim _ _, _ | .blobErr _, _ => by simp [down, downSpec]
    | .bool true, _ | .bool false, _ => by simp [down, downSpec]
    | .push _ _, _ | .endMark, _ => by simp [down, downSpec]
    | .array xs, h => by
        simp only [down, downSpec]; congr 1; exact downList_eq_spec xs (by simpa [Value.bulkKeys] using h)
    | .set xs, h => by
        simp only [down, downSpec]; congr 1; exact downList_eq_spec xs (by simpa [Value.bulkKeys] using h)
    | .map kvs, h => by
        simp only [down, downSpec]; congr 1; exact downMap_eq_spec kvs (by simpa [Value.bulkKeys] using h)
    | .attr kvs, h => by
        simp only [down, downSpec]; congr 1; exact downMap_eq_spec kvs (by simpa [Value.bulkKeys] using h)
    | .pairs _, h => by simp [Value.bulkKeys] at h
  theorem downList_eq_spec : ∀ (xs : List Value), Value.allBulkKeys xs = true → downList xs = downSpecList xs
    | [], _ => by simp [downList, downSpecList]
    | x :: xs, h => by
        simp only [Value.allBulkKeys, Bool.and_eq_true] at h
        simp only [downList, downSpecList]
        rw [down_eq_spec x h.1, downList_eq_spec xs h.2]
  theorem downMap_eq_spec : ∀ (kvs : List (Value × Value)), Value.kvBulkKeys kvs = true → downMap kvs = downSpecMap kvs
    | [], _ => by simp [downMap, downSpecMap]
    | (k, v) :: r, h => by
        simp only [Value.kvBulkKeys, Bool.and_eq_true] at h
        simp only [downMap, downSpecMap]
        rw [down_eq_spec v h.1.2, downMap_eq_spec r h.2]
        cases k <;> simp_all [Value.fmtS, downSpec]
end

/-- the element count of a flattened map is twice the number of pairs: nothing is dropped -/
theorem downMap_length (kvs : List (Value × Value)) : (downMap kvs).length = 2 * kvs.length := by
  induction kvs with
  | nil => rfl
  | cons p r ih => obtain ⟨k, v⟩ := p; simp [downMap, ih]; omega

mutual
  /-- values that already are RESP2 pass through unchanged (commands whose reply has no RESP3-only
      type answer identically under both protocols) -/
  theorem down_id_on_resp2 : ∀ (v : Value), v.isResp2 = true → down v = v
    | .simple _, _ | .error _, _ | .int _, _ | .bulk _, _ | .nil, _ => by simp [down]
    | .array xs, h => by
        simp only [down]; congr 1; exact downList_id xs (by simpa [Value.isResp2] using h)
    | .null, h | .map _, h | .set _, h | .attr _, h | .push _ _, h | .double _, h | .bool _, h | .blobErr _, h
    | .verbatim _ _, h | .big _, h | .pairs _, h | .endMark, h => by simp [Value.isResp2] at h
  theorem downList_id : ∀ (xs : List Value), Value.allResp2 xs = true → downList xs = xs
    | [], _ => by simp [downList]
    | x :: xs, h => by
        simp only [Value.allResp2, Bool.and_eq_true] at h
        simp only [downList]
        rw [down_id_on_resp2 x h.1, downList_id xs h.2]
end

/-! ### HELLO switches per connection -/

/-- the reply a connection receives is down-converted exactly when its own protocol is 2 -/
theorem reply_conversion_is_per_connection (c : Ctx) (v : Value) :
    downIf 2 c v = down v ∧ downIf 3 c v = v := by
  unfold downIf; simp

end RedisEmu
