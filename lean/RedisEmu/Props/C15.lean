import RedisEmu.Exec
import RedisEmu.Proofs.State
import RedisEmu.Props.C01
import RedisEmu.Props.C05
import Mathlib.Tactic.SplitIfs
/-
  C15 — RESP2 and RESP3 carry the same information. Theorems about `down` (= `resp3To2` of
  `resp.go` after the repair of D03) and about HELLO.
-/
namespace RedisEmu

mutual
  /-- only RESP2 types: simple string, error, integer, bulk string, nil, array of those -/
  def Value.isResp2 : Value → Bool
    | .simple _ | .error _ | .int _ | .bulk _ | .nil => true
    | .array xs => Value.allResp2 xs
    | _ => false
  def Value.allResp2 : List Value → Bool
    | [] => true
    | x :: xs => x.isResp2 && Value.allResp2 xs
end

mutual
  /-- the reply shapes handlers build: everything except push messages and stream end marks;
      map keys and pair members are scalars (as `nativeValueToResp` produces them) -/
  def Value.replyShape : Value → Bool
    | .push _ _ | .endMark => false
    | .array xs | .set xs => Value.allShape xs
    | .map kvs | .attr kvs => Value.pairsShape kvs
    | .pairs kvs => Value.pairsScalar kvs
    | _ => true
  def Value.allShape : List Value → Bool
    | [] => true
    | x :: xs => x.replyShape && Value.allShape xs
  def Value.pairsShape : List (Value × Value) → Bool
    | [] => true
    | (_, v) :: r => v.replyShape && Value.pairsShape r
  def Value.pairsScalar : List (Value × Value) → Bool
    | [] => true
    | (k, v) :: r => k.isResp2 && v.isResp2 && Value.pairsScalar r
end

mutual
  /-- **Under RESP2 only RESP2 types are emitted**: the down-conversion of any reply a handler can
      build — nil, nested arrays, maps, sets, doubles, big numbers, booleans, verbatim text, blob
      errors, pair lists — contains RESP2 types only. -/
  theorem down_isResp2 : ∀ (v : Value), v.replyShape = true → (down v).isResp2 = true
    | .simple _, _ | .error _, _ | .int _, _ | .bulk _, _ | .nil, _ | .null, _ => by simp [down, Value.isResp2]
    | .double _, _ | .big _, _ | .verbatim _ _, _ | .blobErr _, _ => by simp [down, Value.isResp2]
    | .bool true, _ | .bool false, _ => by simp [down, Value.isResp2]
    | .array xs, h => by
        simp only [down, Value.isResp2]; exact downList_allResp2 xs (by simpa [Value.replyShape] using h)
    | .set xs, h => by
        simp only [down, Value.isResp2]; exact downList_allResp2 xs (by simpa [Value.replyShape] using h)
    | .map kvs, h => by
        simp only [down, Value.isResp2]; exact downMap_allResp2 kvs (by simpa [Value.replyShape] using h)
    | .attr kvs, h => by
        simp only [down, Value.isResp2]; exact downMap_allResp2 kvs (by simpa [Value.replyShape] using h)
    | .pairs kvs, h => by
        simp only [down, Value.isResp2]; exact flatPairs_allResp2 kvs (by simpa [Value.replyShape] using h)
    | .push _ _, h | .endMark, h => by simp [Value.replyShape] at h
  theorem downList_allResp2 : ∀ (xs : List Value), Value.allShape xs = true → Value.allResp2 (downList xs) = true
    | [], _ => by simp [downList, Value.allResp2]
    | x :: xs, h => by
        simp only [Value.allShape, Bool.and_eq_true] at h
        simp only [downList, Value.allResp2, Bool.and_eq_true]
        exact ⟨down_isResp2 x h.1, downList_allResp2 xs h.2⟩
  theorem downMap_allResp2 : ∀ (kvs : List (Value × Value)), Value.pairsShape kvs = true →
      Value.allResp2 (downMap kvs) = true
    | [], _ => by simp [downMap, Value.allResp2]
    | (k, v) :: r, h => by
        simp only [Value.pairsShape, Bool.and_eq_true] at h
        simp only [downMap, Value.allResp2, Value.isResp2, Bool.true_and, Bool.and_eq_true]
        exact ⟨down_isResp2 v h.1, downMap_allResp2 r h.2⟩
  theorem flatPairs_allResp2 : ∀ (kvs : List (Value × Value)), Value.pairsScalar kvs = true →
      Value.allResp2 (flatPairs kvs) = true
    | [], _ => by simp [flatPairs, Value.allResp2]
    | (k, v) :: r, h => by
        simp only [Value.pairsScalar, Bool.and_eq_true] at h
        simp only [flatPairs, Value.allResp2, Bool.and_eq_true]
        exact ⟨h.1.1, h.1.2, flatPairs_allResp2 r h.2⟩
end

/-! ### the conversion is the canonical one of the property text -/

mutual
  /-- map keys are bulk strings (what every handler produces) -/
  def Value.bulkKeys : Value → Bool
    | .array xs | .set xs => Value.allBulkKeys xs
    | .map kvs | .attr kvs => Value.kvBulkKeys kvs
    | .pairs _ => false
    | _ => true
  def Value.allBulkKeys : List Value → Bool
    | [] => true
    | x :: xs => x.bulkKeys && Value.allBulkKeys xs
  def Value.kvBulkKeys : List (Value × Value) → Bool
    | [] => true
    | (k, v) :: r => (match k with | .bulk _ => true | _ => false) && v.bulkKeys && Value.kvBulkKeys r
end

mutual
  /-- **`resp3To2` is the canonical down-conversion**: map → flat key/value array (same keys, values
      converted, same order), set → array, double / big number / verbatim → string, boolean → 0/1,
      null → nil, nesting preserved — for every reply whose map keys are bulk strings. -/
  theorem down_eq_spec : ∀ (v : Value), v.bulkKeys = true → down v = downSpec v
    | .simple _, _ | .error _, _ | .int _, _ | .bulk _, _ | .nil, _ | .null, _ => by simp [down, downSpec]
    | .double _, _ | .big _, _ | .verbatim _ _, _ | .blobErr _, _ => by simp [down, downSpec]
    | .bool true, _ | .bool false, _ => by simp [down, downSpec]
    | .push _ _, _ | .endMark, _ => by simp [down, downSpec]
    | .array xs, h => by
        simp only [down, downSpec]; congr 1; exact downList_eq_spec xs (by simpa [Value.bulkKeys] using h)
    | .set xs, h => by
        simp only [down, downSpec]; congr 1; exact downList_eq_spec xs (by simpa [Value.bulkKeys] using h)
    | .map kvs, h => by
        simp only [down, downSpec]; congr 1; exact downMap_eq_spec kvs (by simpa [Value.bulkKeys] using h)
    | .attr kvs, h => by
        simp only [down, downSpec]; congr 1; exact downMap_eq_spec kvs (by simpa [Value.bulkKeys] using h)
    | .pairs _, h => by simp [Value.bulkKeys] at h
  theorem downList_eq_spec : ∀ (xs : List Value), Value.allBulkKeys xs = true → downList xs = downSpecList xs
    | [], _ => by simp [downList, downSpecList]
    | x :: xs, h => by
        simp only [Value.allBulkKeys, Bool.and_eq_true] at h
        simp only [downList, downSpecList]
        rw [down_eq_spec x h.1, downList_eq_spec xs h.2]
  theorem downMap_eq_spec : ∀ (kvs : List (Value × Value)), Value.kvBulkKeys kvs = true → downMap kvs = downSpecMap kvs
    | [], _ => by simp [downMap, downSpecMap]
    | (k, v) :: r, h => by
        simp only [Value.kvBulkKeys, Bool.and_eq_true] at h
        simp only [downMap, downSpecMap]
        rw [down_eq_spec v h.1.2, downMap_eq_spec r h.2]
        cases k <;> simp_all [Value.fmtS, downSpec]
end

/-- the element count of a flattened map is twice the number of pairs: nothing is dropped -/
theorem downMap_length (kvs : List (Value × Value)) : (downMap kvs).length = 2 * kvs.length := by
  induction kvs with
  | nil => rfl
  | cons p r ih => obtain ⟨k, v⟩ := p; simp [downMap, ih]; omega

mutual
  /-- values that already are RESP2 pass through unchanged (commands whose reply has no RESP3-only
      type answer identically under both protocols) -/
  theorem down_id_on_resp2 : ∀ (v : Value), v.isResp2 = true → down v = v
    | .simple _, _ | .error _, _ | .int _, _ | .bulk _, _ | .nil, _ => by simp [down]
    | .array xs, h => by
        simp only [down]; congr 1; exact downList_id xs (by simpa [Value.isResp2] using h)
    | .null, h | .map _, h | .set _, h | .attr _, h | .push _ _, h | .double _, h | .bool _, h | .blobErr _, h
    | .verbatim _ _, h | .big _, h | .pairs _, h | .endMark, h => by simp [Value.isResp2] at h
  theorem downList_id : ∀ (xs : List Value), Value.allResp2 xs = true → downList xs = xs
    | [], _ => by simp [downList]
    | x :: xs, h => by
        simp only [Value.allResp2, Bool.and_eq_true] at h
        simp only [downList]
        rw [down_id_on_resp2 x h.1, downList_id xs h.2]
end

/-! ### HELLO switches per connection -/

/-- the reply a connection receives is down-converted exactly when its own protocol is 2 -/
theorem reply_conversion_is_per_connection (c : Ctx) (v : Value) :
    downIf 2 c v = down v ∧ downIf 3 c v = v := by
  unfold downIf; simp


/-! ## every command: the reply is a proper reply value, and RESP2 connections receive RESP2 types only -/

set_option linter.unusedSectionVars false

theorem allShape_map {α} (f : α → Value) (l : List α) (h : ∀ x, (f x).replyShape = true) :
    Value.allShape (l.map f) = true := by
  induction l with
  | nil => rfl
  | cons x r ih => simp only [List.map_cons, Value.allShape, h x, ih, Bool.and_self]

theorem shape_bulks (l : List Bytes) : (bulks l).replyShape = true := by
  unfold bulks
  simp only [Value.replyShape]
  exact allShape_map _ l (fun _ => rfl)

theorem allShape_append (a b : List Value) (ha : Value.allShape a = true) (hb : Value.allShape b = true) :
    Value.allShape (a ++ b) = true := by
  induction a with
  | nil => exact hb
  | cons x r ih =>
    simp only [Value.allShape, Bool.and_eq_true] at ha
    simp only [List.cons_append, Value.allShape, ha.1, ih ha.2, Bool.and_self]

theorem pairsShape_map {α} (f : α → Value × Value) (l : List α) (h : ∀ x, (f x).2.replyShape = true) :
    Value.pairsShape (l.map f) = true := by
  induction l with
  | nil => rfl
  | cons x r ih =>
    simp only [List.map_cons]
    cases hf : f x with
    | mk k v =>
      have := h x
      rw [hf] at this
      simp only [Value.pairsShape, this, ih, Bool.and_self]

macro "shape" : tactic => `(tactic| (repeat' (first
  | rfl
  | exact shape_bulks _
  | (simp only [Value.replyShape]; exact allShape_map _ _ (fun _ => by first | rfl | (split <;> rfl)))
  | (simp only [Value.replyShape]; exact pairsShape_map _ _ (fun _ => rfl))
  | dsimp only [R.ok, vOK, vInt, wrongType, optV]
  | split)))

section
variable (c : Ctx) (db : Db) (k k2 v f m : Bytes) (i j : Int) (o : SetOpts) (b b2 : Bool)
  (ks : List Bytes) (kvs : List (Bytes × Bytes)) (oi oj ok' : Option Int) (n : Nat)

theorem setKey_reply_shape (x y : Bool) : (optV (setKey c db k v o x y).2.1).replyShape = true := by
  unfold setKey
  repeat' split
  all_goals simp_all [optV, Value.replyShape, vOK]
theorem set_shape : (cmdSet c db k v o b).reply.replyShape = true := by
  unfold cmdSet
  repeat' (first | rfl | exact setKey_reply_shape .. | dsimp only [R.ok, wrongType] | split)
theorem get_shape : (cmdGet c db k).reply.replyShape = true := by unfold cmdGet; shape
theorem getdel_shape : (cmdGetDel c db k).reply.replyShape = true := by unfold cmdGetDel; shape
theorem getex_shape (e : Option ExpArg) : (cmdGetEx c db k e).reply.replyShape = true := by unfold cmdGetEx; shape
theorem strlen_shape : (cmdStrlen c db k).reply.replyShape = true := by unfold cmdStrlen; shape
theorem getrange_shape : (cmdGetRange c db k i j).reply.replyShape = true := by unfold cmdGetRange; shape
theorem setrange_shape : (cmdSetRange c db k i v).reply.replyShape = true := by unfold cmdSetRange; shape
theorem incrby_shape : (cmdIncrBy c db k i).reply.replyShape = true := by unfold cmdIncrBy; shape
theorem mget_shape : (cmdMGet c db ks).reply.replyShape = true := by unfold cmdMGet; shape
theorem mset_shape : (cmdMSet c db kvs b).reply.replyShape = true := by unfold cmdMSet; shape
theorem incrbyfloat_shape : (cmdIncrByFloat c db k v).reply.replyShape = true := by unfold cmdIncrByFloat; shape
theorem push_shape : (cmdPush c db k ks b b2).reply.replyShape = true := by unfold cmdPush; shape
theorem llen_shape : (cmdLLen c db k).reply.replyShape = true := by unfold cmdLLen; shape
theorem lindex_shape : (cmdLIndex c db k i).reply.replyShape = true := by unfold cmdLIndex; shape
theorem lrange_shape : (cmdLRange c db k i j).reply.replyShape = true := by unfold cmdLRange; shape
theorem lset_shape : (cmdLSet c db k i v).reply.replyShape = true := by unfold cmdLSet; shape
theorem linsert_shape : (cmdLInsert c db k b v m).reply.replyShape = true := by unfold cmdLInsert; shape
theorem lrem_shape : (cmdLRem c db k i v).reply.replyShape = true := by unfold cmdLRem; shape
theorem ltrim_shape : (cmdLTrim c db k i j).reply.replyShape = true := by unfold cmdLTrim; shape
theorem lpos_shape : (cmdLPos c db k v oi oj ok').reply.replyShape = true := by unfold cmdLPos; shape
theorem hset_shape : (cmdHSet c db k kvs b b2).reply.replyShape = true := by unfold cmdHSet; shape
theorem hget_shape : (cmdHGet c db k f).reply.replyShape = true := by unfold cmdHGet; shape
theorem hmget_shape : (cmdHMGet c db k ks).reply.replyShape = true := by unfold cmdHMGet; shape
theorem hgetall_shape : (cmdHGetAll c db k).reply.replyShape = true := by unfold cmdHGetAll; shape
theorem hkeys_shape : (cmdHKeys c db k b).reply.replyShape = true := by unfold cmdHKeys; shape
theorem hlen_shape : (cmdHLen c db k).reply.replyShape = true := by unfold cmdHLen; shape
theorem hexists_shape : (cmdHExists c db k f).reply.replyShape = true := by unfold cmdHExists; shape
theorem hstrlen_shape : (cmdHStrlen c db k f).reply.replyShape = true := by unfold cmdHStrlen; shape
theorem hdel_shape : (cmdHDel c db k ks).reply.replyShape = true := by unfold cmdHDel; shape
theorem hincrby_shape : (cmdHIncrBy c db k f i).reply.replyShape = true := by unfold cmdHIncrBy; shape
theorem hincrbyfloat_shape : (cmdHIncrByFloat c db k f v).reply.replyShape = true := by unfold cmdHIncrByFloat; shape
theorem sadd_shape : (cmdSAdd c db k ks).reply.replyShape = true := by unfold cmdSAdd; shape
theorem srem_shape : (cmdSRem c db k ks).reply.replyShape = true := by unfold cmdSRem; shape
theorem scard_shape : (cmdSCard c db k).reply.replyShape = true := by unfold cmdSCard; shape
theorem sismember_shape : (cmdSIsMember c db k m).reply.replyShape = true := by unfold cmdSIsMember; shape
theorem smismember_shape : (cmdSMIsMember c db k ks).reply.replyShape = true := by unfold cmdSMIsMember; shape
theorem smembers_shape : (cmdSMembers c db k).reply.replyShape = true := by unfold cmdSMembers; shape
theorem smove_shape : (cmdSMove c db k k2 m).reply.replyShape = true := by unfold cmdSMove; shape
theorem setalgebra_shape (op : SetOp) : (cmdSetAlgebra c db op ks).reply.replyShape = true := by unfold cmdSetAlgebra; shape
theorem setalgebrastore_shape (op : SetOp) : (cmdSetAlgebraStore c db op k ks).reply.replyShape = true := by unfold cmdSetAlgebraStore; shape
theorem sintercard_shape : (cmdSInterCard c db i ks j).reply.replyShape = true := by unfold cmdSInterCard; shape
theorem exists_shape : (cmdExists c db ks).reply.replyShape = true := by unfold cmdExists; shape
theorem type_shape : (cmdType c db k).reply.replyShape = true := by unfold cmdType; shape
theorem rename_shape : (cmdRename c db k k2 b).reply.replyShape = true := by unfold cmdRename; shape
theorem copy_shape : (cmdCopy c db k k2 b).reply.replyShape = true := by unfold cmdCopy; shape
theorem expireat_shape (opt : ExpireOpt) : (cmdExpireAt c db k i opt).reply.replyShape = true := by unfold cmdExpireAt; shape
theorem persist_shape : (cmdPersist c db k).reply.replyShape = true := by unfold cmdPersist; shape
theorem ttl_shape (kind : TtlKind) : (cmdTtl c db k kind).reply.replyShape = true := by unfold cmdTtl; shape
theorem getbit_shape : (cmdGetBit c db k i).reply.replyShape = true := by unfold cmdGetBit; shape
theorem bitpos_shape (st : Option Int) (en : Option (Int × Bool)) : (cmdBitPos c db k i st en).reply.replyShape = true := by unfold cmdBitPos; shape
theorem bitop_shape : (cmdBitOp c db k k2 ks).reply.replyShape = true := by unfold cmdBitOp; shape
theorem bfStep_shape (buf : Bytes) (p : BfParsed) : (bfStep c buf p).2.2.replyShape = true := by
  unfold bfStep
  extract_lets a u n nv oob m neg resolved
  split
  · rfl
  · clear_value resolved
    cases resolved <;> rfl
theorem bfFold_shape (ps : List BfParsed) : ∀ (acc : Bytes × Bool × List Value), Value.allShape acc.2.2 = true →
    Value.allShape (ps.foldl (fun (acc : Bytes × Bool × List Value) p =>
      ((bfStep c acc.1 p).1, acc.2.1 || (bfStep c acc.1 p).2.1, acc.2.2 ++ [(bfStep c acc.1 p).2.2])) acc).2.2 = true := by
  induction ps with
  | nil => intro acc h; exact h
  | cons p r ih =>
    intro acc h
    simp only [List.foldl_cons]
    apply ih
    exact allShape_append _ _ h (by simp only [Value.allShape, bfStep_shape, Bool.and_self])
theorem bitfieldParsed_shape (ps : List BfParsed) : (cmdBitfieldParsed c db k ps).reply.replyShape = true := by
  unfold cmdBitfieldParsed
  repeat' (first | rfl | (simp only [Value.replyShape]; exact bfFold_shape c ps _ rfl) | dsimp only [R.ok, wrongType] | split)

theorem append_shape : (cmdAppend c db k v).reply.replyShape = true := by unfold cmdAppend; shape
theorem decrby_shape : (cmdDecrBy c db k i).reply.replyShape = true := by
  unfold cmdDecrBy
  split
  · rfl
  · exact incrby_shape c db k _
theorem pop_shape : (cmdPop c db k oi b).reply.replyShape = true := by
  have go : ∀ n multi, (cmdPop.go c db k b n multi).reply.replyShape = true := by
    intro n multi
    unfold cmdPop.go
    shape
  unfold cmdPop
  split
  · split
    · rfl
    · exact go _ _
  · exact go _ _
theorem del_shape : (cmdDel c db ks b).reply.replyShape = true := by unfold cmdDel; rfl
theorem bfParse_error_shape (op : BfOp) (e : Value) (h : bfParse op = .error e) : e.replyShape = true := by
  unfold bfParse at h
  repeat' (first | (cases h; rfl) | (cases h; done) | split at h | dsimp only at h)
theorem bfParseAll_error_shape (ops : List BfOp) (e : Value) (h : bfParseAll ops = .error e) : e.replyShape = true := by
  unfold bfParseAll at h
  dsimp only at h
  split at h
  · rename_i e' hf
    cases h
    obtain ⟨o, _, ho⟩ := List.exists_of_findSome?_eq_some hf
    split at ho
    · rename_i e2 hp
      cases ho
      exact bfParse_error_shape o _ hp
    · cases ho
  · cases h
theorem bitfield_shape (ops : List BfOp) : (cmdBitfield c db k ops).reply.replyShape = true := by
  unfold cmdBitfield
  split
  · rename_i e he
    exact bfParseAll_error_shape ops e he
  · exact bitfieldParsed_shape c db k _

theorem setbit_shape : (cmdSetBit c db k i j).reply.replyShape = true := by
  unfold cmdSetBit
  split
  · rfl
  · split
    · rfl
    · have hb := bitfieldParsed_shape c db k [{ kind := .set, signed := false, width := 1, off := i, value := j, ov := .wrap }]
      dsimp only
      split
      · rename_i x hx
        rw [hx] at hb
        simp only [Value.replyShape, Value.allShape, Bool.and_true] at hb
        exact hb
      · exact hb
theorem bitcount_shape (r : Option (Int × Int × Bool)) : (cmdBitCount c db k r).reply.replyShape = true := by
  unfold cmdBitCount
  split
  · rfl
  · split_ifs <;> first
      | rfl
      | (extract_lets; split_ifs <;> rfl)
  · rfl
theorem lmove_shape : (cmdLMove c db k k2 b b2).reply.replyShape = true := by unfold cmdLMove; shape
theorem lmpop_shape : (cmdLMPop c db ks b n).reply.replyShape = true := by
  have go : ∀ ks, (cmdLMPop.go c db b n ks).reply.replyShape = true := by
    intro ks
    induction ks with
    | nil => rfl
    | cons x r ih =>
      unfold cmdLMPop.go
      split
      · rfl
      · exact ih
      · split
        · exact ih
        · simp only [R.ok, Value.replyShape, Value.allShape, Bool.and_true, Bool.true_and]
          exact shape_bulks _
  unfold cmdLMPop
  exact go ks
theorem bpop_shape : (runCmd.go c b db ks).reply.replyShape = true := by
  induction ks with
  | nil => rfl
  | cons x r ih =>
    unfold runCmd.go
    split
    · rfl
    · exact ih
    · split
      · exact ih
      · rfl
theorem sortFinish_shape (store : Option Bytes) (out : List Value) (hint : Match) (ho : Value.allShape out = true) :
    (sortFinish db store out hint).reply.replyShape = true := by
  unfold sortFinish
  split
  · simp only [Value.replyShape]; exact ho
  · split <;> rfl
theorem allShape_flatMap {α} (l : List α) (f : α → List Value) (h : ∀ x, Value.allShape (f x) = true) :
    Value.allShape (l.flatMap f) = true := by
  induction l with
  | nil => rfl
  | cons x r ih => simp only [List.flatMap_cons]; exact allShape_append _ _ (h x) ih
theorem sortCompute_shape (xs : List Bytes) (isSet : Bool) (by_ : Option Bytes) (limit : Option (Int × Int))
    (gets : List Bytes) (x y z : Bool) (out : List Value) (hint : Match)
    (h : sortCompute c db xs isSet by_ limit gets x y z = some (out, hint)) : Value.allShape out = true := by
  unfold sortCompute at h
  extract_lets at h
  simp only [Option.map_eq_some_iff] at h
  obtain ⟨its, _, h⟩ := h
  simp only [Prod.mk.injEq] at h
  rw [← h.1]
  apply allShape_flatMap
  intro it
  apply allShape_map
  intro g
  split
  · rfl
  · split <;> rfl
theorem sort_shape (by_ : Option Bytes) (limit : Option (Int × Int)) (gets : List Bytes) (store : Option Bytes) :
    (cmdSort c db k by_ limit gets b b2 store).reply.replyShape = true := by
  unfold cmdSort
  split
  · rfl
  · exact sortFinish_shape db _ _ _ rfl
  · split
    · rfl
    · rename_i out hint hc
      exact sortFinish_shape db _ _ _ (sortCompute_shape c db _ _ _ _ _ _ _ _ out hint hc)
end

/-- **Every reply a command builds is a proper reply value** (no push message, no stream end mark, scalar
    map keys), whatever the command, its arguments and the state — the premise of `down_isResp2`. -/
theorem runCmd_reply_shape (c : Ctx) (s : State) (conn ref : Nat) (m : Bool) (cmd : Cmd) :
    (runCmd c s conn ref m cmd).reply.replyShape = true := by
  cases cmd
  case copy a b rep dbOpt =>
    simp only [runCmd]
    split
    · rfl
    · exact copy_shape ..
  case lmpop nk ks l cnt =>
    simp only [runCmd]
    split
    · rfl
    · split
      · rfl
      · exact lmpop_shape ..
  case set a0 a1 a2 a3 => simp only [runCmd, onDb]; exact set_shape ..
  case append a0 a1 => simp only [runCmd, onDb]; exact append_shape ..
  case get a0 => simp only [runCmd, onDb]; exact get_shape ..
  case getdel a0 => simp only [runCmd, onDb]; exact getdel_shape ..
  case getex a0 a1 => simp only [runCmd, onDb]; exact getex_shape ..
  case strlen a0 => simp only [runCmd, onDb]; exact strlen_shape ..
  case getrange a0 a1 a2 => simp only [runCmd, onDb]; exact getrange_shape ..
  case setrange a0 a1 a2 => simp only [runCmd, onDb]; exact setrange_shape ..
  case incrby a0 a1 => simp only [runCmd, onDb]; exact incrby_shape ..
  case decrby a0 a1 => simp only [runCmd, onDb]; exact decrby_shape ..
  case incrbyfloat a0 a1 => simp only [runCmd, onDb]; exact incrbyfloat_shape ..
  case mget a0 => simp only [runCmd, onDb]; exact mget_shape ..
  case mset a0 a1 => simp only [runCmd, onDb]; exact mset_shape ..
  case push a0 a1 a2 a3 => simp only [runCmd, onDb]; exact push_shape ..
  case pop a0 a1 a2 => simp only [runCmd, onDb]; exact pop_shape ..
  case llen a0 => simp only [runCmd, onDb]; exact llen_shape ..
  case lindex a0 a1 => simp only [runCmd, onDb]; exact lindex_shape ..
  case lrange a0 a1 a2 => simp only [runCmd, onDb]; exact lrange_shape ..
  case lset a0 a1 a2 => simp only [runCmd, onDb]; exact lset_shape ..
  case linsert a0 a1 a2 a3 => simp only [runCmd, onDb]; exact linsert_shape ..
  case lrem a0 a1 a2 => simp only [runCmd, onDb]; exact lrem_shape ..
  case ltrim a0 a1 a2 => simp only [runCmd, onDb]; exact ltrim_shape ..
  case lpos a0 a1 a2 a3 a4 => simp only [runCmd, onDb]; exact lpos_shape ..
  case lmove a0 a1 a2 a3 => simp only [runCmd, onDb]; exact lmove_shape ..
  case hset a0 a1 a2 a3 => simp only [runCmd, onDb]; exact hset_shape ..
  case hget a0 a1 => simp only [runCmd, onDb]; exact hget_shape ..
  case hmget a0 a1 => simp only [runCmd, onDb]; exact hmget_shape ..
  case hgetall a0 => simp only [runCmd, onDb]; exact hgetall_shape ..
  case hkeys a0 a1 => simp only [runCmd, onDb]; exact hkeys_shape ..
  case hlen a0 => simp only [runCmd, onDb]; exact hlen_shape ..
  case hexists a0 a1 => simp only [runCmd, onDb]; exact hexists_shape ..
  case hstrlen a0 a1 => simp only [runCmd, onDb]; exact hstrlen_shape ..
  case hdel a0 a1 => simp only [runCmd, onDb]; exact hdel_shape ..
  case hincrby a0 a1 a2 => simp only [runCmd, onDb]; exact hincrby_shape ..
  case hincrbyfloat a0 a1 a2 => simp only [runCmd, onDb]; exact hincrbyfloat_shape ..
  case sadd a0 a1 => simp only [runCmd, onDb]; exact sadd_shape ..
  case srem a0 a1 => simp only [runCmd, onDb]; exact srem_shape ..
  case scard a0 => simp only [runCmd, onDb]; exact scard_shape ..
  case sismember a0 a1 => simp only [runCmd, onDb]; exact sismember_shape ..
  case smismember a0 a1 => simp only [runCmd, onDb]; exact smismember_shape ..
  case smembers a0 => simp only [runCmd, onDb]; exact smembers_shape ..
  case smove a0 a1 a2 => simp only [runCmd, onDb]; exact smove_shape ..
  case salg a0 a1 => simp only [runCmd, onDb]; exact setalgebra_shape ..
  case salgStore a0 a1 a2 => simp only [runCmd, onDb]; exact setalgebrastore_shape ..
  case sintercard a0 a1 a2 => simp only [runCmd, onDb]; exact sintercard_shape ..
  case del a0 a1 => simp only [runCmd, onDb]; exact del_shape ..
  case exists_ a0 => simp only [runCmd, onDb]; exact exists_shape ..
  case touch a0 => simp only [runCmd, onDb]; exact exists_shape ..
  case type_ a0 => simp only [runCmd, onDb]; exact type_shape ..
  case rename a0 a1 a2 => simp only [runCmd, onDb]; exact rename_shape ..
  case sort a0 a1 a2 a3 a4 a5 a6 => simp only [runCmd, onDb]; exact sort_shape ..
  case persist a0 => simp only [runCmd, onDb]; exact persist_shape ..
  case ttl a0 a1 => simp only [runCmd, onDb]; exact ttl_shape ..
  case getbit a0 a1 => simp only [runCmd, onDb]; exact getbit_shape ..
  case setbit a0 a1 a2 => simp only [runCmd, onDb]; exact setbit_shape ..
  case bitcount a0 a1 => simp only [runCmd, onDb]; exact bitcount_shape ..
  case bitpos a0 a1 a2 a3 => simp only [runCmd, onDb]; exact bitpos_shape ..
  case bitop a0 a1 a2 => simp only [runCmd, onDb]; exact bitop_shape ..
  case bitfield a0 a1 a2 => simp only [runCmd, onDb]; exact bitfield_shape ..
  case expire k n u a o => simp only [runCmd, onDb]; exact expireat_shape ..
  case bpop ks l => simp only [runCmd, onDb]; exact bpop_shape ..
  case ping o => cases o <;> rfl
  all_goals
    simp only [runCmd, onDb]
    shape


mutual
  theorem shape_of_resp2 : ∀ (v : Value), v.isResp2 = true → v.replyShape = true
    | .simple _, _ | .error _, _ | .int _, _ | .bulk _, _ | .nil, _ => rfl
    | .array xs, h => by
      simp only [Value.isResp2] at h
      simp only [Value.replyShape]
      exact allShape_of_allResp2 xs h
    | .double _, h | .bool _, h | .big _, h | .verbatim _ _, h | .blobErr _, h | .map _, h | .pairs _, h
    | .set _, h | .attr _, h | .null, h | .push _ _, h | .endMark, h => by simp [Value.isResp2] at h
  theorem allShape_of_allResp2 : ∀ (xs : List Value), Value.allResp2 xs = true → Value.allShape xs = true
    | [], _ => rfl
    | x :: xs, h => by
      simp only [Value.allResp2, Bool.and_eq_true] at h
      simp only [Value.allShape, shape_of_resp2 x h.1, allShape_of_allResp2 xs h.2, Bool.and_self]
end

theorem downIf_shape (resp : Int) (c : Ctx) (v : Value) (h : v.replyShape = true) : (downIf resp c v).replyShape = true := by
  unfold downIf
  split
  · exact shape_of_resp2 _ (down_isResp2 v h)
  · exact h

theorem allShape_reverse (xs : List Value) (h : Value.allShape xs = true) : Value.allShape xs.reverse = true := by
  induction xs with
  | nil => rfl
  | cons x r ih =>
    simp only [Value.allShape, Bool.and_eq_true] at h
    simp only [List.reverse_cons]
    exact allShape_append _ _ (ih h.2) (by simp only [Value.allShape, h.1, Bool.and_self])

/-- every element of EXEC's reply is a proper reply value -/
theorem execQueue_allShape (conn : Nat) (q : List Queued) :
    ∀ (c : Ctx) (impls : List Value) (s : State) (vs : List Value) (hs : List Match) (ps : List (Nat × Bytes × Nat)),
      Value.allShape vs = true → Value.allShape (execQueue c conn q impls s vs hs ps).2.1 = true := by
  induction q with
  | nil => intro c impls s vs hs ps h; simp only [execQueue]; exact allShape_reverse vs h
  | cons x r ih =>
    intro c impls s vs hs ps h
    unfold execQueue
    split
    · exact ih c impls s vs hs ps h
    · split
      · exact ih _ _ _ _ _ _ (by simp only [Value.allShape, h, Value.replyShape, Bool.and_self])
      · split
        · exact ih _ _ _ _ _ _ (by simp only [Value.allShape, h, errArity, Value.replyShape, Bool.and_self])
        · dsimp only
          split
          · exact allShape_reverse vs h
          · exact ih _ _ _ _ _ _ (by
              simp only [Value.allShape, h, Bool.and_true]
              exact downIf_shape _ _ _ (runCmd_reply_shape ..))

theorem downIf_id_resp2 (resp : Int) (c : Ctx) (v : Value) (h : v.isResp2 = true) : downIf resp c v = v := by
  unfold downIf
  split
  · exact down_id_on_resp2 v h
  · rfl

/-- what a connection receives is the protocol-independent reply value of the command, converted
    according to the protocol the connection speaks when the reply is written -/
theorem dispatchParsed_reply_form (c : Ctx) (s : State) (conn : Nat) (argv : List Bytes) (cmd : Cmd) :
    ∃ v : Value, v.replyShape = true ∧
      (dispatchParsed c s conn argv cmd).reply = downIf ((dispatchParsed c s conn argv cmd).st.session conn).resp c v := by
  have plain : ∀ (st : State) (r : Value), r.isResp2 = true →
      ∃ v : Value, v.replyShape = true ∧ r = downIf (st.session conn).resp c v :=
    fun st r hr => ⟨r, shape_of_resp2 r hr, (downIf_id_resp2 _ c r hr).symm⟩
  unfold dispatchParsed
  dsimp only
  split
  · split
    · exact plain _ _ rfl
    · split
      · exact plain _ _ rfl
      · exact plain _ _ rfl
      · split
        · exact plain _ _ rfl
        · split
          · split <;> exact plain _ _ rfl
          · rename_i q _ _ _ _ _
            refine ⟨.array (execQueue c conn q (implElems c) s [] [] []).2.1, ?_, ?_⟩
            · simp only [Value.replyShape]
              exact execQueue_allShape conn q c _ s [] [] [] rfl
            · dsimp only
              split
              · rfl
              · rw [session_setSession]
      · exact ⟨_, runCmd_reply_shape .., rfl⟩
  · split
    · exact plain _ _ rfl
    · exact plain _ _ rfl
    · exact plain _ _ rfl
    · exact ⟨_, runCmd_reply_shape .., rfl⟩

/-- **Under RESP2 only RESP2 types are ever emitted.** Whatever command a connection sends — inside or
    outside MULTI, EXEC with everything it runs included — if the connection speaks RESP2 when the reply
    is written, the reply consists of RESP2 types only (simple string, error, integer, bulk string, nil,
    arrays of those); and it is the canonical down-conversion of the value the same command yields for a
    RESP3 connection (`dispatchParsed_reply_form`). -/
theorem dispatchParsed_resp2_only (c : Ctx) (s : State) (conn : Nat) (argv : List Bytes) (cmd : Cmd)
    (h2 : ((dispatchParsed c s conn argv cmd).st.session conn).resp = 2) :
    (dispatchParsed c s conn argv cmd).reply.isResp2 = true := by
  obtain ⟨v, hv, hr⟩ := dispatchParsed_reply_form c s conn argv cmd
  rw [hr, h2]
  unfold downIf
  simp only [beq_self_eq_true, ↓reduceIte]
  exact down_isResp2 v hv

/-! ### a RESP3 reply on the wire: C01's reader, C05's invariant -/


/-- **HGETALL on a RESP3 connection.** In every database that commands can reach (`Db.Distinct`, C05: no field twice)
    the map HGETALL sends for a live hash is read back by a RESP3 reader as exactly that map — every field and value
    byte for byte, in the order sent, whatever follows in the stream — provided the sizes fit a 64-bit length field. -/
theorem hgetall_reply_read_back (c : Ctx) (db : Db) (k : Bytes) (e : Entry) (h : List (Bytes × Bytes)) (rest : Bytes)
    (hi : db.Distinct) (hl : db.live c.now k = some e) (hv : e.val = .hash h)
    (hc : h.length < 2 ^ 63) (hs : ∀ fv ∈ h, fv.1.length < 2 ^ 63 ∧ fv.2.length < 2 ^ 63) :
    parseRes (ser (cmdHGetAll c db k).reply ++ rest) =
      .complete (cmdHGetAll c db k).reply (ser (cmdHGetAll c db k).reply).length := by
  have hd : (h.map (·.1)).Nodup := by
    have := live_distinct hi hl
    rw [hv] at this; exact this
  have hr : (cmdHGetAll c db k).reply = .map (mapEntries (h.map fun fv => (fv.1, Value.bulk fv.2))) := by
    unfold cmdHGetAll hashOf
    simp [hl, hv, mapEntries]
  have hcan : canonEntries (h.map fun fv => (fv.1, Value.bulk fv.2)) = mapEntries (h.map fun fv => (fv.1, Value.bulk fv.2)) := by
    simp [canonEntries, mapEntries, canon]
  rw [hr]
  have := map_reply_is_one_value (h.map fun fv => (fv.1, Value.bulk fv.2)) (by rw [List.map_map]; exact hd) (by simpa using hc)
    (by
      intro kv hkv
      obtain ⟨fv, hfv, rfl⟩ := List.mem_map.mp hkv
      have := hs fv hfv
      simp [Value.wire, this.1, this.2]) rest
  rw [hcan] at this
  exact this

end RedisEmu
