import RedisEmu.Resp
import RedisEmu.Proofs.Codec
import Mathlib.Tactic.SplitIfs
/-
  C01 — one well-formed reply per command, framing independent, binary safe.
  Theorems about `RedisEmu.Resp` (parser = `respDeserializer.go`, serializer = `respSerializer.go`,
  tied to the Go code by the `codec` tool through the hook exports and by the `frame` tool over TCP).
-/
namespace RedisEmu

/-! ### every command a client can send is parsed back exactly, whatever bytes its arguments hold -/

theorem sb_dollarq : sb "$?" = [36, 63] := by decide +kernel
theorem sb_starq : sb "*?" = [42, 63] := by decide +kernel

theorem digits_ne_q (n : Nat) : (natDigits n == [63]) = false := by
  obtain ⟨_, hall, _, _⟩ := natDigits_spec n
  cases h : natDigits n == [63] with
  | false => rfl
  | true =>
    have e : natDigits n = [63] := by simpa using h
    have := (hall 63 (by rw [e]; simp)).1
    simp [isDigit] at this

/-- one bulk string, any bytes (CR, LF, NUL, invalid UTF-8 …), followed by anything -/
theorem parse_bulk (b rest : Bytes) (fuel pos : Nat) (hl : b.length < 2 ^ 63) :
    parseValue (fuel + 1) false (ser (.bulk b) ++ rest) pos =
      .ok (.bulk b) rest (pos + (ser (.bulk b)).length) := by
  obtain ⟨_, hall, hne, _⟩ := natDigits_spec b.length
  have hline : ∀ c ∈ (36 : UInt8) :: natDigits b.length, c ≠ 13 := by
    intro c hc
    rcases List.mem_cons.mp hc with e | e
    · subst e; decide
    · exact (hall c e).2
  have hser : ser (.bulk b) ++ rest = ((36 : UInt8) :: natDigits b.length) ++ 13 :: 10 :: (b ++ 13 :: 10 :: rest) := by
    simp [ser, serLen, crlf, List.append_assoc]
  rw [hser]
  unfold parseValue
  rw [splitLine_line _ _ hline]
  simp only
  have h1 : ((36 : UInt8) == 43) = false := by decide
  have h2 : ((36 : UInt8) == 45) = false := by decide
  have h3 : ((36 : UInt8) == 36) = true := by decide
  simp only [h1, h2, h3, Bool.false_eq_true, ↓reduceIte]
  have hq : ((36 : UInt8) :: natDigits b.length == sb "$?") = false := by
    rw [sb_dollarq]
    simp only [List.cons_beq_cons, beq_self_eq_true, Bool.true_and]
    exact digits_ne_q b.length
  simp only [hq, Bool.false_eq_true, ↓reduceIte, lineCount, List.drop_succ_cons, List.drop_zero,
    parseInt64_natDigits b.length hl]
  have hnn : ¬ ((b.length : Int) < 0) := by omega
  simp only [hnn, ↓reduceIte, Int.toNat_natCast]
  unfold takeBulk
  have hlen : ¬ (b.length + 2 > (b ++ 13 :: 10 :: rest).length) := by simp
  simp only [hlen, ↓reduceIte, List.take_left', List.drop_left']
  simp [ser, serLen, crlf]
  omega

theorem serList_bulks_length (argv : List Bytes) : argv.length ≤ (serList (argv.map .bulk)).length := by
  induction argv with
  | nil => simp [serList]
  | cons a r ih =>
    simp only [List.map_cons, serList, List.length_append, List.length_cons]
    have : 1 ≤ (ser (.bulk a)).length := by simp [ser, serLen]
    omega

/-- the elements of a command: `n` bulk strings in a row -/
theorem parseN_bulks (argv : List Bytes) (hl : ∀ a ∈ argv, a.length < 2 ^ 63) :
    ∀ (fuel pos : Nat) (rest : Bytes) (acc : List Value), argv.length + 1 ≤ fuel →
      parseN fuel argv.length (serList (argv.map .bulk) ++ rest) pos acc =
        .ok (acc.reverse ++ argv.map .bulk) rest (pos + (serList (argv.map .bulk)).length) := by
  induction argv with
  | nil =>
    intro fuel pos rest acc hf
    obtain ⟨fuel, rfl⟩ : ∃ f, fuel = f + 1 := ⟨fuel - 1, by simp at hf; omega⟩
    simp [parseN, serList]
  | cons a r ih =>
    intro fuel pos rest acc hf
    obtain ⟨fuel, rfl⟩ : ∃ f, fuel = f + 1 := ⟨fuel - 1, by simp at hf; omega⟩
    obtain ⟨fuel, rfl⟩ : ∃ f, fuel = f + 1 := ⟨fuel - 1, by simp at hf; omega⟩
    simp only [List.map_cons, serList, List.length_cons, List.append_assoc]
    unfold parseN
    simp only
    rw [parse_bulk a _ fuel pos (hl a List.mem_cons_self)]
    simp only
    rw [ih (fun x hx => hl x (List.mem_cons_of_mem _ hx)) (fuel + 1) _ rest (.bulk a :: acc) (by simp at hf ⊢; omega)]
    simp [List.length_append, Nat.add_assoc]

/-- **Request binary safety.** For every argument vector — any number of arguments, every argument an
    arbitrary byte string — the parser reads the encoded command back as exactly those arguments and
    consumes exactly its bytes, whatever follows in the buffer. -/
theorem parse_encodeCmd (argv : List Bytes) (rest : Bytes)
    (hn : argv.length < 2 ^ 63) (hl : ∀ a ∈ argv, a.length < 2 ^ 63) :
    parseRes (encodeCmd argv ++ rest) = .complete (.array (argv.map .bulk)) (encodeCmd argv).length := by
  obtain ⟨_, hall, hne, _⟩ := natDigits_spec argv.length
  have hline : ∀ c ∈ (42 : UInt8) :: natDigits argv.length, c ≠ 13 := by
    intro c hc
    rcases List.mem_cons.mp hc with e | e
    · subst e; decide
    · exact (hall c e).2
  have henc : encodeCmd argv ++ rest =
      ((42 : UInt8) :: natDigits argv.length) ++ 13 :: 10 :: (serList (argv.map .bulk) ++ rest) := by
    simp [encodeCmd, ser, serLen, crlf, List.append_assoc]
  unfold parseRes parse
  rw [henc]
  unfold parseValue
  rw [splitLine_line _ _ hline]
  simp only
  have h1 : ((42 : UInt8) == 43) = false := by decide
  have h2 : ((42 : UInt8) == 45) = false := by decide
  have h3 : ((42 : UInt8) == 36) = false := by decide
  have h4 : ((42 : UInt8) == 58) = false := by decide
  have h5 : ((42 : UInt8) == 42) = true := by decide
  simp only [h1, h2, h3, h4, h5, Bool.false_eq_true, ↓reduceIte]
  have hq : ((42 : UInt8) :: natDigits argv.length == sb "*?") = false := by
    rw [sb_starq]
    simp only [List.cons_beq_cons, beq_self_eq_true, Bool.true_and]
    exact digits_ne_q argv.length
  simp only [hq, Bool.false_eq_true, ↓reduceIte, lineCount, List.drop_succ_cons, List.drop_zero,
    parseInt64_natDigits argv.length hn]
  have hnn : ¬ ((argv.length : Int) < 0) := by omega
  simp only [hnn, ↓reduceIte, Int.toNat_natCast, makeCrashes, Bool.false_eq_true]
  have hfuel : argv.length + 1 ≤
      (((42 : UInt8) :: natDigits argv.length) ++ 13 :: 10 :: (serList (argv.map .bulk) ++ rest)).length := by
    have := serList_bulks_length argv
    simp only [List.length_append, List.length_cons]
    omega
  rw [parseN_bulks argv hl _ _ rest [] hfuel]
  simp [encodeCmd, ser, serLen, crlf]
  omega

end RedisEmu
