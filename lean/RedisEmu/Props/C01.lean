import RedisEmu.Resp
import RedisEmu.Proofs.Codec
import RedisEmu.Proofs.Framing
import Mathlib.Tactic.SplitIfs
/-
  C01 — one well-formed reply per command, framing independent, binary safe.
  Theorems about `RedisEmu.Resp` (parser = `respDeserializer.go`, serializer = `respSerializer.go`,
  tied to the Go code by the `codec` tool through the hook exports and by the `frame` tool over TCP).
-/
namespace RedisEmu

/-! ### every command a client can send is parsed back exactly, whatever bytes its arguments hold -/

theorem sb_dollarq : sb "$?" = [36, 63] := by decide +kernel
theorem sb_starq : sb "*?" = [42, 63] := by decide +kernel

theorem digits_ne_q (n : Nat) : (natDigits n == [63]) = false := by
  obtain ⟨_, hall, _, _⟩ := natDigits_spec n
  cases h : natDigits n == [63] with
  | false => rfl
  | true =>
    have e : natDigits n = [63] := by simpa using h
    have := (hall 63 (by rw [e]; simp)).1
    simp [isDigit] at this

/-- one bulk string, any bytes (CR, LF, NUL, invalid UTF-8 …), followed by anything -/
theorem parse_bulk (b rest : Bytes) (fuel pos : Nat) (hl : b.length < 2 ^ 63) :
    parseValue (fuel + 1) false (ser (.bulk b) ++ rest) pos =
      .ok (.bulk b) rest (pos + (ser (.bulk b)).length) := by
  obtain ⟨_, hall, hne, _⟩ := natDigits_spec b.length
  have hline : ∀ c ∈ (36 : UInt8) :: natDigits b.length, c ≠ 13 := by
    intro c hc
    rcases List.mem_cons.mp hc with e | e
    · subst e; decide
    · exact (hall c e).2
  have hser : ser (.bulk b) ++ rest = ((36 : UInt8) :: natDigits b.length) ++ 13 :: 10 :: (b ++ 13 :: 10 :: rest) := by
    simp [ser, serLen, crlf, List.append_assoc]
  rw [hser]
  unfold parseValue
  rw [splitLine_line _ _ hline]
  simp only
  have h1 : ((36 : UInt8) == 43) = false := by decide
  have h2 : ((36 : UInt8) == 45) = false := by decide
  have h3 : ((36 : UInt8) == 36) = true := by decide
  simp only [h1, h2, h3, Bool.false_eq_true, ↓reduceIte]
  have hq : ((36 : UInt8) :: natDigits b.length == sb "$?") = false := by
    rw [sb_dollarq]
    simp only [List.cons_beq_cons, beq_self_eq_true, Bool.true_and]
    exact digits_ne_q b.length
  simp only [hq, Bool.false_eq_true, ↓reduceIte, lineCount, List.drop_succ_cons, List.drop_zero,
    parseInt64_natDigits b.length hl]
  have hnn : ¬ ((b.length : Int) < 0) := by omega
  simp only [hnn, ↓reduceIte, Int.toNat_natCast]
  unfold takeBulk
  have hlen : ¬ (b.length + 2 > (b ++ 13 :: 10 :: rest).length) := by simp
  simp only [hlen, ↓reduceIte, List.take_left', List.drop_left']
  simp [ser, serLen, crlf]
  omega

theorem serList_bulks_length (argv : List Bytes) : argv.length ≤ (serList (argv.map .bulk)).length := by
  induction argv with
  | nil => simp [serList]
  | cons a r ih =>
    simp only [List.map_cons, serList, List.length_append, List.length_cons]
    have : 1 ≤ (ser (.bulk a)).length := by simp [ser, serLen]
    omega

/-- the elements of a command: `n` bulk strings in a row -/
theorem parseN_bulks (argv : List Bytes) (hl : ∀ a ∈ argv, a.length < 2 ^ 63) :
    ∀ (fuel pos : Nat) (rest : Bytes) (acc : List Value), argv.length + 1 ≤ fuel →
      parseN fuel argv.length (serList (argv.map .bulk) ++ rest) pos acc =
        .ok (acc.reverse ++ argv.map .bulk) rest (pos + (serList (argv.map .bulk)).length) := by
  induction argv with
  | nil =>
    intro fuel pos rest acc hf
    obtain ⟨fuel, rfl⟩ : ∃ f, fuel = f + 1 := ⟨fuel - 1, by simp at hf; omega⟩
    simp [parseN, serList]
  | cons a r ih =>
    intro fuel pos rest acc hf
    obtain ⟨fuel, rfl⟩ : ∃ f, fuel = f + 1 := ⟨fuel - 1, by simp at hf; omega⟩
    obtain ⟨fuel, rfl⟩ : ∃ f, fuel = f + 1 := ⟨fuel - 1, by simp at hf; omega⟩
    simp only [List.map_cons, serList, List.length_cons, List.append_assoc]
    unfold parseN
    simp only
    rw [parse_bulk a _ fuel pos (hl a List.mem_cons_self)]
    simp only
    rw [ih (fun x hx => hl x (List.mem_cons_of_mem _ hx)) (fuel + 1) _ rest (.bulk a :: acc) (by simp at hf ⊢; omega)]
    simp [List.length_append, Nat.add_assoc]

/-- **Request binary safety.** For every argument vector — any number of arguments, every argument an
    arbitrary byte string — the parser reads the encoded command back as exactly those arguments and
    consumes exactly its bytes, whatever follows in the buffer. -/
theorem parse_encodeCmd (argv : List Bytes) (rest : Bytes)
    (hn : argv.length < 2 ^ 63) (hl : ∀ a ∈ argv, a.length < 2 ^ 63) :
    parseRes (encodeCmd argv ++ rest) = .complete (.array (argv.map .bulk)) (encodeCmd argv).length := by
  obtain ⟨_, hall, hne, _⟩ := natDigits_spec argv.length
  have hline : ∀ c ∈ (42 : UInt8) :: natDigits argv.length, c ≠ 13 := by
    intro c hc
    rcases List.mem_cons.mp hc with e | e
    · subst e; decide
    · exact (hall c e).2
  have henc : encodeCmd argv ++ rest =
      ((42 : UInt8) :: natDigits argv.length) ++ 13 :: 10 :: (serList (argv.map .bulk) ++ rest) := by
    simp [encodeCmd, ser, serLen, crlf, List.append_assoc]
  unfold parseRes parse
  rw [henc]
  unfold parseValue
  rw [splitLine_line _ _ hline]
  simp only
  have h1 : ((42 : UInt8) == 43) = false := by decide
  have h2 : ((42 : UInt8) == 45) = false := by decide
  have h3 : ((42 : UInt8) == 36) = false := by decide
  have h4 : ((42 : UInt8) == 58) = false := by decide
  have h5 : ((42 : UInt8) == 42) = true := by decide
  simp only [h1, h2, h3, h4, h5, Bool.false_eq_true, ↓reduceIte]
  have hq : ((42 : UInt8) :: natDigits argv.length == sb "*?") = false := by
    rw [sb_starq]
    simp only [List.cons_beq_cons, beq_self_eq_true, Bool.true_and]
    exact digits_ne_q argv.length
  simp only [hq, Bool.false_eq_true, ↓reduceIte, lineCount, List.drop_succ_cons, List.drop_zero,
    parseInt64_natDigits argv.length hn]
  have hnn : ¬ ((argv.length : Int) < 0) := by omega
  simp only [hnn, ↓reduceIte, Int.toNat_natCast, makeCrashes, Bool.false_eq_true]
  have hfuel : argv.length + 1 ≤
      (((42 : UInt8) :: natDigits argv.length) ++ 13 :: 10 :: (serList (argv.map .bulk) ++ rest)).length := by
    have := serList_bulks_length argv
    simp only [List.length_append, List.length_cons]
    omega
  rw [parseN_bulks argv hl _ _ rest [] hfuel]
  simp [encodeCmd, ser, serLen, crlf]
  omega

/-! ### framing independence: a command that has not completely arrived is not a command yet -/

/-- a bulk string whose bytes have not all arrived (any strict prefix of its encoding) is "not there yet" -/
theorem parse_bulk_incomplete (b : Bytes) (hl : b.length < 2 ^ 63) (p q : Bytes) (fuel pos : Nat)
    (hp : p ++ q = ser (.bulk b)) (hq : q ≠ []) :
    parseValue fuel false p pos = .invalid := by
  cases fuel with
  | zero => simp [parseValue]
  | succ fuel =>
  obtain ⟨_, hall, _, _⟩ := natDigits_spec b.length
  have hline : ∀ c ∈ (36 : UInt8) :: natDigits b.length, c ≠ 13 := by
    intro c hc
    rcases List.mem_cons.mp hc with e | e
    · subst e; decide
    · exact (hall c e).2
  have hser : ser (.bulk b) = (((36 : UInt8) :: natDigits b.length) ++ [13, 10]) ++ (b ++ [13, 10]) := by
    simp [ser, serLen, crlf, List.append_assoc]
  rw [hser] at hp
  rcases (List.append_eq_append_iff.mp hp).symm with ⟨a', ha, hb⟩ | ⟨c', hc, hq'⟩
  · -- the header line is there: p = header ++ a', and a' is short of the body
    have hp' : p = ((36 : UInt8) :: natDigits b.length) ++ 13 :: 10 :: a' := by
      rw [ha]; simp [List.append_assoc]
    rw [hp']
    unfold parseValue
    rw [splitLine_line _ _ hline]
    simp only
    have h1 : ((36 : UInt8) == 43) = false := by decide
    have h2 : ((36 : UInt8) == 45) = false := by decide
    have h3 : ((36 : UInt8) == 36) = true := by decide
    simp only [h1, h2, h3, Bool.false_eq_true, ↓reduceIte]
    have hqq : ((36 : UInt8) :: natDigits b.length == sb "$?") = false := by
      rw [sb_dollarq]
      simp only [List.cons_beq_cons, beq_self_eq_true, Bool.true_and]
      exact digits_ne_q b.length
    simp only [hqq, Bool.false_eq_true, ↓reduceIte, lineCount, List.drop_succ_cons, List.drop_zero,
      parseInt64_natDigits b.length hl]
    have hnn : ¬ ((b.length : Int) < 0) := by omega
    simp only [hnn, ↓reduceIte, Int.toNat_natCast]
    have hlen : a'.length < b.length + 2 := by
      have := congrArg List.length hb
      simp only [List.length_append, List.length_cons, List.length_nil] at this
      have : 0 < q.length := List.length_pos_iff.mpr hq
      omega
    unfold takeBulk
    have : b.length + 2 > a'.length := hlen
    simp [this]
  · by_cases hc' : c' = []
    · -- exactly the header line, nothing of the body
      subst hc'
      simp only [List.append_nil] at hc
      have hp' : p = ((36 : UInt8) :: natDigits b.length) ++ 13 :: 10 :: [] := by
        rw [← hc]
      rw [hp']
      unfold parseValue
      rw [splitLine_line _ _ hline]
      simp only
      have h1 : ((36 : UInt8) == 43) = false := by decide
      have h2 : ((36 : UInt8) == 45) = false := by decide
      have h3 : ((36 : UInt8) == 36) = true := by decide
      simp only [h1, h2, h3, Bool.false_eq_true, ↓reduceIte]
      have hqq : ((36 : UInt8) :: natDigits b.length == sb "$?") = false := by
        rw [sb_dollarq]
        simp only [List.cons_beq_cons, beq_self_eq_true, Bool.true_and]
        exact digits_ne_q b.length
      simp only [hqq, Bool.false_eq_true, ↓reduceIte, lineCount, List.drop_succ_cons, List.drop_zero,
        parseInt64_natDigits b.length hl]
      have hnn : ¬ ((b.length : Int) < 0) := by omega
      simp only [hnn, ↓reduceIte, Int.toNat_natCast]
      unfold takeBulk
      simp
    · -- not even the header line
      unfold parseValue
      rw [splitLine_incomplete _ hline p c' hc.symm hc']

/-- the elements of a command of which some bytes are still missing: no command yet -/
theorem parseN_bulks_incomplete (argv : List Bytes) (hl : ∀ a ∈ argv, a.length < 2 ^ 63) :
    ∀ (fuel pos : Nat) (acc : List Value) (p q : Bytes),
      p ++ q = serList (argv.map .bulk) → q ≠ [] →
      parseN fuel argv.length p pos acc = .invalid := by
  induction argv with
  | nil =>
    intro fuel pos acc p q hp hq
    simp only [List.map_nil, serList, List.append_eq_nil_iff] at hp
    exact absurd hp.2 hq
  | cons a r ih =>
    intro fuel pos acc p q hp hq
    cases fuel with
    | zero => simp [parseN]
    | succ fuel =>
    simp only [List.map_cons, serList] at hp
    simp only [List.length_cons]
    unfold parseN
    simp only
    have hla := hl a List.mem_cons_self
    have hlr : ∀ x ∈ r, x.length < 2 ^ 63 := fun x hx => hl x (List.mem_cons_of_mem _ hx)
    rcases (List.append_eq_append_iff.mp hp).symm with ⟨a', ha, hb⟩ | ⟨c', hc, _⟩
    · -- the first element is complete; the shortfall is further on
      rw [ha]
      cases fuel with
      | zero => simp [parseValue]
      | succ fuel =>
        rw [parse_bulk a a' fuel pos hla]
        simp only
        exact ih hlr (fuel + 1) _ (.bulk a :: acc) a' q hb.symm hq
    · by_cases hc' : c' = []
      · subst hc'
        simp only [List.append_nil] at hc
        -- p is exactly the first element; the rest (not empty, because q is not) is missing
        cases fuel with
        | zero => simp [parseValue]
        | succ fuel =>
          have := parse_bulk a [] fuel pos hla
          simp only [List.append_nil] at this
          rw [← hc, this]
          simp only
          have hq2 : ([] : Bytes) ++ q = serList (r.map .bulk) := by
            have h2 := hp
            rw [← hc] at h2
            exact List.append_cancel_left h2
          exact ih hlr (fuel + 1) _ (.bulk a :: acc) [] q hq2 hq
      · rw [parse_bulk_incomplete a hla p c' fuel pos hc.symm hc']

/-- **A command whose bytes have not all arrived is "not there yet"** — for every argument vector and
    every strict prefix of its encoding the parser reports nothing (never a shorter command, never an
    error): the connection keeps the bytes and waits. -/
theorem parse_encodeCmd_incomplete (argv : List Bytes) (p q : Bytes)
    (hn : argv.length < 2 ^ 63) (hl : ∀ a ∈ argv, a.length < 2 ^ 63)
    (hp : p ++ q = encodeCmd argv) (hq : q ≠ []) :
    parseRes p = .invalid := by
  obtain ⟨_, hall, _, _⟩ := natDigits_spec argv.length
  have hline : ∀ c ∈ (42 : UInt8) :: natDigits argv.length, c ≠ 13 := by
    intro c hc
    rcases List.mem_cons.mp hc with e | e
    · subst e; decide
    · exact (hall c e).2
  have henc : encodeCmd argv =
      (((42 : UInt8) :: natDigits argv.length) ++ [13, 10]) ++ serList (argv.map .bulk) := by
    simp [encodeCmd, ser, serLen, crlf, List.append_assoc]
  rw [henc] at hp
  unfold parseRes parse
  rcases (List.append_eq_append_iff.mp hp).symm with ⟨a', ha, hb⟩ | ⟨c', hc, _⟩
  · have hp' : p = ((42 : UInt8) :: natDigits argv.length) ++ 13 :: 10 :: a' := by
      rw [ha]; simp [List.append_assoc]
    rw [hp']
    unfold parseValue
    rw [splitLine_line _ _ hline]
    simp only
    have h1 : ((42 : UInt8) == 43) = false := by decide
    have h2 : ((42 : UInt8) == 45) = false := by decide
    have h3 : ((42 : UInt8) == 36) = false := by decide
    have h4 : ((42 : UInt8) == 58) = false := by decide
    have h5 : ((42 : UInt8) == 42) = true := by decide
    simp only [h1, h2, h3, h4, h5, Bool.false_eq_true, ↓reduceIte]
    have hqq : ((42 : UInt8) :: natDigits argv.length == sb "*?") = false := by
      rw [sb_starq]
      simp only [List.cons_beq_cons, beq_self_eq_true, Bool.true_and]
      exact digits_ne_q argv.length
    simp only [hqq, Bool.false_eq_true, ↓reduceIte, lineCount, List.drop_succ_cons, List.drop_zero,
      parseInt64_natDigits argv.length hn]
    have hnn : ¬ ((argv.length : Int) < 0) := by omega
    simp only [hnn, ↓reduceIte, Int.toNat_natCast, makeCrashes, Bool.false_eq_true]
    rw [parseN_bulks_incomplete argv hl _ _ [] a' q hb.symm hq]
  · by_cases hc' : c' = []
    · subst hc'
      simp only [List.append_nil] at hc
      have hp' : p = ((42 : UInt8) :: natDigits argv.length) ++ 13 :: 10 :: [] := by
        rw [← hc]
      have hq2 : ([] : Bytes) ++ q = serList (argv.map .bulk) := by
        have h2 := hp
        rw [← hc] at h2
        exact List.append_cancel_left h2
      rw [hp']
      unfold parseValue
      rw [splitLine_line _ _ hline]
      simp only
      have h1 : ((42 : UInt8) == 43) = false := by decide
      have h2 : ((42 : UInt8) == 45) = false := by decide
      have h3 : ((42 : UInt8) == 36) = false := by decide
      have h4 : ((42 : UInt8) == 58) = false := by decide
      have h5 : ((42 : UInt8) == 42) = true := by decide
      simp only [h1, h2, h3, h4, h5, Bool.false_eq_true, ↓reduceIte]
      have hqq : ((42 : UInt8) :: natDigits argv.length == sb "*?") = false := by
        rw [sb_starq]
        simp only [List.cons_beq_cons, beq_self_eq_true, Bool.true_and]
        exact digits_ne_q argv.length
      simp only [hqq, Bool.false_eq_true, ↓reduceIte, lineCount, List.drop_succ_cons, List.drop_zero,
        parseInt64_natDigits argv.length hn]
      have hnn : ¬ ((argv.length : Int) < 0) := by omega
      simp only [hnn, ↓reduceIte, Int.toNat_natCast, makeCrashes, Bool.false_eq_true]
      rw [parseN_bulks_incomplete argv hl _ _ [] [] q hq2 hq]
    · unfold parseValue
      rw [splitLine_incomplete _ hline p c' hc.symm hc']

/-! ### the connection's buffer: any segmentation of a pipeline gives the same commands -/

/-- a pipeline of well-formed commands as it travels on the wire -/
def wire (cmds : List (List Bytes)) : Bytes := (cmds.map encodeCmd).flatten

def cmdValue (argv : List Bytes) : Value := .array (argv.map .bulk)

/-- sizes a 64-bit length field can express (the only requirement on a command) -/
def Sendable (cmds : List (List Bytes)) : Prop :=
  ∀ argv ∈ cmds, argv.length < 2 ^ 63 ∧ ∀ a ∈ argv, a.length < 2 ^ 63

theorem encodeCmd_ne_nil (argv : List Bytes) : encodeCmd argv ≠ [] := by
  simp [encodeCmd, ser, serLen]

/-- what may be left in the buffer: nothing, or a strict prefix of the encoding of the next command -/
def Partial (p : Bytes) (rest : List (List Bytes)) : Prop :=
  p = [] ∨ ∃ argv rest' q, rest = argv :: rest' ∧ q ≠ [] ∧ p ++ q = encodeCmd argv

/-- however the wire is cut in two, the first part is some complete commands plus a partial one -/
theorem wire_split (cmds : List (List Bytes)) :
    ∀ (x y : Bytes), x ++ y = wire cmds →
      ∃ done rest p, cmds = done ++ rest ∧ x = wire done ++ p ∧ Partial p rest := by
  induction cmds with
  | nil =>
    intro x y h
    simp only [wire, List.map_nil, List.flatten_nil, List.append_eq_nil_iff] at h
    exact ⟨[], [], [], rfl, by simp [wire, h.1], Or.inl rfl⟩
  | cons c cs ih =>
    intro x y h
    have hw : wire (c :: cs) = encodeCmd c ++ wire cs := by simp [wire]
    rw [hw] at h
    rcases List.append_eq_append_iff.mp h with ⟨c', hc, hy⟩ | ⟨a', ha, hb⟩
    · -- x ends inside (or exactly at the end of) the first command
      by_cases hc' : c' = []
      · subst hc'
        simp only [List.append_nil] at hc
        exact ⟨[c], cs, [], rfl, by simp [wire, hc], Or.inl rfl⟩
      · exact ⟨[], c :: cs, x, rfl, by simp [wire], Or.inr ⟨c, cs, c', rfl, hc', hc.symm⟩⟩
    · obtain ⟨done, rest, p, hd, hx, hp⟩ := ih a' y hb.symm
      refine ⟨c :: done, rest, p, by simp [hd], ?_, hp⟩
      rw [ha, hx]
      simp [wire, List.append_assoc]

theorem parseRes_nil : parseRes [] = .invalid := by
  simp [parseRes, parse, parseValue, splitLine]

theorem parseRes_partial (p : Bytes) (rest : List (List Bytes)) (hs : Sendable rest) (hp : Partial p rest) :
    parseRes p = .invalid := by
  rcases hp with rfl | ⟨argv, rest', q, hr, hq, hpq⟩
  · exact parseRes_nil
  · have := hs argv (by rw [hr]; exact List.mem_cons_self)
    exact parse_encodeCmd_incomplete argv p q this.1 this.2 hpq hq

/-- draining a buffer that holds complete commands followed by a partial one hands exactly those
    commands to the dispatcher, in order, and keeps the partial one -/
theorem drain_wire (done : List (List Bytes)) :
    ∀ (rest : List (List Bytes)) (p : Bytes) (s : ConnState) (fuel : Nat),
      Sendable done → Sendable rest → Partial p rest → s.dead = false →
      s.inbound = wire done ++ p → done.length + 1 ≤ fuel →
      drain fuel s = { inbound := p, emitted := s.emitted ++ done.map cmdValue, dead := false } := by
  induction done with
  | nil =>
    intro rest p s fuel _ hsr hp hdead hin hf
    obtain ⟨fuel, rfl⟩ : ∃ f, fuel = f + 1 := ⟨fuel - 1, by simp at hf; omega⟩
    simp only [wire, List.map_nil, List.flatten_nil, List.nil_append] at hin
    unfold drain
    simp only [hdead, Bool.false_eq_true, ↓reduceIte, hin, parseRes_partial p rest hsr hp]
    cases s; simp_all
  | cons c cs ih =>
    intro rest p s fuel hsd hsr hp hdead hin hf
    obtain ⟨fuel, rfl⟩ : ∃ f, fuel = f + 1 := ⟨fuel - 1, by simp at hf; omega⟩
    have hc := hsd c List.mem_cons_self
    have hscs : Sendable cs := fun a ha => hsd a (List.mem_cons_of_mem _ ha)
    have hw : wire (c :: cs) ++ p = encodeCmd c ++ (wire cs ++ p) := by simp [wire, List.append_assoc]
    rw [hw] at hin
    unfold drain
    simp only [hdead, Bool.false_eq_true, ↓reduceIte, hin, parse_encodeCmd c _ hc.1 hc.2]
    have hne : ((encodeCmd c).length == 0) = false := by
      have := encodeCmd_ne_nil c
      cases h : encodeCmd c with
      | nil => exact absurd h this
      | cons _ _ => simp
    simp only [hne, Bool.false_eq_true, ↓reduceIte, List.drop_left']
    rw [ih rest p _ fuel hscs hsr hp rfl rfl (by simp at hf ⊢; omega)]
    simp [cmdValue, List.append_assoc]

/-- the state of a connection after some of the wire has arrived, however it was segmented: the
    commands completely received have been handed over, the partial one is kept -/
theorem feed_invariant (chunks : List Bytes) :
    ∀ (s : ConnState) (rest : List (List Bytes)) (p : Bytes),
      Sendable rest → Partial p rest → s.dead = false → s.inbound = p →
      p ++ chunks.flatten = wire rest →
      chunks.foldl feed s = { inbound := [], emitted := s.emitted ++ rest.map cmdValue, dead := false } := by
  induction chunks with
  | nil =>
    intro s rest p hs hp hdead hin hw
    simp only [List.flatten_nil, List.append_nil] at hw
    -- nothing more will arrive: the buffer cannot hold a partial command
    have hp0 : p = [] ∧ rest = [] := by
      rcases hp with rfl | ⟨argv, rest', q, hr, hq, hpq⟩
      · cases rest with
        | nil => exact ⟨rfl, rfl⟩
        | cons c cs =>
          have : wire (c :: cs) = encodeCmd c ++ wire cs := by simp [wire]
          rw [this] at hw
          have := encodeCmd_ne_nil c
          simp_all
      · exfalso
        rw [hr] at hw
        have h1 : wire (argv :: rest') = encodeCmd argv ++ wire rest' := by simp [wire]
        rw [h1, ← hpq, List.append_assoc] at hw
        have := congrArg List.length hw
        simp only [List.length_append] at this
        have : 0 < q.length := List.length_pos_iff.mpr hq
        omega
    obtain ⟨rfl, rfl⟩ := hp0
    cases s; simp_all
  | cons c cs ih =>
    intro s rest p hs hp hdead hin hw
    simp only [List.flatten_cons, List.foldl_cons] at hw ⊢
    -- the bytes now in the buffer are some complete commands and a partial one
    obtain ⟨done, rest2, p', hd, hx, hp'⟩ := wire_split rest (p ++ c) cs.flatten (by rw [List.append_assoc]; exact hw)
    have hsd : Sendable done := fun a ha => hs a (by rw [hd]; exact List.mem_append_left _ ha)
    have hs2 : Sendable rest2 := fun a ha => hs a (by rw [hd]; exact List.mem_append_right _ ha)
    have hfeed : feed s c = { inbound := p', emitted := s.emitted ++ done.map cmdValue, dead := false } := by
      unfold feed
      refine drain_wire done rest2 p' { s with inbound := s.inbound ++ c } _ hsd hs2 hp' hdead (by simp [hin, hx]) ?_
      simp only [hin]
      have : done.length ≤ (wire done).length := by
        clear hd hx hsd
        induction done with
        | nil => simp
        | cons d ds ihd =>
          have h1 : wire (d :: ds) = encodeCmd d ++ wire ds := by simp [wire]
          have := encodeCmd_ne_nil d
          have : 0 < (encodeCmd d).length := List.length_pos_iff.mpr this
          simp only [h1, List.length_cons, List.length_append]
          omega
      simp only [hx, List.length_append]
      omega
    rw [hfeed]
    have hw2 : p' ++ cs.flatten = wire rest2 := by
      have h1 : wire rest = wire done ++ wire rest2 := by simp [hd, wire]
      have h2 : (wire done ++ p') ++ cs.flatten = wire done ++ wire rest2 := by
        rw [← hx, ← h1, List.append_assoc]; exact hw
      rw [List.append_assoc] at h2
      exact List.append_cancel_left h2
    rw [ih _ rest2 p' hs2 hp' rfl rfl hw2]
    simp [hd, List.append_assoc]

/-- **Framing independence.** For every pipeline of well-formed commands and every way of cutting its
    bytes into TCP segments (any number of segments, cuts anywhere: inside a length, between CR and LF,
    inside an argument), the connection hands exactly the commands of the pipeline to the dispatcher,
    in order, each once, and its buffer is empty afterwards. -/
theorem framing_independent (cmds : List (List Bytes)) (chunks : List Bytes)
    (hs : Sendable cmds) (hc : chunks.flatten = wire cmds) :
    chunks.foldl feed {} = { inbound := [], emitted := cmds.map cmdValue, dead := false } := by
  have := feed_invariant chunks {} cmds [] hs (Or.inl rfl) rfl rfl (by simpa using hc)
  simpa using this

/-- … hence two segmentations of the same bytes cannot be told apart by anything that follows -/
theorem segmentation_irrelevant (cmds : List (List Bytes)) (chunks1 chunks2 : List Bytes)
    (hs : Sendable cmds) (h1 : chunks1.flatten = wire cmds) (h2 : chunks2.flatten = wire cmds) :
    chunks1.foldl feed {} = chunks2.foldl feed {} := by
  rw [framing_independent cmds chunks1 hs h1, framing_independent cmds chunks2 hs h2]

/-- non-vacuity: `SET k "\r\n"` and `GET k`, cut inside the CR LF of a length line and inside the
    binary value, arrive as the two commands -/
example :
    let cmds : List (List Bytes) := [[[83, 69, 84], [107], [13, 10]], [[71, 69, 84], [107]]]
    let w := wire cmds
    ([w.take 3, (w.drop 3).take 22, w.drop 25].foldl feed {}).emitted = cmds.map cmdValue := by
  intro cmds w
  have hs : Sendable cmds := by
    intro argv h
    have h2 : argv.length ≤ 3 ∧ ∀ a ∈ argv, a.length ≤ 3 := by
      simp only [cmds, List.mem_cons, List.mem_nil_iff, or_false] at h
      rcases h with rfl | rfl <;> simp
    exact ⟨by omega, fun a ha => by have := h2.2 a ha; omega⟩
  have hc : [w.take 3, (w.drop 3).take 22, w.drop 25].flatten = wire cmds := by
    simp only [List.flatten_cons, List.flatten_nil, List.append_nil]
    have : List.drop 25 w = List.drop 22 (List.drop 3 w) := by simp [List.drop_drop]
    rw [this, List.take_append_drop, List.take_append_drop]
  rw [framing_independent cmds _ hs hc]


/-! ## the reply side: every RESP2 reply is one well-formed value on the wire, binary-safe -/

mutual
  /-- a RESP2 reply whose numbers fit the wire format (Go `int64` counts and lengths) -/
  def Value.wire : Value → Bool
    | .simple _ | .error _ | .nil => true
    | .int i => inRange64 i
    | .bulk b => decide (b.length < 2 ^ 63)
    | .array xs => decide (xs.length < 2 ^ 63) && Value.allWire xs
    -- the RESP3 scalars: null, booleans, doubles (the text the serializer writes: a decimal, inf or nan),
    -- big numbers, blob errors, verbatim strings (three-letter format)
    | .null | .bool _ => true
    | .double t => t.all (· != 13) && ((parseDecimal t).isSome || isInfNan t)
    | .big t => t.all (· != 13)
    | .blobErr b => decide (b.length < 2 ^ 63)
    | .verbatim f t => decide (f.length = 3) && decide (f.length + 1 + t.length < 2 ^ 63)
    | _ => false
  def Value.allWire : List Value → Bool
    | [] => true
    | x :: xs => x.wire && Value.allWire xs
end

mutual
  /-- what a reader gets back: CR and LF inside a status line were sent as spaces; everything else
      byte for byte -/
  def canon : Value → Value
    | .simple s => .simple (lineSafe s)
    | .error s => .error (lineSafe s)
    | .array xs => .array (canonList xs)
    | v => v
  def canonList : List Value → List Value
    | [] => []
    | x :: xs => canon x :: canonList xs
end

mutual
  /-- recursion fuel the parser needs for a value -/
  def need : Value → Nat
    | .array xs => needList xs + 1
    | _ => 1
  def needList : List Value → Nat
    | [] => 1
    | x :: xs => max (need x + 1) (needList xs + 1)
end

theorem lineSafe_no_cr (s : Bytes) : ∀ c ∈ lineSafe s, c ≠ 13 := by
  intro c hc
  unfold lineSafe at hc
  obtain ⟨b, _, hb⟩ := List.mem_map.mp hc
  split at hb
  · rw [← hb]; decide
  · rename_i h
    rw [← hb]
    intro h13
    simp [h13] at h

theorem parse_simple (s rest : Bytes) (fuel pos : Nat) :
    parseValue (fuel + 1) false (ser (.simple s) ++ rest) pos =
      .ok (.simple (lineSafe s)) rest (pos + (ser (.simple s)).length) := by
  have hline : ∀ c ∈ (43 : UInt8) :: lineSafe s, c ≠ 13 := by
    intro c hc
    rcases List.mem_cons.mp hc with e | e
    · subst e; decide
    · exact lineSafe_no_cr s c e
  have hser : ser (.simple s) ++ rest = ((43 : UInt8) :: lineSafe s) ++ 13 :: 10 :: rest := by
    simp [ser, crlf, List.append_assoc]
  rw [hser]
  unfold parseValue
  rw [splitLine_line _ _ hline]
  simp [ser, crlf]
  omega

theorem parse_error (s rest : Bytes) (fuel pos : Nat) :
    parseValue (fuel + 1) false (ser (.error s) ++ rest) pos =
      .ok (.error (lineSafe s)) rest (pos + (ser (.error s)).length) := by
  have hline : ∀ c ∈ (45 : UInt8) :: lineSafe s, c ≠ 13 := by
    intro c hc
    rcases List.mem_cons.mp hc with e | e
    · subst e; decide
    · exact lineSafe_no_cr s c e
  have hser : ser (.error s) ++ rest = ((45 : UInt8) :: lineSafe s) ++ 13 :: 10 :: rest := by
    simp [ser, crlf, List.append_assoc]
  rw [hser]
  unfold parseValue
  rw [splitLine_line _ _ hline]
  simp [ser, crlf]
  omega

theorem sb_nil : sb "$-1\r\n" = [36, 45, 49, 13, 10] := by decide +kernel

theorem parse_nil (rest : Bytes) (fuel pos : Nat) :
    parseValue (fuel + 1) false (ser .nil ++ rest) pos = .ok .nil rest (pos + (ser Value.nil).length) := by
  have hser : ser .nil ++ rest = [36, 45, 49] ++ 13 :: 10 :: rest := by simp [ser, sb_nil]
  rw [hser]
  unfold parseValue
  rw [splitLine_line _ _ (by decide)]
  have h1 : lineCount [36, 45, 49] = some (-1) := by decide +kernel
  have h2 : ([36, 45, 49] == sb "$?") = false := by rw [sb_dollarq]; decide
  simp [h1, h2, ser, sb_nil]

theorem parseInt64_showInt (i : Int) (h : inRange64 i = true) : parseInt64 (showInt i) = some i := by
  unfold inRange64 twoP63 at h
  simp only [Bool.and_eq_true, decide_eq_true_eq] at h
  unfold showInt
  split
  · rename_i hneg
    obtain ⟨hv, hall, hne, _⟩ := natDigits_spec i.natAbs
    unfold parseInt64 parseDec
    simp only [beq_self_eq_true, ↓reduceIte]
    have he : (natDigits i.natAbs).isEmpty = false := by
      cases hd : natDigits i.natAbs with
      | nil => exact absurd hd hne
      | cons _ _ => rfl
    have hall' : (natDigits i.natAbs).all isDigit = true := by
      rw [List.all_eq_true]; intro x hx; exact (hall x hx).1
    simp only [he, hall', Bool.not_true, Bool.or_self, Bool.false_eq_true, ↓reduceIte, hv]
    have e : -((i.natAbs : Nat) : Int) = i := by omega
    rw [e]
    have : inRange64 i = true := by
      unfold inRange64 twoP63
      simp only [Bool.and_eq_true, decide_eq_true_eq]; omega
    simp [this]
  · rename_i hpos
    have hlt : i.natAbs < 2 ^ 63 := by
      have : (2:Nat)^63 = 9223372036854775808 := by decide
      omega
    rw [parseInt64_natDigits _ hlt]
    congr 1
    omega

theorem showInt_no_cr (i : Int) : ∀ c ∈ showInt i, c ≠ 13 := by
  intro c hc
  obtain ⟨_, hall, _, _⟩ := natDigits_spec i.natAbs
  unfold showInt at hc
  split at hc
  · rcases List.mem_cons.mp hc with e | e
    · subst e; decide
    · exact (hall c e).2
  · exact (hall c hc).2

theorem parse_int (i : Int) (rest : Bytes) (fuel pos : Nat) (h : inRange64 i = true) :
    parseValue (fuel + 1) false (ser (.int i) ++ rest) pos = .ok (.int i) rest (pos + (ser (.int i)).length) := by
  have hline : ∀ c ∈ (58 : UInt8) :: showInt i, c ≠ 13 := by
    intro c hc
    rcases List.mem_cons.mp hc with e | e
    · subst e; decide
    · exact showInt_no_cr i c e
  have hser : ser (.int i) ++ rest = ((58 : UInt8) :: showInt i) ++ 13 :: 10 :: rest := by
    simp [ser, crlf, List.append_assoc]
  rw [hser]
  unfold parseValue
  rw [splitLine_line _ _ hline]
  simp only
  have h1 : ((58 : UInt8) == 43) = false := by decide
  have h2 : ((58 : UInt8) == 45) = false := by decide
  have h3 : ((58 : UInt8) == 36) = false := by decide
  have h4 : ((58 : UInt8) == 58) = true := by decide
  simp only [h1, h2, h3, h4, Bool.false_eq_true, ↓reduceIte, lineCount, List.drop_succ_cons, List.drop_zero,
    parseInt64_showInt i h]
  simp [ser, crlf]
  omega

/-! ### RESP3 scalars -/

theorem sb_null : sb "_\r\n" = [95, 13, 10] := by decide +kernel
theorem sb_true : sb "#t\r\n" = [35, 116, 13, 10] := by decide +kernel
theorem sb_false : sb "#f\r\n" = [35, 102, 13, 10] := by decide +kernel
theorem sb_t : sb "#t" = [35, 116] := by decide +kernel
theorem sb_f : sb "#f" = [35, 102] := by decide +kernel
theorem sb_dot : sb "." = [46] := by decide +kernel
theorem sb_us : sb "_" = [95] := by decide +kernel

theorem parse_null (rest : Bytes) (fuel pos : Nat) :
    parseValue (fuel + 1) false (ser .null ++ rest) pos = .ok .null rest (pos + (ser Value.null).length) := by
  have hser : ser .null ++ rest = [95] ++ 13 :: 10 :: rest := by simp [ser, sb_null]
  rw [hser]
  unfold parseValue
  rw [splitLine_line _ _ (by decide)]
  simp [ser, sb_null, sb_t, sb_f, sb_dot, sb_us]

theorem parse_bool (b : Bool) (rest : Bytes) (fuel pos : Nat) :
    parseValue (fuel + 1) false (ser (.bool b) ++ rest) pos = .ok (.bool b) rest (pos + (ser (Value.bool b)).length) := by
  cases b with
  | true =>
    have hser : ser (.bool true) ++ rest = [35, 116] ++ 13 :: 10 :: rest := by simp [ser, sb_true]
    rw [hser]
    unfold parseValue
    rw [splitLine_line _ _ (by decide)]
    simp [ser, sb_true, sb_t, sb_f]
  | false =>
    have hser : ser (.bool false) ++ rest = [35, 102] ++ 13 :: 10 :: rest := by simp [ser, sb_false]
    rw [hser]
    unfold parseValue
    rw [splitLine_line _ _ (by decide)]
    simp [ser, sb_false, sb_t, sb_f]

/-- a big number: any digits text without CR -/
theorem parse_big (t rest : Bytes) (fuel pos : Nat) (ht : ∀ c ∈ t, c ≠ 13) :
    parseValue (fuel + 1) false (ser (.big t) ++ rest) pos = .ok (.big t) rest (pos + (ser (Value.big t)).length) := by
  have hline : ∀ c ∈ (40 : UInt8) :: t, c ≠ 13 := by
    intro c hc
    rcases List.mem_cons.mp hc with e | e
    · subst e; decide
    · exact ht c e
  have hser : ser (.big t) ++ rest = ((40 : UInt8) :: t) ++ 13 :: 10 :: rest := by simp [ser, crlf, List.append_assoc]
  rw [hser]
  unfold parseValue
  rw [splitLine_line _ _ hline]
  simp [ser, crlf, sb_t, sb_f, sb_dot, sb_us]
  omega

/-- a double: the text the serializer writes is a decimal (or inf / nan) without CR -/
theorem parse_double (t rest : Bytes) (fuel pos : Nat) (ht : ∀ c ∈ t, c ≠ 13)
    (hd : ((parseDecimal t).isSome || isInfNan t) = true) :
    parseValue (fuel + 1) false (ser (.double t) ++ rest) pos = .ok (.double t) rest (pos + (ser (Value.double t)).length) := by
  have hline : ∀ c ∈ (44 : UInt8) :: t, c ≠ 13 := by
    intro c hc
    rcases List.mem_cons.mp hc with e | e
    · subst e; decide
    · exact ht c e
  have hser : ser (.double t) ++ rest = ((44 : UInt8) :: t) ++ 13 :: 10 :: rest := by simp [ser, crlf, List.append_assoc]
  rw [hser]
  unfold parseValue
  rw [splitLine_line _ _ hline]
  simp only
  have h1 : ((44 : UInt8) == 43) = false := by decide
  have h2 : ((44 : UInt8) == 45) = false := by decide
  have h3 : ((44 : UInt8) == 36) = false := by decide
  have h4 : ((44 : UInt8) == 58) = false := by decide
  have h5 : ((44 : UInt8) == 42) = false := by decide
  have h6 : ((44 : UInt8) == 37) = false := by decide
  have h7 : ((44 : UInt8) == 44) = true := by decide
  simp only [h1, h2, h3, h4, h5, h6, h7, Bool.false_eq_true, ↓reduceIte, hd]
  simp [ser, crlf]
  omega

theorem sb_bangq : sb "!?" = [33, 63] := by decide +kernel

theorem parse_blobErr (b rest : Bytes) (fuel pos : Nat) (hl : b.length < 2 ^ 63) :
    parseValue (fuel + 1) false (ser (.blobErr b) ++ rest) pos =
      .ok (.blobErr b) rest (pos + (ser (.blobErr b)).length) := by
  obtain ⟨_, hall, hne, _⟩ := natDigits_spec b.length
  have hline : ∀ c ∈ (33 : UInt8) :: natDigits b.length, c ≠ 13 := by
    intro c hc
    rcases List.mem_cons.mp hc with e | e
    · subst e; decide
    · exact (hall c e).2
  have hser : ser (.blobErr b) ++ rest = ((33 : UInt8) :: natDigits b.length) ++ 13 :: 10 :: (b ++ 13 :: 10 :: rest) := by
    simp [ser, serLen, crlf, List.append_assoc]
  rw [hser]
  unfold parseValue
  rw [splitLine_line _ _ hline]
  simp only
  have hq : ((33 : UInt8) :: natDigits b.length == sb "!?") = false := by
    rw [sb_bangq]
    simp only [List.cons_beq_cons, beq_self_eq_true, Bool.true_and]
    exact digits_ne_q b.length
  have c1 : ((33 : UInt8) == 43) = false := by decide
  have c2 : ((33 : UInt8) == 45) = false := by decide
  have c3 : ((33 : UInt8) == 36) = false := by decide
  have c4 : ((33 : UInt8) == 58) = false := by decide
  have c5 : ((33 : UInt8) == 42) = false := by decide
  have c6 : ((33 : UInt8) == 37) = false := by decide
  have c7 : ((33 : UInt8) == 44) = false := by decide
  have c8 : ((33 : UInt8) == 126) = false := by decide
  have c9 : ((33 : UInt8) == 33) = true := by decide
  have d1 : ((33 : UInt8) :: natDigits b.length == sb "#t") = false := by simp [sb_t]
  have d2 : ((33 : UInt8) :: natDigits b.length == sb "#f") = false := by simp [sb_f]
  have d3 : ((33 : UInt8) :: natDigits b.length == sb ".") = false := by simp [sb_dot]
  have d4 : ((33 : UInt8) :: natDigits b.length == sb "_") = false := by simp [sb_us]
  simp only [c1, c2, c3, c4, c5, c6, c7, c8, c9, d1, d2, d3, d4, hq, Bool.false_eq_true, ↓reduceIte, Bool.false_and,
    lineCount, List.drop_succ_cons, List.drop_zero, parseInt64_natDigits b.length hl]
  have hnn : ¬ ((b.length : Int) < 0) := by omega
  simp only [hnn, ↓reduceIte, Int.toNat_natCast]
  unfold takeBulk
  have hlen : ¬ (b.length + 2 > (b ++ 13 :: 10 :: rest).length) := by simp
  simp only [hlen, ↓reduceIte, List.take_left', List.drop_left']
  simp [ser, serLen, crlf]
  omega

theorem parse_verbatim (f t rest : Bytes) (fuel pos : Nat) (hf : f.length = 3) (hl : f.length + 1 + t.length < 2 ^ 63) :
    parseValue (fuel + 1) false (ser (.verbatim f t) ++ rest) pos =
      .ok (.verbatim f t) rest (pos + (ser (.verbatim f t)).length) := by
  obtain ⟨x, y, z, rfl⟩ : ∃ x y z, f = [x, y, z] := by
    match f, hf with
    | [x, y, z], _ => exact ⟨x, y, z, rfl⟩
  have hl' : 4 + t.length < 2 ^ 63 := by simp at hl; omega
  obtain ⟨_, hall, hne, _⟩ := natDigits_spec (4 + t.length)
  have hline : ∀ c ∈ (61 : UInt8) :: natDigits (4 + t.length), c ≠ 13 := by
    intro c hc
    rcases List.mem_cons.mp hc with e | e
    · subst e; decide
    · exact (hall c e).2
  have hcount : [x, y, z].length + 1 + t.length = 4 + t.length := by simp
  have hser : ser (.verbatim [x, y, z] t) ++ rest =
      ((61 : UInt8) :: natDigits (4 + t.length)) ++ 13 :: 10 :: ((x :: y :: z :: 58 :: t) ++ 13 :: 10 :: rest) := by
    simp only [ser, serLen, hcount, crlf, List.append_assoc] <;> rfl
  rw [hser]
  unfold parseValue
  rw [splitLine_line _ _ hline]
  simp only
  have c1 : ((61 : UInt8) == 43) = false := by decide
  have c2 : ((61 : UInt8) == 45) = false := by decide
  have c3 : ((61 : UInt8) == 36) = false := by decide
  have c4 : ((61 : UInt8) == 58) = false := by decide
  have c5 : ((61 : UInt8) == 42) = false := by decide
  have c6 : ((61 : UInt8) == 37) = false := by decide
  have c7 : ((61 : UInt8) == 44) = false := by decide
  have c8 : ((61 : UInt8) == 126) = false := by decide
  have c9 : ((61 : UInt8) == 33) = false := by decide
  have c10 : ((61 : UInt8) == 61) = true := by decide
  have d1 : ((61 : UInt8) :: natDigits (4 + t.length) == sb "#t") = false := by simp [sb_t]
  have d2 : ((61 : UInt8) :: natDigits (4 + t.length) == sb "#f") = false := by simp [sb_f]
  have d3 : ((61 : UInt8) :: natDigits (4 + t.length) == sb ".") = false := by simp [sb_dot]
  have d4 : ((61 : UInt8) :: natDigits (4 + t.length) == sb "_") = false := by simp [sb_us]
  simp only [c1, c2, c3, c4, c5, c6, c7, c8, c9, c10, d1, d2, d3, d4, Bool.false_eq_true, ↓reduceIte, Bool.false_and,
    lineCount, List.drop_succ_cons, List.drop_zero, parseInt64_natDigits _ hl']
  have hnn : ¬ (((4 + t.length : Nat) : Int) < 0) := by omega
  simp only [hnn, ↓reduceIte, Int.toNat_natCast]
  unfold takeBulk
  have hbl : (x :: y :: z :: 58 :: t).length = 4 + t.length := by simp; omega
  have hlen : ¬ (4 + t.length + 2 > ((x :: y :: z :: 58 :: t) ++ 13 :: 10 :: rest).length) := by
    rw [List.length_append, hbl]; simp
  simp only [hlen, ↓reduceIte]
  have htake : List.take (4 + t.length) ((x :: y :: z :: 58 :: t) ++ 13 :: 10 :: rest) = x :: y :: z :: 58 :: t :=
    List.take_left' hbl
  have hdrop : List.drop (4 + t.length) ((x :: y :: z :: 58 :: t) ++ 13 :: 10 :: rest) = 13 :: 10 :: rest :=
    List.drop_left' hbl
  rw [hdrop]
  simp only [htake]
  simp [ser, serLen, crlf]
  have hge : ¬ (t.length + 1 + 1 + 1 + 1 < 4) := by omega
  simp only [hge, ↓reduceIte]
  congr 1
  omega


mutual
  /-- **Reply framing and binary safety (RESP2).** The bytes the serializer writes for a reply are read
      back as exactly one value — that value (status lines with CR / LF replaced by spaces, bulk strings
      byte for byte, whatever they contain), consuming exactly those bytes, whatever follows. -/
  theorem parse_ser : ∀ (v : Value), v.wire = true → ∀ (fuel pos : Nat) (rest : Bytes), need v ≤ fuel →
      parseValue fuel false (ser v ++ rest) pos = .ok (canon v) rest (pos + (ser v).length)
    | .simple s, _, fuel, pos, rest, hf => by
      obtain ⟨f, rfl⟩ : ∃ f, fuel = f + 1 := ⟨fuel - 1, by simp [need] at hf; omega⟩
      exact parse_simple s rest f pos
    | .error s, _, fuel, pos, rest, hf => by
      obtain ⟨f, rfl⟩ : ∃ f, fuel = f + 1 := ⟨fuel - 1, by simp [need] at hf; omega⟩
      exact parse_error s rest f pos
    | .nil, _, fuel, pos, rest, hf => by
      obtain ⟨f, rfl⟩ : ∃ f, fuel = f + 1 := ⟨fuel - 1, by simp [need] at hf; omega⟩
      exact parse_nil rest f pos
    | .int i, hw, fuel, pos, rest, hf => by
      obtain ⟨f, rfl⟩ : ∃ f, fuel = f + 1 := ⟨fuel - 1, by simp [need] at hf; omega⟩
      exact parse_int i rest f pos (by simpa [Value.wire] using hw)
    | .bulk b, hw, fuel, pos, rest, hf => by
      obtain ⟨f, rfl⟩ : ∃ f, fuel = f + 1 := ⟨fuel - 1, by simp [need] at hf; omega⟩
      exact parse_bulk b rest f pos (by simpa [Value.wire] using hw)
    | .array xs, hw, fuel, pos, rest, hf => by
      simp only [Value.wire, Bool.and_eq_true, decide_eq_true_eq] at hw
      obtain ⟨f, rfl⟩ : ∃ f, fuel = f + 1 := ⟨fuel - 1, by simp [need] at hf; omega⟩
      have hf' : needList xs ≤ f := by simp only [need] at hf; omega
      obtain ⟨_, hall, hne, _⟩ := natDigits_spec xs.length
      have hline : ∀ c ∈ (42 : UInt8) :: natDigits xs.length, c ≠ 13 := by
        intro c hc
        rcases List.mem_cons.mp hc with e | e
        · subst e; decide
        · exact (hall c e).2
      have henc : ser (.array xs) ++ rest =
          ((42 : UInt8) :: natDigits xs.length) ++ 13 :: 10 :: (serList xs ++ rest) := by
        simp [ser, serLen, crlf, List.append_assoc]
      rw [henc]
      unfold parseValue
      rw [splitLine_line _ _ hline]
      simp only
      have h1 : ((42 : UInt8) == 43) = false := by decide
      have h2 : ((42 : UInt8) == 45) = false := by decide
      have h3 : ((42 : UInt8) == 36) = false := by decide
      have h4 : ((42 : UInt8) == 58) = false := by decide
      have h5 : ((42 : UInt8) == 42) = true := by decide
      simp only [h1, h2, h3, h4, h5, Bool.false_eq_true, ↓reduceIte]
      have hq : ((42 : UInt8) :: natDigits xs.length == sb "*?") = false := by
        rw [sb_starq]
        simp only [List.cons_beq_cons, beq_self_eq_true, Bool.true_and]
        exact digits_ne_q xs.length
      simp only [hq, Bool.false_eq_true, ↓reduceIte, lineCount, List.drop_succ_cons, List.drop_zero,
        parseInt64_natDigits xs.length hw.1]
      have hnn : ¬ ((xs.length : Int) < 0) := by omega
      simp only [hnn, ↓reduceIte, Int.toNat_natCast, makeCrashes, Bool.false_eq_true]
      rw [parseN_ser xs hw.2 f _ rest [] hf']
      simp [ser, serLen, crlf, canon]
      omega
    | .null, _, fuel, pos, rest, hf => by
      obtain ⟨f, rfl⟩ : ∃ f, fuel = f + 1 := ⟨fuel - 1, by simp [need] at hf; omega⟩
      exact parse_null rest f pos
    | .bool b, _, fuel, pos, rest, hf => by
      obtain ⟨f, rfl⟩ : ∃ f, fuel = f + 1 := ⟨fuel - 1, by simp [need] at hf; omega⟩
      exact parse_bool b rest f pos
    | .double t, hw, fuel, pos, rest, hf => by
      obtain ⟨f, rfl⟩ : ∃ f, fuel = f + 1 := ⟨fuel - 1, by simp [need] at hf; omega⟩
      simp only [Value.wire, Bool.and_eq_true, List.all_eq_true, bne_iff_ne, ne_eq] at hw
      exact parse_double t rest f pos hw.1 hw.2
    | .big t, hw, fuel, pos, rest, hf => by
      obtain ⟨f, rfl⟩ : ∃ f, fuel = f + 1 := ⟨fuel - 1, by simp [need] at hf; omega⟩
      simp only [Value.wire, List.all_eq_true, bne_iff_ne, ne_eq] at hw
      exact parse_big t rest f pos hw
    | .blobErr b, hw, fuel, pos, rest, hf => by
      obtain ⟨f, rfl⟩ : ∃ f, fuel = f + 1 := ⟨fuel - 1, by simp [need] at hf; omega⟩
      exact parse_blobErr b rest f pos (by simpa [Value.wire] using hw)
    | .verbatim fm t, hw, fuel, pos, rest, hf => by
      obtain ⟨f, rfl⟩ : ∃ f, fuel = f + 1 := ⟨fuel - 1, by simp [need] at hf; omega⟩
      simp only [Value.wire, Bool.and_eq_true, decide_eq_true_eq] at hw
      exact parse_verbatim fm t rest f pos hw.1 hw.2
    | .map _, hw, _, _, _, _ | .pairs _, hw, _, _, _, _ | .set _, hw, _, _, _, _
    | .attr _, hw, _, _, _, _ | .push _ _, hw, _, _, _, _ | .endMark, hw, _, _, _, _ => by
      simp [Value.wire] at hw
  theorem parseN_ser : ∀ (xs : List Value), Value.allWire xs = true → ∀ (fuel pos : Nat) (rest : Bytes) (acc : List Value),
      needList xs ≤ fuel →
      parseN fuel xs.length (serList xs ++ rest) pos acc =
        .ok (acc.reverse ++ canonList xs) rest (pos + (serList xs).length)
    | [], _, fuel, pos, rest, acc, hf => by
      obtain ⟨f, rfl⟩ : ∃ f, fuel = f + 1 := ⟨fuel - 1, by simp [needList] at hf; omega⟩
      simp [parseN, serList, canonList]
    | x :: xs, hw, fuel, pos, rest, acc, hf => by
      simp only [Value.allWire, Bool.and_eq_true] at hw
      obtain ⟨f, rfl⟩ : ∃ f, fuel = f + 1 := ⟨fuel - 1, by simp [needList] at hf; omega⟩
      have hf1 : need x ≤ f := by simp only [needList] at hf; omega
      have hf2 : needList xs ≤ f := by simp only [needList] at hf; omega
      simp only [serList, List.length_cons, List.append_assoc]
      unfold parseN
      simp only
      rw [parse_ser x hw.1 f pos _ hf1]
      simp only
      rw [parseN_ser xs hw.2 f _ rest (canon x :: acc) hf2]
      simp [canonList, List.length_append, Nat.add_assoc]
end

mutual
  theorem need_le_len : ∀ (v : Value), v.wire = true → need v ≤ (ser v).length
    | .simple _, _ | .error _, _ | .int _, _ | .bulk _, _ => by simp [need, ser, serLen, crlf]
    | .nil, _ => by simp [need, ser, sb_nil]
    | .array xs, hw => by
      simp only [Value.wire, Bool.and_eq_true] at hw
      have := needList_le_len xs hw.2
      simp only [need, ser, serLen, crlf, List.length_append, List.length_cons, List.length_nil]
      omega
    | .double _, _ | .big _, _ | .verbatim _ _, _ | .blobErr _, _ => by simp [need, ser, serLen, crlf]
    | .null, _ => by simp [need, ser, sb_null]
    | .bool true, _ => by simp [need, ser, sb_true]
    | .bool false, _ => by simp [need, ser, sb_false]
    | .map _, hw | .pairs _, hw
    | .set _, hw | .attr _, hw | .push _ _, hw | .endMark, hw => by simp [Value.wire] at hw
  theorem needList_le_len : ∀ (xs : List Value), Value.allWire xs = true → needList xs ≤ (serList xs).length + 1
    | [], _ => by simp [needList, serList]
    | x :: xs, hw => by
      simp only [Value.allWire, Bool.and_eq_true] at hw
      have h1 := need_le_len x hw.1
      have h2 := needList_le_len xs hw.2
      have h3 : 1 ≤ (ser x).length := by
        have : 1 ≤ need x := by cases x <;> simp [need]
        omega
      simp only [needList, serList, List.length_append]
      omega
end

/-- **Every reply made of RESP2 types and RESP3 scalars is exactly one well-formed value on the wire.**
    (`Value.wire`: status lines, integers, nil, bulk strings, arrays of these to any depth; and null, booleans,
    doubles, big numbers, blob errors and verbatim strings. Sets of bulk strings and maps with bulk-string keys: `set_reply_is_one_value`, `map_reply_is_one_value` below; pushes and attributes are not covered.) Whatever follows it in the stream,
    a reader takes the serialized reply for one complete value — the reply itself, bulk strings byte for
    byte — and finds the next reply right behind it. -/
theorem reply_is_one_value (v : Value) (hw : v.wire = true) (rest : Bytes) :
    parseRes (ser v ++ rest) = .complete (canon v) (ser v).length := by
  unfold parseRes parse
  have hf : need v ≤ (ser v ++ rest).length + 1 := by
    have := need_le_len v hw
    simp only [List.length_append]; omega
  rw [parse_ser v hw _ 0 rest hf]
  simp

/-- a pipeline of replies is read back as those replies, in order -/
theorem replies_read_back (vs : List Value) :
    ∀ (fuel pos : Nat) (acc : List Value), Value.allWire vs = true → needList vs ≤ fuel →
      parseN fuel vs.length (serList vs) pos acc = .ok (acc.reverse ++ canonList vs) [] (pos + (serList vs).length) := by
  intro fuel pos acc ha hf
  have := parseN_ser vs ha fuel pos [] acc hf
  simpa using this

/-! ### RESP3 aggregates a server sends: sets of bulk strings, maps with bulk-string keys -/


theorem sb_tildeq : sb "~?" = [126, 63] := by decide +kernel

theorem serList_bulks_cons (b : Bytes) (bs : List Bytes) :
    serList ((b :: bs).map .bulk) = ser (.bulk b) ++ serList (bs.map .bulk) := by
  simp [serList]

/-- a set member that is a bulk string is its own normal form and can be hashed -/
theorem normKey_bulk (b : Bytes) : normKey (.bulk b) = .bulk b := by simp [normKey, Value.toStr?]

theorem parseNSet_bulks : ∀ (bs : List Bytes), (∀ b ∈ bs, b.length < 2 ^ 63) →
    ∀ (fuel pos : Nat) (rest : Bytes) (acc : List Value), bs.length + 1 ≤ fuel →
    parseNSet fuel bs.length (serList (bs.map .bulk) ++ rest) pos acc =
      .ok (bs.foldl (fun a b => insertSet (.bulk b) a) acc) rest (pos + (serList (bs.map .bulk)).length) := by
  intro bs
  induction bs with
  | nil =>
    intro _ fuel pos rest acc hf
    obtain ⟨f, rfl⟩ : ∃ f, fuel = f + 1 := ⟨fuel - 1, by simp at hf; omega⟩
    simp [parseNSet, serList]
  | cons b bs ih =>
    intro hl fuel pos rest acc hf
    obtain ⟨f, rfl⟩ : ∃ f, fuel = f + 1 := ⟨fuel - 1, by simp at hf; omega⟩
    obtain ⟨g, rfl⟩ : ∃ g, f = g + 1 := ⟨f - 1, by simp at hf; omega⟩
    rw [serList_bulks_cons, List.append_assoc]
    simp only [List.length_cons]
    unfold parseNSet
    simp only
    rw [parse_bulk b _ g pos (hl b (by simp))]
    simp only [normKey_bulk, Value.unhashable, Bool.false_eq_true, ↓reduceIte]
    rw [ih (fun x hx => hl x (by simp [hx])) (g + 1) _ rest _ (by simp at hf ⊢; omega)]
    simp [List.foldl_cons, Nat.add_assoc]

theorem bulk_beq (a b : Bytes) : ((Value.bulk a) == (Value.bulk b)) = (a == b) := by
  show Value.beq _ _ = _
  simp [Value.beq]

theorem any_bulk_beq (acc : List Bytes) (b : Bytes) :
    ((acc.map Value.bulk).any (· == Value.bulk b)) = acc.contains b := by
  induction acc with
  | nil => simp
  | cons a r ih => simp only [List.map_cons, List.any_cons, ih, bulk_beq, List.contains_cons]; rw [Bool.beq_comm (a := b)]

/-- distinct members go in one after the other, in order -/
theorem foldl_insertSet_nodup : ∀ (bs acc : List Bytes), (acc ++ bs).Nodup →
    bs.foldl (fun a b => insertSet (.bulk b) a) (acc.map .bulk) = (acc ++ bs).map .bulk := by
  intro bs
  induction bs with
  | nil => intro acc _; simp
  | cons b bs ih =>
    intro acc hn
    have hnot : acc.contains b = false := by
      have := List.nodup_append.mp hn
      have h3 := this.2.2 b
      simp only [List.contains_eq_mem, decide_eq_false_iff_not]
      intro hmem
      exact h3 hmem b (by simp) rfl
    have hins : insertSet (.bulk b) (acc.map .bulk) = (acc ++ [b]).map .bulk := by
      simp only [insertSet, any_bulk_beq, hnot, Bool.false_eq_true, ↓reduceIte]; simp
    rw [List.foldl_cons, hins, ih (acc ++ [b]) (by simpa [List.append_assoc] using hn)]
    simp [List.append_assoc]

/-- **RESP3 set replies** (what SMEMBERS, SUNION … send after HELLO 3): a set of distinct bulk strings, serialized,
    is read back as exactly that set, members in the order sent, for every number and size of members. -/
theorem parse_set_of_bulks (bs : List Bytes) (hn : bs.Nodup) (hc : bs.length < 2 ^ 63) (hl : ∀ b ∈ bs, b.length < 2 ^ 63)
    (rest : Bytes) (fuel pos : Nat) (hf : bs.length + 2 ≤ fuel) :
    parseValue fuel false (ser (.set (bs.map .bulk)) ++ rest) pos =
      .ok (.set (bs.map .bulk)) rest (pos + (ser (.set (bs.map .bulk))).length) := by
  obtain ⟨f, rfl⟩ : ∃ f, fuel = f + 1 := ⟨fuel - 1, by omega⟩
  obtain ⟨_, hall, hne, _⟩ := natDigits_spec bs.length
  have hline : ∀ c ∈ (126 : UInt8) :: natDigits bs.length, c ≠ 13 := by
    intro c hc
    rcases List.mem_cons.mp hc with e | e
    · subst e; decide
    · exact (hall c e).2
  have hser : ser (.set (bs.map .bulk)) ++ rest =
      ((126 : UInt8) :: natDigits bs.length) ++ 13 :: 10 :: (serList (bs.map .bulk) ++ rest) := by
    simp [ser, serLen, crlf, List.append_assoc]
  rw [hser]
  unfold parseValue
  rw [splitLine_line _ _ hline]
  simp only
  have hq : ((126 : UInt8) :: natDigits bs.length == sb "~?") = false := by
    rw [sb_tildeq]
    simp only [List.cons_beq_cons, beq_self_eq_true, Bool.true_and]
    exact digits_ne_q bs.length
  have c1 : ((126 : UInt8) == 43) = false := by decide
  have c2 : ((126 : UInt8) == 45) = false := by decide
  have c3 : ((126 : UInt8) == 36) = false := by decide
  have c4 : ((126 : UInt8) == 58) = false := by decide
  have c5 : ((126 : UInt8) == 42) = false := by decide
  have c6 : ((126 : UInt8) == 37) = false := by decide
  have c7 : ((126 : UInt8) == 44) = false := by decide
  have c8 : ((126 : UInt8) == 126) = true := by decide
  have d1 : ((126 : UInt8) :: natDigits bs.length == sb "#t") = false := by simp [sb_t]
  have d2 : ((126 : UInt8) :: natDigits bs.length == sb "#f") = false := by simp [sb_f]
  simp only [c1, c2, c3, c4, c5, c6, c7, c8, d1, d2, hq, Bool.false_eq_true, ↓reduceIte,
    lineCount, List.drop_succ_cons, List.drop_zero, parseInt64_natDigits bs.length hc]
  have hnn : ¬ ((bs.length : Int) < 0) := by omega
  simp only [hnn, ↓reduceIte, Int.toNat_natCast]
  rw [parseNSet_bulks bs hl f _ rest [] (by omega)]
  have := foldl_insertSet_nodup bs [] (by simpa using hn)
  simp only [List.map_nil, List.nil_append] at this
  rw [this]
  simp [ser, serLen, crlf]
  omega

theorem sb_pctq : sb "%?" = [37, 63] := by decide +kernel


/-- the entries of a map reply: bulk-string keys, any `wire` value -/
def mapEntries (kvs : List (Bytes × Value)) : List (Value × Value) := kvs.map fun kv => (.bulk kv.1, kv.2)
def canonEntries (kvs : List (Bytes × Value)) : List (Value × Value) := kvs.map fun kv => (.bulk kv.1, canon kv.2)

/-- a new key goes to the end -/
theorem insertMap_new : ∀ (acc : List (Bytes × Value)) (k : Bytes) (v : Value), (∀ kv ∈ acc, kv.1 ≠ k) →
    insertMap (.bulk k) v (mapEntries acc) = mapEntries (acc ++ [(k, v)]) := by
  intro acc
  induction acc with
  | nil => intro k v _; simp [insertMap, mapEntries]
  | cons a r ih =>
    intro k v h
    have h1 : a.1 ≠ k := h a (by simp)
    have : ((Value.bulk a.1) == (Value.bulk k)) = false := by rw [bulk_beq]; simpa using h1
    simp only [mapEntries, List.map_cons, insertMap, this, Bool.false_eq_true, ↓reduceIte, List.cons_append]
    have := ih k v (fun kv hkv => h kv (by simp [hkv]))
    simp only [mapEntries] at this
    rw [this]

theorem parseNMap_entries : ∀ (kvs : List (Bytes × Value)),
    (∀ kv ∈ kvs, kv.1.length < 2 ^ 63 ∧ kv.2.wire = true) →
    ∀ (fuel pos : Nat) (rest : Bytes) (acc : List (Bytes × Value)),
    (acc.map (·.1) ++ kvs.map (·.1)).Nodup →
    kvs.length + 2 ≤ fuel → (∀ kv ∈ kvs, need kv.2 + kvs.length + 1 ≤ fuel) →
    parseNMap fuel kvs.length (serPairs (mapEntries kvs) ++ rest) pos (canonEntries acc) =
      .ok (canonEntries (acc ++ kvs)) rest (pos + (serPairs (mapEntries kvs)).length) := by
  intro kvs
  induction kvs with
  | nil =>
    intro _ fuel pos rest acc _ hf _
    obtain ⟨f, rfl⟩ : ∃ f, fuel = f + 1 := ⟨fuel - 1, by simp at hf; omega⟩
    simp [parseNMap, serPairs, mapEntries]
  | cons kv kvs ih =>
    intro hw fuel pos rest acc hn hf hneed
    obtain ⟨k, v⟩ := kv
    obtain ⟨f, rfl⟩ : ∃ f, fuel = f + 1 := ⟨fuel - 1, by simp at hf; omega⟩
    obtain ⟨g, rfl⟩ : ∃ g, f = g + 1 := ⟨f - 1, by simp at hf; omega⟩
    have hkv := hw (k, v) (by simp)
    have hser : serPairs (mapEntries ((k, v) :: kvs)) ++ rest =
        ser (.bulk k) ++ (ser v ++ (serPairs (mapEntries kvs) ++ rest)) := by
      simp [mapEntries, serPairs, List.append_assoc]
    rw [hser]
    simp only [List.length_cons]
    unfold parseNMap
    simp only
    rw [parse_bulk k _ g pos hkv.1]
    simp only [normKey_bulk]
    have hnv : need v ≤ g + 1 := by
      have := hneed (k, v) (by simp); simp at this; omega
    rw [parse_ser v hkv.2 (g + 1) _ _ hnv]
    simp only [Value.unhashable, Bool.false_eq_true, ↓reduceIte]
    have hfresh : ∀ e ∈ acc, e.1 ≠ k := by
      intro e he hek
      have := List.nodup_append.mp hn
      exact this.2.2 e.1 (List.mem_map.mpr ⟨e, he, rfl⟩) k (by simp) hek
    have hce : ∀ l : List (Bytes × Value), canonEntries l = mapEntries (l.map fun kv => (kv.1, canon kv.2)) := by
      intro l; simp [canonEntries, mapEntries]
    have hins : insertMap (.bulk k) (canon v) (canonEntries acc) = canonEntries (acc ++ [(k, v)]) := by
      rw [hce, hce, insertMap_new _ k (canon v) (by
        intro e he
        obtain ⟨e', he', rfl⟩ := List.mem_map.mp he
        exact hfresh e' he')]
      simp
    rw [hins]
    have hn' : ((acc ++ [(k, v)]).map (·.1) ++ kvs.map (·.1)).Nodup := by
      simpa [List.append_assoc] using hn
    rw [ih (fun e he => hw e (by simp [he])) (g + 1) _ rest (acc ++ [(k, v)]) hn' (by simp at hf ⊢; omega)
      (fun e he => by have := hneed e (by simp [he]); simp at this ⊢; omega)]
    simp [mapEntries, serPairs, List.append_assoc, Nat.add_assoc]

/-- **RESP3 map replies** (what HGETALL, CONFIG GET, HELLO … send after HELLO 3): a map with distinct bulk-string keys
    and values of any `wire` kind, serialized, is read back as exactly that map — entries in the order sent, the
    values as `canon` has them — for every number of entries and every nesting of the values. -/
theorem parse_map_of_bulk_keys (kvs : List (Bytes × Value)) (hn : (kvs.map (·.1)).Nodup) (hc : kvs.length < 2 ^ 63)
    (hw : ∀ kv ∈ kvs, kv.1.length < 2 ^ 63 ∧ kv.2.wire = true)
    (rest : Bytes) (fuel pos : Nat) (hf : kvs.length + 3 ≤ fuel) (hneed : ∀ kv ∈ kvs, need kv.2 + kvs.length + 2 ≤ fuel) :
    parseValue fuel false (ser (.map (mapEntries kvs)) ++ rest) pos =
      .ok (.map (canonEntries kvs)) rest (pos + (ser (.map (mapEntries kvs))).length) := by
  obtain ⟨f, rfl⟩ : ∃ f, fuel = f + 1 := ⟨fuel - 1, by omega⟩
  obtain ⟨_, hall, hne, _⟩ := natDigits_spec kvs.length
  have hline : ∀ c ∈ (37 : UInt8) :: natDigits kvs.length, c ≠ 13 := by
    intro c hc
    rcases List.mem_cons.mp hc with e | e
    · subst e; decide
    · exact (hall c e).2
  have hlen : (mapEntries kvs).length = kvs.length := by simp [mapEntries]
  have hser : ser (.map (mapEntries kvs)) ++ rest =
      ((37 : UInt8) :: natDigits kvs.length) ++ 13 :: 10 :: (serPairs (mapEntries kvs) ++ rest) := by
    simp [ser, serLen, crlf, List.append_assoc, hlen]
  rw [hser]
  unfold parseValue
  rw [splitLine_line _ _ hline]
  simp only
  have hq : ((37 : UInt8) :: natDigits kvs.length == sb "%?") = false := by
    rw [sb_pctq]
    simp only [List.cons_beq_cons, beq_self_eq_true, Bool.true_and]
    exact digits_ne_q kvs.length
  have c1 : ((37 : UInt8) == 43) = false := by decide
  have c2 : ((37 : UInt8) == 45) = false := by decide
  have c3 : ((37 : UInt8) == 36) = false := by decide
  have c4 : ((37 : UInt8) == 58) = false := by decide
  have c5 : ((37 : UInt8) == 42) = false := by decide
  have c6 : ((37 : UInt8) == 37) = true := by decide
  simp only [c1, c2, c3, c4, c5, c6, hq, Bool.false_eq_true, ↓reduceIte,
    lineCount, List.drop_succ_cons, List.drop_zero, parseInt64_natDigits kvs.length hc]
  have hnn : ¬ ((kvs.length : Int) < 0) := by omega
  simp only [hnn, ↓reduceIte, Int.toNat_natCast]
  have := parseNMap_entries kvs hw f (pos + ((37 : UInt8) :: natDigits kvs.length).length + 2) rest [] (by simpa using hn) (by omega)
    (fun e he => by have := hneed e he; omega)
  simp only [canonEntries, List.map_nil, List.nil_append] at this
  simp only [canonEntries]
  rw [this]
  simp [ser, serLen, crlf, hlen]
  omega

theorem ser_bulk_len_pos (b : Bytes) : 1 ≤ (ser (.bulk b)).length := by simp [ser, serLen, crlf]

theorem serList_bulks_len (bs : List Bytes) : bs.length ≤ (serList (bs.map .bulk)).length := by
  induction bs with
  | nil => simp
  | cons b r ih => rw [serList_bulks_cons]; have := ser_bulk_len_pos b; simp only [List.length_cons, List.length_append]; omega

/-- … as a reply on the wire: one complete value, whatever follows -/
theorem set_reply_is_one_value (bs : List Bytes) (hn : bs.Nodup) (hc : bs.length < 2 ^ 63) (hl : ∀ b ∈ bs, b.length < 2 ^ 63)
    (rest : Bytes) :
    parseRes (ser (.set (bs.map .bulk)) ++ rest) = .complete (.set (bs.map .bulk)) (ser (.set (bs.map .bulk))).length := by
  unfold parseRes parse
  have hlen : bs.length + 2 ≤ (ser (.set (bs.map .bulk)) ++ rest).length + 1 := by
    have := serList_bulks_len bs
    simp only [ser, serLen, crlf, List.length_append, List.length_cons, List.length_map]; omega
  rw [parse_set_of_bulks bs hn hc hl rest _ 0 hlen]
  simp

theorem serPairs_entries_len : ∀ (kvs : List (Bytes × Value)),
    kvs.length ≤ (serPairs (mapEntries kvs)).length ∧
    ∀ kv ∈ kvs, (ser kv.2).length + kvs.length ≤ (serPairs (mapEntries kvs)).length := by
  intro kvs
  induction kvs with
  | nil => simp [mapEntries, serPairs]
  | cons e r ih =>
    obtain ⟨k, v⟩ := e
    have hk := ser_bulk_len_pos k
    have hs : (serPairs (mapEntries ((k, v) :: r))).length =
        (ser (.bulk k)).length + (ser v).length + (serPairs (mapEntries r)).length := by
      simp [mapEntries, serPairs, Nat.add_assoc]
    constructor
    · rw [hs]; simp only [List.length_cons]; omega
    · intro kv hkv
      rw [hs]
      rcases List.mem_cons.mp hkv with h | h
      · subst h; simp only [List.length_cons]; omega
      · have := ih.2 kv h; simp only [List.length_cons]; omega

theorem map_reply_is_one_value (kvs : List (Bytes × Value)) (hn : (kvs.map (·.1)).Nodup) (hc : kvs.length < 2 ^ 63)
    (hw : ∀ kv ∈ kvs, kv.1.length < 2 ^ 63 ∧ kv.2.wire = true) (rest : Bytes) :
    parseRes (ser (.map (mapEntries kvs)) ++ rest) =
      .complete (.map (canonEntries kvs)) (ser (.map (mapEntries kvs))).length := by
  unfold parseRes parse
  have hl := serPairs_entries_len kvs
  have hlen : (ser (.map (mapEntries kvs))).length = (serLen 37 kvs.length).length + (serPairs (mapEntries kvs)).length := by
    simp [ser, mapEntries]
  have h4 : 3 ≤ (serLen 37 kvs.length).length := by simp [serLen, crlf]
  rw [parse_map_of_bulk_keys kvs hn hc hw rest _ 0 (by simp only [List.length_append]; omega)
    (fun kv hkv => by
      have := need_le_len kv.2 (hw kv hkv).2
      have := hl.2 kv hkv
      simp only [List.length_append]; omega)]
  simp

/-- non-vacuity: the hypotheses are met by `~2 a b` and by `%2 a→1 b→[x]` -/
theorem set_map_examples (rest : Bytes) :
    parseRes (ser (.set ([[97], [98]].map .bulk)) ++ rest) =
      .complete (.set ([[97], [98]].map .bulk)) (ser (.set ([[97], [98]].map .bulk))).length ∧
    parseRes (ser (.map (mapEntries [([97], .int 1), ([98], .array [.bulk [120]])])) ++ rest) =
      .complete (.map (canonEntries [([97], .int 1), ([98], .array [.bulk [120]])]))
        (ser (.map (mapEntries [([97], .int 1), ([98], .array [.bulk [120]])]))).length :=
  ⟨set_reply_is_one_value [[97], [98]] (by decide) (by decide) (by decide) rest,
   map_reply_is_one_value [([97], .int 1), ([98], .array [.bulk [120]])] (by decide) (by decide)
     (by intro kv hkv; simp at hkv; rcases hkv with h | h <;> subst h <;> simp [Value.wire, Value.allWire, inRange64, twoP63]) rest⟩

end RedisEmu
