import RedisEmu.Exec
import RedisEmu.Props.C01
import RedisEmu.Proofs.AList
import RedisEmu.Proofs.ParserSafe
import Mathlib.Tactic.SplitIfs
/-
  C13 — no client input can crash the process, and every well-formed command gets one reply.
  In the model every Go panic site is an explicit `crash` outcome (`R.crash`, `PR.crash`). After the
  repairs recorded in known_findings.jsonl the command semantics have no crash outcome left for any
  argument value and any database content; the theorems below state that, command by command, for
  all inputs. (The `corr` run compares "the implementation panicked" with "the model says crash" on
  every generated step, so a new panic site in the Go code shows up as a disagreement.)
-/
namespace RedisEmu

/-- a well-formed command (array of bulk strings) is always parsed to a complete value: the socket
    loop hands exactly one request to the dispatcher, never panics, never waits for more -/
theorem wellformed_command_parses (argv : List Bytes) (rest : Bytes)
    (hn : argv.length < 2 ^ 63) (hl : ∀ a ∈ argv, a.length < 2 ^ 63) :
    ∃ v n, parseRes (encodeCmd argv ++ rest) = .complete v n ∧ n = (encodeCmd argv).length := by
  exact ⟨_, _, parse_encodeCmd argv rest hn hl, rfl⟩

/-! ### no command semantics function has a crash outcome, for any argument and any database -/

macro "no_crash" : tactic => `(tactic| (repeat' (first | rfl | split | dsimp only)))

section
variable (c : Ctx) (db : Db) (k k2 v f m : Bytes) (i j : Int) (o : SetOpts) (b b2 : Bool)
  (ks : List Bytes) (kvs : List (Bytes × Bytes)) (oi oj ok' : Option Int) (n : Nat)

theorem set_no_crash : (cmdSet c db k v o b).crash = none := by unfold cmdSet; no_crash
theorem append_no_crash : (cmdAppend c db k v).crash = none := by unfold cmdAppend; no_crash
theorem get_no_crash : (cmdGet c db k).crash = none := by unfold cmdGet; no_crash
theorem getdel_no_crash : (cmdGetDel c db k).crash = none := by unfold cmdGetDel; no_crash
theorem getex_no_crash (e : Option ExpArg) : (cmdGetEx c db k e).crash = none := by unfold cmdGetEx; no_crash
theorem strlen_no_crash : (cmdStrlen c db k).crash = none := by unfold cmdStrlen; no_crash
theorem getrange_no_crash : (cmdGetRange c db k i j).crash = none := by unfold cmdGetRange; no_crash
/-- including negative and absurd offsets (formerly a panic / unbounded allocation) -/
theorem setrange_no_crash : (cmdSetRange c db k i v).crash = none := by unfold cmdSetRange; no_crash
theorem incrby_no_crash : (cmdIncrBy c db k i).crash = none := by unfold cmdIncrBy; no_crash
theorem decrby_no_crash : (cmdDecrBy c db k i).crash = none := by
  unfold cmdDecrBy; split
  · rfl
  · exact incrby_no_crash c db k _
theorem mget_no_crash : (cmdMGet c db ks).crash = none := by unfold cmdMGet; no_crash
theorem mset_no_crash : (cmdMSet c db kvs b).crash = none := by unfold cmdMSet; no_crash
theorem incrbyfloat_no_crash : (cmdIncrByFloat c db k v).crash = none := by unfold cmdIncrByFloat; no_crash

theorem push_no_crash : (cmdPush c db k ks b b2).crash = none := by unfold cmdPush; no_crash
/-- including every count up to 2^63-1 (formerly a panic in `make`) -/
theorem pop_no_crash : (cmdPop c db k oi b).crash = none := by
  unfold cmdPop
  split
  · split
    · rfl
    · unfold cmdPop.go; no_crash
  · unfold cmdPop.go; no_crash
theorem llen_no_crash : (cmdLLen c db k).crash = none := by unfold cmdLLen; no_crash
theorem lindex_no_crash : (cmdLIndex c db k i).crash = none := by unfold cmdLIndex; no_crash
theorem lrange_no_crash : (cmdLRange c db k i j).crash = none := by unfold cmdLRange; no_crash
theorem lset_no_crash : (cmdLSet c db k i v).crash = none := by unfold cmdLSet; no_crash
theorem linsert_no_crash : (cmdLInsert c db k b v m).crash = none := by unfold cmdLInsert; no_crash
theorem lrem_no_crash : (cmdLRem c db k i v).crash = none := by unfold cmdLRem; no_crash
theorem ltrim_no_crash : (cmdLTrim c db k i j).crash = none := by unfold cmdLTrim; no_crash
theorem lpos_no_crash : (cmdLPos c db k v oi oj ok').crash = none := by unfold cmdLPos; no_crash

theorem hset_no_crash : (cmdHSet c db k kvs b b2).crash = none := by unfold cmdHSet; no_crash
theorem hget_no_crash : (cmdHGet c db k f).crash = none := by unfold cmdHGet; no_crash
theorem hmget_no_crash : (cmdHMGet c db k ks).crash = none := by unfold cmdHMGet; no_crash
theorem hgetall_no_crash : (cmdHGetAll c db k).crash = none := by unfold cmdHGetAll; no_crash
theorem hkeys_no_crash : (cmdHKeys c db k b).crash = none := by unfold cmdHKeys; no_crash
theorem hlen_no_crash : (cmdHLen c db k).crash = none := by unfold cmdHLen; no_crash
theorem hexists_no_crash : (cmdHExists c db k f).crash = none := by unfold cmdHExists; no_crash
theorem hstrlen_no_crash : (cmdHStrlen c db k f).crash = none := by unfold cmdHStrlen; no_crash
theorem hdel_no_crash : (cmdHDel c db k ks).crash = none := by unfold cmdHDel; no_crash
theorem hincrby_no_crash : (cmdHIncrBy c db k f i).crash = none := by unfold cmdHIncrBy; no_crash
theorem hincrbyfloat_no_crash : (cmdHIncrByFloat c db k f v).crash = none := by unfold cmdHIncrByFloat; no_crash

theorem sadd_no_crash : (cmdSAdd c db k ks).crash = none := by unfold cmdSAdd; no_crash
theorem srem_no_crash : (cmdSRem c db k ks).crash = none := by unfold cmdSRem; no_crash
theorem scard_no_crash : (cmdSCard c db k).crash = none := by unfold cmdSCard; no_crash
theorem sismember_no_crash : (cmdSIsMember c db k m).crash = none := by unfold cmdSIsMember; no_crash
theorem smismember_no_crash : (cmdSMIsMember c db k ks).crash = none := by unfold cmdSMIsMember; no_crash
theorem smembers_no_crash : (cmdSMembers c db k).crash = none := by unfold cmdSMembers; no_crash
theorem smove_no_crash : (cmdSMove c db k k2 m).crash = none := by unfold cmdSMove; no_crash
theorem setalgebra_no_crash (op : SetOp) : (cmdSetAlgebra c db op ks).crash = none := by unfold cmdSetAlgebra; no_crash
theorem setalgebrastore_no_crash (op : SetOp) : (cmdSetAlgebraStore c db op k ks).crash = none := by
  unfold cmdSetAlgebraStore; no_crash
theorem sintercard_no_crash : (cmdSInterCard c db i ks j).crash = none := by unfold cmdSInterCard; no_crash

theorem del_no_crash : (cmdDel c db ks b).crash = none := by unfold cmdDel; no_crash
theorem exists_no_crash : (cmdExists c db ks).crash = none := by unfold cmdExists; no_crash
theorem type_no_crash : (cmdType c db k).crash = none := by unfold cmdType; no_crash
theorem rename_no_crash : (cmdRename c db k k2 b).crash = none := by unfold cmdRename; no_crash
theorem copy_no_crash : (cmdCopy c db k k2 b).crash = none := by unfold cmdCopy; no_crash
theorem expireat_no_crash (opt : ExpireOpt) : (cmdExpireAt c db k i opt).crash = none := by unfold cmdExpireAt; no_crash
theorem persist_no_crash : (cmdPersist c db k).crash = none := by unfold cmdPersist; no_crash
theorem ttl_no_crash (kind : TtlKind) : (cmdTtl c db k kind).crash = none := by unfold cmdTtl; no_crash

theorem getbit_no_crash : (cmdGetBit c db k i).crash = none := by unfold cmdGetBit; no_crash
theorem bitpos_no_crash (st : Option Int) (en : Option (Int × Bool)) : (cmdBitPos c db k i st en).crash = none := by
  unfold cmdBitPos; no_crash
theorem bitop_no_crash : (cmdBitOp c db k k2 ks).crash = none := by unfold cmdBitOp; no_crash
theorem bitfieldParsed_no_crash (ps : List BfParsed) : (cmdBitfieldParsed c db k ps).crash = none := by
  unfold cmdBitfieldParsed; no_crash
theorem bitfield_no_crash (ops : List BfOp) : (cmdBitfield c db k ops).crash = none := by
  unfold cmdBitfield; split
  · rfl
  · exact bitfieldParsed_no_crash c db k _
/-- including offsets far beyond any string (formerly an allocation panic) -/
theorem setbit_no_crash : (cmdSetBit c db k i j).crash = none := by
  unfold cmdSetBit
  split
  · rfl
  · split
    · rfl
    · have := bitfieldParsed_no_crash c db k [{ kind := .set, signed := false, width := 1, off := i, value := j, ov := .wrap }]
      simp only
      split <;> exact this
end

/-! ### SORT -/

theorem sortFinish_no_crash (db : Db) (store : Option Bytes) (out : List Value) (hint : Match) :
    (sortFinish db store out hint).crash = none := by
  unfold sortFinish
  split
  · rfl
  · split_ifs <;> rfl
theorem sort_no_crash (c : Ctx) (db : Db) (key : Bytes) (by_ : Option Bytes) (limit : Option (Int × Int))
    (gets : List Bytes) (desc alpha : Bool) (store : Option Bytes) :
    (cmdSort c db key by_ limit gets desc alpha store).crash = none := by
  unfold cmdSort
  split
  · rfl
  · exact sortFinish_no_crash _ _ _ _
  · split
    · rfl
    · exact sortFinish_no_crash _ _ _ _

/-! ### from the single commands to everything a connection can send -/



theorem raw_del_ne (db : Db) (k k' : Bytes) (h : (k == k') = false) : (db.del k).raw k' = db.raw k' := by
  unfold Db.del
  cases hr : db.raw k with
  | none => rfl
  | some e => simp only [Db.raw]; exact alookup_aerase_ne k k' db.keys h

theorem raw_poke_ne (db : Db) (k k' : Bytes) (e : Entry) (h : (k == k') = false) : (db.poke k e).raw k' = db.raw k' := by
  simp only [Db.poke, Db.raw]; exact alookup_ainsert_ne k k' e db.keys h

theorem raw_setDirty (db : Db) (k' : Bytes) : db.setDirty.raw k' = db.raw k' := rfl

theorem raw_update_ne (db : Db) (k k' : Bytes) (e : Entry) (v : Val) (h : (k == k') = false) :
    (db.update k e v).raw k' = db.raw k' := by
  unfold Db.update
  simp only
  split_ifs
  · rw [raw_setDirty]; exact raw_del_ne db k k' h
  · rw [raw_setDirty]; exact raw_poke_ne db k k' _ h

theorem raw_upd_ne (c : Ctx) (db : Db) (k k' : Bytes) (e : Entry) (v : Val) (h : (k == k') = false) :
    (upd c db k e v).raw k' = db.raw k' := by
  unfold upd bump
  split_ifs
  · exact raw_update_ne _ k k' _ v h
  · rw [raw_update_ne _ k k' _ v h]; rfl


theorem listOf_some_raw (c : Ctx) (db : Db) (k : Bytes) (e : Entry) (l : List Bytes)
    (h : listOf c db k = .ok (some (e, l))) : ∃ e', db.raw k = some e' := by
  unfold listOf Db.live at h
  cases hr : db.raw k with
  | none => rw [hr] at h; simp at h
  | some e' => exact ⟨e', rfl⟩

theorem lmove_no_crash (c : Ctx) (db : Db) (src dst : Bytes) (sl dl : Bool) :
    (cmdLMove c db src dst sl dl).crash = none := by
  unfold cmdLMove
  split
  · rfl
  · rfl
  · split
    · rfl
    · rename_i se slist _ dstInfo hdst
      simp only
      split
      · rfl
      · rename_i x hx
        by_cases heq : (src == dst) = true
        · simp only [heq, if_true]
          split_ifs <;> rfl
        · -- src ≠ dst: the destination is there after the source was updated
          have hne : (src == dst) = false := by simpa using heq
          simp only [hne, Bool.false_eq_true, if_false]
          split
          · rfl
          · rename_i hnone
            exfalso
            rw [raw_upd_ne c _ src dst _ _ hne] at hnone
            cases dstInfo with
            | none => simp [Db.put, Db.raw] at hnone
            | some p =>
              obtain ⟨e', he'⟩ := listOf_some_raw c db dst p.1 p.2 (by cases p; exact hdst)
              simp only at hnone
              rw [he'] at hnone; cases hnone


theorem lmpop_go_no_crash (c : Ctx) (db : Db) (left : Bool) (count : Nat) (ks : List Bytes) :
    (cmdLMPop.go c db left count ks).crash = none := by
  induction ks with
  | nil => rfl
  | cons k r ih =>
    unfold cmdLMPop.go
    split
    · rfl
    · exact ih
    · split_ifs
      · exact ih
      · rfl
      · rfl

theorem lmpop_no_crash (c : Ctx) (db : Db) (ks : List Bytes) (left : Bool) (count : Nat) :
    (cmdLMPop c db ks left count).crash = none := by
  unfold cmdLMPop; exact lmpop_go_no_crash c db left count ks

theorem bpop_go_no_crash (c : Ctx) (db : Db) (left : Bool) (ks : List Bytes) :
    (runCmd.go c left db ks).crash = none := by
  induction ks with
  | nil => rfl
  | cons k r ih =>
    unfold runCmd.go
    split
    · rfl
    · exact ih
    · split
      · exact ih
      · rfl

theorem bitcount_no_crash (c : Ctx) (db : Db) (k : Bytes) (range : Option (Int × Int × Bool))
    (hq : c.q.bitcountEmptyCrash = false) : (cmdBitCount c db k range).crash = none := by
  unfold cmdBitCount
  split
  · rfl
  · split_ifs with h1 h2
    · rfl
    · rw [hq] at h2; cases h2
    · extract_lets
      split_ifs <;> rfl
  · rfl

/-- **No command of the model has a crash outcome**: for every parsed command, every argument value,
    every database content and session state (with the quirk that modelled the repaired BITCOUNT panic off) -/
theorem runCmd_no_crash (c : Ctx) (s : State) (conn ref : Nat) (m : Bool) (cmd : Cmd)
    (hq : c.q.bitcountEmptyCrash = false) :
    (runCmd c s conn ref m cmd).crash = none := by
  cases cmd
  case copy a b rep dbOpt =>
    simp only [runCmd]
    split_ifs
    · rfl
    · simp only [onDb, copy_no_crash]
  case bitcount k r => simp only [runCmd, onDb]; exact bitcount_no_crash c _ k r hq
  case ping mm => cases mm <;> rfl
  case lmpop nk ks l cnt =>
    simp only [runCmd]
    split_ifs
    · rfl
    · rfl
    · simp only [onDb]; exact lmpop_no_crash _ _ _ _ _
  all_goals
    simp only [runCmd, onDb] <;>
    first
    | rfl
    | simp only [set_no_crash, append_no_crash, get_no_crash, getdel_no_crash, getex_no_crash, strlen_no_crash,
        getrange_no_crash, setrange_no_crash, incrby_no_crash, decrby_no_crash, mget_no_crash, mset_no_crash,
        incrbyfloat_no_crash, push_no_crash, pop_no_crash, llen_no_crash, lindex_no_crash, lrange_no_crash,
        lset_no_crash, linsert_no_crash, lrem_no_crash, ltrim_no_crash, lpos_no_crash, hset_no_crash, hget_no_crash,
        hmget_no_crash, hgetall_no_crash, hkeys_no_crash, hlen_no_crash, hexists_no_crash, hstrlen_no_crash,
        hdel_no_crash, hincrby_no_crash, hincrbyfloat_no_crash, sadd_no_crash, srem_no_crash, scard_no_crash,
        sismember_no_crash, smismember_no_crash, smembers_no_crash, smove_no_crash, setalgebra_no_crash,
        setalgebrastore_no_crash, sintercard_no_crash, del_no_crash, exists_no_crash, type_no_crash, rename_no_crash,
        expireat_no_crash, persist_no_crash, ttl_no_crash, getbit_no_crash, bitpos_no_crash,
        bitop_no_crash, bitfield_no_crash, setbit_no_crash, lmove_no_crash, bpop_go_no_crash, sort_no_crash]
    | (no_crash; done)

theorem execQueue_no_crash (conn : Nat) (q : List Queued) :
    ∀ (c : Ctx) (impls : List Value) (s : State) (vs : List Value) (hs : List Match) (ps : List (Nat × Bytes × Nat)),
      c.q.bitcountEmptyCrash = false →
      (execQueue c conn q impls s vs hs ps).2.2.2.2 = none := by
  induction q with
  | nil => intro c impls s vs hs ps _; simp [execQueue]
  | cons x r ih =>
    intro c impls s vs hs ps hq
    unfold execQueue
    cases ha : x.argv with
    | nil => simp only; exact ih c impls s vs hs ps hq
    | cons name args =>
      simp only
      split_ifs
      · exact ih _ _ _ _ _ _ hq
      · cases hp : parseCmdQ c.q name args with
        | none => simp only; exact ih _ _ _ _ _ _ hq
        | some cmd =>
          simp only
          have hnc := runCmd_no_crash { c with now := c.now + 1000, impl := impls.head? } s conn (x.ref c.q (s.session conn).dbRef) true cmd hq
          simp only [hnc]
          exact ih _ _ _ _ _ _ hq

theorem dispatchParsed_no_crash (c : Ctx) (s : State) (conn : Nat) (argv : List Bytes) (cmd : Cmd)
    (hq : c.q.bitcountEmptyCrash = false) :
    (dispatchParsed c s conn argv cmd).crash = none := by
  unfold dispatchParsed
  simp only
  cases hqq : (s.session conn).queue with
  | none =>
    simp only
    cases cmd <;> first | rfl | (simp only []; exact runCmd_no_crash c s conn _ false _ hq)
  | some q =>
    simp only
    by_cases hctl : cmd.isControl = true
    · simp only [hctl, Bool.not_true, Bool.false_eq_true, if_false]
      cases cmd <;> (try (simp [Cmd.isControl] at hctl; done)) <;> simp only []
      all_goals first
        | rfl
        | exact runCmd_no_crash c s conn _ true _ hq
        | (have hx := execQueue_no_crash conn q c (implElems c) s [] [] [] hq
           generalize execQueue c conn q (implElems c) s [] [] [] = r at hx
           obtain ⟨s1, vs, hs, ps, crash⟩ := r
           simp only at hx
           subst hx
           split_ifs <;> rfl)
    · have : cmd.isControl = false := by simpa using hctl
      simp [this]

/-- **Whatever a client sends as a command, in whatever session state, the model has no crash outcome**
    (unknown commands, wrong arity, every option combination on every key type, inside or outside
    MULTI, including everything EXEC runs) -/
theorem dispatch_no_crash (c : Ctx) (s : State) (conn : Nat) (argv : List Bytes)
    (hq : c.q.bitcountEmptyCrash = false) :
    (dispatch c s conn argv).crash = none := by
  unfold dispatch
  cases argv with
  | nil => rfl
  | cons name args =>
    simp only
    repeat' (first | rfl | split)
    all_goals (first | rfl | exact dispatchParsed_no_crash c s conn _ _ hq)

/-! ### the byte level: whatever arrives on the socket -/

/-- **No sequence of bytes makes the parser panic**: for every input — malformed, truncated, nested to any
    depth, with any declared lengths and counts — `parse` answers a value or "not (yet) valid", never the
    crash outcome (the model's rendering of a Go panic). -/
theorem parse_never_crashes (inp : Bytes) : ∀ site, parseRes inp ≠ .crash site := by
  intro site hc
  unfold parseRes parse at hc
  have hs := (parserSafe_all (inp.length + 1)).value false inp 0
  split at hc
  · cases hc
  · cases hc
  · rename_i s heq
    exact crash_absurd hs heq

/-- … hence no sequence of segments kills a connection: the buffer model never reaches its dead state -/
theorem feed_never_dies (chunks : List Bytes) : ∀ (s : ConnState), s.dead = false → (chunks.foldl feed s).dead = false := by
  have drain_alive : ∀ (fuel : Nat) (s : ConnState), s.dead = false → (drain fuel s).dead = false := by
    intro fuel
    induction fuel with
    | zero => intro s h; exact h
    | succ n ih =>
      intro s h
      unfold drain
      rw [h]
      simp only [Bool.false_eq_true, if_false]
      split
      · split_ifs
        · exact h
        · exact ih _ rfl
      · exact h
      · rename_i site heq
        exact absurd heq (parse_never_crashes _ site)
  induction chunks with
  | nil => intro s h; exact h
  | cons c r ih =>
    intro s h
    simp only [List.foldl_cons]
    apply ih
    unfold feed
    exact drain_alive _ _ h

end RedisEmu
