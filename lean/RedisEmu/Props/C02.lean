import RedisEmu.Exec
import RedisEmu.Proofs.GoArithStr
import Mathlib.Tactic.SplitIfs
/-
  C02 — string and counter commands.
  Theorems about the executable model `RedisEmu.Cmds` (tied to the Go code by the
  correspondence harness, family `str`). `c.q` is the quirk set; statements that the
  current tree violates carry the hypothesis that the corresponding quirk is off and have a
  `…_witness` theorem showing the violation with the quirk on.
-/
namespace RedisEmu

/-! ### signed 64-bit overflow test of INCR/DECR/INCRBY/DECRBY (`addInt`) -/

/-- The Go test `(newVal > value) != (delta > 0)` on wrapped int64 arithmetic is exactly
    "the true sum leaves the int64 range", for every value and every increment. -/
theorem addInt_overflow_iff (v d : Int) (hv : inRange64 v = true) (hd : inRange64 d = true) :
    goAddOverflow v d = true ↔ inRange64 (v + d) = false := by
  unfold goAddOverflow wrap64 inRange64 twoP63 twoP64 at *
  simp only [Bool.and_eq_true, decide_eq_true_eq, bne_iff_ne, ne_eq, Bool.and_eq_false_iff,
    decide_eq_false_iff_not] at *
  constructor
  · intro h
    by_cases h1 : d > 0
    · simp [h1] at h; omega
    · simp [h1] at h; omega
  · intro h
    by_cases h1 : d > 0
    · simp [h1]; omega
    · simp [h1]; omega

/-- when no overflow is reported the stored result is the true sum -/
theorem addInt_result (v d : Int) (hv : inRange64 v = true) (hd : inRange64 d = true)
    (h : goAddOverflow v d = false) : wrap64 (v + d) = v + d := by
  have hin : inRange64 (v + d) = true := by
    cases hr : inRange64 (v + d) with
    | true => rfl
    | false => have := (addInt_overflow_iff v d hv hd).mpr hr; simp [h] at this
  unfold inRange64 wrap64 twoP63 twoP64 at *
  simp only [Bool.and_eq_true, decide_eq_true_eq] at *
  omega

/-- INCRBY on a key holding an integer: an overflowing sum is refused and nothing changes. -/
theorem incrby_overflow_refused (c : Ctx) (db : Db) (k b : Bytes) (e : Entry) (v d : Int)
    (hlive : db.live c.now k = some e) (hval : e.val = .str b) (hparse : parseInt64 b = some v)
    (hv : inRange64 v = true) (hd : inRange64 d = true) (hov : inRange64 (v + d) = false) :
    (cmdIncrBy c db k d).db = db ∧ (cmdIncrBy c db k d).reply = errNotInt := by
  have hgo := (addInt_overflow_iff v d hv hd).mpr hov
  unfold cmdIncrBy
  simp [hlive, hval, hparse, hgo, R.ok]

/-- INCRBY on a key holding an integer, sum in range: the reply is the sum and the value is its
    decimal rendering, with the deadline kept. -/
theorem incrby_in_range (c : Ctx) (db : Db) (k b : Bytes) (e : Entry) (v d : Int)
    (hlive : db.live c.now k = some e) (hval : e.val = .str b) (hparse : parseInt64 b = some v)
    (hv : inRange64 v = true) (hd : inRange64 d = true) (hin : inRange64 (v + d) = true) :
    (cmdIncrBy c db k d).reply = .int (v + d) ∧
    (cmdIncrBy c db k d).db = db.put k (.str (showInt (v + d))) e.exp := by
  have hgo : goAddOverflow v d = false := by
    cases h : goAddOverflow v d with
    | false => rfl
    | true => have := (addInt_overflow_iff v d hv hd).mp h; simp [hin] at this
  have hw := addInt_result v d hv hd hgo
  unfold cmdIncrBy
  simp [hlive, hval, hparse, hgo, R.ok, hw]

/-- a value that is not a decimal int64 is refused without any change -/
theorem incrby_non_integer_refused (c : Ctx) (db : Db) (k b : Bytes) (e : Entry) (d : Int)
    (hlive : db.live c.now k = some e) (hval : e.val = .str b) (hparse : parseInt64 b = none) :
    (cmdIncrBy c db k d).db = db ∧ (cmdIncrBy c db k d).reply = errNotInt := by
  unfold cmdIncrBy
  simp [hlive, hval, hparse, R.ok]

/-- a key of another type is refused with WRONGTYPE without any change -/
theorem incrby_wrongtype (c : Ctx) (db : Db) (k : Bytes) (e : Entry) (d : Int)
    (hlive : db.live c.now k = some e) (hval : ∀ b, e.val ≠ .str b) :
    (cmdIncrBy c db k d).db = db ∧ (cmdIncrBy c db k d).reply = wrongType := by
  unfold cmdIncrBy
  cases hv : e.val with
  | str b => exact absurd hv (hval b)
  | list l => simp [hlive, hv, R.ok]
  | hash h => simp [hlive, hv, R.ok]
  | set s => simp [hlive, hv, R.ok]
  | corrupt f => simp [hlive, hv, R.ok]

/-! ### MSETNX is all-or-nothing -/

theorem msetnx_none (c : Ctx) (db : Db) (kvs : List (Bytes × Bytes))
    (h : kvs.any (fun (k, _) => (db.live c.now k).isSome) = true) :
    (cmdMSet c db kvs true).db = db ∧ (cmdMSet c db kvs true).reply = .int 0 := by
  unfold cmdMSet
  simp only [↓reduceIte]
  rw [if_pos h]
  exact ⟨rfl, rfl⟩

theorem msetnx_all (c : Ctx) (db : Db) (kvs : List (Bytes × Bytes))
    (h : kvs.any (fun (k, _) => (db.live c.now k).isSome) = false) :
    (cmdMSet c db kvs true).db = putAll db kvs ∧ (cmdMSet c db kvs true).reply = .int 1 := by
  unfold cmdMSet
  simp only [↓reduceIte]
  rw [if_neg (by simp [h])]
  exact ⟨rfl, rfl⟩

/-! ### GETRANGE clamps every pair of offsets into the string -/

/-- for every length and every pair of (possibly negative, possibly huge) offsets the
    computed window lies inside the string: `0 ≤ start ≤ n` and `start - 1 ≤ stop < n`
    (an empty window is `stop = start - 1`). -/
theorem getrange_window (n start stop : Int) (hn : 0 ≤ n) :
    0 ≤ (getRangeBounds n start stop).1 ∧ (getRangeBounds n start stop).1 ≤ n ∧
    (getRangeBounds n start stop).1 - 1 ≤ (getRangeBounds n start stop).2 ∧
    (getRangeBounds n start stop).2 < n := by
  unfold getRangeBounds
  simp only
  split_ifs <;> omega

/-- in-range non-negative offsets are used as they are -/
theorem getrange_identity (n start stop : Int) (h1 : 0 ≤ start) (h2 : start ≤ stop) (h3 : stop < n) :
    getRangeBounds n start stop = (start, stop) := by
  unfold getRangeBounds
  simp only
  split_ifs <;> first | rfl | omega | (simp only [Prod.mk.injEq]; omega)

/-- negative offsets count from the end -/
theorem getrange_negative (n start stop : Int) (h1 : -n ≤ start) (h2 : start ≤ stop) (h3 : stop < 0) :
    getRangeBounds n start stop = (n + start, n + stop) := by
  unfold getRangeBounds
  simp only
  split_ifs <;> first | rfl | omega | (simp only [Prod.mk.injEq]; omega)

/-! ### SET / GET -/

/-! ### the overflow test as the Go source has it now (`GoArith.lean`, regenerated from /repo on every run) -/

theorem inRange64_toInt (v : BitVec 64) : inRange64 v.toInt = true := by
  have h1 := BitVec.toInt_lt (x := v); have h2 := BitVec.le_toInt (x := v)
  unfold inRange64 twoP63; simp at *; omega

/-- The condition under which `addInt` (INCR / DECR / INCRBY / DECRBY) answers "overflow", translated from
    the Go source by `tools/go2lean`: for all int64 values and increments it holds exactly when the true
    sum leaves the int64 range. -/
theorem addInt_guard_as_coded (v d : BitVec 64) :
    Go.addIntOverflowGuard v d = true ↔ inRange64 (v.toInt + d.toInt) = false := by
  rw [go_addIntOverflowGuard]
  exact addInt_overflow_iff v.toInt d.toInt (inRange64_toInt v) (inRange64_toInt d)

/-- the guard is a real one: it fires on some inputs and not on others -/
theorem addInt_guard_nontrivial :
    Go.addIntOverflowGuard (BitVec.ofInt 64 9223372036854775807) 1#64 = true ∧
    Go.addIntOverflowGuard 5#64 (BitVec.ofInt 64 (-7)) = false := by decide

/-! ### SETRANGE -/

/-- the bytes SETRANGE stores (existing string `b`, offset `off`, new bytes `v`) -/
def setRangeBytes (b : Bytes) (off : Nat) (v : Bytes) : Bytes :=
  let padded := if b.length < off then b ++ List.replicate (off - b.length) 0 else b
  padded.take off ++ v ++ padded.drop (off + v.length)

/-- **SETRANGE byte by byte**, for every offset and every value: the written range holds the new bytes,
    everything before it keeps the old bytes — zero bytes where the old string was shorter — and everything
    after it is kept; the length is the larger of the old length and the end of the written range. -/
theorem setRangeBytes_spec (b : Bytes) (off : Nat) (v : Bytes) :
    (setRangeBytes b off v).length = max b.length (off + v.length) ∧
    (∀ p, p < off → (setRangeBytes b off v)[p]? = some (b.getD p 0)) ∧
    (∀ p, off ≤ p → p < off + v.length → (setRangeBytes b off v)[p]? = v[p - off]?) ∧
    (∀ p, off + v.length ≤ p → (setRangeBytes b off v)[p]? = b[p]?) := by
  unfold setRangeBytes
  by_cases hb : b.length < off
  · simp only [hb, ↓reduceIte]
    have hpl : (b ++ List.replicate (off - b.length) (0 : UInt8)).length = off := by simp; omega
    have htake : (b ++ List.replicate (off - b.length) (0 : UInt8)).take off = b ++ List.replicate (off - b.length) 0 := by
      rw [List.take_of_length_le (by omega)]
    have hdrop : (b ++ List.replicate (off - b.length) (0 : UInt8)).drop (off + v.length) = [] := by
      rw [List.drop_eq_nil_of_le (by omega)]
    rw [htake, hdrop]
    refine ⟨by simp; omega, ?_, ?_, ?_⟩
    · intro p hp
      by_cases hpb : p < b.length
      · simp [List.getElem?_append_left, hpb, List.getD]
      · have : (b ++ List.replicate (off - b.length) (0 : UInt8) ++ v ++ [])[p]? = some 0 := by
          simp only [List.append_nil]
          rw [List.getElem?_append_left (by simp; omega), List.getElem?_append_right (by omega)]
          rw [List.getElem?_replicate]
          have : p - b.length < off - b.length := by omega
          simp [this]
        rw [this]
        simp [List.getD, List.getElem?_eq_none (Nat.le_of_not_lt hpb)]
    · intro p h1 h2
      simp only [List.append_nil]
      rw [List.getElem?_append_right (by simp; omega)]
      simp; congr 1; omega
    · intro p h1
      simp only [List.append_nil]
      rw [List.getElem?_eq_none (by simp; omega), List.getElem?_eq_none (by omega)]
  · simp only [hb, ↓reduceIte]
    have hle : off ≤ b.length := by omega
    refine ⟨by simp; omega, ?_, ?_, ?_⟩
    · intro p hp
      have hpb : p < b.length := by omega
      rw [List.append_assoc, List.getElem?_append_left (by simp; omega), List.getElem?_take_of_lt hp]
      simp [List.getD, List.getElem?_eq_getElem hpb]
    · intro p h1 h2
      rw [List.append_assoc, List.getElem?_append_right (by simp; omega)]
      simp only [List.length_take, Nat.min_eq_left hle]
      rw [List.getElem?_append_left (by omega)]
    · intro p h1
      rw [List.getElem?_append_right (by simp; omega)]
      simp only [List.length_append, List.length_take, Nat.min_eq_left hle, List.getElem?_drop]
      congr 1; omega

/-- SETRANGE stores exactly these bytes, keeps the deadline and answers the new length -/
theorem setrange_stores (c : Ctx) (db : Db) (k b v : Bytes) (ent : Entry) (off : Int)
    (h0 : 0 ≤ off) (h1 : ¬ (off > hugeAlloc || off + v.length > hugeAlloc) = true)
    (hl : db.live c.now k = some ent) (hv : ent.val = .str b) :
    cmdSetRange c db k off v =
      R.ok (db.put k (.str (setRangeBytes b off.toNat v)) ent.exp) (vInt (setRangeBytes b off.toNat v).length) := by
  unfold cmdSetRange setRangeBytes
  have a0 : ¬ (off < 0) := by omega
  simp only [a0, ↓reduceIte, h1, Bool.false_eq_true, hl, hv]

/-! ### APPEND, SET with NX / XX, STRLEN, GETDEL -/

/-- APPEND on a string: the value becomes old ++ new, the deadline stays, the reply is the new length -/
theorem append_existing (c : Ctx) (db : Db) (k b v : Bytes) (ent : Entry)
    (hl : db.live c.now k = some ent) (hv : ent.val = .str b) (hq : c.q.appendDropsTtl = false) :
    cmdAppend c db k v = R.ok (db.put k (.str (b ++ v)) ent.exp) (vInt (b.length + v.length)) := by
  unfold cmdAppend setKey
  simp [hl, hv, hq]

/-- APPEND on a missing key creates it with the appended bytes and no deadline -/
theorem append_missing (c : Ctx) (db : Db) (k v : Bytes) (hl : db.live c.now k = none) :
    cmdAppend c db k v = R.ok (db.put k (.str v) none) (vInt v.length) := by
  unfold cmdAppend setKey
  simp [hl]

/-- SET … NX on an existing key and SET … XX on a missing key change nothing and answer nil -/
theorem set_nx_existing (c : Ctx) (db : Db) (k v : Bytes) (ent : Entry) (o : SetOpts)
    (hl : db.live c.now k = some ent) (hnx : o.nx = true) (hg : o.get = false)
    (he : (o.exp.map ExpArg.invalid).getD false = false) :
    cmdSet c db k v o false = R.ok db .nil := by
  unfold cmdSet setKey
  simp [hl, hnx, hg, he, optV]

theorem set_xx_missing (c : Ctx) (db : Db) (k v : Bytes) (o : SetOpts)
    (hl : db.live c.now k = none) (hxx : o.xx = true)
    (he : (o.exp.map ExpArg.invalid).getD false = false) :
    cmdSet c db k v o false = R.ok db .nil := by
  unfold cmdSet setKey
  simp [hl, hxx, he, optV]

/-- plain SET replaces any value of any type and clears the deadline -/
theorem set_plain (c : Ctx) (db : Db) (k v : Bytes) :
    cmdSet c db k v {} false = R.ok (db.put k (.str v) none) vOK := by
  unfold cmdSet setKey
  cases hl : db.live c.now k <;> simp [optV]

/-- STRLEN and GETDEL -/
theorem strlen_spec (c : Ctx) (db : Db) (k b : Bytes) (ent : Entry)
    (hl : db.live c.now k = some ent) (hv : ent.val = .str b) :
    cmdStrlen c db k = R.ok db (vInt b.length) := by
  unfold cmdStrlen
  cases ent; simp_all

theorem getdel_spec (c : Ctx) (db : Db) (k b : Bytes) (ent : Entry)
    (hl : db.live c.now k = some ent) (hv : ent.val = .str b) :
    cmdGetDel c db k = R.ok (db.del k) (.bulk b) := by
  unfold cmdGetDel
  cases ent; simp_all

/-! ### the index arithmetic of GETRANGE / SUBSTR as the Go source has it now (`GoArith.lean`, regenerated) -/

/-- The statements of `fnGetRange` between `n := len(str)` and the slice expression, translated from the Go
    source on this run: for every pair of int64 offsets and every string length they compute the model's
    `getRangeBounds` — the function `getrange_window`, `getrange_identity` and `getrange_negative` are about. -/
theorem getrange_clamp_as_coded (s e n : BitVec 64) (hn : 0 ≤ n.toInt) :
    ((Go.getRangeClamp s e n).1.toInt, (Go.getRangeClamp s e n).2.toInt) = getRangeBounds n.toInt s.toInt e.toInt :=
  go_getRangeClamp s e n hn

/-- … in particular the largest offset there is: `GETRANGE k 0 9223372036854775807` on an 11-byte string reads
    positions 0 … 10 -/
theorem getrange_clamp_maxint :
    Go.getRangeClamp 0#64 (BitVec.ofInt 64 9223372036854775807) 11#64 = (0#64, 10#64) := by decide

/-- The size test of `fnSetRange` (the `if` that answers "string exceeds maximum allowed size (512MB)"), translated on
    this run with `len(value)` as a variable, is the test of the model's `cmdSetRange` for every int64 offset and every
    length below 2^62: Go's wrapped `offset + len` is the true sum whenever the first disjunct has not fired. -/
theorem setrange_size_guard_as_coded (o l : BitVec 64) (hl : 0 ≤ l.toInt) (hl2 : l.toInt < 4611686018427387904) :
    Go.setrangeSizeGuard o l = (decide (o.toInt > hugeAlloc) || decide (o.toInt + l.toInt > hugeAlloc)) :=
  go_setrangeSizeGuard o l hl hl2

/-- this property's part of what the translator delivered on this run -/
theorem go_arith_translated_str : ["getRangeClamp", "addIntOverflowGuard", "setrangeSizeGuard"].all (Go.translated.contains ·) = true := by decide

end RedisEmu
