import RedisEmu.Conc
import RedisEmu.LockFacts
import Mathlib.Tactic.SplitIfs
/-
  C16 — data-race freedom (partial). The Lean part is the soundness of the lock discipline the code
  relies on: when mutexes are exclusive, two accesses made while holding a common mutex are separated
  by a release of that mutex by the first thread (hence ordered by happens-before: no data race). Which
  accesses of the Go code hold which mutex is not extracted; the `race` component runs a -race build
  of a workload that makes every pair of command classes concurrent and attributes every report.
-/
namespace RedisEmu

/-- step the holder function over a trace -/
def stepHold (hold : Nat → Option Nat) : List Ev → (Nat → Option Nat)
  | [] => hold
  | .acq t m :: r => stepHold (fun x => if x = m then some t else hold x) r
  | .rel _ m :: r => stepHold (fun x => if x = m then none else hold x) r
  | .acc _ _ _ :: r => stepHold hold r

theorem stepHold_append (hold : Nat → Option Nat) (a b : List Ev) :
    stepHold hold (a ++ b) = stepHold (stepHold hold a) b := by
  induction a generalizing hold with
  | nil => rfl
  | cons e r ih => cases e <;> simp [stepHold, ih]

theorem wf_append (hold : Nat → Option Nat) (a b : List Ev) :
    WFFrom hold (a ++ b) ↔ WFFrom hold a ∧ WFFrom (stepHold hold a) b := by
  induction a generalizing hold with
  | nil => simp [WFFrom, stepHold]
  | cons e r ih =>
    cases e with
    | acq t m => simp [WFFrom, stepHold, ih, and_assoc]
    | rel t m => simp [WFFrom, stepHold, ih, and_assoc]
    | acc t l w => simp [WFFrom, stepHold, ih]

/-- while thread `t` holds `m` and does not release it, nobody else can come to hold `m` -/
theorem held_until_released (m t : Nat) : ∀ (q : List Ev) (hold : Nat → Option Nat),
    WFFrom hold q → hold m = some t → (∀ e ∈ q, e ≠ .rel t m) → stepHold hold q m = some t := by
  intro q
  induction q with
  | nil => intro hold _ h _; exact h
  | cons e r ih =>
    intro hold hwf hm hnr
    have hr : ∀ e' ∈ r, e' ≠ .rel t m := fun e' he' => hnr e' (List.mem_cons_of_mem _ he')
    cases e with
    | acq t' m' =>
      simp only [WFFrom] at hwf
      simp only [stepHold]
      by_cases hmm : m = m'
      · subst hmm; rw [hm] at hwf; exact absurd hwf.1 (by simp)
      · exact ih _ hwf.2 (by simp [hmm, hm]) hr
    | rel t' m' =>
      simp only [WFFrom] at hwf
      simp only [stepHold]
      by_cases hmm : m = m'
      · subst hmm
        have : t' = t := by rw [hm] at hwf; exact (Option.some.inj hwf.1).symm
        subst this
        exact absurd rfl (hnr _ List.mem_cons_self)
      · exact ih _ hwf.2 (by simp [hmm, hm]) hr
    | acc t' l w =>
      simp only [WFFrom] at hwf
      simp only [stepHold]
      exact ih _ hwf hm hr

/-- **Lock discipline orders conflicting accesses.** In a well-formed trace, if thread `t1` accesses a
    location while holding mutex `m`, and later a different thread `t2` accesses it while holding the
    same `m`, then `t1` released `m` in between — the second access happens after the first in
    happens-before order, so the pair is not a data race. -/
theorem common_mutex_orders (p q r : List Ev) (t1 t2 l m : Nat) (w1 w2 : Bool) (hne : t1 ≠ t2)
    (hwf : WFFrom (fun _ => none) (p ++ .acc t1 l w1 :: q ++ .acc t2 l w2 :: r))
    (h1 : stepHold (fun _ => none) p m = some t1)
    (h2 : stepHold (fun _ => none) (p ++ .acc t1 l w1 :: q) m = some t2) :
    .rel t1 m ∈ q := by
  -- otherwise t1 would still hold m at the second access
  rcases Classical.em (Ev.rel t1 m ∈ q) with h | h
  · exact h
  · exfalso
    have e1 : p ++ .acc t1 l w1 :: q ++ .acc t2 l w2 :: r = p ++ (.acc t1 l w1 :: q ++ .acc t2 l w2 :: r) := by simp
    rw [e1, wf_append] at hwf
    have hwf2 : WFFrom (stepHold (fun _ => none) p) (.acc t1 l w1 :: q ++ .acc t2 l w2 :: r) := hwf.2
    have e2 : (Ev.acc t1 l w1 :: q ++ .acc t2 l w2 :: r) = (.acc t1 l w1 :: q) ++ (.acc t2 l w2 :: r) := by simp
    rw [e2, wf_append] at hwf2
    have hq : WFFrom (stepHold (fun _ => none) p) (.acc t1 l w1 :: q) := hwf2.1
    have hkeep := held_until_released m t1 (.acc t1 l w1 :: q) _ hq h1 (by
      intro e he
      rcases List.mem_cons.mp he with e' | e'
      · rw [e']; simp
      · intro hc; exact h (hc ▸ e'))
    rw [stepHold_append] at h2
    rw [hkeep] at h2
    exact hne (Option.some.inj h2)

/-- … and while the first thread is inside its critical section no other thread's access made under
    the same mutex can appear at all -/
theorem no_foreign_access_inside (m t : Nat) (q : List Ev) (hold : Nat → Option Nat)
    (hwf : WFFrom hold q) (hm : hold m = some t) (hnr : ∀ e ∈ q, e ≠ .rel t m) :
    ∀ (q1 q2 : List Ev), q = q1 ++ q2 → stepHold hold q1 m = some t := by
  intro q1 q2 he
  subst he
  rw [wf_append] at hwf
  exact held_until_released m t q1 hold hwf.1 hm (fun e h => hnr e (List.mem_append_left _ h))

/-! ### what the code does: the locking facts extracted from the sources (regenerated on every run)

`RedisEmu.LockFacts` is written by `tools/lockfacts` (go/ast) from /repo's working tree before this file
is compiled. The theorem below is therefore re-checked against the current sources: it fails to compile
as soon as some function touches the state a database lock protects (`ds.data`, the object counter, the
wait table, or any function that needs the lock) before taking the lock, or without holding it until it
returns, unless every one of its callers holds the lock at the call. -/

/-- every function of the data layer takes the database lock before its first use of the protected
    state and holds it until it returns, or is only ever called with the lock held -/
theorem data_layer_lock_discipline :
    lockFacts.all (fun f => f.2 == LockKind.locksUntilReturn || f.2 == LockKind.needsLock) = true := by
  decide

/-- non-vacuity: the extractor found the data layer -/
theorem lock_facts_cover_the_commands :
    80 ≤ lockFacts.length ∧ lockFacts.any (fun f => f.1 == "(dataStoreCommand).lmove") = true := by
  decide

/-! ### locking several data stores (FLUSHALL, EXEC with FLUSHALL / SELECT): no deadlock -/

/-- **No deadlock between threads that lock several data stores.** Under the discipline no two distinct threads
    of a system can both be waiting for a data store the next one in a cycle holds — so there is no cycle of
    waiting threads at all: take any two neighbours `a → b` of a cycle; somebody waits for `a` too. -/
theorem no_deadlock_cycle (ts : List LockTh) (h : GateDiscipline ts) (i j : Nat) (hij : i < j)
    (a b : LockTh) (ha : ts[i]? = some a) (hb : ts[j]? = some b)
    (x y : LockTh)                       -- x waits for a, b waits for y: a and b are members of a cycle
    (hxa : x.waitsFor a) (hab : a.waitsFor b) (hby : b.waitsFor y) : False := by
  have hma := List.mem_of_getElem? ha
  have hmb := List.mem_of_getElem? hb
  obtain ⟨r1, _, hr1⟩ := hxa
  obtain ⟨r2, hw2, hr2⟩ := hab
  obtain ⟨r3, hw3, _⟩ := hby
  have ga : a.gate = true := h.holdAndWait a hma (by simp [hw2]) (List.ne_nil_of_mem hr1)
  have gb : b.gate = true := h.holdAndWait b hmb (by simp [hw3]) (List.ne_nil_of_mem hr2)
  have := List.pairwise_iff_getElem.mp h.oneGate i j
    (by have := (List.getElem?_eq_some_iff.mp ha).1; exact this)
    (by have := (List.getElem?_eq_some_iff.mp hb).1; exact this) hij
  have ea : ts[i]'((List.getElem?_eq_some_iff.mp ha).1) = a := (List.getElem?_eq_some_iff.mp ha).2
  have eb : ts[j]'((List.getElem?_eq_some_iff.mp hb).1) = b := (List.getElem?_eq_some_iff.mp hb).2
  rw [ea, eb] at this
  exact this ⟨ga, gb⟩

/-- the history of D91 does not satisfy the discipline: the EXEC (data store 1 held, waiting for 0) has no gate -/
theorem d91_breaks_the_discipline :
    ¬ GateDiscipline [{ held := [1], waits := some 0, gate := false }, { held := [0], waits := some 1, gate := true }] := by
  intro h
  have := h.holdAndWait { held := [1], waits := some 0, gate := false } (by simp) (by simp) (by simp)
  simp at this

end RedisEmu
