import RedisEmu.Conc
import RedisEmu.LockFacts
import RedisEmu.Props.C16
import Mathlib.Tactic.SplitIfs
/-
  C08 — every command is atomic (partial). Commands of the emulator run their shared-state steps
  between one acquisition and one release of the database mutex (`dsc.lock()` … `defer dsc.unlock()`,
  EXEC through `acquireExclusive`). The theorem below is the abstract reason this gives linearizable
  histories: under an exclusive mutex the interleaved execution of the micro-steps of any number of
  threads equals the sequential execution of whole commands in lock-acquisition order. Which handlers
  really keep the lock for all their steps is checked dynamically by the `lin` tool (porcupine on
  recorded concurrent histories, invariant workloads); the Go runtime is not modelled.
-/
namespace RedisEmu

variable {σ : Type}

/-- micro-events of threads sharing one mutex and one state -/
inductive MEv (σ : Type) where
  | acq (t : Nat)
  | rel (t : Nat)
  | op (t : Nat) (f : σ → σ)     -- one read-modify-write micro-step of thread t on the shared state

/-- the lock discipline: acquire only when free, release by the holder, steps only by the holder -/
def Disciplined : Option Nat → List (MEv σ) → Prop
  | _, [] => True
  | h, .acq t :: r => h = none ∧ Disciplined (some t) r
  | h, .rel t :: r => h = some t ∧ Disciplined none r
  | h, .op t _ :: r => h = some t ∧ Disciplined h r

/-- what really happens: the micro-steps are applied in trace order -/
def execTrace : σ → List (MEv σ) → σ
  | s, [] => s
  | s, .op _ f :: r => execTrace (f s) r
  | s, _ :: r => execTrace s r

/-- the commands of the trace in lock-acquisition order: (thread, composed effect of its steps).
    `cur` is the section being collected. -/
def commandsOf : Option (Nat × (σ → σ)) → List (MEv σ) → List (Nat × (σ → σ))
  | cur, [] => match cur with | some c => [c] | none => []
  | _, .acq t :: r => commandsOf (some (t, id)) r
  | cur, .rel _ :: r => (match cur with | some c => [c] | none => []) ++ commandsOf none r
  | cur, .op t f :: r =>
    match cur with
    | some (t', g) => if t = t' then commandsOf (some (t', f ∘ g)) r else commandsOf cur r   -- foreign steps are not part of the command
    | none => commandsOf none r

/-- the sequential execution of whole commands, one after the other -/
def execCommands (s : σ) (cs : List (Nat × (σ → σ))) : σ := cs.foldl (fun st c => c.2 st) s

theorem execCommands_append (s : σ) (a b : List (Nat × (σ → σ))) :
    execCommands s (a ++ b) = execCommands (execCommands s a) b := by
  unfold execCommands; rw [List.foldl_append]

/-- generalised statement with a command in progress -/
theorem atomic_aux : ∀ (tr : List (MEv σ)) (s0 : σ) (h : Option Nat) (cur : Option (Nat × (σ → σ))),
    Disciplined h tr →
    (match cur with | some (t, _) => h = some t | none => h = none) →
    execTrace (match cur with | some (_, g) => g s0 | none => s0) tr =
      execCommands s0 (commandsOf cur tr) := by
  intro tr
  induction tr with
  | nil =>
    intro s0 h cur _ _
    cases cur with
    | none => simp [execTrace, commandsOf, execCommands]
    | some c => simp [execTrace, commandsOf, execCommands]
  | cons e r ih =>
    intro s0 h cur hd hc
    cases e with
    | acq t =>
      simp only [Disciplined] at hd
      -- acquire only happens with no command in progress
      cases cur with
      | some c => obtain ⟨t', g⟩ := c; simp only at hc; rw [hd.1] at hc; cases hc
      | none =>
        simp only [execTrace, commandsOf]
        have := ih s0 (some t) (some (t, id)) hd.2 rfl
        simpa using this
    | rel t =>
      simp only [Disciplined] at hd
      cases cur with
      | none => simp only at hc; rw [hd.1] at hc; cases hc
      | some c =>
        obtain ⟨t', g⟩ := c
        simp only [execTrace, commandsOf]
        rw [execCommands_append]
        have := ih (g s0) none none hd.2 rfl
        simpa [execCommands] using this
    | op t f =>
      simp only [Disciplined] at hd
      cases cur with
      | none => simp only at hc; rw [hd.1] at hc; cases hc
      | some c =>
        obtain ⟨t', g⟩ := c
        simp only at hc
        have htt : t = t' := by rw [hd.1] at hc; exact Option.some.inj hc
        subst htt
        simp only [execTrace, commandsOf, ↓reduceIte]
        have := ih s0 h (some (t, f ∘ g)) hd.2 hc
        simpa using this

/-- **Atomicity from the lock discipline.** For any number of threads and any interleaving allowed by
    an exclusive mutex, the state reached by the interleaved micro-steps is the state reached by
    executing the commands one at a time, each as a whole, in the order in which they acquired the
    lock. No command observes or leaves a partially applied command. -/
theorem interleaving_is_sequential (s : σ) (tr : List (MEv σ)) (h : Disciplined none tr) :
    execTrace s tr = execCommands s (commandsOf none tr) := by
  have := atomic_aux tr s none none h rfl
  simpa using this

/-! ### the premise of `interleaving_is_sequential` on the code: the regenerated locking facts

See `data_layer_lock_discipline` in C16: every function that touches a database takes its lock before
the first touch and holds it until it returns (or is only called with the lock held). The facts are
re-extracted from /repo on every run. -/

theorem commands_hold_the_lock_throughout :
    lockFacts.all (fun f => f.2 != LockKind.unprotected && f.2 != LockKind.locksExplicit) = true := by
  decide

end RedisEmu
