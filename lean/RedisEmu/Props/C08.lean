import RedisEmu.Conc
import RedisEmu.LockFacts
import RedisEmu.Props.C16
import Mathlib.Tactic.SplitIfs
/-
  C08 — every command is atomic (partial). Commands of the emulator run their shared-state steps
  between one acquisition and one release of the database mutex (`dsc.lock()` … `defer dsc.unlock()`,
  EXEC through `acquireExclusive`). The theorem below is the abstract reason this gives linearizable
  histories: under an exclusive mutex the interleaved execution of the micro-steps of any number of
  threads equals the sequential execution of whole commands in lock-acquisition order. Which handlers
  really keep the lock for all their steps is checked dynamically by the `lin` tool (porcupine on
  recorded concurrent histories, invariant workloads); the Go runtime is not modelled.
-/
namespace RedisEmu

variable {σ : Type}

/-- micro-events of threads sharing one mutex and one state -/
inductive MEv (σ : Type) where
  | acq (t : Nat)
  | rel (t : Nat)
  | op (t : Nat) (f : σ → σ)     -- one read-modify-write micro-step of thread t on the shared state

/-- the lock discipline: acquire only when free, release by the holder, steps only by the holder -/
def Disciplined : Option Nat → List (MEv σ) → Prop
  | _, [] => True
  | h, .acq t :: r => h = none ∧ Disciplined (some t) r
  | h, .rel t :: r => h = some t ∧ Disciplined none r
  | h, .op t _ :: r => h = some t ∧ Disciplined h r

/-- what really happens: the micro-steps are applied in trace order -/
def execTrace : σ → List (MEv σ) → σ
  | s, [] => s
  | s, .op _ f :: r => execTrace (f s) r
  | s, _ :: r => execTrace s r

/-- the commands of the trace in lock-acquisition order: (thread, composed effect of its steps).
    `cur` is the section being collected. -/
def commandsOf : Option (Nat × (σ → σ)) → List (MEv σ) → List (Nat × (σ → σ))
  | cur, [] => match cur with | some c => [c] | none => []
  | _, .acq t :: r => commandsOf (some (t, id)) r
  | cur, .rel _ :: r => (match cur with | some c => [c] | none => []) ++ commandsOf none r
  | cur, .op t f :: r =>
    match cur with
    | some (t', g) => if t = t' then commandsOf (some (t', f ∘ g)) r else commandsOf cur r   -- foreign steps are not part of the command
    | none => commandsOf none r

/-- the sequential execution of whole commands, one after the other -/
def execCommands (s : σ) (cs : List (Nat × (σ → σ))) : σ := cs.foldl (fun st c => c.2 st) s

theorem execCommands_append (s : σ) (a b : List (Nat × (σ → σ))) :
    execCommands s (a ++ b) = execCommands (execCommands s a) b := by
  unfold execCommands; rw [List.foldl_append]

/-- generalised statement with a command in progress -/
theorem atomic_aux : ∀ (tr : List (MEv σ)) (s0 : σ) (h : Option Nat) (cur : Option (Nat × (σ → σ))),
    Disciplined h tr →
    (match cur with | some (t, _) => h = some t | none => h = none) →
    execTrace (match cur with | some (_, g) => g s0 | none => s0) tr =
      execCommands s0 (commandsOf cur tr) := by
  intro tr
  induction tr with
  | nil =>
    intro s0 h cur _ _
    cases cur with
    | none => simp [execTrace, commandsOf, execCommands]
    | some c => simp [execTrace, commandsOf, execCommands]
  | cons e r ih =>
    intro s0 h cur hd hc
    cases e with
    | acq t =>
      simp only [Disciplined] at hd
      -- acquire only happens with no command in progress
      cases cur with
      | some c => obtain ⟨t', g⟩ := c; simp only at hc; rw [hd.1] at hc; cases hc
      | none =>
        simp only [execTrace, commandsOf]
        have := ih s0 (some t) (some (t, id)) hd.2 rfl
        simpa using this
    | rel t =>
      simp only [Disciplined] at hd
      cases cur with
      | none => simp only at hc; rw [hd.1] at hc; cases hc
      | some c =>
        obtain ⟨t', g⟩ := c
        simp only [execTrace, commandsOf]
        rw [execCommands_append]
        have := ih (g s0) none none hd.2 rfl
        simpa [execCommands] using this
    | op t f =>
      simp only [Disciplined] at hd
      cases cur with
      | none => simp only at hc; rw [hd.1] at hc; cases hc
      | some c =>
        obtain ⟨t', g⟩ := c
        simp only at hc
        have htt : t = t' := by rw [hd.1] at hc; exact Option.some.inj hc
        subst htt
        simp only [execTrace, commandsOf, ↓reduceIte]
        have := ih s0 h (some (t, f ∘ g)) hd.2 hc
        simpa using this

/-- **Atomicity from the lock discipline.** For any number of threads and any interleaving allowed by
    an exclusive mutex, the state reached by the interleaved micro-steps is the state reached by
    executing the commands one at a time, each as a whole, in the order in which they acquired the
    lock. No command observes or leaves a partially applied command. -/
theorem interleaving_is_sequential (s : σ) (tr : List (MEv σ)) (h : Disciplined none tr) :
    execTrace s tr = execCommands s (commandsOf none tr) := by
  have := atomic_aux tr s none none h rfl
  simpa using this

/-! ### order: program order of each connection and real-time precedence between connections -/

/-- the threads in the order in which they acquired the lock -/
def acquisitions : List (MEv σ) → List Nat
  | [] => []
  | .acq t :: r => t :: acquisitions r
  | _ :: r => acquisitions r

/-- the sequential order of `interleaving_is_sequential` is the order of the lock acquisitions: one command per
    acquisition, by the acquiring thread. A connection sends its next command after the reply to the previous one,
    so the commands of one connection appear in the order it issued them. -/
theorem order_is_acquisition_order : ∀ (tr : List (MEv σ)) (h : Option Nat) (cur : Option (Nat × (σ → σ))),
    Disciplined h tr →
    (match cur with | some (t, _) => h = some t | none => h = none) →
    (commandsOf cur tr).map (·.1) = (match cur with | some (t, _) => [t] | none => []) ++ acquisitions tr := by
  intro tr
  induction tr with
  | nil => intro h cur _ _; cases cur <;> simp [commandsOf, acquisitions]
  | cons e r ih =>
    intro h cur hd hc
    cases e with
    | acq t =>
      simp only [Disciplined] at hd
      cases cur with
      | some c => obtain ⟨t', g⟩ := c; simp only at hc; rw [hd.1] at hc; cases hc
      | none =>
        simp only [commandsOf, acquisitions]
        have := ih (some t) (some (t, id)) hd.2 rfl
        simpa using this
    | rel t =>
      simp only [Disciplined] at hd
      cases cur with
      | none => simp only at hc; rw [hd.1] at hc; cases hc
      | some c =>
        obtain ⟨t', g⟩ := c
        simp only [commandsOf, acquisitions, List.map_append]
        have := ih none none hd.2 rfl
        simpa using this
    | op t f =>
      simp only [Disciplined] at hd
      cases cur with
      | none => simp only at hc; rw [hd.1] at hc; cases hc
      | some c =>
        obtain ⟨t', g⟩ := c
        simp only at hc
        have htt : t = t' := by rw [hd.1] at hc; exact Option.some.inj hc
        subst htt
        simp only [commandsOf, ↓reduceIte, acquisitions]
        have := ih h (some (t, f ∘ g)) hd.2 hc
        simpa using this

theorem commands_in_acquisition_order (tr : List (MEv σ)) (h : Disciplined none tr) :
    (commandsOf none tr).map (·.1) = acquisitions tr := by
  have := order_is_acquisition_order tr none none h rfl
  simpa using this

/-- who holds the lock after a trace -/
def lockAfter : Option Nat → List (MEv σ) → Option Nat
  | h, [] => h
  | _, .acq t :: r => lockAfter (some t) r
  | _, .rel _ :: r => lockAfter none r
  | h, .op _ _ :: r => lockAfter h r

/-- **Real-time precedence.** When the lock is free at some point of the trace (every command that began before
    that point has released), the sequential order puts every command of the first part before every command
    of the second part: a command that completed before another began is ordered before it. -/
theorem completed_commands_come_first : ∀ (a b : List (MEv σ)) (h : Option Nat) (cur : Option (Nat × (σ → σ))),
    Disciplined h a →
    (match cur with | some (t, _) => h = some t | none => h = none) →
    lockAfter h a = none →
    commandsOf cur (a ++ b) = commandsOf cur a ++ commandsOf none b := by
  intro a
  induction a with
  | nil =>
    intro b h cur _ hc hh
    simp only [lockAfter] at hh
    subst hh
    cases cur with
    | none => simp [commandsOf]
    | some c => obtain ⟨t, g⟩ := c; simp at hc
  | cons e r ih =>
    intro b h cur hd hc hh
    cases e with
    | acq t =>
      simp only [Disciplined] at hd
      simp only [lockAfter] at hh
      simp only [List.cons_append, commandsOf]
      exact ih b (some t) (some (t, id)) hd.2 rfl hh
    | rel t =>
      simp only [Disciplined] at hd
      simp only [lockAfter] at hh
      simp only [List.cons_append, commandsOf, List.append_assoc]
      rw [ih b none none hd.2 rfl hh]
    | op t f =>
      simp only [Disciplined] at hd
      simp only [lockAfter] at hh
      cases cur with
      | none => simp only at hc; rw [hd.1] at hc; cases hc
      | some c =>
        obtain ⟨t', g⟩ := c
        simp only at hc
        have htt : t = t' := by rw [hd.1] at hc; exact Option.some.inj hc
        subst htt
        simp only [List.cons_append, commandsOf, ↓reduceIte]
        exact ih b h (some (t, f ∘ g)) hd.2 hc hh

theorem real_time_precedence (a b : List (MEv σ)) (hd : Disciplined none a) (hfree : lockAfter none a = none) :
    commandsOf none (a ++ b) = commandsOf none a ++ commandsOf none b :=
  completed_commands_come_first a b none none hd rfl hfree

/-- **Replies.** A reply is computed by a micro-step from the state it sees; with the replies logged in the shared
    state (`σ = S × log`), `interleaving_is_sequential` says the log — every reply every client received, in order —
    is the log of the sequential execution. -/
theorem replies_are_sequential {S ρ : Type} (s : S) (tr : List (MEv (S × List (Nat × ρ)))) (h : Disciplined none tr) :
    (execTrace (s, []) tr).2 = (execCommands (s, []) (commandsOf none tr)).2 := by
  rw [interleaving_is_sequential (s, []) tr h]

/-- non-vacuity: two threads, thread 1 adds 1 and doubles under the lock, thread 2 adds 10 in between the sections;
    the trace is disciplined, the lock is free after the first section, and the order is 1, 2 -/
theorem precedence_example :
    let a : List (MEv Nat) := [.acq 1, .op 1 (· + 1), .op 1 (· * 2), .rel 1]
    let b : List (MEv Nat) := [.acq 2, .op 2 (· + 10), .rel 2]
    Disciplined none (a ++ b) ∧ lockAfter none a = none ∧ acquisitions (a ++ b) = [1, 2] ∧ execTrace 0 (a ++ b) = 12 := by
  simp [Disciplined, lockAfter, acquisitions, execTrace]

/-! ### the premise of `interleaving_is_sequential` on the code: the regenerated locking facts

See `data_layer_lock_discipline` in C16: every function that touches a database takes its lock before
the first touch and holds it until it returns (or is only called with the lock held). The facts are
re-extracted from /repo on every run. -/

theorem commands_hold_the_lock_throughout :
    lockFacts.all (fun f => f.2 != LockKind.unprotected && f.2 != LockKind.locksExplicit) = true := by
  decide

end RedisEmu
