import RedisEmu.Block
import RedisEmu.Proofs.MWake
import RedisEmu.Wake
import Mathlib.Tactic.SplitIfs
/-
  C11 — blocking pops (partial). Theorems about the transition system `RedisEmu.Block`: they hold for
  every interleaving of pushes, registrations, retries of woken clients, steals and departures, of any
  number of clients. The tie to the Go code is the `block` tool (real goroutines, schedule points).
  Goroutine scheduling and channel timing are not modelled.
-/
namespace RedisEmu

/-- everything pushed is, in order of accounting: already handed to a client, explicitly removed, or
    still in the list -/
def Conserved (s : BState) : Prop :=
  (s.delivered.map (·.2) ++ s.removed ++ s.list).Perm s.pushed

theorem conserved_init : Conserved {} := by simp [Conserved]

theorem conserved_step (s : BState) (st : BStep) (h : Conserved s) : Conserved (bstep s st) := by
  unfold Conserved at *
  cases st with
  | push xs =>
    simp only [bstep, wake]
    have : (s.delivered.map (·.2) ++ s.removed ++ (s.list ++ xs)) = (s.delivered.map (·.2) ++ s.removed ++ s.list) ++ xs := by
      simp [List.append_assoc]
    rw [this]
    exact List.Perm.append_right xs h
  | register => simp only [bstep]; exact h
  | retry c =>
    simp only [bstep]
    split_ifs
    · cases hl : s.list with
      | nil => simp only [hl] at h ⊢; exact h
      | cons x r =>
        simp only [hl, List.map_append, List.map_cons, List.map_nil] at h ⊢
        -- moving x from the head of the list to the end of `delivered`
        have hp : ((s.delivered.map (·.2) ++ [x]) ++ s.removed ++ r).Perm (s.delivered.map (·.2) ++ s.removed ++ x :: r) := by
          simp only [List.append_assoc]
          apply List.Perm.append_left
          have : ([x] ++ (s.removed ++ r)).Perm (s.removed ++ ([x] ++ r)) := by
            rw [← List.append_assoc, ← List.append_assoc]
            exact List.Perm.append_right r List.perm_append_comm
          simpa using this
        exact hp.trans h
    · exact h
  | steal =>
    simp only [bstep]
    cases hl : s.list with
    | nil => simp only [hl] at h ⊢; exact h
    | cons x r =>
      simp only [hl] at h ⊢
      have hp : (s.delivered.map (·.2) ++ (s.removed ++ [x]) ++ r).Perm (s.delivered.map (·.2) ++ s.removed ++ x :: r) := by
        simp [List.append_assoc]
      exact hp.trans h
  | leave c => simp only [bstep]; exact h

/-- **Exactly-once delivery and conservation.** Across every interleaving of pushes, blocking pops and
    non-blocking pops, each pushed element is returned to exactly one consumer, explicitly removed, or
    still in its list — never lost, never duplicated (as multisets). -/
theorem conservation (steps : List BStep) : Conserved (brun {} steps) := by
  have : ∀ (s : BState), Conserved s → Conserved (brun s steps) := by
    induction steps with
    | nil => intro s h; exact h
    | cons st r ih => intro s h; exact ih _ (conserved_step s st h)
  exact this {} conserved_init

/-- elements leave the list head in list order: a retry or a steal takes exactly the current head -/
theorem pops_take_head (s : BState) (c x : Nat) (r : List Nat) (hl : s.list = x :: r) (hw : c ∈ s.woken) :
    (bstep s (.retry c)).list = r ∧ (bstep s (.retry c)).delivered = s.delivered ++ [(c, x)] ∧
    (bstep s .steal).list = r := by
  simp [bstep, hl, hw]

/-- **Longest waiter first.** A push of `n` elements wakes exactly the `n` longest-registered waiters,
    in registration order, and leaves the others queued in their order. -/
theorem push_wakes_longest_waiters (s : BState) (xs : List Nat) :
    (bstep s (.push xs)).woken = s.woken ++ s.queue.take xs.length ∧
    (bstep s (.push xs)).queue = s.queue.drop xs.length := by
  simp [bstep, wake]

/-- registration appends: a client that registers later never overtakes one that registered earlier -/
theorem register_appends (s : BState) :
    (bstep s .register).queue = s.queue ++ [s.nextId] := by
  simp [bstep]

theorem mem_insertAge (c y : Nat) (l : List Nat) : y ∈ insertAge c l ↔ y = c ∨ y ∈ l := by
  induction l with
  | nil => simp [insertAge]
  | cons x r ih =>
    unfold insertAge
    split_ifs
    · simp
    · simp only [List.mem_cons, ih]
      constructor
      · rintro (h | h | h)
        · exact Or.inr (Or.inl h)
        · exact Or.inl h
        · exact Or.inr (Or.inr h)
      · rintro (h | h | h)
        · exact Or.inr (Or.inl h)
        · exact Or.inl h
        · exact Or.inr (Or.inr h)

theorem pairwise_insertAge (c : Nat) (l : List Nat) (hs : l.Pairwise (· < ·)) (hc : c ∉ l) :
    (insertAge c l).Pairwise (· < ·) := by
  induction l with
  | nil => simp [insertAge]
  | cons x r ih =>
    have hx : c ≠ x := fun h => hc (by simp [h])
    have hr : c ∉ r := fun h => hc (by simp [h])
    have hsr := (List.pairwise_cons.mp hs).2
    have hxr := (List.pairwise_cons.mp hs).1
    unfold insertAge
    split_ifs with hlt
    · refine List.pairwise_cons.mpr ⟨?_, hs⟩
      intro y hy
      rcases List.mem_cons.mp hy with h | h
      · omega
      · have := hxr y h; omega
    · refine List.pairwise_cons.mpr ⟨?_, ih hsr hr⟩
      intro y hy
      rcases (mem_insertAge c y r).mp hy with h | h
      · omega
      · exact hxr y h

/-- the bookkeeping invariant: the wait queue is ordered by age (longest-blocked client first), every
    known client is older than the next id, and no client is queued and woken at once or woken twice -/
structure QInv (s : BState) : Prop where
  sorted : s.queue.Pairwise (· < ·)
  qlt : ∀ c ∈ s.queue, c < s.nextId
  wlt : ∀ c ∈ s.woken, c < s.nextId
  disj : ∀ c ∈ s.woken, c ∉ s.queue
  wnodup : s.woken.Nodup

theorem qinv_init : QInv {} := by
  constructor <;> simp

theorem qinv_step (s : BState) (st : BStep) (h : QInv s) : QInv (bstep s st) := by
  cases st with
  | push xs =>
    simp only [bstep, wake]
    have hsub : ∀ c, c ∈ s.queue.take xs.length → c ∈ s.queue := fun c hc => List.mem_of_mem_take hc
    have hsplit := List.take_append_drop xs.length s.queue
    have hpw : (s.queue.take xs.length ++ s.queue.drop xs.length).Pairwise (· < ·) := by rw [hsplit]; exact h.sorted
    constructor
    · exact (List.pairwise_append.mp hpw).2.1
    · intro c hc; exact h.qlt c (List.mem_of_mem_drop hc)
    · intro c hc
      rcases List.mem_append.mp hc with hc | hc
      · exact h.wlt c hc
      · exact h.qlt c (hsub c hc)
    · intro c hc hd
      rcases List.mem_append.mp hc with hc | hc
      · exact h.disj c hc (List.mem_of_mem_drop hd)
      · have := (List.pairwise_append.mp hpw).2.2 c hc c hd; omega
    · refine List.nodup_append.mpr ⟨h.wnodup, ?_, ?_⟩
      · exact ((List.pairwise_append.mp hpw).1).imp (fun hlt => Nat.ne_of_lt hlt)
      · intro a ha b hb hab
        subst hab
        exact h.disj a ha (hsub a hb)
  | register =>
    simp only [bstep]
    constructor <;> dsimp only
    · refine List.pairwise_append.mpr ⟨h.sorted, by simp, ?_⟩
      intro a ha b hb
      have := h.qlt a ha
      simp at hb; omega
    · intro c hc
      rcases List.mem_append.mp hc with hc | hc
      · have := h.qlt c hc; omega
      · simp at hc; omega
    · intro c hc; have := h.wlt c hc; omega
    · intro c hc hd
      rcases List.mem_append.mp hd with hd | hd
      · exact h.disj c hc hd
      · simp at hd; have := h.wlt c hc; omega
    · exact h.wnodup
  | retry c =>
    simp only [bstep]
    split_ifs with hw
    · cases hl : s.list with
      | cons x r =>
        simp only
        constructor
        · exact h.sorted
        · exact h.qlt
        · intro d hd; exact h.wlt d (List.mem_of_mem_erase hd)
        · intro d hd; exact h.disj d (List.mem_of_mem_erase hd)
        · exact h.wnodup.erase c
      | nil =>
        simp only
        constructor
        · exact pairwise_insertAge c s.queue h.sorted (h.disj c hw)
        · intro d hd
          rcases (mem_insertAge c d s.queue).mp hd with hd | hd
          · subst hd; exact h.wlt d hw
          · exact h.qlt d hd
        · intro d hd; exact h.wlt d (List.mem_of_mem_erase hd)
        · intro d hd hq
          rcases (mem_insertAge c d s.queue).mp hq with hq | hq
          · subst hq
            exact (List.Nodup.mem_erase_iff h.wnodup).mp hd |>.1 rfl
          · exact h.disj d (List.mem_of_mem_erase hd) hq
        · exact h.wnodup.erase c
    · exact h
  | steal =>
    simp only [bstep]
    cases hl : s.list with
    | nil => exact h
    | cons x r => exact ⟨h.sorted, h.qlt, h.wlt, h.disj, h.wnodup⟩
  | leave c =>
    simp only [bstep]
    constructor
    · exact h.sorted.sublist (List.erase_sublist)
    · intro d hd; exact h.qlt d (List.mem_of_mem_erase hd)
    · intro d hd; exact h.wlt d (List.mem_of_mem_erase hd)
    · intro d hd hq; exact h.disj d (List.mem_of_mem_erase hd) (List.mem_of_mem_erase hq)
    · exact h.wnodup.erase c

/-- **The wait queue is always in order of age**, whatever happened before: in every reachable state
    the head of the queue is the longest-blocked registered client, so `push_wakes_longest_waiters`
    serves the longest-blocked clients first — also after wake-ups that found nothing (repaired:
    such a client used to go to the end of the queue). -/
theorem queue_ordered_by_age (steps : List BStep) : QInv (brun {} steps) := by
  have : ∀ (s : BState), QInv s → QInv (brun s steps) := by
    induction steps with
    | nil => intro s h; exact h
    | cons st r ih => intro s h; exact ih _ (qinv_step s st h)
  exact this {} qinv_init

/-- **No stranded waiter (repaired behaviour).** A woken client whose retry finds the list empty is
    back in the wait queue afterwards, so the next push wakes it again. (On the unrepaired code it was
    in no queue: D29.) -/
theorem failed_retry_reregisters (s : BState) (c : Nat) (hw : c ∈ s.woken) (hl : s.list = []) :
    c ∈ (bstep s (.retry c)).queue := by
  simp [bstep, hw, hl, mem_insertAge]

/-- … and ahead of every client that blocked after it -/
theorem failed_retry_keeps_place (s : BState) (c : Nat) (h : QInv s) :
    (bstep s (.retry c)).queue.Pairwise (· < ·) :=
  (qinv_step s (.retry c) h).sorted

/-- … hence a later push of at least as many elements as there are waiters ahead of it wakes it -/
theorem next_push_wakes_it (s : BState) (c : Nat) (xs : List Nat) (hq : s.queue = [c]) (hx : xs ≠ []) :
    c ∈ (bstep s (.push xs)).woken := by
  simp only [bstep, wake, hq, List.mem_append]
  right
  cases xs with
  | nil => exact absurd rfl hx
  | cons y ys => simp

/-- non-vacuity: three clients block, a push wakes the oldest, its element is stolen, it takes its
    place again ahead of the two younger ones, and the next push serves it first -/
example :
    let s := brun {} [.register, .register, .register, .push [7], .steal, .retry 0, .push [8], .retry 0]
    s.delivered = [(0, 8)] ∧ s.queue = [1, 2] := by decide

/-! ### no lost wake-up

The accounting model `RedisEmu.Wake`: a client that registers will look at the list once more
(`pending`), a push hands out one token per element to the queue heads, a token holder retries, and a
client that leaves with an unused token passes it on (the repaired behaviour, D84). -/


structure WFull (s : WState) : Prop where
  acc : s.list.length ≤ s.pending.length + s.token.length ∨ ∀ c ∈ s.queue, c ∈ s.pending
  qnodup : s.queue.Nodup
  qfresh : ∀ c ∈ s.queue, c < s.nextId
  tfresh : ∀ c ∈ s.token, c < s.nextId
  disj : ∀ c ∈ s.token, c ∉ s.queue
  tnodup : s.token.Nodup

theorem wfull_init : WFull {} := by
  constructor <;> simp

/-- `wakeOne` keeps the bookkeeping facts and adds a token unless nobody is queued -/
theorem wakeOne_spec (s : WState) (hn : s.queue.Nodup) (hq : ∀ c ∈ s.queue, c < s.nextId)
    (ht : ∀ c ∈ s.token, c < s.nextId) (hd : ∀ c ∈ s.token, c ∉ s.queue) (htn : s.token.Nodup) :
    (wakeOne s).list = s.list ∧ (wakeOne s).pending = s.pending ∧ (wakeOne s).nextId = s.nextId ∧
    (wakeOne s).queue.Nodup ∧ (∀ c ∈ (wakeOne s).queue, c ∈ s.queue) ∧
    (∀ c ∈ (wakeOne s).token, c < s.nextId) ∧ (∀ c ∈ (wakeOne s).token, c ∉ (wakeOne s).queue) ∧
    (((wakeOne s).token.length = s.token.length + 1) ∨ (wakeOne s).queue = []) ∧ (wakeOne s).token.Nodup := by
  unfold wakeOne
  cases hq' : s.queue with
  | nil =>
    simp only
    refine ⟨trivial, trivial, trivial, by simp [hq'], by simp [hq'], ht, ?_, Or.inr hq', htn⟩
    intro c hc; simp [hq']
  | cons h r =>
    simp only
    have hn' : (h :: r).Nodup := hq' ▸ hn
    refine ⟨trivial, trivial, trivial, (List.nodup_cons.mp hn').2, ?_, ?_, ?_, Or.inl (by simp), ?_⟩
    · intro c hc; exact List.mem_cons_of_mem _ hc
    · intro c hc
      rcases List.mem_append.mp hc with hc | hc
      · exact ht c hc
      · simp at hc; subst hc; exact hq c (by rw [hq']; exact List.mem_cons_self)
    · intro c hc hcr
      rcases List.mem_append.mp hc with hc | hc
      · exact hd c hc (by rw [hq']; exact List.mem_cons_of_mem _ hcr)
      · simp at hc; subst hc; exact (List.nodup_cons.mp hn').1 hcr
    · refine List.nodup_append.mpr ⟨htn, by simp, ?_⟩
      intro a ha b hb hab
      simp at hb; subst hb; subst hab
      exact hd _ ha (by rw [hq']; exact List.mem_cons_self)

/-- a client leaves the wait lists holding a token it never used, and passes it on -/
theorem pass_on (s s1 : WState) (c : Nat) (h : WFull s) (hc : c ∈ s.token)
    (hni : s1.nextId = s.nextId) (hq1 : s1.queue = s.queue.erase c) (ht1 : s1.token = s.token.erase c)
    (hacc : s1.list.length ≤ s1.pending.length + s.token.length ∨ ∀ d ∈ s1.queue, d ∈ s1.pending) :
    WFull (wakeOne s1) := by
  have hn1 : s1.queue.Nodup := by rw [hq1]; exact h.qnodup.erase c
  have hqf1 : ∀ d ∈ s1.queue, d < s1.nextId := by
    intro d hd; rw [hni]; rw [hq1] at hd; exact h.qfresh d (List.mem_of_mem_erase hd)
  have htf1 : ∀ d ∈ s1.token, d < s1.nextId := by
    intro d hd; rw [hni]; rw [ht1] at hd; exact h.tfresh d (List.mem_of_mem_erase hd)
  have hd1 : ∀ d ∈ s1.token, d ∉ s1.queue := by
    intro d hd hq
    rw [ht1] at hd; rw [hq1] at hq
    exact h.disj d (List.mem_of_mem_erase hd) (List.mem_of_mem_erase hq)
  have htn1 : s1.token.Nodup := by rw [ht1]; exact h.tnodup.erase c
  obtain ⟨wl, wp, wn, wnd, wsub, wtf, wdj, wlen, wtn⟩ := wakeOne_spec s1 hn1 hqf1 htf1 hd1 htn1
  have hlen : s1.token.length + 1 = s.token.length := by
    rw [ht1, List.length_erase_of_mem hc]
    have : 0 < s.token.length := List.length_pos_of_mem hc
    omega
  constructor
  · rw [wl, wp]
    rcases wlen with e | e
    · rcases hacc with a | a
      · left; omega
      · right; intro d hd; exact a d (wsub d hd)
    · right; intro d hd; rw [e] at hd; cases hd
  · exact wnd
  · intro d hd; rw [wn]; exact hqf1 d (wsub d hd)
  · intro d hd; rw [wn]; exact wtf d hd
  · exact wdj
  · exact wtn

theorem look_not_pending (b : Bool) (s : WState) (c : Nat) (h : c ∉ s.pending) : wstep b s (.look c) = s := by
  simp [wstep, h]

theorem look_empty (b : Bool) (s : WState) (c : Nat) (h : c ∈ s.pending) (hl : s.list = []) :
    wstep b s (.look c) = { s with pending := s.pending.erase c } := by
  simp [wstep, h, hl]

theorem look_pop_plain (b : Bool) (s : WState) (c x : Nat) (r : List Nat) (h : c ∈ s.pending) (hl : s.list = x :: r)
    (ht : c ∉ s.token) :
    wstep b s (.look c) = { s with list := r, pending := s.pending.erase c, queue := s.queue.erase c } := by
  simp [wstep, h, hl, ht]

theorem look_pop_token (s : WState) (c x : Nat) (r : List Nat) (h : c ∈ s.pending) (hl : s.list = x :: r)
    (ht : c ∈ s.token) :
    wstep true s (.look c) =
      wakeOne { s with list := r, pending := s.pending.erase c, queue := s.queue.erase c, token := s.token.erase c } := by
  simp [wstep, h, hl, ht]

theorem retry_idle (b : Bool) (s : WState) (c : Nat) (h : ¬ (c ∈ s.token ∧ c ∉ s.pending)) : wstep b s (.retry c) = s := by
  simp only [wstep, h, if_false]

theorem retry_pop (b : Bool) (s : WState) (c x : Nat) (r : List Nat) (h : c ∈ s.token ∧ c ∉ s.pending) (hl : s.list = x :: r) :
    wstep b s (.retry c) = { s with list := r, token := s.token.erase c } := by
  simp [wstep, h.1, h.2, hl]

theorem retry_vain (b : Bool) (s : WState) (c : Nat) (h : c ∈ s.token ∧ c ∉ s.pending) (hl : s.list = []) :
    wstep b s (.retry c) = { s with token := s.token.erase c, queue := s.queue ++ [c] } := by
  simp [wstep, h.1, h.2, hl]

theorem leave_pending (b : Bool) (s : WState) (c : Nat) (h : c ∈ s.pending) : wstep b s (.leave c) = s := by
  simp [wstep, h]

theorem leave_plain (b : Bool) (s : WState) (c : Nat) (h : c ∉ s.pending) (ht : c ∉ s.token) :
    wstep b s (.leave c) = { s with queue := s.queue.erase c } := by
  simp [wstep, h, ht]

theorem leave_token (s : WState) (c : Nat) (h : c ∉ s.pending) (ht : c ∈ s.token) :
    wstep true s (.leave c) = wakeOne { s with queue := s.queue.erase c, token := s.token.erase c } := by
  simp [wstep, h, ht]

theorem len_erase (l : List Nat) (c : Nat) (h : c ∈ l) : (l.erase c).length + 1 = l.length := by
  rw [List.length_erase_of_mem h]
  have : 0 < l.length := List.length_pos_of_mem h
  omega

theorem wfull_step (s : WState) (st : WStep) (h : WFull s) : WFull (wstep true s st) := by
  cases st with
  | push xs =>
    simp only [wstep]
    have hsplit := List.take_append_drop (min xs.length s.queue.length) s.queue
    have hpw : (s.queue.take (min xs.length s.queue.length) ++ s.queue.drop (min xs.length s.queue.length)).Nodup := by
      rw [hsplit]; exact h.qnodup
    constructor
    · simp only [List.length_append, List.length_take]
      by_cases hle : xs.length ≤ s.queue.length
      · rcases h.acc with a | a
        · left; simp only [Nat.min_eq_left hle]; omega
        · right; intro c hc; exact a c (List.mem_of_mem_drop hc)
      · right
        intro c hc
        have : min xs.length s.queue.length = s.queue.length := Nat.min_eq_right (by omega)
        rw [this, List.drop_length] at hc; cases hc
    · exact (List.nodup_append.mp hpw).2.1
    · intro c hc; exact h.qfresh c (List.mem_of_mem_drop hc)
    · intro c hc
      rcases List.mem_append.mp hc with hc | hc
      · exact h.tfresh c hc
      · exact h.qfresh c (List.mem_of_mem_take hc)
    · intro c hc hd
      rcases List.mem_append.mp hc with hc | hc
      · exact h.disj c hc (List.mem_of_mem_drop hd)
      · exact (List.nodup_append.mp hpw).2.2 c hc c hd rfl
    · refine List.nodup_append.mpr ⟨h.tnodup, (List.nodup_append.mp hpw).1, ?_⟩
      intro a ha b hb hab
      subst hab
      exact h.disj a ha (List.mem_of_mem_take hb)
  | register =>
    simp only [wstep]
    constructor <;> dsimp only
    · rcases h.acc with a | a
      · left; simp only [List.length_append, List.length_cons, List.length_nil]; omega
      · right
        intro c hc
        rcases List.mem_append.mp hc with hc | hc
        · exact List.mem_append_left _ (a c hc)
        · exact List.mem_append_right _ hc
    · refine List.nodup_append.mpr ⟨h.qnodup, by simp, ?_⟩
      intro a ha b hb hab
      simp at hb; subst hb; subst hab
      exact Nat.lt_irrefl _ (h.qfresh _ ha)
    · intro c hc
      rcases List.mem_append.mp hc with hc | hc
      · have := h.qfresh c hc; omega
      · simp at hc; omega
    · intro c hc; have := h.tfresh c hc; omega
    · intro c hc hd
      rcases List.mem_append.mp hd with hd | hd
      · exact h.disj c hc hd
      · simp at hd; have := h.tfresh c hc; omega
    · exact h.tnodup
  | look c =>
    by_cases hp : c ∈ s.pending
    · have hmem : (∀ d ∈ s.queue, d ∈ s.pending) → ∀ d ∈ s.queue.erase c, d ∈ s.pending.erase c := by
        intro a d hd
        have hdc : d ≠ c := by
          intro e; subst e
          exact (List.Nodup.mem_erase_iff h.qnodup).mp hd |>.1 rfl
        exact (List.mem_erase_of_ne hdc).mpr (a d (List.mem_of_mem_erase hd))
      have hplen := len_erase s.pending c hp
      cases hl : s.list with
      | nil =>
        rw [look_empty true s c hp hl]
        exact ⟨Or.inl (by simp [hl]), h.qnodup, h.qfresh, h.tfresh, h.disj, h.tnodup⟩
      | cons x r =>
        by_cases htk : c ∈ s.token
        · rw [look_pop_token s c x r hp hl htk]
          refine pass_on s { list := r, queue := s.queue.erase c, pending := s.pending.erase c, token := s.token.erase c, nextId := s.nextId } c h htk rfl rfl rfl ?_
          dsimp only
          rcases h.acc with a | a
          · left; rw [hl] at a; simp only [List.length_cons] at a; omega
          · right; exact hmem a
        · rw [look_pop_plain true s c x r hp hl htk]
          constructor <;> dsimp only
          · rcases h.acc with a | a
            · left; rw [hl] at a; simp only [List.length_cons] at a; omega
            · right; exact hmem a
          · exact h.qnodup.erase c
          · intro d hd; exact h.qfresh d (List.mem_of_mem_erase hd)
          · exact h.tfresh
          · intro d hd hq; exact h.disj d hd (List.mem_of_mem_erase hq)
          · exact h.tnodup
    · rw [look_not_pending true s c hp]; exact h
  | retry c =>
    by_cases hc : c ∈ s.token ∧ c ∉ s.pending
    · have htlen := len_erase s.token c hc.1
      cases hl : s.list with
      | nil =>
        rw [retry_vain true s c hc hl]
        constructor <;> dsimp only
        · left; simp [hl]
        · refine List.nodup_append.mpr ⟨h.qnodup, by simp, ?_⟩
          intro a ha b hb hab
          simp at hb; subst hb; subst hab
          exact h.disj _ hc.1 ha
        · intro d hd
          rcases List.mem_append.mp hd with hd | hd
          · exact h.qfresh d hd
          · simp at hd; subst hd; exact h.tfresh _ hc.1
        · intro d hd; exact h.tfresh d (List.mem_of_mem_erase hd)
        · intro d hd hq
          rcases List.mem_append.mp hq with hq | hq
          · exact h.disj d (List.mem_of_mem_erase hd) hq
          · simp at hq; subst hq
            -- a token is held once: after giving it up the client holds none
            exact (List.Nodup.mem_erase_iff h.tnodup).mp hd |>.1 rfl
        · exact h.tnodup.erase c
      | cons x r =>
        rw [retry_pop true s c x r hc hl]
        constructor <;> dsimp only
        · rcases h.acc with a | a
          · left; rw [hl] at a; simp only [List.length_cons] at a; omega
          · right; exact a
        · exact h.qnodup
        · exact h.qfresh
        · intro d hd; exact h.tfresh d (List.mem_of_mem_erase hd)
        · intro d hd hq; exact h.disj d (List.mem_of_mem_erase hd) hq
        · exact h.tnodup.erase c
    · rw [retry_idle true s c hc]; exact h
  | steal =>
    simp only [wstep]
    constructor <;> dsimp only
    · rcases h.acc with a | a
      · left; simp only [List.length_drop]; omega
      · right; exact a
    · exact h.qnodup
    · exact h.qfresh
    · exact h.tfresh
    · exact h.disj
    · exact h.tnodup
  | leave c =>
    by_cases hp : c ∈ s.pending
    · rw [leave_pending true s c hp]; exact h
    · by_cases htk : c ∈ s.token
      · rw [leave_token s c hp htk]
        refine pass_on s { list := s.list, queue := s.queue.erase c, pending := s.pending, token := s.token.erase c, nextId := s.nextId } c h htk rfl rfl rfl ?_
        dsimp only
        rcases h.acc with a | a
        · left; exact a
        · right; intro d hd; exact a d (List.mem_of_mem_erase hd)
      · rw [leave_plain true s c hp htk]
        constructor <;> dsimp only
        · rcases h.acc with a | a
          · left; exact a
          · right; intro d hd; exact a d (List.mem_of_mem_erase hd)
        · exact h.qnodup.erase c
        · intro d hd; exact h.qfresh d (List.mem_of_mem_erase hd)
        · exact h.tfresh
        · intro d hd hq; exact h.disj d hd (List.mem_of_mem_erase hq)
        · exact h.tnodup


/-- the bookkeeping invariant holds after every interleaving of pushes, registrations, first looks,
    retries, steals and departures -/
theorem wfull_reachable (steps : List WStep) : WFull (wrun true {} steps) := by
  have : ∀ s, WFull s → WFull (wrun true s steps) := by
    induction steps with
    | nil => intro s h; exact h
    | cons st r ih => intro s h; exact ih _ (wfull_step s st h)
  exact this {} wfull_init

/-- **No lost wake-up.** In every reachable state: if the list holds elements while some client is
    registered and passively waiting for a wake-up, then at least as many clients are about to look at the
    list (their first look after registering is still to come, or they hold a wake-up token) as there are
    elements. In particular, once nobody is in motion, a non-empty list means nobody is waiting:
    no client stays blocked on a list that holds data. -/
theorem no_lost_wakeup (steps : List WStep) :
    let s := wrun true {} steps
    s.list.length ≤ s.pending.length + s.token.length ∨ ∀ c ∈ s.queue, c ∈ s.pending :=
  (wfull_reachable steps).acc

theorem quiescent_means_served (steps : List WStep)
    (hp : (wrun true {} steps).pending = []) (ht : (wrun true {} steps).token = [])
    (hl : (wrun true {} steps).list ≠ []) :
    (wrun true {} steps).queue = [] := by
  rcases no_lost_wakeup steps with a | a
  · rw [hp, ht] at a
    simp only [List.length_nil, Nat.add_zero, Nat.le_zero] at a
    exact absurd (List.eq_nil_of_length_eq_zero a) hl
  · rw [hp] at a
    cases hq : (wrun true {} steps).queue with
    | nil => rfl
    | cons c r => exact absurd (a c (by rw [hq]; exact List.mem_cons_self)) (by simp)

/-- D84 on the code before the repair: two clients wait; a push wakes the older one, which leaves at
    that moment (its timeout, CLIENT UNBLOCK) — the element stays in the list, nobody is in motion, and
    the younger client is still blocked -/
theorem lost_wakeup_before_repair :
    let s := wrun false {} [.register, .look 0, .register, .look 1, .push [7], .leave 0]
    s.list = [7] ∧ s.pending = [] ∧ s.token = [] ∧ s.queue = [1] := by
  decide

/-- the same schedule on the repaired code: the wake-up is passed on -/
example :
    let s := wrun true {} [.register, .look 0, .register, .look 1, .push [7], .leave 0, .retry 1]
    s.list = [] ∧ s.queue = [] ∧ s.token = [] := by
  decide

/-! ### clients that wait for several keys (`RedisEmu.MWake`)

`BLPOP a b 0`, BLMPOP: a client is linked into the wait queue of each of its keys; a push to one key wakes it
and unlinks it from all of them; it then looks at its keys in order. Per key `k` the invariant `MInv` says:
the list of `k` has no more elements than there are mwake-ups raised by `k` and not acted on yet — or nobody
waits passively for `k`. -/

/-- **No lost mwake-up for clients that wait for several keys.** Every step of the repaired behaviour keeps,
    for every key, "as many mwake-ups outstanding as the list has elements, or nobody waits passively". -/
theorem mfull_step (s : MState) (st : MStep) (h : MFull s) : MFull (mstep true s st true) := by
  cases st with
  | push k n =>
    refine ⟨fun j => ?_, allOk_wake k n s.cs h.ok⟩
    show MInv { len := incLen s.len k n, cs := mwake k n s.cs } j
    by_cases e : j = k
    · subst e
      have hs := tokens_wake_same j n s.cs h.ok
      have hq := qlen_wake_same j n s.cs
      rcases h.inv j with a | a
      · by_cases hn : n ≤ qlen j s.cs
        · left; show incLen s.len j n j ≤ tokens j (mwake j n s.cs); simp only [incLen, ↓reduceIte]; omega
        · right; exact noPassive_of_qlen_zero j (mwake j n s.cs) (by omega)
      · right; exact noPassive_wake j j n s.cs a
    · have ho := tokens_wake_other k j e n s.cs h.ok
      rcases h.inv j with a | a
      · left; show incLen s.len k n j ≤ tokens j (mwake k n s.cs); simp only [incLen, e, ↓reduceIte]; omega
      · right; exact noPassive_wake k j n s.cs a
  | register keys =>
    refine ⟨fun j => ?_, ?_⟩
    · show MInv { s with cs := s.cs ++ [_] } j
      rcases h.inv j with a | a
      · left; show s.len j ≤ tokens j (s.cs ++ [_]); rw [tokens_append_one j s.cs _ rfl]; exact a
      · right
        intro c hc hw
        rcases List.mem_append.mp hc with e | e
        · exact a c e hw
        · simp only [List.mem_singleton] at e; subst e; rfl
    · intro c hc
      rcases List.mem_append.mp hc with e | e
      · exact h.ok c e
      · simp only [List.mem_singleton] at e; subst e
        exact ⟨fun x => by simp at x, fun k x => by simp at x⟩
  | steal k =>
    refine ⟨fun j => ?_, h.ok⟩
    show MInv { s with len := decLen s.len k } j
    rcases h.inv j with a | a
    · left; show decLen s.len k j ≤ tokens j s.cs; have := decLen_le s.len k j; omega
    · right; exact a
  | look i =>
    simp only [mstep]
    split
    · exact h
    · rename_i c hc
      have hcm := List.mem_of_getElem? hc
      split
      · split
        · rename_i j0 hf
          cases ht : c.token with
          | none =>
            simp only [Option.isSome_none, Bool.false_eq_true, ↓reduceIte]
            exact ⟨fun k => minv_erase s k i c _ hc (h.inv k) (decLen_le s.len j0 k) (by simp [ht]),
              allOk_eraseIdx s.cs i h.ok⟩
          | some k0 =>
            simp only [Option.isSome_some, ↓reduceIte]
            exact ⟨fun k => minv_leave_token s k k0 i c _ hc h.ok (h.inv k) (decLen_le s.len j0 k) ht,
              allOk_wakeEach c.keys _ (allOk_eraseIdx s.cs i h.ok)⟩
        · rename_i hf
          refine ⟨fun k => minv_stays s k i c _ hc (h.ok c hcm) (h.inv k) rfl hf (Or.inl rfl), ?_⟩
          intro d hd
          rcases List.mem_or_eq_of_mem_set hd with e | e
          · exact h.ok d e
          · subst e; exact h.ok c hcm
      · exact h
  | leave i =>
    simp only [mstep]
    split
    · exact h
    · rename_i c hc
      split
      · exact h
      · cases ht : c.token with
        | none =>
          simp only [Option.isSome_none, Bool.false_eq_true, ↓reduceIte]
          exact ⟨fun k => minv_erase s k i c _ hc (h.inv k) (Nat.le_refl _) (by simp [ht]),
            allOk_eraseIdx s.cs i h.ok⟩
        | some k0 =>
          simp only [Option.isSome_some, ↓reduceIte]
          exact ⟨fun k => minv_leave_token s k k0 i c _ hc h.ok (h.inv k) (Nat.le_refl _) ht,
            allOk_wakeEach c.keys _ (allOk_eraseIdx s.cs i h.ok)⟩
  | retry i =>
    simp only [mstep]
    split
    · exact h
    · rename_i c hc
      have hcm := List.mem_of_getElem? hc
      split
      · exact h
      · rename_i k0 ht
        split
        · exact h
        · split
          · rename_i j0 hf
            by_cases hj : j0 = k0
            · subst hj
              simp only [bne_self_eq_false, Bool.and_false, Bool.false_eq_true, ↓reduceIte]
              exact ⟨fun k => minv_served_own s k j0 i c hc (h.inv k) ht, allOk_eraseIdx s.cs i h.ok⟩
            · have hb : (true && j0 != k0) = true := by simp [hj]
              simp only [hb, ↓reduceIte]
              exact ⟨fun k => minv_served_other s k k0 j0 i c hc h.ok (h.inv k) ht hj,
                allOk_wake k0 1 _ (allOk_eraseIdx s.cs i h.ok)⟩
          · rename_i hf
            refine ⟨fun k => minv_stays s k i c _ hc (h.ok c hcm) (h.inv k) rfl hf (Or.inr rfl), ?_⟩
            intro d hd
            rcases List.mem_or_eq_of_mem_set hd with e | e
            · exact h.ok d e
            · subst e; exact ⟨fun x => by simp at x, fun k x => by simp at x⟩
  | reenter i =>
    simp only [mstep]
    split
    · exact h
    · rename_i c hc
      have hcm := List.mem_of_getElem? hc
      split
      · rename_i hcond
        simp only [Bool.and_eq_true, Bool.not_eq_eq_eq_not, Bool.not_true, Option.isNone_iff_eq_none] at hcond
        refine ⟨fun k => ?_, ?_⟩
        · show MInv { s with cs := s.cs.set i { c with queued := true, pending := true } } k
          have hts := tokens_set k s.cs i c { c with queued := true, pending := true } hc
          simp only at hts
          rcases h.inv k with a | a
          · left; show s.len k ≤ tokens k (s.cs.set i _); omega
          · right
            intro d hd hwd
            rcases List.mem_or_eq_of_mem_set hd with e | e
            · exact a d e hwd
            · subst e; rfl
        · intro d hd
          rcases List.mem_or_eq_of_mem_set hd with e | e
          · exact h.ok d e
          · subst e; exact ⟨fun x => by simp [hcond.1.2] at x, fun k x => by simp [hcond.1.2] at x⟩
      · exact h

/-- … hence in every reachable state, whatever the clients, keys and interleaving -/
theorem mfull_reachable (steps : List MStep) : MFull (mrun true {} steps) := by
  suffices ∀ s, MFull s → MFull (mrun true s steps) from this {} mfull_init
  induction steps with
  | nil => intro s h; exact h
  | cons st r ih => intro s h; exact ih _ (mfull_step s st h)


/-- **Nobody stays blocked on a non-empty list.** In every reachable state in which nobody is in motion (no
    client is about to look at its lists, no mwake-up is outstanding), a key whose list is not empty has no
    waiter — for any number of clients, any sets of keys, any interleaving of pushes, pops, registrations,
    looks, retries, timeouts and unblocks. -/
theorem multi_key_quiescent_means_served (steps : List MStep) (k : Nat)
    (hq : ∀ c ∈ (mrun true {} steps).cs, c.pending = false ∧ c.token = none)
    (hl : 0 < (mrun true {} steps).len k) :
    ∀ c ∈ (mrun true {} steps).cs, c.waitsOn k = false := by
  have h := (mfull_reachable steps).inv k
  intro c hc
  rcases h with a | a
  · have : tokens k (mrun true {} steps).cs = 0 := by
      unfold tokens
      rw [List.countP_eq_zero]
      intro d hd
      simp [(hq d hd).2]
    omega
  · cases hw : c.waitsOn k with
    | false => rfl
    | true => have := a c hc hw; rw [(hq c hc).1] at this; cases this

/-- the history of D90: W1 waits for keys 0 and 1, W2 for key 1; a push to key 1 wakes W1, a push to key 0
    follows; W1 is served from key 0 -/
def d90Trace : List MStep :=
  [.register [0, 1], .look 0, .register [1], .look 1, .push 1 1, .push 0 1, .retry 0]

/-- D90 on the behaviour before the repair: the element stays in list 1, no mwake-up is outstanding, and W2
    waits passively for key 1 — a lost mwake-up -/
theorem multi_key_lost_wakeup_before_repair :
    let s := mrun false {} d90Trace
    s.len 1 = 1 ∧ tokens 1 s.cs = 0 ∧ s.cs = [{ keys := [1], pending := false, token := none, queued := true }] := by
  decide

/-- … and with the repair W2 holds the mwake-up -/
theorem multi_key_wakeup_passed_on :
    let s := mrun true {} d90Trace
    s.len 1 = 1 ∧ s.cs = [{ keys := [1], pending := false, token := some 1, queued := false }] := by
  decide

/-- a client is woken, finds its element taken, and a push lands before it has linked itself into the queue
    again -/
def reenterTrace : List MStep :=
  [.register [0], .look 0, .push 0 1, .steal 0, .retry 0, .push 0 1, .reenter 0]

/-- without the look that follows the re-registration (the seeded change C11-f) the element stays in the list
    and the client waits passively: a lost wake-up — the model's `lookAgain` flag is what that look is for -/
theorem reenter_without_look_loses_wakeup :
    let s := mrun true {} reenterTrace false
    s.len 0 = 1 ∧ tokens 0 s.cs = 0 ∧ s.cs = [{ keys := [0], pending := false, token := none, queued := true }] := by
  decide

theorem reenter_with_look_is_served :
    (mrun true {} (reenterTrace ++ [.look 0])).cs = [] ∧ (mrun true {} (reenterTrace ++ [.look 0])).len 0 = 0 := by
  decide

end RedisEmu
