import RedisEmu.Block
import Mathlib.Tactic.SplitIfs
/-
  C11 — blocking pops (partial). Theorems about the transition system `RedisEmu.Block`: they hold for
  every interleaving of pushes, registrations, retries of woken clients, steals and departures, of any
  number of clients. The tie to the Go code is the `block` tool (real goroutines, schedule points).
  Goroutine scheduling and channel timing are not modelled.
-/
namespace RedisEmu

/-- everything pushed is, in order of accounting: already handed to a client, explicitly removed, or
    still in the list -/
def Conserved (s : BState) : Prop :=
  (s.delivered.map (·.2) ++ s.removed ++ s.list).Perm s.pushed

theorem conserved_init : Conserved {} := by simp [Conserved]

theorem conserved_step (s : BState) (st : BStep) (h : Conserved s) : Conserved (bstep s st) := by
  unfold Conserved at *
  cases st with
  | push xs =>
    simp only [bstep, wake]
    have : (s.delivered.map (·.2) ++ s.removed ++ (s.list ++ xs)) = (s.delivered.map (·.2) ++ s.removed ++ s.list) ++ xs := by
      simp [List.append_assoc]
    rw [this]
    exact List.Perm.append_right xs h
  | register => simp only [bstep]; exact h
  | retry c =>
    simp only [bstep]
    split_ifs
    · cases hl : s.list with
      | nil => simp only [hl] at h ⊢; exact h
      | cons x r =>
        simp only [hl, List.map_append, List.map_cons, List.map_nil] at h ⊢
        -- moving x from the head of the list to the end of `delivered`
        have hp : ((s.delivered.map (·.2) ++ [x]) ++ s.removed ++ r).Perm (s.delivered.map (·.2) ++ s.removed ++ x :: r) := by
          simp only [List.append_assoc]
          apply List.Perm.append_left
          have : ([x] ++ (s.removed ++ r)).Perm (s.removed ++ ([x] ++ r)) := by
            rw [← List.append_assoc, ← List.append_assoc]
            exact List.Perm.append_right r List.perm_append_comm
          simpa using this
        exact hp.trans h
    · exact h
  | steal =>
    simp only [bstep]
    cases hl : s.list with
    | nil => simp only [hl] at h ⊢; exact h
    | cons x r =>
      simp only [hl] at h ⊢
      have hp : (s.delivered.map (·.2) ++ (s.removed ++ [x]) ++ r).Perm (s.delivered.map (·.2) ++ s.removed ++ x :: r) := by
        simp [List.append_assoc]
      exact hp.trans h
  | leave c => simp only [bstep]; exact h

/-- **Exactly-once delivery and conservation.** Across every interleaving of pushes, blocking pops and
    non-blocking pops, each pushed element is returned to exactly one consumer, explicitly removed, or
    still in its list — never lost, never duplicated (as multisets). -/
theorem conservation (steps : List BStep) : Conserved (brun {} steps) := by
  have : ∀ (s : BState), Conserved s → Conserved (brun s steps) := by
    induction steps with
    | nil => intro s h; exact h
    | cons st r ih => intro s h; exact ih _ (conserved_step s st h)
  exact this {} conserved_init

/-- elements leave the list head in list order: a retry or a steal takes exactly the current head -/
theorem pops_take_head (s : BState) (c x : Nat) (r : List Nat) (hl : s.list = x :: r) (hw : c ∈ s.woken) :
    (bstep s (.retry c)).list = r ∧ (bstep s (.retry c)).delivered = s.delivered ++ [(c, x)] ∧
    (bstep s .steal).list = r := by
  simp [bstep, hl, hw]

/-- **Longest waiter first.** A push of `n` elements wakes exactly the `n` longest-registered waiters,
    in registration order, and leaves the others queued in their order. -/
theorem push_wakes_longest_waiters (s : BState) (xs : List Nat) :
    (bstep s (.push xs)).woken = s.woken ++ s.queue.take xs.length ∧
    (bstep s (.push xs)).queue = s.queue.drop xs.length := by
  simp [bstep, wake]

/-- registration appends: a client that registers later never overtakes one that registered earlier -/
theorem register_appends (s : BState) :
    (bstep s .register).queue = s.queue ++ [s.nextId] := by
  simp [bstep]

theorem mem_insertAge (c y : Nat) (l : List Nat) : y ∈ insertAge c l ↔ y = c ∨ y ∈ l := by
  induction l with
  | nil => simp [insertAge]
  | cons x r ih =>
    unfold insertAge
    split_ifs
    · simp
    · simp only [List.mem_cons, ih]
      constructor
      · rintro (h | h | h)
        · exact Or.inr (Or.inl h)
        · exact Or.inl h
        · exact Or.inr (Or.inr h)
      · rintro (h | h | h)
        · exact Or.inr (Or.inl h)
        · exact Or.inl h
        · exact Or.inr (Or.inr h)

theorem pairwise_insertAge (c : Nat) (l : List Nat) (hs : l.Pairwise (· < ·)) (hc : c ∉ l) :
    (insertAge c l).Pairwise (· < ·) := by
  induction l with
  | nil => simp [insertAge]
  | cons x r ih =>
    have hx : c ≠ x := fun h => hc (by simp [h])
    have hr : c ∉ r := fun h => hc (by simp [h])
    have hsr := (List.pairwise_cons.mp hs).2
    have hxr := (List.pairwise_cons.mp hs).1
    unfold insertAge
    split_ifs with hlt
    · refine List.pairwise_cons.mpr ⟨?_, hs⟩
      intro y hy
      rcases List.mem_cons.mp hy with h | h
      · omega
      · have := hxr y h; omega
    · refine List.pairwise_cons.mpr ⟨?_, ih hsr hr⟩
      intro y hy
      rcases (mem_insertAge c y r).mp hy with h | h
      · omega
      · exact hxr y h

/-- the bookkeeping invariant: the wait queue is ordered by age (longest-blocked client first), every
    known client is older than the next id, and no client is queued and woken at once or woken twice -/
structure QInv (s : BState) : Prop where
  sorted : s.queue.Pairwise (· < ·)
  qlt : ∀ c ∈ s.queue, c < s.nextId
  wlt : ∀ c ∈ s.woken, c < s.nextId
  disj : ∀ c ∈ s.woken, c ∉ s.queue
  wnodup : s.woken.Nodup

theorem qinv_init : QInv {} := by
  constructor <;> simp

theorem qinv_step (s : BState) (st : BStep) (h : QInv s) : QInv (bstep s st) := by
  cases st with
  | push xs =>
    simp only [bstep, wake]
    have hsub : ∀ c, c ∈ s.queue.take xs.length → c ∈ s.queue := fun c hc => List.mem_of_mem_take hc
    have hsplit := List.take_append_drop xs.length s.queue
    have hpw : (s.queue.take xs.length ++ s.queue.drop xs.length).Pairwise (· < ·) := by rw [hsplit]; exact h.sorted
    constructor
    · exact (List.pairwise_append.mp hpw).2.1
    · intro c hc; exact h.qlt c (List.mem_of_mem_drop hc)
    · intro c hc
      rcases List.mem_append.mp hc with hc | hc
      · exact h.wlt c hc
      · exact h.qlt c (hsub c hc)
    · intro c hc hd
      rcases List.mem_append.mp hc with hc | hc
      · exact h.disj c hc (List.mem_of_mem_drop hd)
      · have := (List.pairwise_append.mp hpw).2.2 c hc c hd; omega
    · refine List.nodup_append.mpr ⟨h.wnodup, ?_, ?_⟩
      · exact ((List.pairwise_append.mp hpw).1).imp (fun hlt => Nat.ne_of_lt hlt)
      · intro a ha b hb hab
        subst hab
        exact h.disj a ha (hsub a hb)
  | register =>
    simp only [bstep]
    constructor <;> dsimp only
    · refine List.pairwise_append.mpr ⟨h.sorted, by simp, ?_⟩
      intro a ha b hb
      have := h.qlt a ha
      simp at hb; omega
    · intro c hc
      rcases List.mem_append.mp hc with hc | hc
      · have := h.qlt c hc; omega
      · simp at hc; omega
    · intro c hc; have := h.wlt c hc; omega
    · intro c hc hd
      rcases List.mem_append.mp hd with hd | hd
      · exact h.disj c hc hd
      · simp at hd; have := h.wlt c hc; omega
    · exact h.wnodup
  | retry c =>
    simp only [bstep]
    split_ifs with hw
    · cases hl : s.list with
      | cons x r =>
        simp only
        constructor
        · exact h.sorted
        · exact h.qlt
        · intro d hd; exact h.wlt d (List.mem_of_mem_erase hd)
        · intro d hd; exact h.disj d (List.mem_of_mem_erase hd)
        · exact h.wnodup.erase c
      | nil =>
        simp only
        constructor
        · exact pairwise_insertAge c s.queue h.sorted (h.disj c hw)
        · intro d hd
          rcases (mem_insertAge c d s.queue).mp hd with hd | hd
          · subst hd; exact h.wlt d hw
          · exact h.qlt d hd
        · intro d hd; exact h.wlt d (List.mem_of_mem_erase hd)
        · intro d hd hq
          rcases (mem_insertAge c d s.queue).mp hq with hq | hq
          · subst hq
            exact (List.Nodup.mem_erase_iff h.wnodup).mp hd |>.1 rfl
          · exact h.disj d (List.mem_of_mem_erase hd) hq
        · exact h.wnodup.erase c
    · exact h
  | steal =>
    simp only [bstep]
    cases hl : s.list with
    | nil => exact h
    | cons x r => exact ⟨h.sorted, h.qlt, h.wlt, h.disj, h.wnodup⟩
  | leave c =>
    simp only [bstep]
    constructor
    · exact h.sorted.sublist (List.erase_sublist)
    · intro d hd; exact h.qlt d (List.mem_of_mem_erase hd)
    · intro d hd; exact h.wlt d (List.mem_of_mem_erase hd)
    · intro d hd hq; exact h.disj d (List.mem_of_mem_erase hd) (List.mem_of_mem_erase hq)
    · exact h.wnodup.erase c

/-- **The wait queue is always in order of age**, whatever happened before: in every reachable state
    the head of the queue is the longest-blocked registered client, so `push_wakes_longest_waiters`
    serves the longest-blocked clients first — also after wake-ups that found nothing (repaired:
    such a client used to go to the end of the queue). -/
theorem queue_ordered_by_age (steps : List BStep) : QInv (brun {} steps) := by
  have : ∀ (s : BState), QInv s → QInv (brun s steps) := by
    induction steps with
    | nil => intro s h; exact h
    | cons st r ih => intro s h; exact ih _ (qinv_step s st h)
  exact this {} qinv_init

/-- **No stranded waiter (repaired behaviour).** A woken client whose retry finds the list empty is
    back in the wait queue afterwards, so the next push wakes it again. (On the unrepaired code it was
    in no queue: D29.) -/
theorem failed_retry_reregisters (s : BState) (c : Nat) (hw : c ∈ s.woken) (hl : s.list = []) :
    c ∈ (bstep s (.retry c)).queue := by
  simp [bstep, hw, hl, mem_insertAge]

/-- … and ahead of every client that blocked after it -/
theorem failed_retry_keeps_place (s : BState) (c : Nat) (h : QInv s) :
    (bstep s (.retry c)).queue.Pairwise (· < ·) :=
  (qinv_step s (.retry c) h).sorted

/-- … hence a later push of at least as many elements as there are waiters ahead of it wakes it -/
theorem next_push_wakes_it (s : BState) (c : Nat) (xs : List Nat) (hq : s.queue = [c]) (hx : xs ≠ []) :
    c ∈ (bstep s (.push xs)).woken := by
  simp only [bstep, wake, hq, List.mem_append]
  right
  cases xs with
  | nil => exact absurd rfl hx
  | cons y ys => simp

/-- non-vacuity: three clients block, a push wakes the oldest, its element is stolen, it takes its
    place again ahead of the two younger ones, and the next push serves it first -/
example :
    let s := brun {} [.register, .register, .register, .push [7], .steal, .retry 0, .push [8], .retry 0]
    s.delivered = [(0, 8)] ∧ s.queue = [1, 2] := by decide

end RedisEmu
