import RedisEmu.Block
import Mathlib.Tactic.SplitIfs
/-
  C11 — blocking pops (partial). Theorems about the transition system `RedisEmu.Block`: they hold for
  every interleaving of pushes, registrations, retries of woken clients, steals and departures, of any
  number of clients. The tie to the Go code is the `block` tool (real goroutines, schedule points).
  Goroutine scheduling and channel timing are not modelled.
-/
namespace RedisEmu

/-- everything pushed is, in order of accounting: already handed to a client, explicitly removed, or
    still in the list -/
def Conserved (s : BState) : Prop :=
  (s.delivered.map (·.2) ++ s.removed ++ s.list).Perm s.pushed

theorem conserved_init : Conserved {} := by simp [Conserved]

theorem conserved_step (s : BState) (st : BStep) (h : Conserved s) : Conserved (bstep s st) := by
  unfold Conserved at *
  cases st with
  | push xs =>
    simp only [bstep, wake]
    have : (s.delivered.map (·.2) ++ s.removed ++ (s.list ++ xs)) = (s.delivered.map (·.2) ++ s.removed ++ s.list) ++ xs := by
      simp [List.append_assoc]
    rw [this]
    exact List.Perm.append_right xs h
  | register c => simp only [bstep]; split_ifs <;> exact h
  | retry c =>
    simp only [bstep]
    split_ifs
    · cases hl : s.list with
      | nil => simp only [hl] at h ⊢; exact h
      | cons x r =>
        simp only [hl, List.map_append, List.map_cons, List.map_nil] at h ⊢
        -- moving x from the head of the list to the end of `delivered`
        have hp : ((s.delivered.map (·.2) ++ [x]) ++ s.removed ++ r).Perm (s.delivered.map (·.2) ++ s.removed ++ x :: r) := by
          simp only [List.append_assoc]
          apply List.Perm.append_left
          have : ([x] ++ (s.removed ++ r)).Perm (s.removed ++ ([x] ++ r)) := by
            rw [← List.append_assoc, ← List.append_assoc]
            exact List.Perm.append_right r List.perm_append_comm
          simpa using this
        exact hp.trans h
    · exact h
  | steal =>
    simp only [bstep]
    cases hl : s.list with
    | nil => simp only [hl] at h ⊢; exact h
    | cons x r =>
      simp only [hl] at h ⊢
      have hp : (s.delivered.map (·.2) ++ (s.removed ++ [x]) ++ r).Perm (s.delivered.map (·.2) ++ s.removed ++ x :: r) := by
        simp [List.append_assoc]
      exact hp.trans h
  | leave c => simp only [bstep]; exact h

/-- **Exactly-once delivery and conservation.** Across every interleaving of pushes, blocking pops and
    non-blocking pops, each pushed element is returned to exactly one consumer, explicitly removed, or
    still in its list — never lost, never duplicated (as multisets). -/
theorem conservation (steps : List BStep) : Conserved (brun {} steps) := by
  have : ∀ (s : BState), Conserved s → Conserved (brun s steps) := by
    induction steps with
    | nil => intro s h; exact h
    | cons st r ih => intro s h; exact ih _ (conserved_step s st h)
  exact this {} conserved_init

/-- elements leave the list head in list order: a retry or a steal takes exactly the current head -/
theorem pops_take_head (s : BState) (c x : Nat) (r : List Nat) (hl : s.list = x :: r) (hw : c ∈ s.woken) :
    (bstep s (.retry c)).list = r ∧ (bstep s (.retry c)).delivered = s.delivered ++ [(c, x)] ∧
    (bstep s .steal).list = r := by
  simp [bstep, hl, hw]

/-- **Longest waiter first.** A push of `n` elements wakes exactly the `n` longest-registered waiters,
    in registration order, and leaves the others queued in their order. -/
theorem push_wakes_longest_waiters (s : BState) (xs : List Nat) :
    (bstep s (.push xs)).woken = s.woken ++ s.queue.take xs.length ∧
    (bstep s (.push xs)).queue = s.queue.drop xs.length := by
  simp [bstep, wake]

/-- registration appends: a client that registers later never overtakes one that registered earlier -/
theorem register_appends (s : BState) (c : Nat) (h1 : c ∉ s.queue) (h2 : c ∉ s.woken) :
    (bstep s (.register c)).queue = s.queue ++ [c] := by
  simp [bstep, h1, h2]

/-- **No stranded waiter (repaired behaviour).** A woken client whose retry finds the list empty is
    back in the wait queue afterwards, so the next push wakes it again. (On the unrepaired code it was
    in no queue: D29.) -/
theorem failed_retry_reregisters (s : BState) (c : Nat) (hw : c ∈ s.woken) (hl : s.list = []) :
    c ∈ (bstep s (.retry c)).queue := by
  simp [bstep, hw, hl]

/-- … hence a later push of at least as many elements as there are waiters ahead of it wakes it -/
theorem next_push_wakes_it (s : BState) (c : Nat) (xs : List Nat) (hq : s.queue = [c]) (hx : xs ≠ []) :
    c ∈ (bstep s (.push xs)).woken := by
  simp only [bstep, wake, hq, List.mem_append]
  right
  cases xs with
  | nil => exact absurd rfl hx
  | cons y ys => simp

end RedisEmu
