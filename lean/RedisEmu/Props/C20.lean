import RedisEmu.Lifecycle
import Mathlib.Tactic.SplitIfs
/-
  C20 — lifecycle (partial). Theorems about `RedisEmu.Lifecycle`; the `life` tool runs real start /
  stop cycles on one port with clients in every activity state. TCP TIME_WAIT, signals and `os.Exit`
  on a bind failure are not modelled.
-/
namespace RedisEmu

/-- **Close returns whatever the clients are doing.** After `RequestTermination` every member of the
    wait group has ended — the condition does not mention the connections at all, so idle,
    mid-pipeline, in-MULTI and forever-blocked clients cannot delay it. -/
theorem wait_returns_after_termination (e : Emu) : e.requestTermination.waitReturns = true := by
  unfold Emu.waitReturns Emu.requestTermination
  simp only [List.all_eq_true]
  intro w _
  cases w <;> simp [Emu.workerDone]

/-- **From then on no previously connected client is served.** -/
theorem no_service_after_termination (e : Emu) (id : Nat) : e.requestTermination.serves id = false := by
  unfold Emu.serves Emu.requestTermination
  simp

/-- … and new connections are refused -/
theorem no_new_connections_after_termination (e : Emu) (id : Nat) (a : ConnActivity) :
    e.requestTermination.connect id a = e.requestTermination := by
  unfold Emu.connect Emu.requestTermination
  simp

/-- **The port is released**: once every instance on it has been terminated it can be bound again -/
theorem port_released (es : List Emu) (port : Nat) : portFree (es.map Emu.requestTermination) port = true := by
  unfold portFree
  simp [Emu.requestTermination]

/-- **A successor without a persist path starts empty** -/
theorem successor_starts_empty (port : Nat) (s k : Bool) : (Emu.start port s k).keys = [] ∧ (Emu.start port s k).conns = [] :=
  ⟨rfl, rfl⟩

/-- terminating one instance changes nothing of another instance (they are separate values; the Go
    code's package-global client registry is the recorded finding D52) -/
theorem instances_independent (a b : Emu) : (a.requestTermination, b).2 = b := rfl

/-- before termination a blocked-forever client does not prevent the wait group from being exactly
    the workers started -/
theorem workers_of_start (port : Nat) :
    (Emu.start port true false).workers = [.acceptLoop, .signalMonitor, .saver] ∧
    (Emu.start port false false).workers = [.acceptLoop, .signalMonitor] := by
  constructor <;> rfl

/-! ### termination and connections that are being accepted (D87) -/

/-- once terminated, nothing in the table is open and nothing new is taken off the listener -/
def LInv (s : LState) : Prop := s.terminated = true → (s.listening = false ∧ ∀ c ∈ s.table, c.2 = false)

theorem linv_step (s : LState) (e : LEv) (h : LInv s) : LInv (lstep true s e) := by
  cases e with
  | acceptBegin id =>
    simp only [lstep]
    by_cases hl : s.listening = true
    · simp only [hl, ↓reduceIte]; intro ht; exact absurd (h ht).1 (by simp [hl])
    · simp only [hl, Bool.false_eq_true, ↓reduceIte]; exact h
  | register id =>
    simp only [lstep]
    by_cases hc : s.inFlight.contains id = true
    · simp only [hc, ↓reduceIte]
      intro ht
      have ht' : s.terminated = true := ht
      refine ⟨(h ht').1, ?_⟩
      intro c hc
      rcases List.mem_append.mp hc with e | e
      · exact (h ht').2 c e
      · simp only [List.mem_singleton] at e; subst e; simp [ht']
    · simp only [hc, Bool.false_eq_true, ↓reduceIte]; exact h
  | clientCloses id =>
    intro ht
    refine ⟨(h ht).1, ?_⟩
    intro c hc
    exact (h ht).2 c (List.mem_filter.mp hc).1
  | terminate =>
    intro _
    refine ⟨rfl, ?_⟩
    intro c hc
    obtain ⟨d, _, rfl⟩ := List.mem_map.mp hc
    rfl

/-- **After termination no connection of the instance is open, whenever it was accepted** — for every
    interleaving of accepts, registrations, hang-ups and the termination itself. -/
theorem all_closed_after_termination (evs : List LEv) :
    (lrun true {} evs).terminated = true → ∀ c ∈ (lrun true {} evs).table, c.2 = false := by
  have : LInv (lrun true {} evs) := by
    suffices ∀ s, LInv s → LInv (lrun true s evs) from this {} (by intro h; cases h)
    induction evs with
    | nil => intro s h; exact h
    | cons e r ih => intro s h; exact ih _ (linv_step s e h)
  intro ht
  exact (this ht).2

/-- D87 on the behaviour before the repair: a connection taken off the listener before the termination and
    registered after it stays open -/
theorem late_accept_stays_open_before_repair :
    (lrun false {} [.acceptBegin 7, .terminate, .register 7]).table = [(7, true)] := by decide

theorem late_accept_closed_after_repair :
    (lrun true {} [.acceptBegin 7, .terminate, .register 7]).table = [(7, false)] := by decide

end RedisEmu
