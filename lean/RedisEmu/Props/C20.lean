import RedisEmu.Lifecycle
import Mathlib.Tactic.SplitIfs
/-
  C20 — lifecycle (partial). Theorems about `RedisEmu.Lifecycle`; the `life` tool runs real start /
  stop cycles on one port with clients in every activity state. TCP TIME_WAIT, signals and `os.Exit`
  on a bind failure are not modelled.
-/
namespace RedisEmu

/-- **Close returns whatever the clients are doing.** After `RequestTermination` every member of the
    wait group has ended — the condition does not mention the connections at all, so idle,
    mid-pipeline, in-MULTI and forever-blocked clients cannot delay it. -/
theorem wait_returns_after_termination (e : Emu) : e.requestTermination.waitReturns = true := by
  unfold Emu.waitReturns Emu.requestTermination
  simp only [List.all_eq_true]
  intro w _
  cases w <;> simp [Emu.workerDone]

/-- **From then on no previously connected client is served.** -/
theorem no_service_after_termination (e : Emu) (id : Nat) : e.requestTermination.serves id = false := by
  unfold Emu.serves Emu.requestTermination
  simp

/-- … and new connections are refused -/
theorem no_new_connections_after_termination (e : Emu) (id : Nat) (a : ConnActivity) :
    e.requestTermination.connect id a = e.requestTermination := by
  unfold Emu.connect Emu.requestTermination
  simp

/-- **The port is released**: once every instance on it has been terminated it can be bound again -/
theorem port_released (es : List Emu) (port : Nat) : portFree (es.map Emu.requestTermination) port = true := by
  unfold portFree
  simp [Emu.requestTermination]

/-- **A successor without a persist path starts empty** -/
theorem successor_starts_empty (port : Nat) (s k : Bool) : (Emu.start port s k).keys = [] ∧ (Emu.start port s k).conns = [] :=
  ⟨rfl, rfl⟩

/-- terminating one instance changes nothing of another instance (they are separate values; the Go
    code's package-global client registry is the recorded finding D52) -/
theorem instances_independent (a b : Emu) : (a.requestTermination, b).2 = b := rfl

/-- before termination a blocked-forever client does not prevent the wait group from being exactly
    the workers started -/
theorem workers_of_start (port : Nat) :
    (Emu.start port true false).workers = [.acceptLoop, .signalMonitor, .saver] ∧
    (Emu.start port false false).workers = [.acceptLoop, .signalMonitor] := by
  constructor <;> rfl

end RedisEmu
