import RedisEmu.Props.C06
import RedisEmu.Props.C07
import RedisEmu.Exec
import RedisEmu.Proofs.State
import Mathlib.Tactic.SplitIfs
/-
  C09 — MULTI / EXEC / DISCARD. Theorems about `RedisEmu.Exec.dispatch` (family `tx`).
-/
namespace RedisEmu

/-- Between MULTI and EXEC a non-control command is only queued: the reply is QUEUED, no database
    changes, the database table does not change, no other connection's session changes, and the
    queue grows by exactly this command bound to the currently selected database. -/
theorem queued_no_effect (c : Ctx) (s : State) (conn : Nat) (argv : List Bytes) (q : List Queued) (cmd : Cmd)
    (hq : (s.session conn).queue = some q) (hc : cmd.isControl = false) :
    let o := dispatchParsed c s conn argv cmd
    o.reply = .simple (sb "QUEUED") ∧ o.st.heap = s.heap ∧ o.st.table = s.table ∧
    (o.st.session conn).queue = some (q ++ [{ argv := argv, dbRef := (s.session conn).dbRef }]) ∧
    (∀ c', (conn == c') = false → o.st.session c' = s.session c') ∧
    o.pushed = [] ∧ o.crash = none := by
  simp only [dispatchParsed, hq, hc, Bool.not_false, ↓reduceIte]
  refine ⟨by simp, by simp, by simp, by simp, ?_, by simp, by simp⟩
  intro c' h; exact session_setSession_ne _ _ _ _ h

/-- EXEC without MULTI, DISCARD without MULTI: an error, and nothing at all changes -/
theorem exec_discard_without_multi (c : Ctx) (s : State) (conn : Nat) (argv : List Bytes)
    (hq : (s.session conn).queue = none) :
    (dispatchParsed c s conn argv .exec).st = s ∧ (dispatchParsed c s conn argv .exec).reply = errExecNoMulti ∧
    (dispatchParsed c s conn argv .discard).st = s ∧ (dispatchParsed c s conn argv .discard).reply = errDiscardNoMulti := by
  simp [dispatchParsed, hq]

/-- nested MULTI and WATCH inside MULTI are errors that leave the transaction state as it was -/
theorem nested_multi_inert (c : Ctx) (s : State) (conn : Nat) (argv : List Bytes) (q : List Queued)
    (hq : (s.session conn).queue = some q) :
    (dispatchParsed c s conn argv .multi).st = s ∧ (dispatchParsed c s conn argv .multi).reply = errNested := by
  simp [dispatchParsed, hq, Cmd.isControl]

theorem watch_inside_multi_inert (c : Ctx) (s : State) (conn : Nat) (argv : List Bytes) (q : List Queued) (ks : List Bytes)
    (hq : (s.session conn).queue = some q) :
    (dispatchParsed c s conn argv (.watch ks)).st = s ∧
    (dispatchParsed c s conn argv (.watch ks)).reply.isError = true := by
  simp only [dispatchParsed, hq, Cmd.isControl, Bool.not_true, Bool.false_eq_true, ↓reduceIte, runCmd]
  refine ⟨by simp, ?_⟩
  unfold downIf errWatchInMulti
  split_ifs <;> simp [down, downSpec, Value.isError]

/-- MULTI opens an empty queue and touches nothing else -/
theorem multi_opens_queue (c : Ctx) (s : State) (conn : Nat) (argv : List Bytes)
    (hq : (s.session conn).queue = none) :
    let o := dispatchParsed c s conn argv .multi
    o.reply = vOK ∧ o.st.heap = s.heap ∧ (o.st.session conn).queue = some [] ∧
    (o.st.session conn).watches = (s.session conn).watches := by
  simp [dispatchParsed, hq]

/-- DISCARD drops the queue and the watches and touches no data -/
theorem discard_resets (c : Ctx) (s : State) (conn : Nat) (argv : List Bytes) (q : List Queued)
    (hq : (s.session conn).queue = some q) :
    let o := dispatchParsed c s conn argv .discard
    o.reply = vOK ∧ o.st.heap = s.heap ∧ (o.st.session conn).queue = none ∧ (o.st.session conn).watches = [] := by
  simp [dispatchParsed, hq, Cmd.isControl]

/-- after EXEC — executed, aborted by a flagged queue, or (with the repaired behaviour, quirk
    off) aborted by WATCH — the connection is in normal mode with no watched keys -/
theorem exec_resets (c : Ctx) (s : State) (conn : Nat) (argv : List Bytes) (q : List Queued)
    (hq : (s.session conn).queue = some q)
    (hab : c.q.abortedExecStaysMulti = false)
    (hnc : (execQueue c conn q (implElems c) s [] [] []).2.2.2.2 = none) :   -- no queued handler panics (C13)
    let o := dispatchParsed c s conn argv .exec
    (o.st.session conn).queue = none ∧ (o.st.session conn).watches = [] := by
  simp only [dispatchParsed, hq, Cmd.isControl, Bool.not_true, Bool.false_eq_true, ↓reduceIte, hab, hnc]
  split_ifs <;> simp_all

/-- D23 on the model of the unrepaired code: the WATCH-aborted EXEC leaves the queue in place -/
theorem aborted_exec_stays_multi_witness (c : Ctx) (s : State) (conn : Nat) (argv : List Bytes) (q : List Queued)
    (hq : (s.session conn).queue = some q) (he : (s.session conn).queueErr = false)
    (hw : (s.session conn).watches.any (watchChanged c s) = true)
    (hab : c.q.abortedExecStaysMulti = true) :
    (dispatchParsed c s conn argv .exec).st = s ∧ (dispatchParsed c s conn argv .exec).reply.isNil = true := by
  simp [dispatchParsed, hq, Cmd.isControl, he, hw, hab, Value.isNil]

/-- an EXEC aborted by WATCH executes nothing: no database changes -/
theorem aborted_exec_executes_nothing (c : Ctx) (s : State) (conn : Nat) (argv : List Bytes) (q : List Queued)
    (hq : (s.session conn).queue = some q) (he : (s.session conn).queueErr = false)
    (hw : (s.session conn).watches.any (watchChanged c s) = true) :
    (dispatchParsed c s conn argv .exec).st.heap = s.heap ∧ (dispatchParsed c s conn argv .exec).reply.isNil = true := by
  simp only [dispatchParsed, hq, Cmd.isControl, Bool.not_true, Bool.false_eq_true, ↓reduceIte, he, hw]
  split_ifs <;> simp [Value.isNil]

/-- a queue that was flagged (command rejected while queueing) makes EXEC execute nothing -/
theorem exec_aborts_on_queue_error (c : Ctx) (s : State) (conn : Nat) (argv : List Bytes) (q : List Queued)
    (hq : (s.session conn).queue = some q) (he : (s.session conn).queueErr = true) :
    let o := dispatchParsed c s conn argv .exec
    o.reply = execAbort ∧ o.st.heap = s.heap := by
  simp [dispatchParsed, hq, he, Cmd.isControl]

/-- … and with the repaired behaviour an unknown command inside MULTI flags the queue -/
theorem unknown_command_flags_queue (c : Ctx) (s : State) (conn : Nat) (q : List Queued) (name : Bytes) (args : List Bytes)
    (hq : (s.session conn).queue = some q) (hqe : c.q.queueErrorNoAbort = false)
    (hk : knownCommands.any (sb · == lowerB name) = false) :
    ((dispatch c s conn (name :: args)).st.session conn).queueErr = true ∧
    (dispatch c s conn (name :: args)).st.heap = s.heap := by
  simp [dispatch, hk, hq, hqe]

/-- EXEC answers one reply per queued command, in queue order (no reply is dropped or added),
    unless a handler panics -/
theorem execQueue_length (conn : Nat) (q : List Queued) :
    ∀ (c : Ctx) (impls : List Value) (s : State) (vs : List Value) (hs : List Match) (ps : List (Nat × Bytes × Nat)),
      (∀ x ∈ q, x.argv ≠ []) →
      (execQueue c conn q impls s vs hs ps).2.2.2.2 = none →
      (execQueue c conn q impls s vs hs ps).2.1.length = vs.length + q.length := by
  induction q with
  | nil => intro c impls s vs hs ps _ _; simp [execQueue]
  | cons x r ih =>
    intro c impls s vs hs ps hne hnc
    have hx : x.argv ≠ [] := hne x (by simp)
    cases ha : x.argv with
    | nil => exact absurd ha hx
    | cons name args =>
      unfold execQueue at hnc ⊢
      simp only [ha] at hnc ⊢
      by_cases hu : (unmodelled.any fun x => sb x == lowerB name) = true
      · simp only [hu, if_true] at hnc ⊢
        rw [ih _ _ _ _ _ _ (fun y hy => hne y (by simp [hy])) hnc]
        simp only [List.length_cons]; omega
      simp only [hu, Bool.false_eq_true, if_false] at hnc ⊢
      cases hp : parseCmdQ c.q name args with
      | none =>
        simp only [hp] at hnc ⊢
        rw [ih _ _ _ _ _ _ (fun y hy => hne y (by simp [hy])) hnc]
        simp only [List.length_cons]; omega
      | some cmd =>
        simp only [hp] at hnc ⊢
        cases hcr : (runCmd { c with now := c.now + 1000, impl := impls.head? } s conn (x.ref c.q (s.session conn).dbRef) true cmd).crash with
        | some site => simp [hcr] at hnc
        | none =>
          simp only [hcr] at hnc ⊢
          rw [ih _ _ _ _ _ _ (fun y hy => hne y (by simp [hy])) hnc]
          simp only [List.length_cons]; omega


/-! ### a transaction is a history of commands -/

/-- **What EXEC runs is a history of commands.** The state after the queued commands of a transaction
    is the state after a run of ordinary commands — each the parsed form of a queued command, well-formed,
    under the same quirk flags, bound to the database that was selected when it was queued, with clocks
    that only move forward — so everything proved about histories (the keyspace invariant, versions,
    expired = missing) holds inside transactions too. -/
theorem execQueue_is_history (conn : Nat) (q : List Queued) :
    ∀ (c : Ctx) (impls : List Value) (s : State) (vs : List Value) (hs : List Match) (ps : List (Nat × Bytes × Nat)),
      ∃ evs : List Ev, (execQueue c conn q impls s vs hs ps).1 = runEvents s evs ∧
        (∀ e ∈ evs, e.c.q = c.q ∧ e.cmd.wf = true ∧ e.conn = conn ∧ e.inMulti = true) ∧ clocksFrom c.now evs := by
  induction q with
  | nil => intro c impls s vs hs ps; exact ⟨[], by simp [execQueue, runEvents], by simp, trivial⟩
  | cons x r ih =>
    intro c impls s vs hs ps
    unfold execQueue
    split
    · exact ih c impls s vs hs ps
    · rename_i name args hargv
      split
      · exact ih c _ s _ _ ps
      · split
        · exact ih c _ s _ _ ps
        · rename_i cmd hp
          have hw := parseCmdQ_wf c.q name args cmd hp
          dsimp only
          split
          · refine ⟨[⟨{ c with now := c.now + 1000, impl := impls.head? }, conn, x.ref c.q (s.session conn).dbRef, true, cmd⟩], ?_, ?_, ?_⟩
            · simp [runEvents]
            · intro e he
              simp only [List.mem_singleton] at he
              subst he
              exact ⟨rfl, hw, rfl, rfl⟩
            · exact ⟨(by show c.now ≤ c.now + 1000; omega), trivial⟩
          · obtain ⟨evs, h1, h2, h3⟩ := ih { c with now := c.now + 1000, impl := impls.head? } impls.tail
              (runCmd { c with now := c.now + 1000, impl := impls.head? } s conn (x.ref c.q (s.session conn).dbRef) true cmd).st
              (downIf ((runCmd { c with now := c.now + 1000, impl := impls.head? } s conn (x.ref c.q (s.session conn).dbRef) true cmd).st.session conn).resp
                  { c with now := c.now + 1000, impl := impls.head? }
                  (runCmd { c with now := c.now + 1000, impl := impls.head? } s conn (x.ref c.q (s.session conn).dbRef) true cmd).reply :: vs)
              _ _
            refine ⟨⟨{ c with now := c.now + 1000, impl := impls.head? }, conn, x.ref c.q (s.session conn).dbRef, true, cmd⟩ :: evs, ?_, ?_, ?_⟩
            · simp only [runEvents]; exact h1
            · intro e he
              rcases List.mem_cons.mp he with e1 | e1
              · subst e1; exact ⟨rfl, hw, rfl, rfl⟩
              · exact h2 e e1
            · exact ⟨(by show c.now ≤ c.now + 1000; omega), h3⟩

/-- a transaction keeps the keyspace invariant in every database -/
theorem exec_keeps_invariant (c : Ctx) (conn : Nat) (q : List Queued) (impls : List Value) (s : State)
    (vs : List Value) (hs : List Match) (ps : List (Nat × Bytes × Nat)) (hi : s.KInv) :
    (execQueue c conn q impls s vs hs ps).1.KInv := by
  obtain ⟨evs, h1, h2, _⟩ := execQueue_is_history conn q c impls s vs hs ps
  rw [h1]
  exact runEvents_inv evs s hi (fun e he => (h2 e he).2.1)

/-- every key a transaction changes gets a new version, every key it leaves alone keeps its object -/
theorem exec_versions (c : Ctx) (conn : Nat) (q : List Queued) (impls : List Value) (s : State)
    (vs : List Value) (hs : List Match) (ps : List (Nat × Bytes × Nat)) (hu : s.Uniq)
    (hq : c.q.inplaceKeepsVersion = false ∧ c.q.unlinkKeepsObject = false ∧ c.q.flushDetaches = false) :
    AllVS s (execQueue c conn q impls s vs hs ps).1 := by
  obtain ⟨evs, h1, h2, _⟩ := execQueue_is_history conn q c impls s vs hs ps
  rw [h1]
  refine runEvents_versions evs s hu (fun e he => ?_)
  unfold Ev.repaired
  rw [(h2 e he).1]
  exact hq

end RedisEmu
