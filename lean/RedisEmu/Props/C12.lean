import RedisEmu.Block
import RedisEmu.CaptureLock
import Mathlib.Tactic.SplitIfs
/-
  C12 — how blocking ends (partial). A small model of one blocked command's `select` over its three
  sources (wake-up token, timer, unblock mailbox) with explicit time, plus the capture state machine
  of `clientState.go`. Go timer accuracy and scheduling latency are not modelled; the `block` tool
  measures them and drives the schedule points.
-/
namespace RedisEmu

/-- capture state of a connection (`CS_UNCAPTURED`, `CS_CAPTURED`, …), its one-slot mailbox, and — since
    the repair of D31 — the mark of a blocking command that is under way but has not captured yet, with
    the request that arrived in that window -/
structure Capture where
  captured : Bool := false
  mailbox : Option (Option String) := none     -- pending unblock request: some none = TIMEOUT, some (some e) = ERROR e
  aboutToBlock : Bool := false                 -- `beginBlockingCommand` … `endBlockingCommand`
  early : Option (Option String) := none       -- request that arrived between the two (`earlyUnblock`)
  deriving Repr, DecidableEq

/-- `beginBlockingCommand` -/
def Capture.begin (c : Capture) : Capture := { c with aboutToBlock := true, early := none }

/-- `clientState.unblock`: a request is posted to a captured client, at most one per capture; on a client
    whose blocking command has not captured yet it is kept for the capture (`sticky` = the repaired
    behaviour; without it the request is dropped: D31) -/
def Capture.unblockQ (sticky : Bool) (c : Capture) (err : Option String) : Capture × Bool :=
  if c.captured then
    (if c.mailbox.isNone then { c with mailbox := some err } else c, true)
  else if sticky && c.aboutToBlock then
    (if c.early.isNone then { c with early := some err } else c, true)
  else (c, false)

def Capture.unblock (c : Capture) (err : Option String) : Capture × Bool := c.unblockQ true err

/-- `capture()` followed by the look at `takeEarlyUnblock`: a request that arrived early is found now -/
def Capture.capture (c : Capture) : Capture :=
  { c with captured := true, mailbox := (if c.mailbox.isNone then c.early else c.mailbox), early := none }

/-- `releaseCapture` drains the mailbox; the command may capture again (it is still under way) -/
def Capture.release (c : Capture) : Capture := { aboutToBlock := c.aboutToBlock }

/-- `endBlockingCommand` -/
def Capture.finish (_c : Capture) : Capture := {}

inductive EndReason where
  | data            -- a wake-up token arrived
  | timeout         -- the timer fired
  | unblocked (err : Option String)
  deriving Repr, DecidableEq

/-- which sources of the `select` are ready at time `now` for a command that started waiting with
    deadline `deadline` (`none` = timeout 0, wait forever) -/
def readySources (now : Int) (deadline : Option Int) (token : Bool) (c : Capture) : List EndReason :=
  (if token then [.data] else []) ++
  (match deadline with | some d => if now ≥ d then [.timeout] else [] | none => []) ++
  (match c.mailbox with | some e => [.unblocked e] | none => [])

/-- a timeout can only be the reason of the end at or after the deadline: never early -/
theorem timeout_not_early (now : Int) (deadline : Option Int) (token : Bool) (c : Capture)
    (h : EndReason.timeout ∈ readySources now deadline token c) : ∃ d, deadline = some d ∧ now ≥ d := by
  unfold readySources at h
  simp only [List.mem_append] at h
  rcases h with (h | h) | h
  · cases token <;> simp at h
  · cases deadline with
    | none => simp at h
    | some d =>
      simp only at h
      split_ifs at h with hd
      · exact ⟨d, rfl, hd⟩
      · simp at h
  · cases hmb : c.mailbox with
    | none => simp [hmb] at h
    | some e => simp [hmb] at h

/-- timeout 0 (no deadline) never ends by timeout -/
theorem timeout0_never_times_out (now : Int) (token : Bool) (c : Capture) :
    EndReason.timeout ∉ readySources now none token c := by
  intro h
  obtain ⟨d, hd, _⟩ := timeout_not_early now none token c h
  cases hd

/-- with nothing pending and the deadline not reached the command keeps waiting -/
theorem keeps_waiting (now d : Int) (h : now < d) : readySources now (some d) false {} = [] := by
  unfold readySources
  have : ¬ (now ≥ d) := by omega
  simp [this]

/-- CLIENT UNBLOCK reaches a captured client exactly once per capture and reports that it did;
    on a client that is not captured it changes nothing and reports so (the repaired reply of D30) -/
theorem unblock_captured (c : Capture) (err : Option String) (h : c.captured = true) (hm : c.mailbox = none) :
    (c.unblock err).1.mailbox = some err ∧ (c.unblock err).2 = true := by
  simp [Capture.unblock, Capture.unblockQ, h, hm]

theorem unblock_uncaptured_inert (c : Capture) (err : Option String) (h : c.captured = false)
    (hb : c.aboutToBlock = false) : (c.unblock err).1 = c ∧ (c.unblock err).2 = false := by
  simp [Capture.unblock, Capture.unblockQ, h, hb]

/-- a second request during the same capture does not overwrite the first -/
theorem unblock_once (c : Capture) (e1 e2 : Option String) (h : c.captured = true) (hm : c.mailbox = none) :
    ((c.unblock e1).1.unblock e2).1.mailbox = some e1 := by
  simp [Capture.unblock, Capture.unblockQ, h, hm]

/-- **A request that arrives before the capture is not lost** (repaired, D31): between the start of a
    blocking command and its capture — in whatever state the client was before, and however many times
    the command captured and released already — the request is reported as delivered and is in the
    (until then empty: `release_clears`) mailbox as soon as the command captures: the `select` ends at once with that reason. -/
theorem early_unblock_reaches (c : Capture) (err : Option String) (hc : c.captured = false)
    (hm : c.mailbox = none) :
    ((c.begin.unblock err).1.capture).mailbox = some err ∧ (c.begin.unblock err).2 = true ∧
    EndReason.unblocked err ∈ readySources 0 none false ((c.begin.unblock err).1.capture) := by
  have h1 : ((c.begin.unblock err).1.capture).mailbox = some err := by
    simp [Capture.begin, Capture.unblock, Capture.unblockQ, Capture.capture, hc, hm]
  refine ⟨h1, by simp [Capture.begin, Capture.unblock, Capture.unblockQ, hc], ?_⟩
  unfold readySources
  rw [h1]
  simp

/-- … also between two captures of the same command (a wake-up that found nothing, then the retry) -/
theorem unblock_between_captures_reaches (c : Capture) (err : Option String) :
    (((c.begin.capture.release).unblock err).1.capture).mailbox = some err := by
  simp [Capture.begin, Capture.capture, Capture.release, Capture.unblock, Capture.unblockQ]

/-- a request kept for a command that then ends without capturing (data arrived first) does not leak
    into the connection's next blocking command -/
theorem early_unblock_does_not_leak (c : Capture) (err : Option String) :
    ((c.begin.unblock err).1.finish.begin.capture).mailbox = none := by
  simp [Capture.begin, Capture.finish, Capture.capture]

/-- D31 on the model of the unrepaired code: the request is dropped — the client, once captured, has an
    empty mailbox and keeps waiting -/
theorem early_unblock_lost_before_repair :
    (((({} : Capture).begin.unblockQ false none).1).capture).mailbox = none := by decide

/-- after any end the capture is released with an empty mailbox: a stale request cannot end the
    connection's next block -/
theorem release_clears (c : Capture) : c.release.mailbox = none ∧ c.release.captured = false ∧ c.release.early = none := ⟨rfl, rfl, rfl⟩

/-- the unblock of one client does not touch another client's capture state (they are separate
    values): ending client A's block leaves client B blocked -/
theorem unblock_is_per_client (a b : Capture) (err : Option String) :
    ((a.unblock err).1, b).2 = b := rfl

/-! ### the capture word under concurrent checks (D76)

`unblock()` (CLIENT UNBLOCK, CLIENT KILL, Close) and `isBlocked()` (CLIENT LIST) run on other goroutines
than the connection that owns the word. -/

/-- a checker that is inside its check and displaced a real state (not another checker's marker) -/
def Holder (s : CLState) (i : Nat) : Prop := ∃ v, s.saved i = some v ∧ v ≠ CS.checking

/-- the word reads CS_CHECKING exactly while some checker holds the real state, and at most one does -/
structure CLInv (s : CLState) : Prop where
  unique : ∀ i j, Holder s i → Holder s j → i = j
  marker : s.word = CS.checking ↔ ∃ i, Holder s i

theorem clinv_init : CLInv {} := by
  constructor
  · intro i j hi; rcases hi with ⟨v, hv, _⟩; simp at hv
  · constructor
    · intro h; simp at h
    · rintro ⟨i, v, hv, _⟩; simp at hv

theorem holder_setSaved_ne (s : CLState) (w : CS) (i j : Nat) (v : Option CS) (hne : j ≠ i) :
    Holder { word := w, saved := setSaved s.saved i v } j ↔ Holder s j := by
  unfold Holder setSaved; simp [hne]

theorem holder_setSaved_self (s : CLState) (w : CS) (i : Nat) (v : Option CS) :
    Holder { word := w, saved := setSaved s.saved i v } i ↔ ∃ x, v = some x ∧ x ≠ CS.checking := by
  unfold Holder setSaved; simp

theorem clstep_swapIn_none (r : Bool) (s : CLState) (i : Nat) (h : s.saved i = none) :
    clstep r s (.swapIn i) = { word := .checking, saved := setSaved s.saved i (some s.word) } := by
  simp [clstep, h]

theorem clstep_swapIn_some (r : Bool) (s : CLState) (i : Nat) (v : CS) (h : s.saved i = some v) :
    clstep r s (.swapIn i) = s := by
  simp [clstep, h]

theorem clstep_putBack_none (r : Bool) (s : CLState) (i : Nat) (h : s.saved i = none) :
    clstep r s (.putBack i) = s := by
  simp [clstep, h]

theorem clstep_putBack_some (r : Bool) (s : CLState) (i : Nat) (v : CS) (h : s.saved i = some v) :
    clstep r s (.putBack i) =
      { word := if r && v == .checking then s.word else v, saved := setSaved s.saved i none } := by
  simp [clstep, h]

theorem clinv_step (s : CLState) (st : CLStep) (h : CLInv s) : CLInv (clstep true s st) := by
  cases st with
  | swapIn i =>
    cases hs : s.saved i with
    | some v => rw [clstep_swapIn_some true s i v hs]; exact h
    | none =>
      rw [clstep_swapIn_none true s i hs]
      have hni : ¬ Holder s i := by rintro ⟨v, hv, _⟩; rw [hs] at hv; cases hv
      constructor
      · intro a b ha hb
        by_cases hai : a = i <;> by_cases hbi : b = i
        · rw [hai, hbi]
        · -- a = i is a holder, so the word was real: nobody else held it
          subst hai
          have hw := (holder_setSaved_self s .checking a (some s.word)).mp ha
          rcases hw with ⟨x, hx, hxc⟩
          cases hx
          have hb' := (holder_setSaved_ne s .checking a b (some s.word) hbi).mp hb
          exact absurd (h.marker.mpr ⟨b, hb'⟩) hxc
        · subst hbi
          have hw := (holder_setSaved_self s .checking b (some s.word)).mp hb
          rcases hw with ⟨x, hx, hxc⟩
          cases hx
          have ha' := (holder_setSaved_ne s .checking b a (some s.word) hai).mp ha
          exact absurd (h.marker.mpr ⟨a, ha'⟩) hxc
        · exact h.unique a b ((holder_setSaved_ne s .checking i a _ hai).mp ha) ((holder_setSaved_ne s .checking i b _ hbi).mp hb)
      · constructor
        · intro _
          by_cases hw : s.word = CS.checking
          · rcases h.marker.mp hw with ⟨j, hj⟩
            have hji : j ≠ i := fun e => hni (e ▸ hj)
            exact ⟨j, (holder_setSaved_ne s .checking i j _ hji).mpr hj⟩
          · exact ⟨i, (holder_setSaved_self s .checking i (some s.word)).mpr ⟨s.word, rfl, hw⟩⟩
        · intro _; rfl
  | putBack i =>
    cases hs : s.saved i with
    | none => rw [clstep_putBack_none true s i hs]; exact h
    | some v =>
      rw [clstep_putBack_some true s i v hs]
      simp only [Bool.true_and]
      by_cases hv : v = CS.checking
      · -- i only displaced a marker: the word stays, the holders stay
        have hni : ¬ Holder s i := by rintro ⟨x, hx, hxc⟩; rw [hs] at hx; cases hx; exact hxc hv
        simp only [hv, beq_self_eq_true, if_true]
        constructor
        · intro a b ha hb
          have hai : a ≠ i := fun e => by
            have := (holder_setSaved_self s s.word i none).mp (e ▸ ha); simp at this
          have hbi : b ≠ i := fun e => by
            have := (holder_setSaved_self s s.word i none).mp (e ▸ hb); simp at this
          exact h.unique a b ((holder_setSaved_ne s s.word i a _ hai).mp ha) ((holder_setSaved_ne s s.word i b _ hbi).mp hb)
        · constructor
          · intro hw
            rcases h.marker.mp hw with ⟨j, hj⟩
            have hji : j ≠ i := fun e => hni (e ▸ hj)
            exact ⟨j, (holder_setSaved_ne s s.word i j _ hji).mpr hj⟩
          · rintro ⟨j, hj⟩
            have hji : j ≠ i := fun e => by
              have := (holder_setSaved_self s s.word i none).mp (e ▸ hj); simp at this
            exact h.marker.mpr ⟨j, (holder_setSaved_ne s s.word i j _ hji).mp hj⟩
      · -- i is the holder: it puts the real state back and nobody holds any more
        have hi : Holder s i := ⟨v, hs, hv⟩
        have hb : (v == CS.checking) = false := by simpa using hv
        simp only [hb, Bool.false_eq_true, if_false]
        have none_left : ∀ j, ¬ Holder { word := v, saved := setSaved s.saved i none } j := by
          intro j hj
          by_cases hji : j = i
          · have := (holder_setSaved_self s v i none).mp (hji ▸ hj); simp at this
          · exact hji (h.unique j i ((holder_setSaved_ne s v i j _ hji).mp hj) hi)
        constructor
        · intro a b ha _; exact absurd ha (none_left a)
        · constructor
          · intro hw; exact absurd hw hv
          · rintro ⟨j, hj⟩; exact absurd hj (none_left j)
  | cas old new =>
    unfold clstep
    by_cases hc : old = CS.checking ∨ new = CS.checking
    · simp only [hc, if_true]; exact h
    · simp only [hc, if_false]
      by_cases hw : s.word = old
      · simp only [hw, if_true]
        have hold : old ≠ CS.checking := fun e => hc (Or.inl e)
        have hnew : new ≠ CS.checking := fun e => hc (Or.inr e)
        have nohold : ¬ ∃ i, Holder s i := fun hh => hold (hw ▸ h.marker.mpr hh)
        constructor
        · intro a b ha _; exact absurd ⟨a, ha⟩ nohold
        · constructor
          · intro e; exact absurd e hnew
          · intro hh; exact absurd hh nohold
      · simp only [hw, if_false]; exact h

/-- the invariant holds after every interleaving of checks and owner transitions (repaired code) -/
theorem clinv_reachable (steps : List CLStep) : CLInv (clrun true {} steps) := by
  have : ∀ s, CLInv s → CLInv (clrun true s steps) := by
    induction steps with
    | nil => intro s h; exact h
    | cons st r ih => intro s h; exact ih _ (clinv_step s st h)
  exact this {} clinv_init

/-- **The capture word never gets stuck.** Whatever CLIENT UNBLOCK / KILL / LIST / Close and the owning
    connection did, in whatever interleaving: once no check is in progress the word is not CS_CHECKING,
    so `capture()`, `unblock()` and `isBlocked()` (which spin while they read CS_CHECKING) can proceed. -/
theorem capture_word_never_stuck (steps : List CLStep)
    (quiet : ∀ i, (clrun true {} steps).saved i = none) :
    (clrun true {} steps).word ≠ CS.checking := by
  intro hw
  rcases (clinv_reachable steps).marker.mp hw with ⟨i, v, hv, _⟩
  rw [quiet i] at hv; cases hv

/-- D76 on the code before the repair: two overlapping checks (A swaps in, B swaps in and displaces A's
    marker, A puts the real state back, B puts the marker back) leave CS_CHECKING behind with no check in
    progress — every later `capture`, `unblock` and `isBlocked` on that connection spins forever. -/
theorem capture_word_stuck_before_repair :
    let s := clrun false {} [.swapIn 0, .swapIn 1, .putBack 0, .putBack 1]
    s.word = CS.checking ∧ s.saved 0 = none ∧ s.saved 1 = none := by
  decide

/-- the same schedule on the repaired code ends in the real state -/
example :
    let s := clrun true {} [.cas .uncaptured .captured, .swapIn 0, .swapIn 1, .putBack 0, .putBack 1]
    s.word = CS.captured ∧ s.saved 0 = none ∧ s.saved 1 = none := by
  decide

end RedisEmu
