import RedisEmu.Block
import Mathlib.Tactic.SplitIfs
/-
  C12 — how blocking ends (partial). A small model of one blocked command's `select` over its three
  sources (wake-up token, timer, unblock mailbox) with explicit time, plus the capture state machine
  of `clientState.go`. Go timer accuracy and scheduling latency are not modelled; the `block` tool
  measures them and drives the schedule points.
-/
namespace RedisEmu

/-- capture state of a connection (`CS_UNCAPTURED`, `CS_CAPTURED`, …) and its one-slot mailbox -/
structure Capture where
  captured : Bool := false
  mailbox : Option (Option String) := none     -- pending unblock request: some none = TIMEOUT, some (some e) = ERROR e
  deriving Repr, DecidableEq

/-- `clientState.unblock`: a request is only posted to a captured client, at most one per capture -/
def Capture.unblock (c : Capture) (err : Option String) : Capture × Bool :=
  if c.captured then
    (if c.mailbox.isNone then { c with mailbox := some err } else c, true)
  else (c, false)

def Capture.capture (c : Capture) : Capture := { c with captured := true }

/-- `releaseCapture` drains the mailbox -/
def Capture.release (_c : Capture) : Capture := {}

inductive EndReason where
  | data            -- a wake-up token arrived
  | timeout         -- the timer fired
  | unblocked (err : Option String)
  deriving Repr, DecidableEq

/-- which sources of the `select` are ready at time `now` for a command that started waiting with
    deadline `deadline` (`none` = timeout 0, wait forever) -/
def readySources (now : Int) (deadline : Option Int) (token : Bool) (c : Capture) : List EndReason :=
  (if token then [.data] else []) ++
  (match deadline with | some d => if now ≥ d then [.timeout] else [] | none => []) ++
  (match c.mailbox with | some e => [.unblocked e] | none => [])

/-- a timeout can only be the reason of the end at or after the deadline: never early -/
theorem timeout_not_early (now : Int) (deadline : Option Int) (token : Bool) (c : Capture)
    (h : EndReason.timeout ∈ readySources now deadline token c) : ∃ d, deadline = some d ∧ now ≥ d := by
  unfold readySources at h
  simp only [List.mem_append] at h
  rcases h with (h | h) | h
  · cases token <;> simp at h
  · cases deadline with
    | none => simp at h
    | some d =>
      simp only at h
      split_ifs at h with hd
      · exact ⟨d, rfl, hd⟩
      · simp at h
  · cases hmb : c.mailbox with
    | none => simp [hmb] at h
    | some e => simp [hmb] at h

/-- timeout 0 (no deadline) never ends by timeout -/
theorem timeout0_never_times_out (now : Int) (token : Bool) (c : Capture) :
    EndReason.timeout ∉ readySources now none token c := by
  intro h
  obtain ⟨d, hd, _⟩ := timeout_not_early now none token c h
  cases hd

/-- with nothing pending and the deadline not reached the command keeps waiting -/
theorem keeps_waiting (now d : Int) (h : now < d) : readySources now (some d) false {} = [] := by
  unfold readySources
  have : ¬ (now ≥ d) := by omega
  simp [this]

/-- CLIENT UNBLOCK reaches a captured client exactly once per capture and reports that it did;
    on a client that is not captured it changes nothing and reports so (the repaired reply of D30) -/
theorem unblock_captured (c : Capture) (err : Option String) (h : c.captured = true) (hm : c.mailbox = none) :
    (c.unblock err).1.mailbox = some err ∧ (c.unblock err).2 = true := by
  simp [Capture.unblock, h, hm]

theorem unblock_uncaptured_inert (c : Capture) (err : Option String) (h : c.captured = false) :
    (c.unblock err).1 = c ∧ (c.unblock err).2 = false := by
  simp [Capture.unblock, h]

/-- a second request during the same capture does not overwrite the first -/
theorem unblock_once (c : Capture) (e1 e2 : Option String) (h : c.captured = true) (hm : c.mailbox = none) :
    ((c.unblock e1).1.unblock e2).1.mailbox = some e1 := by
  simp [Capture.unblock, h, hm]

/-- D31 on the model: a request that arrives before the capture is lost — the client, once captured,
    has an empty mailbox and keeps waiting -/
theorem early_unblock_lost_witness :
    (((({} : Capture).unblock none).1).capture).mailbox = none := by decide

/-- after any end the capture is released with an empty mailbox: a stale request cannot end the
    connection's next block -/
theorem release_clears (c : Capture) : c.release.mailbox = none ∧ c.release.captured = false := ⟨rfl, rfl⟩

/-- the unblock of one client does not touch another client's capture state (they are separate
    values): ending client A's block leaves client B blocked -/
theorem unblock_is_per_client (a b : Capture) (err : Option String) :
    ((a.unblock err).1, b).2 = b := rfl

end RedisEmu
