/-
  Wake-up accounting of the blocking list commands (`blockOnListChangeWorker`, `waitTable.go`,
  `dataStore.leaveListBlock`): who is certain to look at the list again.

  A client that blocks first registers in the wait queue and then looks at the list once more
  (`pending`: that look is still to come). A push appends its elements and hands a wake-up token to
  as many queue heads as it pushed elements, unlinking them. A client holding a token retries. A client
  that stops waiting (timeout, CLIENT UNBLOCK, or because its first look already found an element) while
  it holds a token it never used passes the wake-up on to the next queue head (`passOn = true`: commit
  3206d1b; `false`: the code before it). Core Lean only.
-/
namespace RedisEmu

structure WState where
  list : List Nat := []      -- the list
  queue : List Nat := []     -- registered clients, oldest first
  pending : List Nat := []   -- registered, first look at the list still to come
  token : List Nat := []     -- holding a wake-up token not acted on yet (unlinked from the queue)
  nextId : Nat := 0

inductive WStep where
  | push (xs : List Nat)
  | register                 -- a new client registers (and will look once more)
  | look (c : Nat)           -- the look after registering
  | retry (c : Nat)          -- a client acts on its token
  | steal                    -- a non-blocking pop by somebody else
  | leave (c : Nat)          -- timeout / CLIENT UNBLOCK / disconnect of a client past its first look

/-- hand one wake-up to the queue head, if there is one -/
def wakeOne (s : WState) : WState :=
  match s.queue with
  | [] => s
  | h :: r => { s with queue := r, token := s.token ++ [h] }

def wstep (passOn : Bool) (s : WState) : WStep → WState
  | .push xs =>
    let n := min xs.length s.queue.length
    { s with list := s.list ++ xs, queue := s.queue.drop n, token := s.token ++ s.queue.take n }
  | .register =>
    { s with queue := s.queue ++ [s.nextId], pending := s.pending ++ [s.nextId], nextId := s.nextId + 1 }
  | .look c =>
    if c ∈ s.pending then
      match s.list with
      | _ :: r =>
        -- got an element: the command completes and the client leaves the wait lists
        let s1 := { s with list := r, pending := s.pending.erase c, queue := s.queue.erase c }
        if c ∈ s.token then
          let s2 := { s1 with token := s1.token.erase c }
          if passOn then wakeOne s2 else s2
        else s1
      | [] => { s with pending := s.pending.erase c }    -- nothing there: wait for a token
    else s
  | .retry c =>
    if c ∈ s.token ∧ c ∉ s.pending then
      match s.list with
      | _ :: r => { s with list := r, token := s.token.erase c }
      | [] => { s with token := s.token.erase c, queue := s.queue ++ [c] }   -- back into the queue (its place: see Block)
    else s
  | .steal => { s with list := s.list.drop 1 }
  | .leave c =>
    if c ∈ s.pending then s else
    let s1 := { s with queue := s.queue.erase c }
    if c ∈ s.token then
      let s2 := { s1 with token := s1.token.erase c }
      if passOn then wakeOne s2 else s2
    else s1

def wrun (passOn : Bool) (s : WState) (steps : List WStep) : WState := steps.foldl (wstep passOn) s

/-- as many looks and tokens outstanding as there are elements — or nobody is waiting passively -/
def WInv (s : WState) : Prop :=
  s.list.length ≤ s.pending.length + s.token.length ∨ ∀ c ∈ s.queue, c ∈ s.pending

end RedisEmu
