/-
  The lock-free protocol around `clientState.blocked` (clientState.go): the owning connection moves the
  word UNCAPTURED → CAPTURED → DRAINING → UNCAPTURED with compare-and-swap, while any number of other
  goroutines (`unblock`, `isBlocked`: CLIENT UNBLOCK / KILL / LIST, Close) *swap* CS_CHECKING in, look at
  what they displaced, and put it back.  One Go atomic operation is one step of the model; goroutines
  interleave arbitrarily.  Core Lean only.
-/
namespace RedisEmu

inductive CS where
  | uncaptured | captured | draining | checking
  deriving Repr, DecidableEq

structure CLState where
  word : CS := .uncaptured                  -- `cs.blocked`
  saved : Nat → Option CS := fun _ => none  -- per checker goroutine: the value it displaced (none: not inside a check)

inductive CLStep where
  | swapIn (i : Nat)                 -- checker i: `locked := atomic.SwapInt32(&cs.blocked, CS_CHECKING)`
  | putBack (i : Nat)                -- checker i: `atomic.SwapInt32(&cs.blocked, locked)` (guarded, in the repaired code)
  | cas (old new : CS)               -- the owner: `CompareAndSwapInt32(&cs.blocked, old, new)` (setLock retries until it succeeds)

def setSaved (f : Nat → Option CS) (i : Nat) (v : Option CS) : Nat → Option CS :=
  fun j => if j = i then v else f j

/-- `repaired = true`: commit 290ef11 (a checker that displaced another checker's CS_CHECKING does not
    write it back); `repaired = false`: the code before it -/
def clstep (repaired : Bool) (s : CLState) : CLStep → CLState
  | .swapIn i =>
    match s.saved i with
    | none => { word := .checking, saved := setSaved s.saved i (some s.word) }
    | some _ => s
  | .putBack i =>
    match s.saved i with
    | some v =>
      { word := if repaired && v == .checking then s.word else v, saved := setSaved s.saved i none }
    | none => s
  | .cas old new =>
    -- the owner never uses CS_CHECKING in its transitions
    if old = .checking ∨ new = .checking then s
    else if s.word = old then { s with word := new } else s

def clrun (repaired : Bool) (s : CLState) (steps : List CLStep) : CLState := steps.foldl (clstep repaired) s

end RedisEmu
