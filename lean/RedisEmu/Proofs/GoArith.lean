import RedisEmu.GoArith
import RedisEmu.Cmds
import RedisEmu.Bits
import RedisEmu.Dict
import RedisEmu.Proofs.Rev
import Mathlib.Tactic.IntervalCases
import Mathlib.Tactic.SplitIfs
/-
  The definitions of `RedisEmu.GoArith` are written by `tools/go2lean` from /repo's working tree on every
  run. The theorems below say, for every input, that each translated Go function computes what the model
  uses in its place (`specSignedOverflow`, `toSigned`, `goAddOverflow`, the saturation bounds). They are the
  regenerated half of the tie for the arithmetic of INCRBY / HINCRBY / BITFIELD: a change to one of these
  Go functions changes the Lean definition and the theorem about it has to be proved again.
-/
namespace RedisEmu

/-- `isSignedSumOverflow a b bits` for every width 1..64, every increment `b`, and every `a` that is a
    `bits`-wide signed field value (what `signExtend` delivers; `0` for BITFIELD SET): the Go test is
    exactly "the true sum leaves the signed `bits`-wide range". -/
theorem go_isSignedSumOverflow (a b : BitVec 64) (bits : Nat) (h1 : 1 ≤ bits) (h2 : bits ≤ 64)
    (hr : -(2 : Int) ^ (bits - 1) ≤ a.toInt ∧ a.toInt < (2 : Int) ^ (bits - 1)) :
    Go.isSignedSumOverflow a b (BitVec.ofNat 64 bits) = specSignedOverflow a.toInt b.toInt bits := by
  have ha := BitVec.toInt_lt (x := a); have ha' := BitVec.le_toInt (x := a)
  have hb := BitVec.toInt_lt (x := b); have hb' := BitVec.le_toInt (x := b)
  unfold Go.isSignedSumOverflow specSignedOverflow
  simp only [BitVec.slt]
  rw [Bool.eq_iff_iff]
  interval_cases bits <;>
    (simp [BitVec.toInt_sub, BitVec.toInt_neg, Int.bmod_def] at *; split_ifs <;> omega)

/-- the overflow guard of `addInt` (INCR / DECR / INCRBY / DECRBY) as it stands in the Go source is the
    model's `goAddOverflow` — which `addInt_overflow_iff` (C02) shows to be "the true sum leaves int64" -/
theorem go_addIntOverflowGuard (v d : BitVec 64) :
    Go.addIntOverflowGuard v d = goAddOverflow v.toInt d.toInt := by
  have ha := BitVec.toInt_lt (x := v); have ha' := BitVec.le_toInt (x := v)
  have hb := BitVec.toInt_lt (x := d); have hb' := BitVec.le_toInt (x := d)
  unfold Go.addIntOverflowGuard goAddOverflow wrap64 twoP63 twoP64
  simp only [BitVec.slt, BitVec.toInt_add, Int.bmod_def]
  simp at *
  split_ifs <;> omega

/-- the same for `fieldAddInt` (HINCRBY) -/
theorem go_fieldAddIntOverflowGuard (v d : BitVec 64) :
    Go.fieldAddIntOverflowGuard v d = goAddOverflow v.toInt d.toInt := by
  have : Go.fieldAddIntOverflowGuard v d = Go.addIntOverflowGuard v d := rfl
  rw [this, go_addIntOverflowGuard]

/-- `isUnsignedOverflow v bits` on a value that is not negative (the caller tests `newValue < 0` first):
    exactly "v does not fit into `bits` bits", for every width 1..63 -/
theorem go_isUnsignedOverflow (v : BitVec 64) (bits : Nat) (h1 : 1 ≤ bits) (h2 : bits ≤ 63) (hv : 0 ≤ v.toInt) :
    Go.isUnsignedOverflow v (BitVec.ofNat 64 bits) = decide (v.toInt ≥ (2 : Int) ^ bits) := by
  have ha := BitVec.toInt_lt (x := v)
  have hn : v.toInt = (v.toNat : Int) := by
    rw [BitVec.toInt_eq_toNat_cond]; split
    · rfl
    · rw [BitVec.toInt_eq_toNat_cond] at hv; split at hv <;> omega
  unfold Go.isUnsignedOverflow
  have hneg : BitVec.slt v 0#64 = false := by simp [BitVec.slt]; omega
  simp only [hneg]
  rw [Bool.eq_iff_iff]
  simp only [BitVec.ule, decide_eq_true_eq, hn, Bool.false_eq_true, ↓reduceIte]
  interval_cases bits <;> simp

/-- `saturateValue`: the bound on the side the operand pushes to -/
theorem go_saturateValue_signed (v : BitVec 64) (bits : Nat) (h1 : 1 ≤ bits) (h2 : bits ≤ 64) :
    (Go.saturateValue true v (BitVec.ofNat 64 bits)).toInt =
      if v.toInt < 0 then -(2 : Int) ^ (bits - 1) else (2 : Int) ^ (bits - 1) - 1 := by
  unfold Go.saturateValue
  simp only [BitVec.slt, ↓reduceIte]
  interval_cases bits <;> (simp; split_ifs <;> simp_all)

theorem go_saturateValue_unsigned (v : BitVec 64) (bits : Nat) (h1 : 1 ≤ bits) (h2 : bits ≤ 63) :
    (Go.saturateValue false v (BitVec.ofNat 64 bits)).toInt =
      if v.toInt < 0 then 0 else (2 : Int) ^ bits - 1 := by
  unfold Go.saturateValue
  simp only [BitVec.slt, Bool.false_eq_true, ↓reduceIte]
  interval_cases bits <;> (simp; split_ifs <;> simp_all)

theorem shl_const (x : BitVec 64) (k : UInt64) (n : Nat) (h : (UInt64.toBitVec k % 64).toNat = n) :
    x <<< (UInt64.toBitVec k % 64) = x <<< n := by
  rw [BitVec.shiftLeft_eq', h]

theorem shr_const (x : BitVec 64) (k : UInt64) (n : Nat) (h : (UInt64.toBitVec k % 64).toNat = n) :
    x >>> (UInt64.toBitVec k % 64) = x >>> n := by
  rw [BitVec.ushiftRight_eq', h]

/-- the compress round of SipHash as `sipHash.go` has it is the model's `Sip.round`, word for word -/
theorem go_sipRound (s : Sip) :
    Go.sipRound s.v0.toBitVec s.v1.toBitVec s.v2.toBitVec s.v3.toBitVec =
      (s.round.v0.toBitVec, s.round.v1.toBitVec, s.round.v2.toBitVec, s.round.v3.toBitVec) := by
  unfold Go.sipRound Sip.round rotl
  simp only [UInt64.toBitVec_or, UInt64.toBitVec_shiftLeft, UInt64.toBitVec_shiftRight, UInt64.toBitVec_add, UInt64.toBitVec_xor]
  rw [shl_const _ 32 32 (by decide), shl_const _ 16 16 (by decide), shl_const _ 13 13 (by decide),
      shl_const _ 17 17 (by decide), shl_const _ 21 21 (by decide)]
  rw [shr_const _ (64 - 32) 32 (by decide), shr_const _ (64 - 16) 48 (by decide), shr_const _ (64 - 13) 51 (by decide),
      shr_const _ (64 - 17) 47 (by decide), shr_const _ (64 - 21) 43 (by decide)]
  rfl

theorem toInt_add_small (a b : BitVec 64) (h1 : -9223372036854775808 ≤ a.toInt + b.toInt) (h2 : a.toInt + b.toInt < 9223372036854775808) :
    (a + b).toInt = a.toInt + b.toInt := by
  rw [BitVec.toInt_add, Int.bmod_def]; simp; split_ifs <;> omega

theorem toInt_sub_one (a : BitVec 64) (h1 : -9223372036854775808 < a.toInt) : (a - 1#64).toInt = a.toInt - 1 := by
  have := BitVec.toInt_lt (x := a)
  rw [BitVec.toInt_sub, Int.bmod_def]; simp at *; split_ifs <;> omega

/-- the index arithmetic of GETRANGE / SUBSTR as `fnGetRange` has it now is the model's `getRangeBounds`, for
    every pair of int64 offsets and every string length -/
theorem go_getRangeClamp (s e n : BitVec 64) (hn : 0 ≤ n.toInt) :
    ((Go.getRangeClamp s e n).1.toInt, (Go.getRangeClamp s e n).2.toInt) = getRangeBounds n.toInt s.toInt e.toInt := by
  have hs := BitVec.toInt_lt (x := s); have hs' := BitVec.le_toInt (x := s)
  have he := BitVec.toInt_lt (x := e); have he' := BitVec.le_toInt (x := e)
  have hn2 := BitVec.toInt_lt (x := n)
  simp at hs hs' he he' hn2
  -- the four assignments, one after the other
  generalize hS1 : (if BitVec.slt s 0#64 then n + s else s) = S1
  generalize hE1 : (if BitVec.slt e 0#64 then n + e else e) = E1
  have vS1 : S1.toInt = if s.toInt < 0 then n.toInt + s.toInt else s.toInt := by
    rw [← hS1]; simp only [BitVec.slt]; simp
    split_ifs
    · exact toInt_add_small n s (by omega) (by omega)
    · rfl
  have vE1 : E1.toInt = if e.toInt < 0 then n.toInt + e.toInt else e.toInt := by
    rw [← hE1]; simp only [BitVec.slt]; simp
    split_ifs
    · exact toInt_add_small n e (by omega) (by omega)
    · rfl
  generalize hS2 : (if BitVec.slt S1 0#64 then 0#64 else (if BitVec.slt n S1 then n else S1)) = S2
  have vS2 : S2.toInt = if S1.toInt < 0 then 0 else (if n.toInt < S1.toInt then n.toInt else S1.toInt) := by
    rw [← hS2]; simp only [BitVec.slt]; simp
    split_ifs <;> simp
  generalize hE2 : (if BitVec.slt E1 S2 then S2 - 1#64 else (if BitVec.sle n E1 then n - 1#64 else E1)) = E2
  have vE2 : E2.toInt = if E1.toInt < S2.toInt then S2.toInt - 1 else (if n.toInt ≤ E1.toInt then n.toInt - 1 else E1.toInt) := by
    rw [← hE2]; simp only [BitVec.slt, BitVec.sle]; simp
    have hS2nn : 0 ≤ S2.toInt := by rw [vS2]; split_ifs <;> omega
    split_ifs
    · exact toInt_sub_one S2 (by omega)
    · exact toInt_sub_one n (by omega)
    · rfl
  have hdef : Go.getRangeClamp s e n = (S2, E2) := by
    unfold Go.getRangeClamp
    simp only [hS1, hE1, hS2, hE2]
  rw [hdef]
  unfold getRangeBounds
  simp only [vS2, vE2, vS1, vE1]

/-- the index arithmetic of LRANGE: (first position, last position) before the walk -/
def lrangeBounds (n start stop : Int) : Int × Int :=
  let start := if start < 0 then n + start else start
  let stop := if stop < 0 then n + stop else stop
  let start := if start < 0 then 0 else start
  (start, stop)

theorem lrangeOf_bounds (l : List Bytes) (start stop : Int) :
    lrangeOf l start stop =
      (if (lrangeBounds l.length start stop).2 < (lrangeBounds l.length start stop).1 then []
       else (l.drop (lrangeBounds l.length start stop).1.toNat).take
          ((lrangeBounds l.length start stop).2 - (lrangeBounds l.length start stop).1 + 1).toNat) := by
  unfold lrangeOf lrangeBounds; rfl

/-- the index arithmetic of LTRIM: the positions that are kept (0, -1: nothing) -/
def ltrimBounds (n start stop : Int) : Int × Int :=
  let start := if start < 0 then n + start else start
  let stop := if stop < 0 then n + stop else stop
  let start := if start < 0 then 0 else if start > n then n else start
  if stop < start then (0, -1) else (start, if stop > n then n else stop)

theorem ltrimOf_bounds (l : List Bytes) (start stop : Int) :
    ltrimOf l start stop =
      (l.drop (ltrimBounds l.length start stop).1.toNat).take
        ((ltrimBounds l.length start stop).2 - (ltrimBounds l.length start stop).1 + 1).toNat := by
  unfold ltrimOf ltrimBounds
  simp only
  split_ifs <;> simp

theorem go_lrangeClamp (s e n : BitVec 64) (hn : 0 ≤ n.toInt) :
    ((Go.lrangeClamp s e n).1.toInt, (Go.lrangeClamp s e n).2.toInt) = lrangeBounds n.toInt s.toInt e.toInt := by
  have hs := BitVec.toInt_lt (x := s); have hs' := BitVec.le_toInt (x := s)
  have he := BitVec.toInt_lt (x := e); have he' := BitVec.le_toInt (x := e)
  have hn2 := BitVec.toInt_lt (x := n)
  simp at hs hs' he he' hn2
  generalize hS1 : (if BitVec.slt s 0#64 then n + s else s) = S1
  generalize hE1 : (if BitVec.slt e 0#64 then n + e else e) = E1
  have vS1 : S1.toInt = if s.toInt < 0 then n.toInt + s.toInt else s.toInt := by
    rw [← hS1]; simp only [BitVec.slt]; simp
    split_ifs
    · exact toInt_add_small n s (by omega) (by omega)
    · rfl
  have vE1 : E1.toInt = if e.toInt < 0 then n.toInt + e.toInt else e.toInt := by
    rw [← hE1]; simp only [BitVec.slt]; simp
    split_ifs
    · exact toInt_add_small n e (by omega) (by omega)
    · rfl
  generalize hS2 : (if BitVec.slt S1 0#64 then 0#64 else S1) = S2
  have vS2 : S2.toInt = if S1.toInt < 0 then 0 else S1.toInt := by
    rw [← hS2]; simp only [BitVec.slt]; simp
    split_ifs <;> simp
  have hdef : Go.lrangeClamp s e n = (S2, E1) := by
    unfold Go.lrangeClamp
    simp only [hS1, hE1, hS2]
  rw [hdef]
  unfold lrangeBounds
  simp only [vS2, vS1, vE1]

theorem go_ltrimClamp (s e n : BitVec 64) (hn : 0 ≤ n.toInt) :
    ((Go.ltrimClamp s e n).1.toInt, (Go.ltrimClamp s e n).2.toInt) = ltrimBounds n.toInt s.toInt e.toInt := by
  have hs := BitVec.toInt_lt (x := s); have hs' := BitVec.le_toInt (x := s)
  have he := BitVec.toInt_lt (x := e); have he' := BitVec.le_toInt (x := e)
  have hn2 := BitVec.toInt_lt (x := n)
  simp at hs hs' he he' hn2
  generalize hS1 : (if BitVec.slt s 0#64 then n + s else s) = S1
  generalize hE1 : (if BitVec.slt e 0#64 then n + e else e) = E1
  have vS1 : S1.toInt = if s.toInt < 0 then n.toInt + s.toInt else s.toInt := by
    rw [← hS1]; simp only [BitVec.slt]; simp
    split_ifs
    · exact toInt_add_small n s (by omega) (by omega)
    · rfl
  have vE1 : E1.toInt = if e.toInt < 0 then n.toInt + e.toInt else e.toInt := by
    rw [← hE1]; simp only [BitVec.slt]; simp
    split_ifs
    · exact toInt_add_small n e (by omega) (by omega)
    · rfl
  generalize hS2 : (if BitVec.slt S1 0#64 then 0#64 else (if BitVec.slt n S1 then n else S1)) = S2
  have vS2 : S2.toInt = if S1.toInt < 0 then 0 else (if n.toInt < S1.toInt then n.toInt else S1.toInt) := by
    rw [← hS2]; simp only [BitVec.slt]; simp
    split_ifs <;> simp
  have hdef : Go.ltrimClamp s e n =
      (if BitVec.slt E1 S2 then (0#64, -1#64) else (S2, if BitVec.slt n E1 then n else E1)) := by
    unfold Go.ltrimClamp
    simp only [hS1, hE1, hS2]
  rw [hdef]
  unfold ltrimBounds
  simp only [BitVec.slt]
  simp only [vS2, vS1, vE1, decide_eq_true_eq]
  split_ifs <;> simp_all

theorem toInt_add_wrap (a b : BitVec 64) : (a + b).toInt = wrap64 (a.toInt + b.toInt) := by
  have ha := BitVec.toInt_lt (x := a); have ha' := BitVec.le_toInt (x := a)
  have hb := BitVec.toInt_lt (x := b); have hb' := BitVec.le_toInt (x := b)
  rw [BitVec.toInt_add, Int.bmod_def]
  unfold wrap64 twoP63 twoP64
  simp at *
  split_ifs <;> omega

/-- `bits.Reverse…`: reversing all `w` bits of a word is the model's `rev w` -/
theorem toNat_reverse : ∀ (w : Nat) (x : BitVec w), (BitVec.reverse x).toNat = rev w x.toNat := by
  intro w
  induction w with
  | zero => intro x; have := x.isLt; simp [BitVec.reverse, rev]; omega
  | succ w ih =>
    intro x
    unfold BitVec.reverse
    rw [BitVec.toNat_concat, ih, rev_succ]
    simp only [BitVec.toNat_setWidth, rev_mod]
    have hx := x.isLt
    have : x.msb.toNat = x.toNat / 2 ^ w % 2 := by
      rw [BitVec.msb_eq_decide]
      simp only [Nat.add_sub_cancel]
      have h2 : x.toNat / 2 ^ w < 2 := by
        rw [Nat.div_lt_iff_lt_mul (Nat.two_pow_pos w)]; rw [Nat.pow_succ] at hx; omega
      by_cases h : 2 ^ w ≤ x.toNat
      · have : 1 ≤ x.toNat / 2 ^ w := (Nat.le_div_iff_mul_le (Nat.two_pow_pos w)).2 (by omega)
        simp [h]; omega
      · have : x.toNat / 2 ^ w = 0 := Nat.div_eq_of_lt (by omega)
        simp [h, this]
    rw [this]; omega

theorem rev_shifted (k c : Nat) (hk : k ≤ 32) (hc : c < 2 ^ k) :
    rev 32 (c * 2 ^ (32 - k)) = rev k c := by
  have hr := rev_lt k c
  have h1 : rev 32 (rev k c) = c * 2 ^ (32 - k) := by
    have := rev_grow k (32 - k) (rev k c) hr
    rw [show k + (32 - k) = 32 by omega, rev_rev_of_lt k c hc] at this
    exact this
  rw [← h1]
  exact rev_rev_of_lt 32 _ (Nat.lt_of_lt_of_le hr (Nat.pow_le_pow_right (by omega) hk))

/-- the translated `hashToIndex` on a table of `2^k` buckets is the model's `bucketOf k` of the
    low 32 bits of the hash (the only use of the 64-bit SipHash value) -/
theorem go_hashToIndex (h : BitVec 64) (k : Nat) (hk : k ≤ 31) :
    (Go.hashToIndex h (BitVec.ofNat 32 (2 ^ k)) (BitVec.ofNat 64 k)).toNat
      = bucketOf k (h.toNat % 2 ^ 32) := by
  have hp : 2 ^ k < 2 ^ 32 := Nat.pow_lt_pow_right (by omega) (by omega)
  have hp1 := Nat.two_pow_pos k
  unfold Go.hashToIndex bucketOf
  simp only [toNat_reverse]
  have hmask : (BitVec.ofNat 32 (2 ^ k) - 1#32) = BitVec.ofNat 32 (2 ^ k - 1) := by
    apply BitVec.eq_of_toNat_eq
    simp only [BitVec.toNat_sub, BitVec.toNat_ofNat]
    rw [Nat.mod_eq_of_lt hp]; simp; omega
  have hsh : (32#64 - BitVec.ofNat 64 k).toNat = 32 - k := by
    simp only [BitVec.toNat_sub, BitVec.toNat_ofNat]; omega
  rw [hmask, hsh]
  have hc : (h.toNat % 2 ^ 32) % 2 ^ k < 2 ^ k := Nat.mod_lt _ hp1
  have hb : (BitVec.setWidth 32 h &&& BitVec.ofNat 32 (2 ^ k - 1)).toNat = (h.toNat % 2 ^ 32) % 2 ^ k := by
    simp only [BitVec.toNat_and, BitVec.toNat_setWidth, BitVec.toNat_ofNat]
    rw [Nat.mod_eq_of_lt (by omega : 2 ^ k - 1 < 2 ^ 32), Nat.and_two_pow_sub_one_eq_mod]
  rw [BitVec.toNat_shiftLeft, hb, Nat.shiftLeft_eq]
  have hlt : (h.toNat % 2 ^ 32 % 2 ^ k) * 2 ^ (32 - k) < 2 ^ 32 := by
    calc _ < 2 ^ k * 2 ^ (32 - k) := Nat.mul_lt_mul_of_pos_right hc (Nat.two_pow_pos _)
      _ = 2 ^ 32 := by rw [← Nat.pow_add]; congr 1; omega
  rw [Nat.mod_eq_of_lt hlt]
  exact rev_shifted k _ (by omega) hc
theorem go_isPowerOfTwo (n : BitVec 32) : Go.isPowerOfTwo n = true ↔ ∃ k, n.toNat = 2 ^ k := by
  unfold Go.isPowerOfTwo
  have hlt := n.isLt
  rw [Bool.and_eq_true, beq_iff_eq, BitVec.ult, decide_eq_true_iff]
  have key := @Nat.ne_zero_and_sub_one_eq_zero_iff_isPowerOfTwo n.toNat
  simp only [BitVec.toNat_ofNat, Nat.zero_mod]
  constructor
  · rintro ⟨h1, h2⟩
    have : n.toNat &&& (n.toNat - 1) = 0 := by
      have := congrArg BitVec.toNat h1
      simp only [BitVec.toNat_and, BitVec.toNat_sub, BitVec.toNat_ofNat] at this
      rw [show (2 ^ 32 - 1 % 2 ^ 32 + n.toNat) % 2 ^ 32 = n.toNat - 1 by omega] at this
      simpa using this
    exact key.1 ⟨by omega, this⟩
  · intro h
    have ⟨h0, h1⟩ := key.2 h
    refine ⟨?_, by omega⟩
    apply BitVec.eq_of_toNat_eq
    simp only [BitVec.toNat_and, BitVec.toNat_sub, BitVec.toNat_ofNat]
    rw [show (2 ^ 32 - 1 % 2 ^ 32 + n.toNat) % 2 ^ 32 = n.toNat - 1 by omega]
    simpa using h1

open BitVec in
theorem go_signExtend_eq (w : Nat) (hw1 : 1 ≤ w) (hw : w ≤ 64) (u : Nat) (hu : u < 2 ^ w) :
    Go.signExtend (BitVec.ofNat 64 u) (BitVec.ofNat 64 w) = (BitVec.ofNat w u).signExtend 64 := by
  unfold Go.signExtend
  have hsh : (BitVec.ofNat 64 w - 1#64).toNat = w - 1 := by
    simp only [BitVec.toNat_sub, BitVec.toNat_ofNat]; omega
  have hsb : (1#64 <<< (w - 1)) = BitVec.twoPow 64 (w - 1) := by
    rw [BitVec.twoPow_eq]
  have hp : 2 ^ (w - 1) < 2 ^ 64 := Nat.pow_lt_pow_right (by omega) (by omega)
  have hmask : (BitVec.twoPow 64 (w - 1) - 1#64) = BitVec.ofNat 64 (2 ^ (w - 1) - 1) := by
    apply BitVec.eq_of_toNat_eq
    have := Nat.two_pow_pos (w - 1)
    simp only [BitVec.toNat_sub, BitVec.toNat_twoPow, BitVec.toNat_ofNat]
    rw [Nat.mod_eq_of_lt hp]; omega
  have hhigh : ∀ i, w ≤ i → u.testBit i = false := fun i hi =>
    Nat.testBit_lt_two_pow (Nat.lt_of_lt_of_le hu (Nat.pow_le_pow_right (by omega) hi))
  have hcond : BitVec.ult 0#64 (BitVec.ofNat 64 u &&& BitVec.twoPow 64 (w - 1)) = u.testBit (w - 1) := by
    have hnat : (0 < u &&& 2 ^ (w - 1)) ↔ u.testBit (w - 1) = true := by
      constructor
      · intro h
        false_or_by_contra
        rename_i hb
        have : u &&& 2 ^ (w - 1) = 0 := by
          apply Nat.eq_of_testBit_eq
          intro i
          simp only [Nat.testBit_and, Nat.testBit_two_pow, Nat.zero_testBit]
          by_cases hij : w - 1 = i
          · subst hij; simp at hb; simp [hb]
          · simp [hij]
        omega
      · intro hb
        have : (u &&& 2 ^ (w - 1)).testBit (w - 1) = true := by
          simp [Nat.testBit_and, Nat.testBit_two_pow, hb]
        have := Nat.ge_two_pow_of_testBit this
        have := Nat.two_pow_pos (w - 1)
        omega
    simp only [BitVec.ult, BitVec.toNat_ofNat, BitVec.toNat_and, BitVec.toNat_twoPow, Nat.zero_mod]
    rw [Nat.mod_eq_of_lt hp, Nat.mod_eq_of_lt (Nat.lt_of_lt_of_le hu (Nat.pow_le_pow_right (by omega) hw))]
    by_cases hb : u.testBit (w - 1) = true
    · simp [hb, hnat.2 hb]
    · have : ¬ (0 < u &&& 2 ^ (w - 1)) := fun h => hb (hnat.1 h)
      simp at hb; simp [hb]; omega
  simp only [hsh, hsb, hmask, hcond]
  apply BitVec.eq_of_getLsbD_eq
  intro i hi
  rw [BitVec.getLsbD_signExtend, BitVec.msb_eq_getLsbD_last]
  simp only [BitVec.getLsbD_ofNat]
  by_cases hb : u.testBit (w - 1) = true
  · simp only [hb, if_true, BitVec.getLsbD_or, BitVec.getLsbD_not, BitVec.getLsbD_ofNat, Nat.testBit_two_pow_sub_one]
    by_cases h1 : i < w
    · by_cases h2 : i < w - 1
      · simp [hi, h1, h2]
      · have : i = w - 1 := by omega
        subst this; simp [hi, h1, hb]
    · have := hhigh i (by omega)
      have h3 : ¬ i < w - 1 := by omega
      have h4 : w - 1 < w := by omega
      simp [hi, h1, this, h3, h4]
  · simp only [hb]
    have hg : (BitVec.ofNat 64 u)[i] = u.testBit i := by
      rw [← BitVec.getLsbD_eq_getElem, BitVec.getLsbD_ofNat]; simp [hi]
    by_cases h1 : i < w
    · simp [hi, h1, hg]
    · have := hhigh i (by omega)
      simp at hb
      simp [hi, h1, this, hb, hg]

/-- `signExtend(value, bits)` on a field value of that width is the two's-complement reading of the field -/
theorem go_signExtend (w : Nat) (hw1 : 1 ≤ w) (hw : w ≤ 64) (u : Nat) (hu : u < 2 ^ w) :
    (Go.signExtend (BitVec.ofNat 64 u) (BitVec.ofNat 64 w)).toInt = toSigned u w := by
  rw [go_signExtend_eq w hw1 hw u hu, BitVec.toInt_signExtend_of_le hw, BitVec.toInt_eq_toNat_cond]
  simp only [BitVec.toNat_ofNat, Nat.mod_eq_of_lt hu]
  unfold toSigned
  have : 2 ^ w = 2 * 2 ^ (w - 1) := by rw [← Nat.pow_succ']; congr 1; omega
  by_cases h : 2 * u < 2 ^ w
  · have : ¬ (u ≥ 2 ^ (w - 1)) := by omega
    simp [h, this]
  · have h2 : u ≥ 2 ^ (w - 1) := by omega
    have h3 : w > 0 := by omega
    simp [h, h2, h3]


/-- the range arithmetic of BITCOUNT: `none` = nothing to count, else the first and last unit (byte or bit) -/
def bitcountBounds (length start stop : Int) : Option (Int × Int) :=
  let start := if start < 0 then length + start else start
  let stop := if stop < 0 then length + stop else stop
  if start ≥ length then none else
  let start := if start < 0 then 0 else start
  if stop < start then none else
  some (start, if stop ≥ length then length - 1 else stop)

/-- the range arithmetic of BITCOUNT as `fnBitCount` has it now: leaves early exactly when `bitcountBounds` says
    there is nothing to count, and otherwise ends with the same first and last unit — for every pair of int64
    arguments and every positive length -/
theorem go_bitcountClamp (s e n : BitVec 64) (hn : 0 < n.toInt) :
    (match Go.bitcountClamp s e n with
     | (true, _, _) => none
     | (false, a, z) => some (a.toInt, z.toInt)) = bitcountBounds n.toInt s.toInt e.toInt := by
  have hs := BitVec.toInt_lt (x := s); have hs' := BitVec.le_toInt (x := s)
  have he := BitVec.toInt_lt (x := e); have he' := BitVec.le_toInt (x := e)
  have hn2 := BitVec.toInt_lt (x := n)
  simp at hs hs' he he' hn2
  generalize hS1 : (if BitVec.slt s 0#64 then n + s else s) = S1
  generalize hE1 : (if BitVec.slt e 0#64 then n + e else e) = E1
  have vS1 : S1.toInt = if s.toInt < 0 then n.toInt + s.toInt else s.toInt := by
    rw [← hS1]; simp only [BitVec.slt]; simp
    split_ifs
    · exact toInt_add_small n s (by omega) (by omega)
    · rfl
  have vE1 : E1.toInt = if e.toInt < 0 then n.toInt + e.toInt else e.toInt := by
    rw [← hE1]; simp only [BitVec.slt]; simp
    split_ifs
    · exact toInt_add_small n e (by omega) (by omega)
    · rfl
  have vN1 : (n - 1#64).toInt = n.toInt - 1 := toInt_sub_one n (by omega)
  unfold Go.bitcountClamp bitcountBounds
  simp only [hS1, hE1]
  simp only [BitVec.slt, BitVec.sle, decide_eq_true_eq, ← vS1, ← vE1]
  simp only [BitVec.toInt_zero]
  split_ifs <;> simp_all <;> omega

/-- BITCOUNT of the model on a non-empty string, without the two recorded deviations, is: the bounds of
    `bitcountBounds`, then the count of the set bits (bit mode) or of the set bits of the bytes (byte mode) between them -/
theorem cmdBitCount_bounds (c : Ctx) (db : Db) (k b : Bytes) (e : Entry) (s t : Int) (m : Bool)
    (hq1 : c.q.bitcountClamp = false)
    (hl : db.live c.now k = some e) (hv : e.val = .str b) (hb : b.isEmpty = false) :
    (cmdBitCount c db k (some (s, t, m))).reply =
      match bitcountBounds (if m then (b.length : Int) * 8 else b.length) s t with
      | none => .int 0
      | some (a, z) =>
        if m then vInt ((List.range (z - a + 1).toNat).filter fun j => bitAt b (a.toNat + j)).length
        else vInt (((b.drop a.toNat).take (z - a + 1).toNat).foldl (fun acc x => acc + popcount8 x) 0) := by
  obtain ⟨v, ex, id⟩ := e
  simp only at hv; subst hv
  unfold cmdBitCount bitcountBounds
  simp only [hl, hb, hq1]
  cases m <;> simp <;> split_ifs <;> simp_all [R.ok]


theorem srem8_nonneg (x : BitVec 64) (h : 0 ≤ x.toInt) : BitVec.srem x 8#64 = BitVec.ofNat 64 (x.toNat % 8) := by
  have hm : x.msb = false := by rw [BitVec.msb_eq_toInt]; simp; omega
  have h8 : (8#64).msb = false := by decide
  apply BitVec.eq_of_toNat_eq
  rw [BitVec.toNat_srem, hm, h8]
  have e8 : (8#64).toNat = 8 := by decide
  simp only [BitVec.toNat_ofNat, e8]
  have := x.isLt
  omega

/-- the two masks of `countSetBitRange` (BITCOUNT … BIT): for non-negative bit positions the first mask keeps the bits
    of the first byte from position `start % 8` on (most significant bit = position 0), the second the bits of the
    last byte up to position `end % 8` -/
theorem go_bitcountMasks (s e : BitVec 64) (hs : 0 ≤ s.toInt) (he : 0 ≤ e.toInt) :
    (Go.bitcountMasks s e).1.toNat = 2 ^ (8 - s.toNat % 8) - 1 ∧
    (Go.bitcountMasks s e).2.toNat = 256 - 2 ^ (7 - e.toNat % 8) := by
  unfold Go.bitcountMasks
  simp only [srem8_nonneg s hs, srem8_nonneg e he]
  have h1 : s.toNat % 8 < 8 := Nat.mod_lt _ (by decide)
  have h2 : e.toNat % 8 < 8 := Nat.mod_lt _ (by decide)
  generalize s.toNat % 8 = a at *
  generalize e.toNat % 8 = b at *
  constructor
  · interval_cases a <;> decide
  · interval_cases b <;> decide

/-- what the two mask values select: bit position `j` of a byte (0 = most significant) is kept by the first mask iff
    `a ≤ j`, by the second iff `j ≤ a` (the whole finite table) -/
theorem masks_select : ∀ (a j : Fin 8),
    (2 ^ (8 - a.val) - 1).testBit (7 - j.val) = decide (a.val ≤ j.val) ∧
    (256 - 2 ^ (7 - a.val)).testBit (7 - j.val) = decide (j.val ≤ a.val) := by decide


/-- the offset test of SETBIT as coded = the model's (`cmdSetBit`): negative, or beyond the 2^32 bits of 512 MB -/
theorem go_setbitOffsetGuard (o : BitVec 64) :
    Go.setbitOffsetGuard o = (decide (o.toInt < 0) || decide (o.toInt ≥ 4294967296)) := by
  unfold Go.setbitOffsetGuard
  simp only [BitVec.slt, BitVec.sle]
  have : (4294967296#64).toInt = 4294967296 := by decide
  simp [this]

/-- the size test of SETRANGE as coded = the model's (`cmdSetRange`), for every int64 offset and every length a string
    can have: the wrapped sum `offset + len` is the true sum whenever the first test has not fired already -/
theorem go_setrangeSizeGuard (o l : BitVec 64) (hl : 0 ≤ l.toInt) (hl2 : l.toInt < 4611686018427387904) :
    Go.setrangeSizeGuard o l = (decide (o.toInt > hugeAlloc) || decide (o.toInt + l.toInt > hugeAlloc)) := by
  unfold Go.setrangeSizeGuard hugeAlloc
  have ho := BitVec.le_toInt (x := o); have ho' := BitVec.toInt_lt (x := o)
  simp at ho ho'
  have h5 : (536870912#64).toInt = 536870912 := by decide
  simp only [BitVec.slt, h5]
  by_cases h : 536870912 < o.toInt
  · simp [h]
  · have := toInt_add_small o l (by omega) (by omega)
    simp [h, this]

end RedisEmu
