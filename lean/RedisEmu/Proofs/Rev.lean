import RedisEmu.Dict
/- bit-reversal arithmetic behind the table layout and the SCAN cursor (core Lean only) -/
namespace RedisEmu

theorem rev_lt (k x : Nat) : rev k x < 2 ^ k := by
  induction k generalizing x with
  | zero => simp [rev]
  | succ k ih =>
    have h1 := ih (x / 2)
    have h2 : x % 2 < 2 := Nat.mod_lt _ (by omega)
    have e : rev (k + 1) x = (x % 2) * 2 ^ k + rev k (x / 2) := rfl
    rw [e, Nat.pow_succ]
    rcases Nat.mod_two_eq_zero_or_one x with h | h <;> rw [h] <;> omega

theorem rev_mod (k x : Nat) : rev k (x % 2 ^ k) = rev k x := by
  induction k generalizing x with
  | zero => simp [rev]
  | succ k ih =>
    have e1 : rev (k + 1) (x % 2 ^ (k + 1)) = ((x % 2 ^ (k + 1)) % 2) * 2 ^ k + rev k ((x % 2 ^ (k + 1)) / 2) := rfl
    have e2 : rev (k + 1) x = (x % 2) * 2 ^ k + rev k (x / 2) := rfl
    have h1 : (x % 2 ^ (k + 1)) % 2 = x % 2 := by
      rw [Nat.pow_succ, Nat.mul_comm]
      exact Nat.mod_mul_right_mod x 2 (2 ^ k)
    have h2 : (x % 2 ^ (k + 1)) / 2 = (x / 2) % 2 ^ k := by
      rw [Nat.pow_succ, Nat.mul_comm, Nat.mod_mul_right_div_self]
    rw [e1, e2, h1, h2, ih]

theorem rev_succ (k x : Nat) : rev (k + 1) x = 2 * rev k x + (x / 2 ^ k) % 2 := by
  induction k generalizing x with
  | zero => simp [rev]
  | succ k ih =>
    have e1 : rev (k + 2) x = (x % 2) * 2 ^ (k + 1) + rev (k + 1) (x / 2) := rfl
    have e2 : rev (k + 1) x = (x % 2) * 2 ^ k + rev k (x / 2) := rfl
    have e3 : x / 2 / 2 ^ k = x / 2 ^ (k + 1) := by
      rw [Nat.div_div_eq_div_mul, Nat.pow_succ, Nat.mul_comm]
    rw [e1, ih (x / 2), e2, e3, Nat.pow_succ]
    rcases Nat.mod_two_eq_zero_or_one x with h | h <;> rw [h] <;> omega

/-- halving the table `d` times: the bucket index is divided by `2^d` -/
theorem rev_shrink (k d x : Nat) : rev k x = rev (k + d) x / 2 ^ d := by
  induction d with
  | zero => simp
  | succ d ih =>
    have h := rev_succ (k + d) x
    have e : rev (k + d + 1) x / 2 = rev (k + d) x := by rw [h]; omega
    rw [ih, show k + (d + 1) = (k + d) + 1 from rfl, Nat.pow_succ, Nat.mul_comm,
        ← Nat.div_div_eq_div_mul, e]

/-- doubling the table `d` times: a cursor produced in the small table denotes the first bucket
    of the range its old bucket was split into -/
theorem rev_grow (k d c : Nat) (hc : c < 2 ^ k) : rev (k + d) c = rev k c * 2 ^ d := by
  induction d with
  | zero => simp
  | succ d ih =>
    have h := rev_succ (k + d) c
    have : c / 2 ^ (k + d) = 0 := by
      apply Nat.div_eq_of_lt
      calc c < 2 ^ k := hc
        _ ≤ 2 ^ (k + d) := Nat.pow_le_pow_right (by omega) (by omega)
    rw [show k + (d + 1) = (k + d) + 1 from rfl, h, this, ih, Nat.pow_succ]
    simp only [Nat.zero_mod, Nat.add_zero]
    rw [Nat.mul_comm 2, Nat.mul_assoc]

/-- reversing twice gives back the low `k` bits -/
theorem rev_rev (k x : Nat) : rev k (rev k x) = x % 2 ^ k := by
  induction k generalizing x with
  | zero => simp [rev, Nat.mod_one]
  | succ k ih =>
    -- rev (k+1) y = 2 * rev k y + bit k of y, with y = rev (k+1) x = (x%2)*2^k + rev k (x/2)
    have hy : rev (k + 1) x = (x % 2) * 2 ^ k + rev k (x / 2) := rfl
    have hlt := rev_lt k (x / 2)
    rw [rev_succ k (rev (k + 1) x)]
    have hdiv : rev (k + 1) x / 2 ^ k = x % 2 := by
      rw [hy, Nat.mul_comm, Nat.mul_add_div (Nat.two_pow_pos k), Nat.div_eq_of_lt hlt]; simp
    have hmod : rev k (rev (k + 1) x) = rev k (rev k (x / 2)) := by
      rw [← rev_mod k (rev (k + 1) x), hy, Nat.mul_comm, Nat.mul_add_mod, Nat.mod_eq_of_lt hlt]
    rw [hdiv, hmod, ih (x / 2), Nat.pow_succ]
    have h2 : x % 2 < 2 := Nat.mod_lt _ (by omega)
    have := Nat.div_add_mod x 2
    have hm : x % (2 ^ k * 2) = 2 * ((x / 2) % 2 ^ k) + x % 2 := by
      rw [Nat.mul_comm (2 ^ k) 2, Nat.mod_mul, Nat.add_comm]
    rw [hm]
    have : x % 2 % 2 = x % 2 := Nat.mod_mod _ _
    omega

theorem rev_rev_of_lt (k p : Nat) (h : p < 2 ^ k) : rev k (rev k p) = p := by
  rw [rev_rev, Nat.mod_eq_of_lt h]

end RedisEmu
