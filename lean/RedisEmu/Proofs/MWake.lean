import RedisEmu.MWake
/-
  Lemmas about the multi-key wake-up accounting model (`RedisEmu.MWake`).
-/
namespace RedisEmu

def qlen (k : Nat) (cs : List MC) : Nat := cs.countP fun c => c.waitsOn k

/-- a well-formed client: a wake-up unlinks, and is raised by one of the client's own keys -/
def MC.ok (c : MC) : Prop := (c.token.isSome = true → c.queued = false) ∧ (∀ k, c.token = some k → c.keys.contains k = true)

def AllOk (cs : List MC) : Prop := ∀ c ∈ cs, c.ok

theorem tokens_cons (k : Nat) (c : MC) (r : List MC) :
    tokens k (c :: r) = (if c.token == some k then 1 else 0) + tokens k r := by
  unfold tokens; rw [List.countP_cons]; split <;> omega

theorem qlen_cons (k : Nat) (c : MC) (r : List MC) :
    qlen k (c :: r) = (if c.waitsOn k then 1 else 0) + qlen k r := by
  unfold qlen; rw [List.countP_cons]; split <;> omega

theorem waits_no_token (c : MC) (k : Nat) (h : c.ok) (hw : c.waitsOn k = true) : c.token = none := by
  unfold MC.waitsOn at hw
  simp only [Bool.and_eq_true] at hw
  cases ht : c.token with
  | none => rfl
  | some j => have := h.1 (by simp [ht]); rw [this] at hw; exact absurd hw.1 (by simp)

/-- waking on `k`: the outstanding wake-ups of `k` grow by the number of clients woken -/
theorem tokens_wake_same (k : Nat) : ∀ (n : Nat) (cs : List MC), AllOk cs →
    tokens k (wake k n cs) = tokens k cs + min n (qlen k cs) := by
  intro n cs
  induction cs generalizing n with
  | nil => intro _; cases n <;> simp [wake, tokens, qlen]
  | cons c r ih =>
    intro hok
    have hr : AllOk r := fun d hd => hok d (List.mem_cons_of_mem _ hd)
    cases n with
    | zero => simp [wake]
    | succ n =>
      unfold wake
      by_cases hw : c.waitsOn k = true
      · have hn := waits_no_token c k (hok c List.mem_cons_self) hw
        simp only [hw, ↓reduceIte]
        rw [tokens_cons, tokens_cons, qlen_cons, ih n hr]
        simp [hn, hw]; omega
      · simp only [hw, Bool.false_eq_true, ↓reduceIte]
        rw [tokens_cons, tokens_cons, qlen_cons, ih (n + 1) hr]
        simp [hw]; omega

theorem tokens_wake_other (k j : Nat) (hjk : j ≠ k) : ∀ (n : Nat) (cs : List MC), AllOk cs →
    tokens j (wake k n cs) = tokens j cs := by
  intro n cs
  induction cs generalizing n with
  | nil => intro _; cases n <;> simp [wake]
  | cons c r ih =>
    intro hok
    have hr : AllOk r := fun d hd => hok d (List.mem_cons_of_mem _ hd)
    cases n with
    | zero => simp [wake]
    | succ n =>
      unfold wake
      by_cases hw : c.waitsOn k = true
      · have hn := waits_no_token c k (hok c List.mem_cons_self) hw
        simp only [hw, ↓reduceIte]
        rw [tokens_cons, tokens_cons, ih n hr]
        have : (some k == some j) = false := by simp; exact fun e => hjk e.symm
        simp [hn, this]
      · simp only [hw, Bool.false_eq_true, ↓reduceIte]
        rw [tokens_cons, tokens_cons, ih (n + 1) hr]

/-- waking only unlinks: whoever is in a queue afterwards was in it before, unchanged -/
theorem mem_wake (k : Nat) : ∀ (n : Nat) (cs : List MC) (d : MC), d ∈ wake k n cs →
    d ∈ cs ∨ (d.queued = false ∧ d.token = some k ∧ ∃ c ∈ cs, c.waitsOn k = true ∧ d.keys = c.keys ∧ d.pending = c.pending) := by
  intro n cs
  induction cs generalizing n with
  | nil => intro d h; cases n <;> simp [wake] at h
  | cons c r ih =>
    intro d h
    cases n with
    | zero => left; simpa [wake] using h
    | succ n =>
      unfold wake at h
      by_cases hw : c.waitsOn k = true
      · simp only [hw, ↓reduceIte] at h
        rcases List.mem_cons.mp h with e | e
        · right; subst e; exact ⟨rfl, rfl, c, List.mem_cons_self, hw, rfl, rfl⟩
        · rcases ih n d e with h1 | ⟨h1, h2, c', hc', h3⟩
          · left; exact List.mem_cons_of_mem _ h1
          · right; exact ⟨h1, h2, c', List.mem_cons_of_mem _ hc', h3⟩
      · simp only [hw, Bool.false_eq_true, ↓reduceIte] at h
        rcases List.mem_cons.mp h with e | e
        · left; subst e; exact List.mem_cons_self
        · rcases ih (n + 1) d e with h1 | ⟨h1, h2, c', hc', h3⟩
          · left; exact List.mem_cons_of_mem _ h1
          · right; exact ⟨h1, h2, c', List.mem_cons_of_mem _ hc', h3⟩

theorem noPassive_wake (k j n : Nat) (cs : List MC) (h : NoPassive j cs) : NoPassive j (wake k n cs) := by
  intro d hd hw
  rcases mem_wake k n cs d hd with h1 | ⟨h1, _, _⟩
  · exact h d h1 hw
  · unfold MC.waitsOn at hw; rw [h1] at hw; simp at hw

theorem allOk_wake (k n : Nat) (cs : List MC) (h : AllOk cs) : AllOk (wake k n cs) := by
  intro d hd
  rcases mem_wake k n cs d hd with h1 | ⟨h1, h2, c, hc, hw, hk, _⟩
  · exact h d h1
  · refine ⟨fun _ => h1, ?_⟩
    intro k' hk'
    rw [h2] at hk'; cases hk'
    rw [hk]
    unfold MC.waitsOn at hw
    simp only [Bool.and_eq_true] at hw
    exact hw.2

theorem qlen_wake_same (k : Nat) : ∀ (n : Nat) (cs : List MC), qlen k (wake k n cs) = qlen k cs - n := by
  intro n cs
  induction cs generalizing n with
  | nil => cases n <;> simp [wake, qlen]
  | cons c r ih =>
    cases n with
    | zero => simp [wake]
    | succ n =>
      unfold wake
      by_cases hw : c.waitsOn k = true
      · simp only [hw, ↓reduceIte]
        rw [qlen_cons, qlen_cons, ih n]
        have h0 : MC.waitsOn { c with queued := false, token := some k } k = false := by simp [MC.waitsOn]
        rw [h0, hw]
        simp only [Bool.false_eq_true, ↓reduceIte]
        omega
      · simp only [hw, Bool.false_eq_true, ↓reduceIte]
        rw [qlen_cons, qlen_cons, ih (n + 1)]
        have h0 : c.waitsOn k = false := by simpa using hw
        rw [h0]
        simp

theorem qlen_wake_le (k j : Nat) : ∀ (n : Nat) (cs : List MC), qlen j (wake k n cs) ≤ qlen j cs := by
  intro n cs
  induction cs generalizing n with
  | nil => cases n <;> simp [wake]
  | cons c r ih =>
    cases n with
    | zero => simp [wake]
    | succ n =>
      unfold wake
      by_cases hw : c.waitsOn k = true
      · simp only [hw, ↓reduceIte]
        rw [qlen_cons, qlen_cons]
        have := ih n
        have h0 : MC.waitsOn { c with queued := false, token := some k } j = false := by simp [MC.waitsOn]
        rw [h0]
        simp only [Bool.false_eq_true, ↓reduceIte]
        split <;> omega
      · simp only [hw, Bool.false_eq_true, ↓reduceIte]
        rw [qlen_cons, qlen_cons]
        have := ih (n + 1)
        omega

theorem noPassive_of_qlen_zero (k : Nat) (cs : List MC) (h : qlen k cs = 0) : NoPassive k cs := by
  intro c hc hw
  unfold qlen at h
  have := List.countP_eq_zero.mp h c hc
  simp [hw] at this

/-! ### `wakeEach` -/

theorem allOk_wakeEach : ∀ (ks : List Nat) (cs : List MC), AllOk cs → AllOk (wakeEach ks cs) := by
  intro ks
  induction ks with
  | nil => intro cs h; exact h
  | cons k r ih => intro cs h; exact ih _ (allOk_wake k 1 cs h)

theorem noPassive_wakeEach (j : Nat) : ∀ (ks : List Nat) (cs : List MC), NoPassive j cs → NoPassive j (wakeEach ks cs) := by
  intro ks
  induction ks with
  | nil => intro cs h; exact h
  | cons k r ih => intro cs h; exact ih _ (noPassive_wake k j 1 cs h)

theorem tokens_wakeEach_ge (k : Nat) : ∀ (ks : List Nat) (cs : List MC), AllOk cs → tokens k cs ≤ tokens k (wakeEach ks cs) := by
  intro ks
  induction ks with
  | nil => intro cs _; exact Nat.le_refl _
  | cons j r ih =>
    intro cs h
    have h1 := ih (wake j 1 cs) (allOk_wake j 1 cs h)
    by_cases e : k = j
    · subst e
      have := tokens_wake_same k 1 cs h
      unfold wakeEach; omega
    · have := tokens_wake_other j k e 1 cs h
      unfold wakeEach; omega

theorem qlen_wakeEach_le (k : Nat) : ∀ (ks : List Nat) (cs : List MC), qlen k (wakeEach ks cs) ≤ qlen k cs := by
  intro ks
  induction ks with
  | nil => intro cs; exact Nat.le_refl _
  | cons j r ih =>
    intro cs
    have h1 := ih (wake j 1 cs)
    have h2 := qlen_wake_le j k 1 cs
    unfold wakeEach; omega

/-- a client leaving with an unused wake-up: every one of its keys gets a wake-up, or has no waiter left -/
theorem wakeEach_serves (k : Nat) : ∀ (ks : List Nat) (cs : List MC), AllOk cs → k ∈ ks →
    tokens k cs + 1 ≤ tokens k (wakeEach ks cs) ∨ qlen k (wakeEach ks cs) = 0 := by
  intro ks
  induction ks with
  | nil => intro cs _ hk; cases hk
  | cons j r ih =>
    intro cs h hk
    have hok1 := allOk_wake j 1 cs h
    by_cases e : k = j
    · subst e
      have hs := tokens_wake_same k 1 cs h
      have hq := qlen_wake_same k 1 cs
      have hge := tokens_wakeEach_ge k r (wake k 1 cs) hok1
      have hle := qlen_wakeEach_le k r (wake k 1 cs)
      unfold wakeEach
      by_cases hz : qlen k cs = 0
      · right; omega
      · left; omega
    · have hk' : k ∈ r := by
        rcases List.mem_cons.mp hk with e' | e'
        · exact absurd e' e
        · exact e'
      have := ih (wake j 1 cs) hok1 hk'
      have ho := tokens_wake_other j k e 1 cs h
      unfold wakeEach
      rcases this with a | a
      · left; omega
      · right; exact a

/-! ### removing and updating the client at a position -/

theorem tokens_eraseIdx (k : Nat) : ∀ (cs : List MC) (i : Nat) (c : MC), cs[i]? = some c →
    tokens k (cs.eraseIdx i) + (if c.token == some k then 1 else 0) = tokens k cs := by
  intro cs
  induction cs with
  | nil => intro i c h; simp at h
  | cons d r ih =>
    intro i c h
    cases i with
    | zero =>
      simp only [List.getElem?_cons_zero, Option.some.injEq] at h
      subst h
      rw [List.eraseIdx_cons_zero, tokens_cons]; omega
    | succ i =>
      simp only [List.getElem?_cons_succ] at h
      rw [List.eraseIdx_cons_succ, tokens_cons, tokens_cons]
      have := ih i c h
      omega

theorem tokens_set (k : Nat) : ∀ (cs : List MC) (i : Nat) (c c' : MC), cs[i]? = some c →
    tokens k (cs.set i c') + (if c.token == some k then 1 else 0) =
      tokens k cs + (if c'.token == some k then 1 else 0) := by
  intro cs
  induction cs with
  | nil => intro i c c' h; simp at h
  | cons d r ih =>
    intro i c c' h
    cases i with
    | zero =>
      simp only [List.getElem?_cons_zero, Option.some.injEq] at h
      subst h
      rw [List.set_cons_zero, tokens_cons, tokens_cons]; omega
    | succ i =>
      simp only [List.getElem?_cons_succ] at h
      rw [List.set_cons_succ, tokens_cons, tokens_cons]
      have := ih i c c' h
      omega

theorem allOk_eraseIdx (cs : List MC) (i : Nat) (h : AllOk cs) : AllOk (cs.eraseIdx i) :=
  fun d hd => h d (List.mem_of_mem_eraseIdx hd)

theorem noPassive_eraseIdx (k : Nat) (cs : List MC) (i : Nat) (h : NoPassive k cs) : NoPassive k (cs.eraseIdx i) :=
  fun d hd => h d (List.mem_of_mem_eraseIdx hd)

theorem mem_of_getElem?' (cs : List MC) (i : Nat) (c : MC) (h : cs[i]? = some c) : c ∈ cs :=
  List.mem_of_getElem? h

end RedisEmu
