import RedisEmu.MWake
/-
  Lemmas about the multi-key mwake-up accounting model (`RedisEmu.MWake`).
-/
namespace RedisEmu

def qlen (k : Nat) (cs : List MC) : Nat := cs.countP fun c => c.waitsOn k

/-- a well-formed client: a mwake-up unlinks, and is raised by one of the client's own keys -/
def MC.ok (c : MC) : Prop := (c.token.isSome = true → c.queued = false) ∧ (∀ k, c.token = some k → c.keys.contains k = true)

def AllOk (cs : List MC) : Prop := ∀ c ∈ cs, c.ok

theorem tokens_cons (k : Nat) (c : MC) (r : List MC) :
    tokens k (c :: r) = (if c.token == some k then 1 else 0) + tokens k r := by
  unfold tokens; rw [List.countP_cons]; split <;> omega

theorem qlen_cons (k : Nat) (c : MC) (r : List MC) :
    qlen k (c :: r) = (if c.waitsOn k then 1 else 0) + qlen k r := by
  unfold qlen; rw [List.countP_cons]; split <;> omega

theorem waits_no_token (c : MC) (k : Nat) (h : c.ok) (hw : c.waitsOn k = true) : c.token = none := by
  unfold MC.waitsOn at hw
  simp only [Bool.and_eq_true] at hw
  cases ht : c.token with
  | none => rfl
  | some j => have := h.1 (by simp [ht]); rw [this] at hw; exact absurd hw.1 (by simp)

/-- waking on `k`: the outstanding mwake-ups of `k` grow by the number of clients woken -/
theorem tokens_wake_same (k : Nat) : ∀ (n : Nat) (cs : List MC), AllOk cs →
    tokens k (mwake k n cs) = tokens k cs + min n (qlen k cs) := by
  intro n cs
  induction cs generalizing n with
  | nil => intro _; cases n <;> simp [mwake, tokens, qlen]
  | cons c r ih =>
    intro hok
    have hr : AllOk r := fun d hd => hok d (List.mem_cons_of_mem _ hd)
    cases n with
    | zero => simp [mwake]
    | succ n =>
      unfold mwake
      by_cases hw : c.waitsOn k = true
      · have hn := waits_no_token c k (hok c List.mem_cons_self) hw
        simp only [hw, ↓reduceIte]
        rw [tokens_cons, tokens_cons, qlen_cons, ih n hr]
        simp [hn, hw]; omega
      · simp only [hw, Bool.false_eq_true, ↓reduceIte]
        rw [tokens_cons, tokens_cons, qlen_cons, ih (n + 1) hr]
        simp [hw]; omega

theorem tokens_wake_other (k j : Nat) (hjk : j ≠ k) : ∀ (n : Nat) (cs : List MC), AllOk cs →
    tokens j (mwake k n cs) = tokens j cs := by
  intro n cs
  induction cs generalizing n with
  | nil => intro _; cases n <;> simp [mwake]
  | cons c r ih =>
    intro hok
    have hr : AllOk r := fun d hd => hok d (List.mem_cons_of_mem _ hd)
    cases n with
    | zero => simp [mwake]
    | succ n =>
      unfold mwake
      by_cases hw : c.waitsOn k = true
      · have hn := waits_no_token c k (hok c List.mem_cons_self) hw
        simp only [hw, ↓reduceIte]
        rw [tokens_cons, tokens_cons, ih n hr]
        have : (some k == some j) = false := by simp; exact fun e => hjk e.symm
        simp [hn, this]
      · simp only [hw, Bool.false_eq_true, ↓reduceIte]
        rw [tokens_cons, tokens_cons, ih (n + 1) hr]

/-- waking only unlinks: whoever is in a queue afterwards was in it before, unchanged -/
theorem mem_wake (k : Nat) : ∀ (n : Nat) (cs : List MC) (d : MC), d ∈ mwake k n cs →
    d ∈ cs ∨ (d.queued = false ∧ d.token = some k ∧ ∃ c ∈ cs, c.waitsOn k = true ∧ d.keys = c.keys ∧ d.pending = c.pending) := by
  intro n cs
  induction cs generalizing n with
  | nil => intro d h; cases n <;> simp [mwake] at h
  | cons c r ih =>
    intro d h
    cases n with
    | zero => left; simpa [mwake] using h
    | succ n =>
      unfold mwake at h
      by_cases hw : c.waitsOn k = true
      · simp only [hw, ↓reduceIte] at h
        rcases List.mem_cons.mp h with e | e
        · right; subst e; exact ⟨rfl, rfl, c, List.mem_cons_self, hw, rfl, rfl⟩
        · rcases ih n d e with h1 | ⟨h1, h2, c', hc', h3⟩
          · left; exact List.mem_cons_of_mem _ h1
          · right; exact ⟨h1, h2, c', List.mem_cons_of_mem _ hc', h3⟩
      · simp only [hw, Bool.false_eq_true, ↓reduceIte] at h
        rcases List.mem_cons.mp h with e | e
        · left; subst e; exact List.mem_cons_self
        · rcases ih (n + 1) d e with h1 | ⟨h1, h2, c', hc', h3⟩
          · left; exact List.mem_cons_of_mem _ h1
          · right; exact ⟨h1, h2, c', List.mem_cons_of_mem _ hc', h3⟩

theorem noPassive_wake (k j n : Nat) (cs : List MC) (h : NoPassive j cs) : NoPassive j (mwake k n cs) := by
  intro d hd hw
  rcases mem_wake k n cs d hd with h1 | ⟨h1, _, _⟩
  · exact h d h1 hw
  · unfold MC.waitsOn at hw; rw [h1] at hw; simp at hw

theorem allOk_wake (k n : Nat) (cs : List MC) (h : AllOk cs) : AllOk (mwake k n cs) := by
  intro d hd
  rcases mem_wake k n cs d hd with h1 | ⟨h1, h2, c, hc, hw, hk, _⟩
  · exact h d h1
  · refine ⟨fun _ => h1, ?_⟩
    intro k' hk'
    rw [h2] at hk'; cases hk'
    rw [hk]
    unfold MC.waitsOn at hw
    simp only [Bool.and_eq_true] at hw
    exact hw.2

theorem qlen_wake_same (k : Nat) : ∀ (n : Nat) (cs : List MC), qlen k (mwake k n cs) = qlen k cs - n := by
  intro n cs
  induction cs generalizing n with
  | nil => cases n <;> simp [mwake, qlen]
  | cons c r ih =>
    cases n with
    | zero => simp [mwake]
    | succ n =>
      unfold mwake
      by_cases hw : c.waitsOn k = true
      · simp only [hw, ↓reduceIte]
        rw [qlen_cons, qlen_cons, ih n]
        have h0 : MC.waitsOn { c with queued := false, token := some k } k = false := by simp [MC.waitsOn]
        rw [h0, hw]
        simp only [Bool.false_eq_true, ↓reduceIte]
        omega
      · simp only [hw, Bool.false_eq_true, ↓reduceIte]
        rw [qlen_cons, qlen_cons, ih (n + 1)]
        have h0 : c.waitsOn k = false := by simpa using hw
        rw [h0]
        simp

theorem qlen_wake_le (k j : Nat) : ∀ (n : Nat) (cs : List MC), qlen j (mwake k n cs) ≤ qlen j cs := by
  intro n cs
  induction cs generalizing n with
  | nil => cases n <;> simp [mwake]
  | cons c r ih =>
    cases n with
    | zero => simp [mwake]
    | succ n =>
      unfold mwake
      by_cases hw : c.waitsOn k = true
      · simp only [hw, ↓reduceIte]
        rw [qlen_cons, qlen_cons]
        have := ih n
        have h0 : MC.waitsOn { c with queued := false, token := some k } j = false := by simp [MC.waitsOn]
        rw [h0]
        simp only [Bool.false_eq_true, ↓reduceIte]
        split <;> omega
      · simp only [hw, Bool.false_eq_true, ↓reduceIte]
        rw [qlen_cons, qlen_cons]
        have := ih (n + 1)
        omega

theorem noPassive_of_qlen_zero (k : Nat) (cs : List MC) (h : qlen k cs = 0) : NoPassive k cs := by
  intro c hc hw
  unfold qlen at h
  have := List.countP_eq_zero.mp h c hc
  simp [hw] at this

/-! ### `mwakeEach` -/

theorem allOk_wakeEach : ∀ (ks : List Nat) (cs : List MC), AllOk cs → AllOk (mwakeEach ks cs) := by
  intro ks
  induction ks with
  | nil => intro cs h; exact h
  | cons k r ih => intro cs h; exact ih _ (allOk_wake k 1 cs h)

theorem noPassive_wakeEach (j : Nat) : ∀ (ks : List Nat) (cs : List MC), NoPassive j cs → NoPassive j (mwakeEach ks cs) := by
  intro ks
  induction ks with
  | nil => intro cs h; exact h
  | cons k r ih => intro cs h; exact ih _ (noPassive_wake k j 1 cs h)

theorem tokens_wakeEach_ge (k : Nat) : ∀ (ks : List Nat) (cs : List MC), AllOk cs → tokens k cs ≤ tokens k (mwakeEach ks cs) := by
  intro ks
  induction ks with
  | nil => intro cs _; exact Nat.le_refl _
  | cons j r ih =>
    intro cs h
    have h1 := ih (mwake j 1 cs) (allOk_wake j 1 cs h)
    by_cases e : k = j
    · subst e
      have := tokens_wake_same k 1 cs h
      unfold mwakeEach; omega
    · have := tokens_wake_other j k e 1 cs h
      unfold mwakeEach; omega

theorem qlen_wakeEach_le (k : Nat) : ∀ (ks : List Nat) (cs : List MC), qlen k (mwakeEach ks cs) ≤ qlen k cs := by
  intro ks
  induction ks with
  | nil => intro cs; exact Nat.le_refl _
  | cons j r ih =>
    intro cs
    have h1 := ih (mwake j 1 cs)
    have h2 := qlen_wake_le j k 1 cs
    unfold mwakeEach; omega

/-- a client leaving with an unused mwake-up: every one of its keys gets a mwake-up, or has no waiter left -/
theorem wakeEach_serves (k : Nat) : ∀ (ks : List Nat) (cs : List MC), AllOk cs → k ∈ ks →
    tokens k cs + 1 ≤ tokens k (mwakeEach ks cs) ∨ qlen k (mwakeEach ks cs) = 0 := by
  intro ks
  induction ks with
  | nil => intro cs _ hk; cases hk
  | cons j r ih =>
    intro cs h hk
    have hok1 := allOk_wake j 1 cs h
    by_cases e : k = j
    · subst e
      have hs := tokens_wake_same k 1 cs h
      have hq := qlen_wake_same k 1 cs
      have hge := tokens_wakeEach_ge k r (mwake k 1 cs) hok1
      have hle := qlen_wakeEach_le k r (mwake k 1 cs)
      unfold mwakeEach
      by_cases hz : qlen k cs = 0
      · right; omega
      · left; omega
    · have hk' : k ∈ r := by
        rcases List.mem_cons.mp hk with e' | e'
        · exact absurd e' e
        · exact e'
      have := ih (mwake j 1 cs) hok1 hk'
      have ho := tokens_wake_other j k e 1 cs h
      unfold mwakeEach
      rcases this with a | a
      · left; omega
      · right; exact a

/-! ### removing and updating the client at a position -/

theorem tokens_eraseIdx (k : Nat) : ∀ (cs : List MC) (i : Nat) (c : MC), cs[i]? = some c →
    tokens k (cs.eraseIdx i) + (if c.token == some k then 1 else 0) = tokens k cs := by
  intro cs
  induction cs with
  | nil => intro i c h; simp at h
  | cons d r ih =>
    intro i c h
    cases i with
    | zero =>
      simp only [List.getElem?_cons_zero, Option.some.injEq] at h
      subst h
      rw [List.eraseIdx_cons_zero, tokens_cons]; omega
    | succ i =>
      simp only [List.getElem?_cons_succ] at h
      rw [List.eraseIdx_cons_succ, tokens_cons, tokens_cons]
      have := ih i c h
      omega

theorem tokens_set (k : Nat) : ∀ (cs : List MC) (i : Nat) (c c' : MC), cs[i]? = some c →
    tokens k (cs.set i c') + (if c.token == some k then 1 else 0) =
      tokens k cs + (if c'.token == some k then 1 else 0) := by
  intro cs
  induction cs with
  | nil => intro i c c' h; simp at h
  | cons d r ih =>
    intro i c c' h
    cases i with
    | zero =>
      simp only [List.getElem?_cons_zero, Option.some.injEq] at h
      subst h
      rw [List.set_cons_zero, tokens_cons, tokens_cons]; omega
    | succ i =>
      simp only [List.getElem?_cons_succ] at h
      rw [List.set_cons_succ, tokens_cons, tokens_cons]
      have := ih i c c' h
      omega

theorem allOk_eraseIdx (cs : List MC) (i : Nat) (h : AllOk cs) : AllOk (cs.eraseIdx i) :=
  fun d hd => h d (List.mem_of_mem_eraseIdx hd)

theorem noPassive_eraseIdx (k : Nat) (cs : List MC) (i : Nat) (h : NoPassive k cs) : NoPassive k (cs.eraseIdx i) :=
  fun d hd => h d (List.mem_of_mem_eraseIdx hd)

theorem mem_of_getElem?' (cs : List MC) (i : Nat) (c : MC) (h : cs[i]? = some c) : c ∈ cs :=
  List.mem_of_getElem? h

/-! ### the accounting invariant, step by step -/

structure MFull (s : MState) : Prop where
  inv : ∀ k, MInv s k
  ok : AllOk s.cs

theorem mfull_init : MFull {} := by
  constructor
  · intro k; left; simp [tokens]
  · intro c hc; cases hc

theorem decLen_le (len : Nat → Nat) (j k : Nat) : decLen len j k ≤ len k := by
  unfold decLen; split <;> omega

/-- removing a client that holds no mwake-up for `k` keeps `k`'s accounting -/
theorem minv_erase (s : MState) (k i : Nat) (c : MC) (len' : Nat → Nat) (hc : s.cs[i]? = some c) (h : MInv s k)
    (hl : len' k ≤ s.len k) (ht : (c.token == some k) = false) :
    MInv { len := len', cs := s.cs.eraseIdx i } k := by
  have he := tokens_eraseIdx k s.cs i c hc
  rw [ht] at he
  rcases h with a | a
  · left; show len' k ≤ tokens k (s.cs.eraseIdx i); simp at he; omega
  · right; exact noPassive_eraseIdx k s.cs i a


theorem firstNonEmpty_none (len : Nat → Nat) : ∀ (ks : List Nat), firstNonEmpty len ks = none → ∀ k, ks.contains k = true → len k = 0 := by
  intro ks
  induction ks with
  | nil => intro _ k hk; simp at hk
  | cons a r ih =>
    intro h k hk
    unfold firstNonEmpty at h
    split at h
    · cases h
    · rename_i hz
      simp only [List.contains_cons, Bool.or_eq_true, beq_iff_eq] at hk
      rcases hk with e | e
      · subst e; omega
      · exact ih h k e

theorem tokens_append_one (k : Nat) (cs : List MC) (c : MC) (h : c.token = none) : tokens k (cs ++ [c]) = tokens k cs := by
  unfold tokens; rw [List.countP_append]; simp [h]

/-- the client at position i leaves holding an unused mwake-up raised by `k0`, and wakes one waiter of each of its keys -/
theorem minv_leave_token (s : MState) (k k0 i : Nat) (c : MC) (len' : Nat → Nat) (hc : s.cs[i]? = some c)
    (hok : AllOk s.cs) (h : MInv s k) (hl : len' k ≤ s.len k) (ht : c.token = some k0) :
    MInv { len := len', cs := mwakeEach c.keys (s.cs.eraseIdx i) } k := by
  have hok0 := allOk_eraseIdx s.cs i hok
  have hmem : k0 ∈ c.keys := by
    have := (hok c (List.mem_of_getElem? hc)).2 k0 ht
    simpa using this
  rcases h with a | a
  · by_cases e : k = k0
    · subst e
      have he := tokens_eraseIdx k s.cs i c hc
      simp only [ht, beq_self_eq_true, ↓reduceIte] at he
      rcases wakeEach_serves k c.keys (s.cs.eraseIdx i) hok0 hmem with b | b
      · left; show len' k ≤ tokens k (mwakeEach c.keys (s.cs.eraseIdx i)); omega
      · right; exact noPassive_of_qlen_zero k _ b
    · have he := tokens_eraseIdx k s.cs i c hc
      have hne : (c.token == some k) = false := by rw [ht]; simp; exact fun x => e x.symm
      rw [hne] at he
      have hge := tokens_wakeEach_ge k c.keys (s.cs.eraseIdx i) hok0
      left; show len' k ≤ tokens k (mwakeEach c.keys (s.cs.eraseIdx i)); simp at he; omega
  · right; exact noPassive_wakeEach k c.keys _ (noPassive_eraseIdx k s.cs i a)

/-- the client at position i, holding a mwake-up raised by `k0`, is served from `k0` itself -/
theorem minv_served_own (s : MState) (k k0 i : Nat) (c : MC) (hc : s.cs[i]? = some c)
    (h : MInv s k) (ht : c.token = some k0) :
    MInv { len := decLen s.len k0, cs := s.cs.eraseIdx i } k := by
  have he := tokens_eraseIdx k s.cs i c hc
  rcases h with a | a
  · left
    show decLen s.len k0 k ≤ tokens k (s.cs.eraseIdx i)
    by_cases e : k = k0
    · subst e
      simp only [ht, beq_self_eq_true, ↓reduceIte] at he
      simp only [decLen, ↓reduceIte]; omega
    · have hne : (c.token == some k) = false := by rw [ht]; simp; exact fun x => e x.symm
      rw [hne] at he
      simp only [decLen, e, ↓reduceIte]; simp at he; omega
  · right; exact noPassive_eraseIdx k s.cs i a

/-- … or from another key `j0`, and hands the mwake-up to `k0`'s next waiter (D90 repaired) -/
theorem minv_served_other (s : MState) (k k0 j0 i : Nat) (c : MC) (hc : s.cs[i]? = some c) (hok : AllOk s.cs)
    (h : MInv s k) (ht : c.token = some k0) (hj : j0 ≠ k0) :
    MInv { len := decLen s.len j0, cs := mwake k0 1 (s.cs.eraseIdx i) } k := by
  have hok0 := allOk_eraseIdx s.cs i hok
  have he := tokens_eraseIdx k s.cs i c hc
  rcases h with a | a
  · by_cases e : k = k0
    · subst e
      simp only [ht, beq_self_eq_true, ↓reduceIte] at he
      have hs := tokens_wake_same k 1 (s.cs.eraseIdx i) hok0
      have hq := qlen_wake_same k 1 (s.cs.eraseIdx i)
      by_cases hz : qlen k (s.cs.eraseIdx i) = 0
      · right; exact noPassive_of_qlen_zero k (mwake k 1 (s.cs.eraseIdx i)) (by omega)
      · left
        show decLen s.len j0 k ≤ tokens k (mwake k 1 (s.cs.eraseIdx i))
        have := decLen_le s.len j0 k
        omega
    · have hne : (c.token == some k) = false := by rw [ht]; simp; exact fun x => e x.symm
      rw [hne] at he
      have ho := tokens_wake_other k0 k e 1 (s.cs.eraseIdx i) hok0
      left
      show decLen s.len j0 k ≤ tokens k (mwake k0 1 (s.cs.eraseIdx i))
      have := decLen_le s.len j0 k
      simp at he; omega
  · right; exact noPassive_wake k0 k 1 _ (noPassive_eraseIdx k s.cs i a)

/-- the client at position i finds all its lists empty and stays (or goes back) into the queues -/
theorem minv_stays (s : MState) (k i : Nat) (c c' : MC) (hc : s.cs[i]? = some c) (hcok : c.ok) (h : MInv s k)
    (hk : c'.keys = c.keys) (hnone : firstNonEmpty s.len c.keys = none)
    (ht : c'.token = c.token ∨ c'.token = none) :
    MInv { s with cs := s.cs.set i c' } k := by
  have hts := tokens_set k s.cs i c c' hc
  by_cases hw : c.keys.contains k = true
  · left
    show s.len k ≤ tokens k (s.cs.set i c')
    rw [firstNonEmpty_none s.len c.keys hnone k hw]; omega
  · have hck : (c.token == some k) = false := by
      cases hct : c.token with
      | none => rfl
      | some k0 =>
        have := hcok.2 k0 hct
        simp only [beq_eq_false_iff_ne, ne_eq, Option.some.injEq]
        intro e; subst e; exact hw this
    have hck' : (c'.token == some k) = false := by
      rcases ht with e | e
      · rw [e]; exact hck
      · rw [e]; rfl
    rw [hck, hck'] at hts
    rcases h with a | a
    · left
      show s.len k ≤ tokens k (s.cs.set i c')
      simp at hts; omega
    · right
      intro d hd hwd
      rcases List.mem_or_eq_of_mem_set hd with e | e
      · exact a d e hwd
      · subst e
        unfold MC.waitsOn at hwd
        simp only [Bool.and_eq_true] at hwd
        rw [hk] at hwd
        exact absurd hwd.2 hw

end RedisEmu
