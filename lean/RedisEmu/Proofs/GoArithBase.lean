import RedisEmu.GoArith
import RedisEmu.Cmds
import Mathlib.Tactic.SplitIfs
/-
  The definitions of `RedisEmu.GoArith` are written by `tools/go2lean` from /repo's working tree on every
  run. The theorems below say, for every input, that each translated Go function computes what the model
  uses in its place (`specSignedOverflow`, `toSigned`, `goAddOverflow`, the saturation bounds). They are the
  regenerated half of the tie for the arithmetic of INCRBY / HINCRBY / BITFIELD: a change to one of these
  Go functions changes the Lean definition and the theorem about it has to be proved again.
-/
namespace RedisEmu

theorem toInt_add_small (a b : BitVec 64) (h1 : -9223372036854775808 ≤ a.toInt + b.toInt) (h2 : a.toInt + b.toInt < 9223372036854775808) :
    (a + b).toInt = a.toInt + b.toInt := by
  rw [BitVec.toInt_add, Int.bmod_def]; simp; split_ifs <;> omega

theorem toInt_sub_one (a : BitVec 64) (h1 : -9223372036854775808 < a.toInt) : (a - 1#64).toInt = a.toInt - 1 := by
  have := BitVec.toInt_lt (x := a)
  rw [BitVec.toInt_sub, Int.bmod_def]; simp at *; split_ifs <;> omega

theorem toInt_add_wrap (a b : BitVec 64) : (a + b).toInt = wrap64 (a.toInt + b.toInt) := by
  have ha := BitVec.toInt_lt (x := a); have ha' := BitVec.le_toInt (x := a)
  have hb := BitVec.toInt_lt (x := b); have hb' := BitVec.le_toInt (x := b)
  rw [BitVec.toInt_add, Int.bmod_def]
  unfold wrap64 twoP63 twoP64
  simp at *
  split_ifs <;> omega

end RedisEmu
