import RedisEmu.GoArith
import RedisEmu.Dict
import RedisEmu.Proofs.Rev
import Mathlib.Tactic.SplitIfs
/- theorems about the translated Go definitions (Dict); see Proofs/GoArithBase.lean for the header -/
namespace RedisEmu

theorem shl_const (x : BitVec 64) (k : UInt64) (n : Nat) (h : (UInt64.toBitVec k % 64).toNat = n) :
    x <<< (UInt64.toBitVec k % 64) = x <<< n := by
  rw [BitVec.shiftLeft_eq', h]

theorem shr_const (x : BitVec 64) (k : UInt64) (n : Nat) (h : (UInt64.toBitVec k % 64).toNat = n) :
    x >>> (UInt64.toBitVec k % 64) = x >>> n := by
  rw [BitVec.ushiftRight_eq', h]

/-- the compress round of SipHash as `sipHash.go` has it is the model's `Sip.round`, word for word -/
theorem go_sipRound (s : Sip) :
    Go.sipRound s.v0.toBitVec s.v1.toBitVec s.v2.toBitVec s.v3.toBitVec =
      (s.round.v0.toBitVec, s.round.v1.toBitVec, s.round.v2.toBitVec, s.round.v3.toBitVec) := by
  unfold Go.sipRound Sip.round rotl
  simp only [UInt64.toBitVec_or, UInt64.toBitVec_shiftLeft, UInt64.toBitVec_shiftRight, UInt64.toBitVec_add, UInt64.toBitVec_xor]
  rw [shl_const _ 32 32 (by decide), shl_const _ 16 16 (by decide), shl_const _ 13 13 (by decide),
      shl_const _ 17 17 (by decide), shl_const _ 21 21 (by decide)]
  rw [shr_const _ (64 - 32) 32 (by decide), shr_const _ (64 - 16) 48 (by decide), shr_const _ (64 - 13) 51 (by decide),
      shr_const _ (64 - 17) 47 (by decide), shr_const _ (64 - 21) 43 (by decide)]
  rfl

/-- `bits.Reverse…`: reversing all `w` bits of a word is the model's `rev w` -/
theorem toNat_reverse : ∀ (w : Nat) (x : BitVec w), (BitVec.reverse x).toNat = rev w x.toNat := by
  intro w
  induction w with
  | zero => intro x; have := x.isLt; simp [BitVec.reverse, rev]; omega
  | succ w ih =>
    intro x
    unfold BitVec.reverse
    rw [BitVec.toNat_concat, ih, rev_succ]
    simp only [BitVec.toNat_setWidth, rev_mod]
    have hx := x.isLt
    have : x.msb.toNat = x.toNat / 2 ^ w % 2 := by
      rw [BitVec.msb_eq_decide]
      simp only [Nat.add_sub_cancel]
      have h2 : x.toNat / 2 ^ w < 2 := by
        rw [Nat.div_lt_iff_lt_mul (Nat.two_pow_pos w)]; rw [Nat.pow_succ] at hx; omega
      by_cases h : 2 ^ w ≤ x.toNat
      · have : 1 ≤ x.toNat / 2 ^ w := (Nat.le_div_iff_mul_le (Nat.two_pow_pos w)).2 (by omega)
        simp [h]; omega
      · have : x.toNat / 2 ^ w = 0 := Nat.div_eq_of_lt (by omega)
        simp [h, this]
    rw [this]; omega

theorem rev_shifted (k c : Nat) (hk : k ≤ 32) (hc : c < 2 ^ k) :
    rev 32 (c * 2 ^ (32 - k)) = rev k c := by
  have hr := rev_lt k c
  have h1 : rev 32 (rev k c) = c * 2 ^ (32 - k) := by
    have := rev_grow k (32 - k) (rev k c) hr
    rw [show k + (32 - k) = 32 by omega, rev_rev_of_lt k c hc] at this
    exact this
  rw [← h1]
  exact rev_rev_of_lt 32 _ (Nat.lt_of_lt_of_le hr (Nat.pow_le_pow_right (by omega) hk))

/-- the translated `hashToIndex` on a table of `2^k` buckets is the model's `bucketOf k` of the
    low 32 bits of the hash (the only use of the 64-bit SipHash value) -/
theorem go_hashToIndex (h : BitVec 64) (k : Nat) (hk : k ≤ 31) :
    (Go.hashToIndex h (BitVec.ofNat 32 (2 ^ k)) (BitVec.ofNat 64 k)).toNat
      = bucketOf k (h.toNat % 2 ^ 32) := by
  have hp : 2 ^ k < 2 ^ 32 := Nat.pow_lt_pow_right (by omega) (by omega)
  have hp1 := Nat.two_pow_pos k
  unfold Go.hashToIndex bucketOf
  simp only [toNat_reverse]
  have hmask : (BitVec.ofNat 32 (2 ^ k) - 1#32) = BitVec.ofNat 32 (2 ^ k - 1) := by
    apply BitVec.eq_of_toNat_eq
    simp only [BitVec.toNat_sub, BitVec.toNat_ofNat]
    rw [Nat.mod_eq_of_lt hp]; simp; omega
  have hsh : (32#64 - BitVec.ofNat 64 k).toNat = 32 - k := by
    simp only [BitVec.toNat_sub, BitVec.toNat_ofNat]; omega
  rw [hmask, hsh]
  have hc : (h.toNat % 2 ^ 32) % 2 ^ k < 2 ^ k := Nat.mod_lt _ hp1
  have hb : (BitVec.setWidth 32 h &&& BitVec.ofNat 32 (2 ^ k - 1)).toNat = (h.toNat % 2 ^ 32) % 2 ^ k := by
    simp only [BitVec.toNat_and, BitVec.toNat_setWidth, BitVec.toNat_ofNat]
    rw [Nat.mod_eq_of_lt (by omega : 2 ^ k - 1 < 2 ^ 32), Nat.and_two_pow_sub_one_eq_mod]
  rw [BitVec.toNat_shiftLeft, hb, Nat.shiftLeft_eq]
  have hlt : (h.toNat % 2 ^ 32 % 2 ^ k) * 2 ^ (32 - k) < 2 ^ 32 := by
    calc _ < 2 ^ k * 2 ^ (32 - k) := Nat.mul_lt_mul_of_pos_right hc (Nat.two_pow_pos _)
      _ = 2 ^ 32 := by rw [← Nat.pow_add]; congr 1; omega
  rw [Nat.mod_eq_of_lt hlt]
  exact rev_shifted k _ (by omega) hc
theorem go_isPowerOfTwo (n : BitVec 32) : Go.isPowerOfTwo n = true ↔ ∃ k, n.toNat = 2 ^ k := by
  unfold Go.isPowerOfTwo
  have hlt := n.isLt
  rw [Bool.and_eq_true, beq_iff_eq, BitVec.ult, decide_eq_true_iff]
  have key := @Nat.ne_zero_and_sub_one_eq_zero_iff_isPowerOfTwo n.toNat
  simp only [BitVec.toNat_ofNat, Nat.zero_mod]
  constructor
  · rintro ⟨h1, h2⟩
    have : n.toNat &&& (n.toNat - 1) = 0 := by
      have := congrArg BitVec.toNat h1
      simp only [BitVec.toNat_and, BitVec.toNat_sub, BitVec.toNat_ofNat] at this
      rw [show (2 ^ 32 - 1 % 2 ^ 32 + n.toNat) % 2 ^ 32 = n.toNat - 1 by omega] at this
      simpa using this
    exact key.1 ⟨by omega, this⟩
  · intro h
    have ⟨h0, h1⟩ := key.2 h
    refine ⟨?_, by omega⟩
    apply BitVec.eq_of_toNat_eq
    simp only [BitVec.toNat_and, BitVec.toNat_sub, BitVec.toNat_ofNat]
    rw [show (2 ^ 32 - 1 % 2 ^ 32 + n.toNat) % 2 ^ 32 = n.toNat - 1 by omega]
    simpa using h1

end RedisEmu
