import RedisEmu.Resp
import Mathlib.Tactic.SplitIfs
/- the seven mutually recursive functions of the RESP parser never produce the crash outcome: helper
   lemmas for C13 (`parse_never_crashes`) -/
namespace RedisEmu


def PR.isCrash {α} : PR α → Bool
  | .crash _ => true
  | _ => false

theorem takeBulk_no_crash (n : Nat) (inp : Bytes) (pos : Nat) : (takeBulk n inp pos).isCrash = false := by
  unfold takeBulk
  split_ifs
  · rfl
  · dsimp only
    split <;> rfl

/-- the seven functions of the parser, at one fuel level -/
structure ParserSafe (fuel : Nat) : Prop where
  value : ∀ e inp pos, (parseValue fuel e inp pos).isCrash = false
  arr : ∀ n inp pos acc, (parseN fuel n inp pos acc).isCrash = false
  set : ∀ n inp pos acc, (parseNSet fuel n inp pos acc).isCrash = false
  map : ∀ n inp pos acc, (parseNMap fuel n inp pos acc).isCrash = false
  dyn : ∀ inp pos acc, (parseDyn fuel inp pos acc).isCrash = false
  dynMap : ∀ inp pos acc, (parseDynMap fuel inp pos acc).isCrash = false
  chunked : ∀ inp pos acc, (parseChunked fuel inp pos acc).isCrash = false

theorem parserSafe_zero : ParserSafe 0 := by
  constructor <;> intros <;> simp [parseValue, parseN, parseNSet, parseNMap, parseDyn, parseDynMap, parseChunked, PR.isCrash]


macro "pr_close" : tactic => `(tactic| (first | rfl | (simp_all [PR.isCrash]; done)))

theorem arr_step (fuel : Nat) (h : ParserSafe fuel) : ∀ n inp pos acc, (parseN (fuel + 1) n inp pos acc).isCrash = false := by
  intro n inp pos acc
  unfold parseN
  cases n with
  | zero => rfl
  | succ n =>
    simp only
    have hv := h.value false inp pos
    split
    · exact h.arr _ _ _ _
    · rfl
    · rename_i s heq; rw [heq] at hv; cases hv

theorem set_step (fuel : Nat) (h : ParserSafe fuel) : ∀ n inp pos acc, (parseNSet (fuel + 1) n inp pos acc).isCrash = false := by
  intro n inp pos acc
  unfold parseNSet
  cases n with
  | zero => rfl
  | succ n =>
    simp only
    have hv := h.value false inp pos
    split
    · split_ifs
      · rfl
      · exact h.set _ _ _ _
    · rfl
    · rename_i s heq; rw [heq] at hv; cases hv

theorem map_step (fuel : Nat) (h : ParserSafe fuel) : ∀ n inp pos acc, (parseNMap (fuel + 1) n inp pos acc).isCrash = false := by
  intro n inp pos acc
  unfold parseNMap
  cases n with
  | zero => rfl
  | succ n =>
    simp only
    have hv := h.value false inp pos
    split
    · rename_i k r p heq
      have hv2 := h.value false r p
      split
      · split_ifs
        · rfl
        · exact h.map _ _ _ _
      · rfl
      · rename_i s heq2; rw [heq2] at hv2; cases hv2
    · rfl
    · rename_i s heq; rw [heq] at hv; cases hv

theorem dyn_step (fuel : Nat) (h : ParserSafe fuel) : ∀ inp pos acc, (parseDyn (fuel + 1) inp pos acc).isCrash = false := by
  intro inp pos acc
  unfold parseDyn
  have hv := h.value true inp pos
  split
  · rfl
  · exact h.dyn _ _ _
  · rfl
  · rename_i s heq; rw [heq] at hv; cases hv

theorem dynMap_step (fuel : Nat) (h : ParserSafe fuel) : ∀ inp pos acc, (parseDynMap (fuel + 1) inp pos acc).isCrash = false := by
  intro inp pos acc
  unfold parseDynMap
  have hv := h.value true inp pos
  split
  · rfl
  · rename_i k r p _ heq
    have hv2 := h.value false r p
    simp only
    split
    · split_ifs
      · rfl
      · exact h.dynMap _ _ _
    · rfl
    · rename_i s heq2; rw [heq2] at hv2; cases hv2
  · rfl
  · rename_i s heq; rw [heq] at hv; cases hv

theorem chunked_step (fuel : Nat) (h : ParserSafe fuel) : ∀ inp pos acc, (parseChunked (fuel + 1) inp pos acc).isCrash = false := by
  intro inp pos acc
  unfold parseChunked
  split
  · rfl
  · simp only
    split
    · split
      · rfl
      · split_ifs
        · rfl
        · rfl
        · split
          · exact h.chunked _ _ _
          · rfl
          · rename_i s heq
            have ht := takeBulk_no_crash _ _ _ ▸ (congrArg PR.isCrash heq)
            cases ht
    · rfl


theorem crash_absurd {α} {x : PR α} {s : String} (h : x.isCrash = false) (e : x = .crash s) : False := by
  rw [e] at h; cases h

theorem ite_eq_false_of (c : Prop) [Decidable c] (a b : Bool) (ha : c → a = false) (hb : ¬c → b = false) :
    (if c then a else b) = false := by
  by_cases h : c
  · rw [if_pos h]; exact ha h
  · rw [if_neg h]; exact hb h

theorem value_step (fuel : Nat) (h : ParserSafe fuel) : ∀ e inp pos, (parseValue (fuel + 1) e inp pos).isCrash = false := by
  intro e inp pos
  unfold parseValue
  simp only [makeCrashes, Bool.false_eq_true, if_false]
  split
  · rfl
  · split
    · rfl
    · simp only [apply_ite PR.isCrash]
      repeat' (first
        | rfl
        | (rename_i s heq; exact (crash_absurd (h.arr _ _ _ _) heq).elim)
        | (rename_i s heq; exact (crash_absurd (h.set _ _ _ _) heq).elim)
        | (rename_i s heq; exact (crash_absurd (h.map _ _ _ _) heq).elim)
        | (rename_i s heq; exact (crash_absurd (h.dyn _ _ _) heq).elim)
        | (rename_i s heq; exact (crash_absurd (h.dynMap _ _ _) heq).elim)
        | (rename_i s heq; exact (crash_absurd (h.chunked _ _ _) heq).elim)
        | (rename_i s heq; exact (crash_absurd (takeBulk_no_crash _ _ _) heq).elim)
        | (rename_i s heq; exact (crash_absurd (h.value _ _ _) heq).elim)
        | exact h.chunked _ _ _
        | refine ite_eq_false_of _ _ _ (fun _ => ?_) (fun _ => ?_)
        | split)


theorem parserSafe_all : ∀ fuel, ParserSafe fuel := by
  intro fuel
  induction fuel with
  | zero => exact parserSafe_zero
  | succ n ih =>
    exact ⟨value_step n ih, arr_step n ih, set_step n ih, map_step n ih, dyn_step n ih, dynMap_step n ih, chunked_step n ih⟩


end RedisEmu
