import RedisEmu.Proofs.GoArithBase
import Mathlib.Tactic.SplitIfs
/- theorems about the translated Go definitions (Hash); see Proofs/GoArithBase.lean for the header -/
namespace RedisEmu

/-- the overflow guard of `fieldAddInt` (HINCRBY) as it stands in the Go source is the model's `goAddOverflow` -/
theorem go_fieldAddIntOverflowGuard (v d : BitVec 64) :
    Go.fieldAddIntOverflowGuard v d = goAddOverflow v.toInt d.toInt := by
  have ha := BitVec.toInt_lt (x := v); have ha' := BitVec.le_toInt (x := v)
  have hb := BitVec.toInt_lt (x := d); have hb' := BitVec.le_toInt (x := d)
  unfold Go.fieldAddIntOverflowGuard goAddOverflow wrap64 twoP63 twoP64
  simp only [BitVec.slt, BitVec.toInt_add, Int.bmod_def]
  simp at *
  split_ifs <;> omega

end RedisEmu
