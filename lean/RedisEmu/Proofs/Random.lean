import RedisEmu.Random
/-
  Lemmas about the random selection model (`RedisEmu.Random`): whatever the random source delivers,
  the drawn buckets are occupied, `pickUnique` never takes a bucket twice and takes min(count, items)
  of them, and the keys found there are members — distinct ones when the table holds every member once.
-/
namespace RedisEmu

theorem nodup_reverse' (l : List Nat) (h : l.Nodup) : l.reverse.Nodup := by
  unfold List.Nodup at *
  rw [List.pairwise_reverse]
  exact h.imp (fun hab => fun e => hab e.symm)

theorem drawAny_spec (bs : Buckets) : ∀ (rs : List Nat) (i : Nat) (rs' : List Nat),
    drawAny bs rs = some (i, rs') → bs.occupied i = true := by
  intro rs
  induction rs with
  | nil => intro i rs' h; simp [drawAny] at h
  | cons r rs ih =>
    intro i rs' h
    unfold drawAny at h
    split at h
    · rename_i ho
      simp only [Option.some.injEq, Prod.mk.injEq] at h
      rw [← h.1]; exact ho
    · exact ih i rs' h

theorem pickRandom_spec (bs : Buckets) : ∀ (n : Nat) (rs : List Nat) (is : List Nat),
    pickRandom bs n rs = some is → is.length = n ∧ ∀ i ∈ is, bs.occupied i = true := by
  intro n
  induction n with
  | zero => intro rs is h; simp [pickRandom] at h; subst h; simp
  | succ n ih =>
    intro rs is h
    unfold pickRandom at h
    split at h
    · cases h
    · rename_i i rs' hd
      cases hp : pickRandom bs n rs' with
      | none => simp [hp] at h
      | some tl =>
        simp only [hp, Option.map_some, Option.some.injEq] at h
        subst h
        have ⟨h1, h2⟩ := ih rs' tl hp
        refine ⟨by simp [h1], ?_⟩
        intro j hj
        rcases List.mem_cons.mp hj with e | e
        · subst e; exact drawAny_spec bs rs j rs' hd
        · exact h2 j e

theorem drawNew_spec (bs : Buckets) (taken : List Nat) : ∀ (rs : List Nat) (i : Nat) (rs' : List Nat),
    drawNew bs taken rs = some (i, rs') → bs.occupied i = true ∧ i ∉ taken := by
  intro rs
  induction rs with
  | nil => intro i rs' h; simp [drawNew] at h
  | cons r rs ih =>
    intro i rs' h
    unfold drawNew at h
    split at h
    · rename_i ho
      simp only [Option.some.injEq, Prod.mk.injEq] at h
      rw [← h.1]
      simp only [Bool.and_eq_true, Bool.not_eq_eq_eq_not, Bool.not_true] at ho
      refine ⟨ho.1, ?_⟩
      intro hm
      have : taken.contains (r % bs.length) = true := by simpa using hm
      rw [this] at ho; exact absurd ho.2 (by simp)
    · exact ih i rs' h

theorem pickUniqueFrom_spec (bs : Buckets) : ∀ (n : Nat) (taken rs is : List Nat),
    pickUniqueFrom bs n taken rs = some is → taken.Nodup → (∀ t ∈ taken, bs.occupied t = true) →
    is.length = taken.length + n ∧ is.Nodup ∧ ∀ i ∈ is, bs.occupied i = true := by
  intro n
  induction n with
  | zero =>
    intro taken rs is h hn ho
    simp only [pickUniqueFrom, Option.some.injEq] at h
    subst h
    refine ⟨by simp, (nodup_reverse' _ hn), ?_⟩
    intro i hi; exact ho i (List.mem_reverse.mp hi)
  | succ n ih =>
    intro taken rs is h hn ho
    unfold pickUniqueFrom at h
    split at h
    · cases h
    · rename_i i rs' hd
      have ⟨hocc, hnew⟩ := drawNew_spec bs taken rs i rs' hd
      have := ih (i :: taken) rs' is h (List.nodup_cons.mpr ⟨hnew, hn⟩)
        (by intro t ht; rcases List.mem_cons.mp ht with e | e
            · subst e; exact hocc
            · exact ho t e)
      refine ⟨by have := this.1; simp only [List.length_cons] at this; omega, this.2.1, this.2.2⟩

theorem pickUnique_spec (bs : Buckets) (count : Nat) (rs is : List Nat) (h : pickUnique bs count rs = some is) :
    is.length = min count bs.members.length ∧ is.Nodup ∧ ∀ i ∈ is, bs.occupied i = true := by
  have := pickUniqueFrom_spec bs _ [] rs is h List.nodup_nil (by simp)
  simpa using this

/-! ### from buckets to keys -/

theorem key_cons_zero (x : Option Bytes) (r : Buckets) : Buckets.key (x :: r) 0 = x := by
  simp [Buckets.key]

theorem key_cons_succ (x : Option Bytes) (r : Buckets) (i : Nat) : Buckets.key (x :: r) (i + 1) = Buckets.key r i := by
  simp [Buckets.key]

theorem members_cons_some (k : Bytes) (r : Buckets) : Buckets.members (some k :: r) = k :: Buckets.members r := by
  simp [Buckets.members]

theorem members_cons_none (r : Buckets) : Buckets.members (none :: r) = Buckets.members r := by
  simp [Buckets.members]

theorem key_mem : ∀ (bs : Buckets) (i : Nat) (k : Bytes), bs.key i = some k → k ∈ bs.members := by
  intro bs
  induction bs with
  | nil => intro i k h; simp [Buckets.key] at h
  | cons x r ih =>
    intro i k h
    cases i with
    | zero =>
      rw [key_cons_zero] at h; subst h
      rw [members_cons_some]; exact List.mem_cons_self
    | succ i' =>
      rw [key_cons_succ] at h
      have := ih i' k h
      cases x with
      | none => rw [members_cons_none]; exact this
      | some y => rw [members_cons_some]; exact List.mem_cons_of_mem _ this

theorem occupied_key (bs : Buckets) (i : Nat) (h : bs.occupied i = true) :
    ∃ k, bs.key i = some k ∧ k ∈ bs.members := by
  unfold Buckets.occupied at h
  cases hk : bs.key i with
  | none => rw [hk] at h; cases h
  | some k => exact ⟨k, rfl, key_mem bs i k hk⟩

theorem keysAt_cons (bs : Buckets) (i : Nat) (r : List Nat) (k : Bytes) (hk : bs.key i = some k) :
    keysAt bs (i :: r) = k :: keysAt bs r := by
  simp [keysAt, hk]

theorem keysAt_spec (bs : Buckets) : ∀ (is : List Nat), (∀ i ∈ is, bs.occupied i = true) →
    (keysAt bs is).length = is.length ∧ ∀ k ∈ keysAt bs is, k ∈ bs.members := by
  intro is
  induction is with
  | nil => intro _; simp [keysAt]
  | cons i r ih =>
    intro h
    obtain ⟨k, hk, hm⟩ := occupied_key bs i (h i List.mem_cons_self)
    have ⟨h1, h2⟩ := ih (fun j hj => h j (List.mem_cons_of_mem _ hj))
    rw [keysAt_cons bs i r k hk]
    refine ⟨by simp [h1], ?_⟩
    intro x hx
    rcases List.mem_cons.mp hx with e | e
    · subst e; exact hm
    · exact h2 x e

/-- the table holds every member in one bucket only: two different buckets have different keys -/
theorem key_inj : ∀ (bs : Buckets) (i j : Nat) (k : Bytes), bs.members.Nodup → i < j →
    bs.key i = some k → bs.key j = some k → False := by
  intro bs
  induction bs with
  | nil => intro i j k _ _ h; simp [Buckets.key] at h
  | cons x r ih =>
    intro i j k hn hij hi hj
    cases j with
    | zero => omega
    | succ j' =>
      rw [key_cons_succ] at hj
      have hmem : k ∈ Buckets.members r := key_mem r j' k hj
      cases i with
      | zero =>
        rw [key_cons_zero] at hi; subst hi
        rw [members_cons_some] at hn
        exact (List.nodup_cons.mp hn).1 hmem
      | succ i' =>
        rw [key_cons_succ] at hi
        have hn' : (Buckets.members r).Nodup := by
          cases x with
          | none => rw [members_cons_none] at hn; exact hn
          | some y => rw [members_cons_some] at hn; exact (List.nodup_cons.mp hn).2
        exact ih i' j' k hn' (by omega) hi hj

theorem keysAt_nodup (bs : Buckets) (hm : bs.members.Nodup) : ∀ (is : List Nat), is.Nodup →
    (∀ i ∈ is, bs.occupied i = true) → (keysAt bs is).Nodup := by
  intro is
  induction is with
  | nil => intro _ _; simp [keysAt]
  | cons i r ih =>
    intro hn ho
    obtain ⟨k, hk, _⟩ := occupied_key bs i (ho i List.mem_cons_self)
    have hr := ih (List.nodup_cons.mp hn).2 (fun j hj => ho j (List.mem_cons_of_mem _ hj))
    rw [keysAt_cons bs i r k hk]
    refine List.nodup_cons.mpr ⟨?_, hr⟩
    intro hin
    unfold keysAt at hin
    rw [List.mem_filterMap] at hin
    obtain ⟨j, hj, hjk⟩ := hin
    have hne : i ≠ j := fun e => (List.nodup_cons.mp hn).1 (e ▸ hj)
    rcases Nat.lt_or_gt_of_ne hne with hlt | hgt
    · exact key_inj bs i j k hm hlt hk hjk
    · exact key_inj bs j i k hm hgt hjk hk

theorem distinct_iff (l : List Bytes) : distinct l = true ↔ l.Nodup := by
  induction l with
  | nil => simp [distinct]
  | cons x r ih =>
    unfold distinct
    rw [List.nodup_cons, Bool.and_eq_true, ih]
    constructor
    · rintro ⟨h1, h2⟩
      refine ⟨?_, h2⟩
      intro hm
      have : r.contains x = true := by simpa using hm
      rw [this] at h1; cases h1
    · rintro ⟨h1, h2⟩
      refine ⟨?_, h2⟩
      cases hc : r.contains x with
      | false => rfl
      | true => exact absurd (by simpa using hc) h1

theorem mapM_bulkOf (ks : List Bytes) : (ks.map Value.bulk).mapM bulkOf = some ks := by
  induction ks with
  | nil => rfl
  | cons k r ih => simp [List.mapM_cons, bulkOf, ih]

/-- **SRANDMEMBER / HRANDFIELD, for every outcome of the random source.** On a table that holds every
    member once, whatever values `rand.Intn` delivers (`rs`), if the selection comes to an end the reply is:
    without a count one member; with a count n ≥ 0 an array of min(n, size) distinct members; with n < 0 an
    array of exactly |n| members. (`validateRandom` is also the predicate the correspondence run applies to
    every reply of the implementation.) -/
theorem random_reply_valid (bs : Buckets) (count : Option Int) (rs : List Nat) (v : Value)
    (hm : bs.members.Nodup) (h : randReply bs count rs = some v) :
    validateRandom bs.members count v = true := by
  unfold randReply at h
  cases count with
  | none =>
    simp only at h
    cases hp : pickRandom bs 1 rs with
    | none => simp [hp] at h
    | some is =>
      simp only [hp, Option.map_some, Option.some.injEq] at h
      have ⟨hl, ho⟩ := pickRandom_spec bs 1 rs is hp
      have ⟨kl, km⟩ := keysAt_spec bs is ho
      cases hk : keysAt bs is with
      | nil => rw [hk] at kl; simp at kl; omega
      | cons k r =>
        rw [hk] at h; subst h
        have : k ∈ bs.members := km k (by rw [hk]; exact List.mem_cons_self)
        simp [validateRandom, this]
  | some n =>
    simp only at h
    by_cases hneg : n < 0
    · simp only [hneg, ↓reduceIte] at h
      cases hp : pickRandom bs n.natAbs rs with
      | none => simp [hp] at h
      | some is =>
        simp only [hp, Option.map_some, Option.some.injEq] at h
        subst h
        have ⟨hl, ho⟩ := pickRandom_spec bs n.natAbs rs is hp
        have ⟨kl, km⟩ := keysAt_spec bs is ho
        have hge : ¬ (n ≥ 0) := by omega
        simp only [validateRandom, mapM_bulkOf, hge, ↓reduceIte, Bool.and_eq_true,
          List.all_eq_true, List.contains_iff_mem, beq_iff_eq]
        exact ⟨fun k hk => by simpa using km k hk, by rw [kl, hl]⟩
    · simp only [hneg, ↓reduceIte] at h
      cases hp : pickUnique bs n.toNat rs with
      | none => simp [hp] at h
      | some is =>
        simp only [hp, Option.map_some, Option.some.injEq] at h
        subst h
        have ⟨hl, hn, ho⟩ := pickUnique_spec bs n.toNat rs is hp
        have ⟨kl, km⟩ := keysAt_spec bs is ho
        have hnd := keysAt_nodup bs hm is hn ho
        have hge : n ≥ 0 := by omega
        simp only [validateRandom, mapM_bulkOf, hge, ↓reduceIte, Bool.and_eq_true,
          List.all_eq_true, beq_iff_eq]
        exact ⟨fun k hk => by simpa using km k hk, (distinct_iff _).mpr hnd, by rw [kl, hl]⟩

theorem contains_perm (a b : List Bytes) (h : a.Perm b) (k : Bytes) : a.contains k = b.contains k := by
  rw [Bool.eq_iff_iff]; simp [h.mem_iff]

/-- the predicate only looks at which members there are and how many -/
theorem validateRandom_perm (a b : List Bytes) (h : a.Perm b) (count : Option Int) (v : Value) :
    validateRandom a count v = validateRandom b count v := by
  have hc : ∀ l : List Bytes, l.all a.contains = l.all b.contains := by
    intro l; congr 1; funext k; exact contains_perm a b h k
  unfold validateRandom
  cases count with
  | none => cases v <;> simp [h.mem_iff]
  | some n =>
    cases v <;> try rfl
    rename_i xs
    simp only
    cases xs.mapM bulkOf with
    | none => rfl
    | some bs => simp only [hc, h.length_eq]

end RedisEmu
