import RedisEmu.Exec
/- helper lemmas about `State` (sessions and the database heap) -/
namespace RedisEmu

theorem find_map_update {α} (l : List (Nat × α)) (c : Nat) (x : α) (h : l.any (·.1 == c) = true) :
    ((l.map fun (p : Nat × α) => if p.1 == c then (p.1, x) else (p.1, p.2)).find? (·.1 == c)).map (·.2) = some x := by
  induction l with
  | nil => simp at h
  | cons p r ih =>
    obtain ⟨i, y⟩ := p
    by_cases hi : (i == c) = true
    · simp only [List.map_cons, hi, ↓reduceIte, List.find?_cons, Option.map_some]
    · have hi' : (i == c) = false := by simpa using hi
      have hr : r.any (·.1 == c) = true := by
        simp only [List.any_cons, hi', Bool.false_or] at h; exact h
      simp only [List.map_cons, hi', Bool.false_eq_true, ↓reduceIte, List.find?_cons]
      exact ih hr

theorem find_append_new {α} (l : List (Nat × α)) (c : Nat) (x : α) (h : l.any (·.1 == c) = false) :
    ((l ++ [(c, x)]).find? (·.1 == c)).map (·.2) = some x := by
  induction l with
  | nil => simp
  | cons p r ih =>
    obtain ⟨i, y⟩ := p
    have hi : (i == c) = false := by
      simp only [List.any_cons, Bool.or_eq_false_iff] at h; exact h.1
    have hr : r.any (·.1 == c) = false := by
      simp only [List.any_cons, Bool.or_eq_false_iff] at h; exact h.2
    simp only [List.cons_append, List.find?_cons, hi]
    exact ih hr

@[simp] theorem session_setSession (s : State) (c : Nat) (x : Session) : (s.setSession c x).session c = x := by
  unfold State.setSession State.session
  by_cases h : s.sessions.any (·.1 == c) = true
  · simp only [h, ↓reduceIte]
    rw [find_map_update s.sessions c x h]; rfl
  · have h' : s.sessions.any (·.1 == c) = false := Bool.eq_false_iff.mpr h
    simp only [h', Bool.false_eq_true, ↓reduceIte]
    rw [find_append_new s.sessions c x h']; rfl

@[simp] theorem heap_setSession (s : State) (c : Nat) (x : Session) : (s.setSession c x).heap = s.heap := by
  unfold State.setSession; rfl

@[simp] theorem table_setSession (s : State) (c : Nat) (x : Session) : (s.setSession c x).table = s.table := by
  unfold State.setSession; rfl

theorem find_map_update_ne {α} (l : List (Nat × α)) (c c' : Nat) (x : α) (h : (c == c') = false) :
    (l.map fun (p : Nat × α) => if p.1 == c then (p.1, x) else (p.1, p.2)).find? (·.1 == c') = l.find? (·.1 == c') := by
  induction l with
  | nil => rfl
  | cons p r ih =>
    obtain ⟨i, y⟩ := p
    by_cases hi : (i == c) = true
    · have e : i = c := by simpa using hi
      subst e
      simp only [List.map_cons, beq_self_eq_true, ↓reduceIte, List.find?_cons, h]
      exact ih
    · have hi' : (i == c) = false := by simpa using hi
      simp only [List.map_cons, hi', Bool.false_eq_true, ↓reduceIte, List.find?_cons]
      cases hic : (i == c') with
      | true => rfl
      | false => exact ih

theorem session_setSession_ne (s : State) (c c' : Nat) (x : Session) (h : (c == c') = false) :
    (s.setSession c x).session c' = s.session c' := by
  unfold State.setSession State.session
  by_cases ha : s.sessions.any (·.1 == c) = true
  · simp only [ha, ↓reduceIte]
    rw [find_map_update_ne s.sessions c c' x h]
  · have ha' : s.sessions.any (·.1 == c) = false := Bool.eq_false_iff.mpr ha
    simp only [ha', Bool.false_eq_true, ↓reduceIte]
    rw [List.find?_append]
    cases hf : s.sessions.find? (·.1 == c') with
    | some _ => simp
    | none => simp [List.find?, h]

/-! the database heap -/

theorem getDb_setDb_self (s : State) (r : Nat) (db : Db) : (s.setDb r db).getDb r = db := by
  unfold State.setDb State.getDb
  by_cases h : s.heap.any (·.1 == r) = true
  · simp only [h, ↓reduceIte]
    rw [find_map_update s.heap r db h]; rfl
  · have h' : s.heap.any (·.1 == r) = false := Bool.eq_false_iff.mpr h
    simp only [h', Bool.false_eq_true, ↓reduceIte]
    rw [find_append_new s.heap r db h']; rfl

theorem getDb_setDb_ne (s : State) (r r' : Nat) (db : Db) (h : (r == r') = false) :
    (s.setDb r db).getDb r' = s.getDb r' := by
  unfold State.setDb State.getDb
  by_cases ha : s.heap.any (·.1 == r) = true
  · simp only [ha, ↓reduceIte]
    rw [find_map_update_ne s.heap r r' db h]
  · have ha' : s.heap.any (·.1 == r) = false := Bool.eq_false_iff.mpr ha
    simp only [ha', Bool.false_eq_true, ↓reduceIte]
    rw [List.find?_append]
    cases hf : s.heap.find? (·.1 == r') with
    | some _ => simp
    | none => simp [List.find?, h]

@[simp] theorem sessions_setDb (s : State) (r : Nat) (db : Db) : (s.setDb r db).sessions = s.sessions := by
  unfold State.setDb; rfl

@[simp] theorem table_setDb (s : State) (r : Nat) (db : Db) : (s.setDb r db).table = s.table := by
  unfold State.setDb; rfl

theorem getDb_setSession (s : State) (c : Nat) (x : Session) (r : Nat) : (s.setSession c x).getDb r = s.getDb r := by
  simp [State.getDb]

theorem getDb_tableRef (s : State) (i r : Nat) : (s.tableRef i).1.getDb r = s.getDb r := by
  unfold State.tableRef
  split
  · rfl
  · simp only [State.getDb, List.find?_append]
    cases h : List.find? (fun x => x.1 == r) s.heap with
    | some p => simp
    | none =>
      simp only [Option.none_or, Option.map_none, Option.getD_none]
      simp only [List.find?_cons, List.find?_nil]
      split <;> rfl


theorem live_some_raw {db : Db} {now : Int} {k : Bytes} {e : Entry} (h : db.live now k = some e) :
    db.raw k = some e ∧ e.expired now = false := by
  unfold Db.live at h
  split at h
  · split at h
    · cases h
    · rename_i h1 h2
      cases h
      exact ⟨h1, by simpa using h2⟩
  · cases h


/-- one command of one connection, with the clock it saw -/
structure Ev where
  c : Ctx
  conn : Nat
  ref : Nat
  inMulti : Bool
  cmd : Cmd


/-- any history: commands of any connections on any databases, in the order the store lock admits them
    (the body of somebody's EXEC is such a run of commands too) -/
def runEvents : State → List Ev → State
  | s, [] => s
  | s, e :: r => runEvents (runCmd e.c s e.conn e.ref e.inMulti e.cmd).st r


/-- commands that work on the session, the database table or nothing at all (everything else goes
    through `onDb` on the connection's database) -/
def Cmd.isSession : Cmd → Bool
  | .select _ | .flushdb | .flushall | .multi | .exec | .discard | .watch _ | .unwatch
  | .ping _ | .echo _ | .quit | .hello _ | .clientId | .clientGetname | .clientSetname _
  | .clientInfo | .clientList | .dbsize | .opaque _ => true
  | _ => false


end RedisEmu
