import RedisEmu.Resp
import RedisEmu.Proofs.Codec
import Mathlib.Tactic.SplitIfs
/- lemmas for the framing theorems of C01: what the parser makes of an incomplete command -/
namespace RedisEmu

/-- a line without CR whose terminating CR LF has not completely arrived: no line yet -/
theorem splitLine_incomplete (l : Bytes) (h : ∀ c ∈ l, c ≠ 13) :
    ∀ (p c' : Bytes), p ++ c' = l ++ [13, 10] → c' ≠ [] → splitLine p = none := by
  induction l with
  | nil =>
    intro p c' hp hc
    cases p with
    | nil => rfl
    | cons a p1 =>
      cases p1 with
      | nil => rfl
      | cons b r =>
        -- then p is already as long as the whole and c' must be empty
        have hl := congrArg List.length hp
        simp only [List.length_append, List.length_cons, List.length_nil] at hl
        exact absurd (List.eq_nil_of_length_eq_zero (by omega)) hc
  | cons x l' ih =>
    intro p c' hp hc
    cases p with
    | nil => rfl
    | cons a p1 =>
      simp only [List.cons_append, List.cons.injEq] at hp
      obtain ⟨hax, hp1⟩ := hp
      have hx : x ≠ 13 := h x List.mem_cons_self
      have ih' := ih (fun c hc' => h c (List.mem_cons_of_mem _ hc')) p1 c' hp1 hc
      cases p1 with
      | nil => rfl
      | cons b r =>
        simp only [splitLine]
        have : (a == 13 && b == 10) = false := by simp [hax, hx]
        rw [this]
        simp only [Bool.false_eq_true, ↓reduceIte, ih']

end RedisEmu
