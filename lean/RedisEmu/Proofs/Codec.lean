import RedisEmu.Resp
import Mathlib.Tactic.SplitIfs
/- lemmas about decimal rendering and line splitting used by the C01 / C13 theorems (core only) -/
namespace RedisEmu

theorem digitsVal_append (a b : Bytes) (acc : Nat) : digitsVal (a ++ b) acc = digitsVal b (digitsVal a acc) := by
  induction a generalizing acc with
  | nil => rfl
  | cons c cs ih => simp [digitsVal, ih]

theorem digit_byte (d : Nat) (h : d < 10) :
    ((48 + d).toUInt8).toNat - 48 = d ∧ isDigit (48 + d).toUInt8 = true ∧ (48 + d).toUInt8 ≠ 13 ∧
    (48 + d).toUInt8 ≠ 45 ∧ (48 + d).toUInt8 ≠ 43 := by
  have : d = 0 ∨ d = 1 ∨ d = 2 ∨ d = 3 ∨ d = 4 ∨ d = 5 ∨ d = 6 ∨ d = 7 ∨ d = 8 ∨ d = 9 := by omega
  rcases this with h | h | h | h | h | h | h | h | h | h <;> subst h <;> decide

/-- the digit string reads back as the number, consists of digits only, and is not empty -/
theorem natDigitsAux_spec : ∀ (fuel n : Nat) (acc : Bytes), n < fuel →
    (∀ c ∈ acc, isDigit c = true ∧ c ≠ 13) →
    digitsVal (natDigitsAux fuel n acc) 0 = n * 10 ^ acc.length + digitsVal acc 0 ∧
    (∀ c ∈ natDigitsAux fuel n acc, isDigit c = true ∧ c ≠ 13) ∧
    natDigitsAux fuel n acc ≠ [] ∧
    (∀ h : natDigitsAux fuel n acc ≠ [], (natDigitsAux fuel n acc).head h ≠ 45 ∧ (natDigitsAux fuel n acc).head h ≠ 43) := by
  intro fuel
  induction fuel with
  | zero => intro n acc h; omega
  | succ fuel ih =>
    intro n acc hn hacc
    have hd := digit_byte (n % 10) (Nat.mod_lt _ (by omega))
    unfold natDigitsAux
    simp only
    have hacc' : ∀ c ∈ (48 + n % 10).toUInt8 :: acc, isDigit c = true ∧ c ≠ 13 := by
      intro c hc
      rcases List.mem_cons.mp hc with e | e
      · subst e; exact ⟨hd.2.1, hd.2.2.1⟩
      · exact hacc c e
    -- value of a digit list with one more leading digit
    have hval : ∀ (d : UInt8) (l : Bytes), digitsVal (d :: l) 0 = (d.toNat - 48) * 10 ^ l.length + digitsVal l 0 := by
      intro d l
      have : ∀ (l : Bytes) (a : Nat), digitsVal l a = a * 10 ^ l.length + digitsVal l 0 := by
        intro l
        induction l with
        | nil => intro a; simp [digitsVal]
        | cons c cs ihl =>
          intro a
          simp only [digitsVal, List.length_cons]
          rw [ihl (a * 10 + (c.toNat - 48)), ihl (0 * 10 + (c.toNat - 48)), Nat.pow_succ]
          simp only [Nat.zero_mul, Nat.zero_add]
          rw [Nat.add_mul, Nat.mul_assoc, Nat.mul_comm 10]
          omega
      simp only [digitsVal, Nat.zero_mul, Nat.zero_add]
      exact this l _
    split_ifs with hlt
    · refine ⟨?_, hacc', by simp, ?_⟩
      · rw [hval, hd.1, Nat.mod_eq_of_lt hlt]
      · intro _; simp only [List.head_cons]; exact ⟨hd.2.2.2.1, hd.2.2.2.2⟩
    · have hrec := ih (n / 10) ((48 + n % 10).toUInt8 :: acc) (by omega) hacc'
      refine ⟨?_, hrec.2.1, hrec.2.2.1, hrec.2.2.2⟩
      rw [hrec.1, hval, hd.1]
      simp only [List.length_cons, Nat.pow_succ]
      have := Nat.div_add_mod n 10
      calc n / 10 * (10 ^ acc.length * 10) + (n % 10 * 10 ^ acc.length + digitsVal acc 0)
          = (10 * (n / 10) + n % 10) * 10 ^ acc.length + digitsVal acc 0 := by
            rw [Nat.add_mul, Nat.mul_assoc 10, Nat.mul_comm 10 (n / 10 * _), Nat.mul_assoc]; omega
        _ = n * 10 ^ acc.length + digitsVal acc 0 := by rw [this]

theorem natDigits_spec (n : Nat) :
    digitsVal (natDigits n) 0 = n ∧ (∀ c ∈ natDigits n, isDigit c = true ∧ c ≠ 13) ∧ natDigits n ≠ [] ∧
    (∀ h : natDigits n ≠ [], (natDigits n).head h ≠ 45 ∧ (natDigits n).head h ≠ 43) := by
  have := natDigitsAux_spec (n + 1) n [] (by omega) (by simp)
  unfold natDigits
  simpa [digitsVal] using this

/-- Go's `ParseInt` reads back what `%d` printed -/
theorem parseInt64_natDigits (n : Nat) (h : n < 2 ^ 63) : parseInt64 (natDigits n) = some (n : Int) := by
  obtain ⟨hv, hall, hne, hhead⟩ := natDigits_spec n
  unfold parseInt64 parseDec
  cases hl : natDigits n with
  | nil => exact absurd hl hne
  | cons c cs =>
    have hh := hhead hne
    simp only [hl, List.head_cons] at hh
    have hc1 : (c == 45) = false := by simp [hh.1]
    have hc2 : (c == 43) = false := by simp [hh.2]
    have hall' : (c :: cs).all isDigit = true := by
      rw [List.all_eq_true]; intro x hx; exact (hall x (by rw [hl]; exact hx)).1
    have hvv : digitsVal (c :: cs) 0 = n := by rw [← hl]; exact hv
    simp only [hc1, hc2, Bool.false_eq_true, ↓reduceIte, hall', Bool.not_true, hvv]
    have : inRange64 (n : Int) = true := by
      unfold inRange64 twoP63
      simp only [Bool.and_eq_true, decide_eq_true_eq]
      have : (2:Nat)^63 = 9223372036854775808 := by decide
      omega
    simp [this]

/-- a line without CR, followed by CR LF: `splitLine` cuts exactly there -/
theorem splitLine_line (l rest : Bytes) (h : ∀ c ∈ l, c ≠ 13) :
    splitLine (l ++ 13 :: 10 :: rest) = some (l, rest) := by
  induction l with
  | nil => simp [splitLine]
  | cons c cs ih =>
    have hc : c ≠ 13 := h c List.mem_cons_self
    have hcs : ∀ x ∈ cs, x ≠ 13 := fun x hx => h x (List.mem_cons_of_mem _ hx)
    have hne : ∃ y ys, cs ++ 13 :: 10 :: rest = y :: ys := by
      cases cs with
      | nil => exact ⟨13, 10 :: rest, rfl⟩
      | cons y ys => exact ⟨y, ys ++ 13 :: 10 :: rest, rfl⟩
    obtain ⟨y, ys, hy⟩ := hne
    simp only [List.cons_append, hy, splitLine]
    have : (c == 13 && y == 10) = false := by simp [hc]
    rw [this]
    simp only [Bool.false_eq_true, ↓reduceIte]
    rw [← hy, ih hcs]

end RedisEmu
