import RedisEmu.Base
/- helper lemmas about the association-list primitives (core Lean only) -/
namespace RedisEmu

variable {α : Type}

theorem beq_bytes_refl (k : Bytes) : (k == k) = true := by simp

@[simp] theorem alookup_ainsert_self (k : Bytes) (v : α) (l : List (Bytes × α)) :
    alookup k (ainsert k v l) = some v := by
  induction l with
  | nil => simp [ainsert, alookup]
  | cons p r ih =>
    obtain ⟨k', v'⟩ := p
    by_cases h : (k' == k) = true
    · simp [ainsert, alookup, h]
    · simp [ainsert, alookup, h, ih]

theorem alookup_ainsert_ne (k k' : Bytes) (v : α) (l : List (Bytes × α)) (h : (k == k') = false) :
    alookup k' (ainsert k v l) = alookup k' l := by
  induction l with
  | nil =>
    simp [ainsert, alookup, h]
  | cons p r ih =>
    obtain ⟨k2, v2⟩ := p
    by_cases h2 : (k2 == k) = true
    · have e : k2 = k := by simpa using h2
      subst e
      simp [ainsert, alookup, h]
    · by_cases h3 : (k2 == k') = true
      · simp [ainsert, alookup, h2, h3]
      · simp [ainsert, alookup, h2, h3, ih]

@[simp] theorem alookup_aerase_self_of_unique (k : Bytes) (l : List (Bytes × α))
    (hu : (l.map (·.1)).Nodup) : alookup k (aerase k l) = none := by
  induction l with
  | nil => simp [aerase, alookup]
  | cons p r ih =>
    obtain ⟨k', v'⟩ := p
    simp only [List.map_cons, List.nodup_cons] at hu
    by_cases h : (k' == k) = true
    · have e : k' = k := by simpa using h
      subst e
      simp only [aerase, beq_self_eq_true, ↓reduceIte]
      -- k' is not among the remaining keys
      have : ∀ (r : List (Bytes × α)), k' ∉ r.map (·.1) → alookup k' r = none := by
        intro r
        induction r with
        | nil => intro _; rfl
        | cons q t iht =>
          intro hq
          obtain ⟨k3, v3⟩ := q
          simp only [List.map_cons, List.mem_cons, not_or] at hq
          have : (k3 == k') = false := by
            simp only [beq_eq_false_iff_ne, ne_eq]
            exact fun e => hq.1 e.symm
          simp [alookup, this, iht hq.2]
      exact this r hu.1
    · simp [aerase, alookup, h, ih hu.2]

theorem alookup_aerase_ne (k k' : Bytes) (l : List (Bytes × α)) (h : (k == k') = false) :
    alookup k' (aerase k l) = alookup k' l := by
  induction l with
  | nil => simp [aerase, alookup]
  | cons p r ih =>
    obtain ⟨k2, v2⟩ := p
    by_cases h2 : (k2 == k) = true
    · have e : k2 = k := by simpa using h2
      subst e
      simp [aerase, alookup, h]
    · by_cases h3 : (k2 == k') = true
      · simp [aerase, alookup, h2, h3]
      · simp [aerase, alookup, h2, h3, ih]

theorem ainsert_keys_nodup (k : Bytes) (v : α) (l : List (Bytes × α)) (hu : (l.map (·.1)).Nodup) :
    ((ainsert k v l).map (·.1)).Nodup := by
  induction l with
  | nil => simp [ainsert]
  | cons p r ih =>
    obtain ⟨k', v'⟩ := p
    simp only [List.map_cons, List.nodup_cons] at hu
    by_cases h : (k' == k) = true
    · have e : k' = k := by simpa using h
      subst e
      simp only [ainsert, beq_self_eq_true, ↓reduceIte, List.map_cons, List.nodup_cons]
      exact hu
    · simp only [ainsert, h, Bool.false_eq_true, ↓reduceIte, List.map_cons, List.nodup_cons]
      refine ⟨?_, ih hu.2⟩
      -- k' is not a key of the updated tail
      have hk : ∀ (t : List (Bytes × α)), k' ∉ t.map (·.1) → k' ∉ (ainsert k v t).map (·.1) := by
        intro t
        induction t with
        | nil =>
          intro _
          simp only [ainsert, List.map_cons, List.map_nil, List.mem_singleton]
          intro e; subst e; simp at h
        | cons q t iht =>
          intro hq
          obtain ⟨k3, v3⟩ := q
          simp only [List.map_cons, List.mem_cons, not_or] at hq
          by_cases h4 : (k3 == k) = true
          · have e4 : k3 = k := by simpa using h4
            subst e4
            simp only [ainsert, beq_self_eq_true, ↓reduceIte, List.map_cons, List.mem_cons, not_or]
            exact hq
          · simp only [ainsert, h4, Bool.false_eq_true, ↓reduceIte, List.map_cons, List.mem_cons, not_or]
            exact ⟨hq.1, iht hq.2⟩
      exact hk r hu.1

theorem aerase_keys_nodup (k : Bytes) (l : List (Bytes × α)) (hu : (l.map (·.1)).Nodup) :
    ((aerase k l).map (·.1)).Nodup := by
  induction l with
  | nil => simp [aerase]
  | cons p r ih =>
    obtain ⟨k', v'⟩ := p
    simp only [List.map_cons, List.nodup_cons] at hu
    by_cases h : (k' == k) = true
    · simp only [aerase, h, ↓reduceIte]; exact hu.2
    · simp only [aerase, h, Bool.false_eq_true, ↓reduceIte, List.map_cons, List.nodup_cons]
      refine ⟨?_, ih hu.2⟩
      intro hm
      apply hu.1
      -- keys of the erased list are keys of the list
      have sub : ∀ (t : List (Bytes × α)) (x : Bytes), x ∈ (aerase k t).map (·.1) → x ∈ t.map (·.1) := by
        intro t
        induction t with
        | nil => intro x hx; simp [aerase] at hx
        | cons q t iht =>
          intro x hx
          obtain ⟨k3, v3⟩ := q
          by_cases h4 : (k3 == k) = true
          · simp only [aerase, h4, ↓reduceIte] at hx
            simp only [List.map_cons, List.mem_cons]; exact Or.inr hx
          · simp only [aerase, h4, Bool.false_eq_true, ↓reduceIte, List.map_cons, List.mem_cons] at hx
            simp only [List.map_cons, List.mem_cons]
            rcases hx with e | hx
            · exact Or.inl e
            · exact Or.inr (iht x hx)
      exact sub r k' hm

theorem mem_of_alookup  (k : Bytes) (l : List (Bytes × α)) (v : α) (h : alookup k l = some v) :
    (k, v) ∈ l := by
  induction l with
  | nil => simp [alookup] at h
  | cons q r ih =>
    obtain ⟨k', v'⟩ := q
    by_cases hk : (k' == k) = true
    · have e : k' = k := by simpa using hk
      simp only [alookup, hk, ↓reduceIte, Option.some.injEq] at h
      subst e; subst h; exact List.mem_cons_self
    · simp only [alookup, hk, Bool.false_eq_true, ↓reduceIte] at h
      exact List.mem_cons_of_mem _ (ih h)


theorem alookup_of_mem_nodup  (l : List (Bytes × α)) (p : Bytes × α) (hp : p ∈ l) (hu : (l.map (·.1)).Nodup) :
    alookup p.1 l = some p.2 := by
  induction l with
  | nil => cases hp
  | cons q r ih =>
    obtain ⟨k', v'⟩ := q
    simp only [List.map_cons, List.nodup_cons] at hu
    rcases List.mem_cons.mp hp with e | hm
    · subst e; simp [alookup]
    · have hne : (k' == p.1) = false := by
        cases hk : k' == p.1 with
        | false => rfl
        | true =>
          have : k' = p.1 := by simpa using hk
          exact absurd (List.mem_map.mpr ⟨p, hm, this.symm⟩) hu.1
      simp only [alookup, hne, Bool.false_eq_true, ↓reduceIte]
      exact ih hm hu.2


end RedisEmu
