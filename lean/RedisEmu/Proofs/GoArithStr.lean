import RedisEmu.Proofs.GoArithBase
import Mathlib.Tactic.IntervalCases
/- theorems about the translated Go definitions (Str); see Proofs/GoArithBase.lean for the header -/
namespace RedisEmu

/-- the overflow guard of `addInt` (INCR / DECR / INCRBY / DECRBY) as it stands in the Go source is the
    model's `goAddOverflow` — which `addInt_overflow_iff` (C02) shows to be "the true sum leaves int64" -/
theorem go_addIntOverflowGuard (v d : BitVec 64) :
    Go.addIntOverflowGuard v d = goAddOverflow v.toInt d.toInt := by
  have ha := BitVec.toInt_lt (x := v); have ha' := BitVec.le_toInt (x := v)
  have hb := BitVec.toInt_lt (x := d); have hb' := BitVec.le_toInt (x := d)
  unfold Go.addIntOverflowGuard goAddOverflow wrap64 twoP63 twoP64
  simp only [BitVec.slt, BitVec.toInt_add, Int.bmod_def]
  simp at *
  split_ifs <;> omega

/-- the index arithmetic of GETRANGE / SUBSTR as `fnGetRange` has it now is the model's `getRangeBounds`, for
    every pair of int64 offsets and every string length -/
theorem go_getRangeClamp (s e n : BitVec 64) (hn : 0 ≤ n.toInt) :
    ((Go.getRangeClamp s e n).1.toInt, (Go.getRangeClamp s e n).2.toInt) = getRangeBounds n.toInt s.toInt e.toInt := by
  have hs := BitVec.toInt_lt (x := s); have hs' := BitVec.le_toInt (x := s)
  have he := BitVec.toInt_lt (x := e); have he' := BitVec.le_toInt (x := e)
  have hn2 := BitVec.toInt_lt (x := n)
  simp at hs hs' he he' hn2
  -- the four assignments, one after the other
  generalize hS1 : (if BitVec.slt s 0#64 then n + s else s) = S1
  generalize hE1 : (if BitVec.slt e 0#64 then n + e else e) = E1
  have vS1 : S1.toInt = if s.toInt < 0 then n.toInt + s.toInt else s.toInt := by
    rw [← hS1]; simp only [BitVec.slt]; simp
    split_ifs
    · exact toInt_add_small n s (by omega) (by omega)
    · rfl
  have vE1 : E1.toInt = if e.toInt < 0 then n.toInt + e.toInt else e.toInt := by
    rw [← hE1]; simp only [BitVec.slt]; simp
    split_ifs
    · exact toInt_add_small n e (by omega) (by omega)
    · rfl
  generalize hS2 : (if BitVec.slt S1 0#64 then 0#64 else (if BitVec.slt n S1 then n else S1)) = S2
  have vS2 : S2.toInt = if S1.toInt < 0 then 0 else (if n.toInt < S1.toInt then n.toInt else S1.toInt) := by
    rw [← hS2]; simp only [BitVec.slt]; simp
    split_ifs <;> simp
  generalize hE2 : (if BitVec.slt E1 S2 then S2 - 1#64 else (if BitVec.sle n E1 then n - 1#64 else E1)) = E2
  have vE2 : E2.toInt = if E1.toInt < S2.toInt then S2.toInt - 1 else (if n.toInt ≤ E1.toInt then n.toInt - 1 else E1.toInt) := by
    rw [← hE2]; simp only [BitVec.slt, BitVec.sle]; simp
    have hS2nn : 0 ≤ S2.toInt := by rw [vS2]; split_ifs <;> omega
    split_ifs
    · exact toInt_sub_one S2 (by omega)
    · exact toInt_sub_one n (by omega)
    · rfl
  have hdef : Go.getRangeClamp s e n = (S2, E2) := by
    unfold Go.getRangeClamp
    simp only [hS1, hE1, hS2, hE2]
  rw [hdef]
  unfold getRangeBounds
  simp only [vS2, vE2, vS1, vE1]

/-- the size test of SETRANGE as coded = the model's (`cmdSetRange`), for every int64 offset and every length a string
    can have: the wrapped sum `offset + len` is the true sum whenever the first test has not fired already -/
theorem go_setrangeSizeGuard (o l : BitVec 64) (hl : 0 ≤ l.toInt) (hl2 : l.toInt < 4611686018427387904) :
    Go.setrangeSizeGuard o l = (decide (o.toInt > hugeAlloc) || decide (o.toInt + l.toInt > hugeAlloc)) := by
  unfold Go.setrangeSizeGuard hugeAlloc
  have ho := BitVec.le_toInt (x := o); have ho' := BitVec.toInt_lt (x := o)
  simp at ho ho'
  have h5 : (536870912#64).toInt = 536870912 := by decide
  simp only [BitVec.slt, h5]
  by_cases h : 536870912 < o.toInt
  · simp [h]
  · have := toInt_add_small o l (by omega) (by omega)
    simp [h, this]

end RedisEmu
