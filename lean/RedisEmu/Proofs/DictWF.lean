import RedisEmu.Dict
import RedisEmu.Proofs.Rev
import Mathlib.Tactic.SplitIfs
/- the bucket table keeps its shape and its content under `store`, `remove` and `rehash` -/
namespace RedisEmu

/-- contents of slot `i` of a raw bucket array -/
def slotOf (bs : Array (Option Item)) (i : Nat) : Option Item := (bs[i]?).join

theorem Dict.slot_eq (d : Dict) (i : Nat) : d.slot i = slotOf d.buckets i := rfl

theorem slotOf_set (bs : Array (Option Item)) (j i : Nat) (v : Option Item) :
    slotOf (bs.setIfInBounds j v) i = if j = i ∧ j < bs.size then v else slotOf bs i := by
  unfold slotOf
  rw [Array.getElem?_setIfInBounds]
  by_cases h : j = i
  · subst h
    by_cases h2 : j < bs.size
    · simp [h2]
    · have : bs[j]? = none := by
        apply Array.getElem?_eq_none; omega
      simp [h2]
  · simp [h]

theorem slotOf_replicate (n i : Nat) : slotOf (Array.replicate n none) i = none := by
  unfold slotOf
  rw [Array.getElem?_replicate]
  split_ifs <;> rfl

theorem slotOf_some_lt (bs : Array (Option Item)) (i : Nat) (it : Item) (h : slotOf bs i = some it) :
    i < bs.size := by
  unfold slotOf at h
  by_cases hi : i < bs.size
  · exact hi
  · have : bs[i]? = none := Array.getElem?_eq_none (by omega)
    rw [this] at h; cases h

theorem bucketOf_lt (k h : Nat) : bucketOf k h < 2 ^ k := by
  unfold bucketOf; exact rev_lt k _

theorem bucketOf_rev (k h : Nat) : bucketOf k h = rev k h := by
  unfold bucketOf; exact rev_mod k h

/-- the bucket in a smaller table is a prefix of the bucket in a larger one -/
theorem bucketOf_shrink (k d h : Nat) : bucketOf k h = bucketOf (k + d) h / 2 ^ d := by
  rw [bucketOf_rev, bucketOf_rev]; exact rev_shrink k d h

/-- the fold of `rehash`, step by step -/
def rehashStep (k' : Nat) (acc : Array (Option Item)) (o : Option Item) : Array (Option Item) :=
  match o with
  | some it => acc.setIfInBounds (bucketOf k' it.hash) (some it)
  | none => acc

theorem rehash_eq (d : Dict) (k' : Nat) :
    rehash d k' = { d with k := k', buckets := d.buckets.foldl (rehashStep k') (Array.replicate (2 ^ k') none) } := by
  unfold rehash rehashStep
  rfl

theorem rehashStep_size (k' : Nat) (acc : Array (Option Item)) (o : Option Item) :
    (rehashStep k' acc o).size = acc.size := by
  unfold rehashStep; cases o <;> simp

/-- shape after `rehash`: the right size, and every item in the bucket of its hash -/
theorem rehash_shape (d : Dict) (k' : Nat) :
    (rehash d k').buckets.size = 2 ^ k' ∧
    ∀ i it, slotOf (rehash d k').buckets i = some it → bucketOf k' it.hash = i := by
  rw [rehash_eq]
  simp only
  refine Array.foldl_induction
    (motive := fun _ (acc : Array (Option Item)) => acc.size = 2 ^ k' ∧ ∀ i it, slotOf acc i = some it → bucketOf k' it.hash = i)
    ?_ ?_
  · refine ⟨by simp, ?_⟩
    intro i it h
    rw [slotOf_replicate] at h; cases h
  · intro i acc ⟨hs, hp⟩
    refine ⟨by rw [rehashStep_size]; exact hs, ?_⟩
    intro j it hj
    unfold rehashStep at hj
    cases ho : d.buckets[i] with
    | none => rw [ho] at hj; exact hp j it hj
    | some x =>
      rw [ho] at hj
      simp only at hj
      rw [slotOf_set] at hj
      split_ifs at hj with hc
      · cases hj; exact hc.1
      · exact hp j it hj

/-- distinct occupied slots go to distinct buckets of a table of size `2^k'` -/
def Sep (k' : Nat) (bs : Array (Option Item)) : Prop :=
  ∀ i j a b, i ≠ j → slotOf bs i = some a → slotOf bs j = some b →
    bucketOf k' a.hash ≠ bucketOf k' b.hash

theorem slotOf_fin (bs : Array (Option Item)) (i : Fin bs.size) : slotOf bs i.1 = bs[i] := by
  unfold slotOf
  simp

/-- `rehash` loses nothing when the items separate at the new size -/
theorem rehash_content (d : Dict) (k' : Nat) (hsep : Sep k' d.buckets) :
    ∀ i it, slotOf d.buckets i = some it →
      slotOf (rehash d k').buckets (bucketOf k' it.hash) = some it := by
  rw [rehash_eq]
  simp only
  have key := Array.foldl_induction (as := d.buckets)
    (motive := fun n (acc : Array (Option Item)) => acc.size = 2 ^ k' ∧
      ∀ i, i < n → ∀ it, slotOf d.buckets i = some it → slotOf acc (bucketOf k' it.hash) = some it)
    (init := Array.replicate (2 ^ k') none) (f := rehashStep k') ?_ ?_
  · intro i it h
    exact key.2 i (slotOf_some_lt _ _ _ h) it h
  · exact ⟨by simp, fun i hi => by omega⟩
  · intro n acc ⟨hs, hp⟩
    refine ⟨by rw [rehashStep_size]; exact hs, ?_⟩
    intro i hi it hit
    have hn : slotOf d.buckets n.1 = d.buckets[n] := slotOf_fin d.buckets n
    unfold rehashStep
    cases ho : d.buckets[n] with
    | none =>
      simp only
      rcases Nat.lt_succ_iff_lt_or_eq.mp hi with h | h
      · exact hp i h it hit
      · subst h; rw [hn, ho] at hit; cases hit
    | some x =>
      simp only
      rw [slotOf_set]
      rcases Nat.lt_succ_iff_lt_or_eq.mp hi with h | h
      · -- an earlier item: the new one goes elsewhere
        have hne : bucketOf k' x.hash ≠ bucketOf k' it.hash :=
          hsep n.1 i x it (by omega) (by rw [hn, ho]) hit
        simp only [hne, false_and, if_false]
        exact hp i h it hit
      · -- the item being placed now
        subst h
        rw [hn, ho] at hit
        cases hit
        have : bucketOf k' it.hash < acc.size := by rw [hs]; exact bucketOf_lt k' _
        simp [this]

/-- growing separates: items in different buckets stay in different buckets -/
theorem sep_of_grow (k k' : Nat) (bs : Array (Option Item)) (hk : k ≤ k')
    (place : ∀ i it, slotOf bs i = some it → bucketOf k it.hash = i) : Sep k' bs := by
  intro i j a b hij ha hb heq
  obtain ⟨d, rfl⟩ := Nat.exists_eq_add_of_le hk
  have h1 := place i a ha
  have h2 := place j b hb
  rw [bucketOf_shrink k d] at h1 h2
  rw [heq] at h1
  exact hij (h1.symm.trans h2)

theorem pairsFree_spec : ∀ (l : List (Option Item)), pairsFree l = true →
    ∀ m a b, (l[2 * m]?).join = some a → (l[2 * m + 1]?).join = some b → False := by
  intro l
  induction l using pairsFree.induct with
  | case1 x y r ih =>
    intro h m a b ha hb
    simp only [pairsFree, Bool.and_eq_true, Bool.not_eq_eq_eq_not, Bool.not_true] at h
    cases m with
    | zero =>
      simp only [Nat.mul_zero, List.getElem?_cons_zero, Option.join_some, Nat.zero_add,
        List.getElem?_cons_succ] at ha hb
      rw [ha, hb] at h
      simp at h
    | succ m =>
      have e1 : 2 * (m + 1) = (2 * m + 1) + 1 := by omega
      have e2 : 2 * (m + 1) + 1 = (2 * m + 1 + 1) + 1 := by omega
      rw [e1, List.getElem?_cons_succ, List.getElem?_cons_succ] at ha
      rw [e2, List.getElem?_cons_succ, List.getElem?_cons_succ] at hb
      exact ih h.2 m a b ha hb
  | case2 l hl =>
    intro _ m a b ha hb
    -- fewer than two buckets: nothing at index 2m+1
    match l, hl with
    | [], _ => simp at hb
    | [x], _ =>
      cases m with
      | zero => simp at hb
      | succ m => simp at hb
    | x :: y :: r, hl => exact absurd rfl (hl x y r)

/-- halving a table none of whose even/odd bucket pairs is full separates as well -/
theorem sep_of_halve (k : Nat) (bs : Array (Option Item))
    (place : ∀ i it, slotOf bs i = some it → bucketOf (k + 1) it.hash = i)
    (hfree : pairsFree bs.toList = true) : Sep k bs := by
  intro i j a b hij ha hb heq
  have h1 := place i a ha
  have h2 := place j b hb
  have e1 : bucketOf k a.hash = i / 2 := by rw [bucketOf_shrink k 1, h1]
  have e2 : bucketOf k b.hash = j / 2 := by rw [bucketOf_shrink k 1, h2]
  rw [e1, e2] at heq
  -- i and j are the two halves of one pair
  have toL : ∀ n, (bs.toList[n]?).join = slotOf bs n := by
    intro n; unfold slotOf; simp
  rcases Nat.lt_or_gt_of_ne hij with h | h
  · have hi : i = 2 * (i / 2) := by omega
    have hj : j = 2 * (i / 2) + 1 := by omega
    exact pairsFree_spec bs.toList hfree (i / 2) a b (by rw [toL, ← hi]; exact ha) (by rw [toL, ← hj]; exact hb)
  · have hj : j = 2 * (j / 2) := by omega
    have hi : i = 2 * (j / 2) + 1 := by omega
    exact pairsFree_spec bs.toList hfree (j / 2) b a (by rw [toL, ← hj]; exact hb) (by rw [toL, ← hi]; exact ha)

/-- `rehash` invents nothing: whatever is in the new table was in the old one -/
theorem rehash_source (d : Dict) (k' : Nat) :
    ∀ j it, slotOf (rehash d k').buckets j = some it → ∃ i, slotOf d.buckets i = some it := by
  rw [rehash_eq]
  simp only
  refine Array.foldl_induction (as := d.buckets)
    (motive := fun _ (acc : Array (Option Item)) => ∀ j it, slotOf acc j = some it → ∃ i, slotOf d.buckets i = some it)
    ?_ ?_
  · intro j it h; rw [slotOf_replicate] at h; cases h
  · intro n acc hp j it hj
    unfold rehashStep at hj
    cases ho : d.buckets[n] with
    | none => rw [ho] at hj; exact hp j it hj
    | some x =>
      rw [ho] at hj
      simp only at hj
      rw [slotOf_set] at hj
      split_ifs at hj with hc
      · cases hj; exact ⟨n.1, by rw [slotOf_fin, ho]⟩
      · exact hp j it hj

theorem growTo_spec (h1 h2 : Nat) : ∀ (fuel k k' : Nat), growTo h1 h2 fuel k = some k' →
    k < k' ∧ h1 % 2 ^ k' ≠ h2 % 2 ^ k' := by
  intro fuel
  induction fuel with
  | zero => intro k k' h; simp [growTo] at h
  | succ fuel ih =>
    intro k k' h
    unfold growTo at h
    split_ifs at h with hc
    · cases h
      exact ⟨by omega, by simpa using hc⟩
    · have := ih (k + 1) k' h
      exact ⟨by omega, this.2⟩

theorem bucketOf_inj (k a b : Nat) (h : bucketOf k a = bucketOf k b) : a % 2 ^ k = b % 2 ^ k := by
  unfold bucketOf at h
  have := congrArg (rev k) h
  rw [rev_rev, rev_rev, Nat.mod_mod, Nat.mod_mod] at this
  exact this

end RedisEmu
