import RedisEmu.Proofs.GoArithBase
import RedisEmu.Bits
import Mathlib.Tactic.IntervalCases
/- theorems about the translated Go definitions (Bits); see Proofs/GoArithBase.lean for the header -/
namespace RedisEmu


/-- `isSignedSumOverflow a b bits` for every width 1..64, every increment `b`, and every `a` that is a
    `bits`-wide signed field value (what `signExtend` delivers; `0` for BITFIELD SET): the Go test is
    exactly "the true sum leaves the signed `bits`-wide range". -/
theorem go_isSignedSumOverflow (a b : BitVec 64) (bits : Nat) (h1 : 1 ≤ bits) (h2 : bits ≤ 64)
    (hr : -(2 : Int) ^ (bits - 1) ≤ a.toInt ∧ a.toInt < (2 : Int) ^ (bits - 1)) :
    Go.isSignedSumOverflow a b (BitVec.ofNat 64 bits) = specSignedOverflow a.toInt b.toInt bits := by
  have ha := BitVec.toInt_lt (x := a); have ha' := BitVec.le_toInt (x := a)
  have hb := BitVec.toInt_lt (x := b); have hb' := BitVec.le_toInt (x := b)
  unfold Go.isSignedSumOverflow specSignedOverflow
  simp only [BitVec.slt]
  rw [Bool.eq_iff_iff]
  interval_cases bits <;>
    (simp [BitVec.toInt_sub, BitVec.toInt_neg, Int.bmod_def] at *; split_ifs <;> omega)

/-- `isUnsignedOverflow v bits` on a value that is not negative (the caller tests `newValue < 0` first):
    exactly "v does not fit into `bits` bits", for every width 1..63 -/
theorem go_isUnsignedOverflow (v : BitVec 64) (bits : Nat) (h1 : 1 ≤ bits) (h2 : bits ≤ 63) (hv : 0 ≤ v.toInt) :
    Go.isUnsignedOverflow v (BitVec.ofNat 64 bits) = decide (v.toInt ≥ (2 : Int) ^ bits) := by
  have ha := BitVec.toInt_lt (x := v)
  have hn : v.toInt = (v.toNat : Int) := by
    rw [BitVec.toInt_eq_toNat_cond]; split
    · rfl
    · rw [BitVec.toInt_eq_toNat_cond] at hv; split at hv <;> omega
  unfold Go.isUnsignedOverflow
  have hneg : BitVec.slt v 0#64 = false := by simp [BitVec.slt]; omega
  simp only [hneg]
  rw [Bool.eq_iff_iff]
  simp only [BitVec.ule, decide_eq_true_eq, hn, Bool.false_eq_true, ↓reduceIte]
  interval_cases bits <;> simp

/-- `saturateValue`: the bound on the side the operand pushes to -/
theorem go_saturateValue_signed (v : BitVec 64) (bits : Nat) (h1 : 1 ≤ bits) (h2 : bits ≤ 64) :
    (Go.saturateValue true v (BitVec.ofNat 64 bits)).toInt =
      if v.toInt < 0 then -(2 : Int) ^ (bits - 1) else (2 : Int) ^ (bits - 1) - 1 := by
  unfold Go.saturateValue
  simp only [BitVec.slt, ↓reduceIte]
  interval_cases bits <;> (simp; split_ifs <;> simp_all)

theorem go_saturateValue_unsigned (v : BitVec 64) (bits : Nat) (h1 : 1 ≤ bits) (h2 : bits ≤ 63) :
    (Go.saturateValue false v (BitVec.ofNat 64 bits)).toInt =
      if v.toInt < 0 then 0 else (2 : Int) ^ bits - 1 := by
  unfold Go.saturateValue
  simp only [BitVec.slt, Bool.false_eq_true, ↓reduceIte]
  interval_cases bits <;> (simp; split_ifs <;> simp_all)

open BitVec in
theorem go_signExtend_eq (w : Nat) (hw1 : 1 ≤ w) (hw : w ≤ 64) (u : Nat) (hu : u < 2 ^ w) :
    Go.signExtend (BitVec.ofNat 64 u) (BitVec.ofNat 64 w) = (BitVec.ofNat w u).signExtend 64 := by
  unfold Go.signExtend
  have hsh : (BitVec.ofNat 64 w - 1#64).toNat = w - 1 := by
    simp only [BitVec.toNat_sub, BitVec.toNat_ofNat]; omega
  have hsb : (1#64 <<< (w - 1)) = BitVec.twoPow 64 (w - 1) := by
    rw [BitVec.twoPow_eq]
  have hp : 2 ^ (w - 1) < 2 ^ 64 := Nat.pow_lt_pow_right (by omega) (by omega)
  have hmask : (BitVec.twoPow 64 (w - 1) - 1#64) = BitVec.ofNat 64 (2 ^ (w - 1) - 1) := by
    apply BitVec.eq_of_toNat_eq
    have := Nat.two_pow_pos (w - 1)
    simp only [BitVec.toNat_sub, BitVec.toNat_twoPow, BitVec.toNat_ofNat]
    rw [Nat.mod_eq_of_lt hp]; omega
  have hhigh : ∀ i, w ≤ i → u.testBit i = false := fun i hi =>
    Nat.testBit_lt_two_pow (Nat.lt_of_lt_of_le hu (Nat.pow_le_pow_right (by omega) hi))
  have hcond : BitVec.ult 0#64 (BitVec.ofNat 64 u &&& BitVec.twoPow 64 (w - 1)) = u.testBit (w - 1) := by
    have hnat : (0 < u &&& 2 ^ (w - 1)) ↔ u.testBit (w - 1) = true := by
      constructor
      · intro h
        false_or_by_contra
        rename_i hb
        have : u &&& 2 ^ (w - 1) = 0 := by
          apply Nat.eq_of_testBit_eq
          intro i
          simp only [Nat.testBit_and, Nat.testBit_two_pow, Nat.zero_testBit]
          by_cases hij : w - 1 = i
          · subst hij; simp at hb; simp [hb]
          · simp [hij]
        omega
      · intro hb
        have : (u &&& 2 ^ (w - 1)).testBit (w - 1) = true := by
          simp [Nat.testBit_and, Nat.testBit_two_pow, hb]
        have := Nat.ge_two_pow_of_testBit this
        have := Nat.two_pow_pos (w - 1)
        omega
    simp only [BitVec.ult, BitVec.toNat_ofNat, BitVec.toNat_and, BitVec.toNat_twoPow, Nat.zero_mod]
    rw [Nat.mod_eq_of_lt hp, Nat.mod_eq_of_lt (Nat.lt_of_lt_of_le hu (Nat.pow_le_pow_right (by omega) hw))]
    by_cases hb : u.testBit (w - 1) = true
    · simp [hb, hnat.2 hb]
    · have : ¬ (0 < u &&& 2 ^ (w - 1)) := fun h => hb (hnat.1 h)
      simp at hb; simp [hb]; omega
  simp only [hsh, hsb, hmask, hcond]
  apply BitVec.eq_of_getLsbD_eq
  intro i hi
  rw [BitVec.getLsbD_signExtend, BitVec.msb_eq_getLsbD_last]
  simp only [BitVec.getLsbD_ofNat]
  by_cases hb : u.testBit (w - 1) = true
  · simp only [hb, if_true, BitVec.getLsbD_or, BitVec.getLsbD_not, BitVec.getLsbD_ofNat, Nat.testBit_two_pow_sub_one]
    by_cases h1 : i < w
    · by_cases h2 : i < w - 1
      · simp [hi, h1, h2]
      · have : i = w - 1 := by omega
        subst this; simp [hi, h1, hb]
    · have := hhigh i (by omega)
      have h3 : ¬ i < w - 1 := by omega
      have h4 : w - 1 < w := by omega
      simp [hi, h1, this, h3, h4]
  · simp only [hb]
    have hg : (BitVec.ofNat 64 u)[i] = u.testBit i := by
      rw [← BitVec.getLsbD_eq_getElem, BitVec.getLsbD_ofNat]; simp [hi]
    by_cases h1 : i < w
    · simp [hi, h1, hg]
    · have := hhigh i (by omega)
      simp at hb
      simp [hi, h1, this, hb, hg]

/-- `signExtend(value, bits)` on a field value of that width is the two's-complement reading of the field -/
theorem go_signExtend (w : Nat) (hw1 : 1 ≤ w) (hw : w ≤ 64) (u : Nat) (hu : u < 2 ^ w) :
    (Go.signExtend (BitVec.ofNat 64 u) (BitVec.ofNat 64 w)).toInt = toSigned u w := by
  rw [go_signExtend_eq w hw1 hw u hu, BitVec.toInt_signExtend_of_le hw, BitVec.toInt_eq_toNat_cond]
  simp only [BitVec.toNat_ofNat, Nat.mod_eq_of_lt hu]
  unfold toSigned
  have : 2 ^ w = 2 * 2 ^ (w - 1) := by rw [← Nat.pow_succ']; congr 1; omega
  by_cases h : 2 * u < 2 ^ w
  · have : ¬ (u ≥ 2 ^ (w - 1)) := by omega
    simp [h, this]
  · have h2 : u ≥ 2 ^ (w - 1) := by omega
    have h3 : w > 0 := by omega
    simp [h, h2, h3]

/-- the range arithmetic of BITCOUNT: `none` = nothing to count, else the first and last unit (byte or bit) -/
def bitcountBounds (length start stop : Int) : Option (Int × Int) :=
  let start := if start < 0 then length + start else start
  let stop := if stop < 0 then length + stop else stop
  if start ≥ length then none else
  let start := if start < 0 then 0 else start
  if stop < start then none else
  some (start, if stop ≥ length then length - 1 else stop)

/-- the range arithmetic of BITCOUNT as `fnBitCount` has it now: leaves early exactly when `bitcountBounds` says
    there is nothing to count, and otherwise ends with the same first and last unit — for every pair of int64
    arguments and every positive length -/
theorem go_bitcountClamp (s e n : BitVec 64) (hn : 0 < n.toInt) :
    (match Go.bitcountClamp s e n with
     | (true, _, _) => none
     | (false, a, z) => some (a.toInt, z.toInt)) = bitcountBounds n.toInt s.toInt e.toInt := by
  have hs := BitVec.toInt_lt (x := s); have hs' := BitVec.le_toInt (x := s)
  have he := BitVec.toInt_lt (x := e); have he' := BitVec.le_toInt (x := e)
  have hn2 := BitVec.toInt_lt (x := n)
  simp at hs hs' he he' hn2
  generalize hS1 : (if BitVec.slt s 0#64 then n + s else s) = S1
  generalize hE1 : (if BitVec.slt e 0#64 then n + e else e) = E1
  have vS1 : S1.toInt = if s.toInt < 0 then n.toInt + s.toInt else s.toInt := by
    rw [← hS1]; simp only [BitVec.slt]; simp
    split_ifs
    · exact toInt_add_small n s (by omega) (by omega)
    · rfl
  have vE1 : E1.toInt = if e.toInt < 0 then n.toInt + e.toInt else e.toInt := by
    rw [← hE1]; simp only [BitVec.slt]; simp
    split_ifs
    · exact toInt_add_small n e (by omega) (by omega)
    · rfl
  have vN1 : (n - 1#64).toInt = n.toInt - 1 := toInt_sub_one n (by omega)
  unfold Go.bitcountClamp bitcountBounds
  simp only [hS1, hE1]
  simp only [BitVec.slt, BitVec.sle, decide_eq_true_eq, ← vS1, ← vE1]
  simp only [BitVec.toInt_zero]
  split_ifs <;> simp_all <;> omega

/-- BITCOUNT of the model on a non-empty string, without the two recorded deviations, is: the bounds of
    `bitcountBounds`, then the count of the set bits (bit mode) or of the set bits of the bytes (byte mode) between them -/
theorem cmdBitCount_bounds (c : Ctx) (db : Db) (k b : Bytes) (e : Entry) (s t : Int) (m : Bool)
    (hq1 : c.q.bitcountClamp = false)
    (hl : db.live c.now k = some e) (hv : e.val = .str b) (hb : b.isEmpty = false) :
    (cmdBitCount c db k (some (s, t, m))).reply =
      match bitcountBounds (if m then (b.length : Int) * 8 else b.length) s t with
      | none => .int 0
      | some (a, z) =>
        if m then vInt ((List.range (z - a + 1).toNat).filter fun j => bitAt b (a.toNat + j)).length
        else vInt (((b.drop a.toNat).take (z - a + 1).toNat).foldl (fun acc x => acc + popcount8 x) 0) := by
  obtain ⟨v, ex, id⟩ := e
  simp only at hv; subst hv
  unfold cmdBitCount bitcountBounds
  simp only [hl, hb, hq1]
  cases m <;> simp <;> split_ifs <;> simp_all [R.ok]

theorem srem8_nonneg (x : BitVec 64) (h : 0 ≤ x.toInt) : BitVec.srem x 8#64 = BitVec.ofNat 64 (x.toNat % 8) := by
  have hm : x.msb = false := by rw [BitVec.msb_eq_toInt]; simp; omega
  have h8 : (8#64).msb = false := by decide
  apply BitVec.eq_of_toNat_eq
  rw [BitVec.toNat_srem, hm, h8]
  have e8 : (8#64).toNat = 8 := by decide
  simp only [BitVec.toNat_ofNat, e8]
  have := x.isLt
  omega

/-- the two masks of `countSetBitRange` (BITCOUNT … BIT): for non-negative bit positions the first mask keeps the bits
    of the first byte from position `start % 8` on (most significant bit = position 0), the second the bits of the
    last byte up to position `end % 8` -/
theorem go_bitcountMasks (s e : BitVec 64) (hs : 0 ≤ s.toInt) (he : 0 ≤ e.toInt) :
    (Go.bitcountMasks s e).1.toNat = 2 ^ (8 - s.toNat % 8) - 1 ∧
    (Go.bitcountMasks s e).2.toNat = 256 - 2 ^ (7 - e.toNat % 8) := by
  unfold Go.bitcountMasks
  simp only [srem8_nonneg s hs, srem8_nonneg e he]
  have h1 : s.toNat % 8 < 8 := Nat.mod_lt _ (by decide)
  have h2 : e.toNat % 8 < 8 := Nat.mod_lt _ (by decide)
  generalize s.toNat % 8 = a at *
  generalize e.toNat % 8 = b at *
  constructor
  · interval_cases a <;> decide
  · interval_cases b <;> decide

/-- what the two mask values select: bit position `j` of a byte (0 = most significant) is kept by the first mask iff
    `a ≤ j`, by the second iff `j ≤ a` (the whole finite table) -/
theorem masks_select : ∀ (a j : Fin 8),
    (2 ^ (8 - a.val) - 1).testBit (7 - j.val) = decide (a.val ≤ j.val) ∧
    (256 - 2 ^ (7 - a.val)).testBit (7 - j.val) = decide (j.val ≤ a.val) := by decide

/-- the offset test of SETBIT as coded = the model's (`cmdSetBit`): negative, or beyond the 2^32 bits of 512 MB -/
theorem go_setbitOffsetGuard (o : BitVec 64) :
    Go.setbitOffsetGuard o = (decide (o.toInt < 0) || decide (o.toInt ≥ 4294967296)) := by
  unfold Go.setbitOffsetGuard
  simp only [BitVec.slt, BitVec.sle]
  have : (4294967296#64).toInt = 4294967296 := by decide
  simp [this]

end RedisEmu
