import RedisEmu.Proofs.GoArithBase
import Mathlib.Tactic.IntervalCases
/- theorems about the translated Go definitions (List); see Proofs/GoArithBase.lean for the header -/
namespace RedisEmu

/-- the index arithmetic of LRANGE: (first position, last position) before the walk -/
def lrangeBounds (n start stop : Int) : Int × Int :=
  let start := if start < 0 then n + start else start
  let stop := if stop < 0 then n + stop else stop
  let start := if start < 0 then 0 else start
  (start, stop)

theorem lrangeOf_bounds (l : List Bytes) (start stop : Int) :
    lrangeOf l start stop =
      (if (lrangeBounds l.length start stop).2 < (lrangeBounds l.length start stop).1 then []
       else (l.drop (lrangeBounds l.length start stop).1.toNat).take
          ((lrangeBounds l.length start stop).2 - (lrangeBounds l.length start stop).1 + 1).toNat) := by
  unfold lrangeOf lrangeBounds; rfl

/-- the index arithmetic of LTRIM: the positions that are kept (0, -1: nothing) -/
def ltrimBounds (n start stop : Int) : Int × Int :=
  let start := if start < 0 then n + start else start
  let stop := if stop < 0 then n + stop else stop
  let start := if start < 0 then 0 else if start > n then n else start
  if stop < start then (0, -1) else (start, if stop > n then n else stop)

theorem ltrimOf_bounds (l : List Bytes) (start stop : Int) :
    ltrimOf l start stop =
      (l.drop (ltrimBounds l.length start stop).1.toNat).take
        ((ltrimBounds l.length start stop).2 - (ltrimBounds l.length start stop).1 + 1).toNat := by
  unfold ltrimOf ltrimBounds
  simp only
  split_ifs <;> simp

theorem go_lrangeClamp (s e n : BitVec 64) (hn : 0 ≤ n.toInt) :
    ((Go.lrangeClamp s e n).1.toInt, (Go.lrangeClamp s e n).2.toInt) = lrangeBounds n.toInt s.toInt e.toInt := by
  have hs := BitVec.toInt_lt (x := s); have hs' := BitVec.le_toInt (x := s)
  have he := BitVec.toInt_lt (x := e); have he' := BitVec.le_toInt (x := e)
  have hn2 := BitVec.toInt_lt (x := n)
  simp at hs hs' he he' hn2
  generalize hS1 : (if BitVec.slt s 0#64 then n + s else s) = S1
  generalize hE1 : (if BitVec.slt e 0#64 then n + e else e) = E1
  have vS1 : S1.toInt = if s.toInt < 0 then n.toInt + s.toInt else s.toInt := by
    rw [← hS1]; simp only [BitVec.slt]; simp
    split_ifs
    · exact toInt_add_small n s (by omega) (by omega)
    · rfl
  have vE1 : E1.toInt = if e.toInt < 0 then n.toInt + e.toInt else e.toInt := by
    rw [← hE1]; simp only [BitVec.slt]; simp
    split_ifs
    · exact toInt_add_small n e (by omega) (by omega)
    · rfl
  generalize hS2 : (if BitVec.slt S1 0#64 then 0#64 else S1) = S2
  have vS2 : S2.toInt = if S1.toInt < 0 then 0 else S1.toInt := by
    rw [← hS2]; simp only [BitVec.slt]; simp
    split_ifs <;> simp
  have hdef : Go.lrangeClamp s e n = (S2, E1) := by
    unfold Go.lrangeClamp
    simp only [hS1, hE1, hS2]
  rw [hdef]
  unfold lrangeBounds
  simp only [vS2, vS1, vE1]

theorem go_ltrimClamp (s e n : BitVec 64) (hn : 0 ≤ n.toInt) :
    ((Go.ltrimClamp s e n).1.toInt, (Go.ltrimClamp s e n).2.toInt) = ltrimBounds n.toInt s.toInt e.toInt := by
  have hs := BitVec.toInt_lt (x := s); have hs' := BitVec.le_toInt (x := s)
  have he := BitVec.toInt_lt (x := e); have he' := BitVec.le_toInt (x := e)
  have hn2 := BitVec.toInt_lt (x := n)
  simp at hs hs' he he' hn2
  generalize hS1 : (if BitVec.slt s 0#64 then n + s else s) = S1
  generalize hE1 : (if BitVec.slt e 0#64 then n + e else e) = E1
  have vS1 : S1.toInt = if s.toInt < 0 then n.toInt + s.toInt else s.toInt := by
    rw [← hS1]; simp only [BitVec.slt]; simp
    split_ifs
    · exact toInt_add_small n s (by omega) (by omega)
    · rfl
  have vE1 : E1.toInt = if e.toInt < 0 then n.toInt + e.toInt else e.toInt := by
    rw [← hE1]; simp only [BitVec.slt]; simp
    split_ifs
    · exact toInt_add_small n e (by omega) (by omega)
    · rfl
  generalize hS2 : (if BitVec.slt S1 0#64 then 0#64 else (if BitVec.slt n S1 then n else S1)) = S2
  have vS2 : S2.toInt = if S1.toInt < 0 then 0 else (if n.toInt < S1.toInt then n.toInt else S1.toInt) := by
    rw [← hS2]; simp only [BitVec.slt]; simp
    split_ifs <;> simp
  have hdef : Go.ltrimClamp s e n =
      (if BitVec.slt E1 S2 then (0#64, -1#64) else (S2, if BitVec.slt n E1 then n else E1)) := by
    unfold Go.ltrimClamp
    simp only [hS1, hE1, hS2]
  rw [hdef]
  unfold ltrimBounds
  simp only [BitVec.slt]
  simp only [vS2, vS1, vE1, decide_eq_true_eq]
  split_ifs <;> simp_all

end RedisEmu
