/-
  Wake-up accounting for clients that wait for SEVERAL keys (`BLPOP a b 0`, BLMPOP): `waitTable.go`
  (`enterMultiWait`, `unblock`, `reenterWait`), `blockOnListChangeWorker`, `dataStore.leaveListBlock`.

  A blocked client is linked into the wait queue of every one of its keys. A push to key `k` hands a
  mwake-up to the longest waiters of `k`, unlinks each of them from ALL its queues and notes the key that
  raised the signal (`wokenBy`). A woken client looks at its keys in order and takes from the first
  non-empty one — which need not be `k`. `passAcross = true` is the repaired behaviour (D90, 5537925): a
  client that was woken for `k` and served from another key hands the mwake-up to `k`'s next waiter.
  A client that leaves (or is served at its first look) with a mwake-up it never consumed wakes one waiter
  of each of its keys (`leaveListBlock`).

  Only list LENGTHS are tracked (which element goes where is the subject of `Block`). Clients are kept in
  registration order — a client woken in vain keeps its place (`reenterWait`) — and addressed by position.
  Core Lean only.
-/
namespace RedisEmu

structure MC where
  keys : List Nat            -- the keys it waits for, in the order it looks at them
  pending : Bool             -- registered; the look that follows registration is still to come
  token : Option Nat         -- holds a mwake-up it has not acted on yet, raised by this key
  queued : Bool              -- linked in the wait queues of its keys (a mwake-up unlinks it from all of them)
  deriving DecidableEq, Repr

structure MState where
  len : Nat → Nat := fun _ => 0
  cs : List MC := []

def firstNonEmpty (len : Nat → Nat) : List Nat → Option Nat
  | [] => none
  | k :: r => if len k > 0 then some k else firstNonEmpty len r

def decLen (len : Nat → Nat) (k : Nat) : Nat → Nat := fun j => if j = k then len j - 1 else len j
def incLen (len : Nat → Nat) (k n : Nat) : Nat → Nat := fun j => if j = k then len j + n else len j

def MC.waitsOn (c : MC) (k : Nat) : Bool := c.queued && c.keys.contains k

/-- hand a mwake-up raised by key `k` to the first `n` clients in `k`'s queue -/
def mwake (k : Nat) : Nat → List MC → List MC
  | 0, cs => cs
  | _ + 1, [] => []
  | n + 1, c :: r =>
    if c.waitsOn k then { c with queued := false, token := some k } :: mwake k n r
    else c :: mwake k (n + 1) r

/-- `leaveListBlock` with an unused mwake-up: one waiter of each key is woken -/
def mwakeEach : List Nat → List MC → List MC
  | [], cs => cs
  | k :: r, cs => mwakeEach r (mwake k 1 cs)

inductive MStep where
  | push (k n : Nat)
  | register (keys : List Nat)
  | look (i : Nat)            -- the look after registering, of the client at position i
  | retry (i : Nat)           -- a woken client acts on its wake-up
  | reenter (i : Nat)         -- a client woken in vain links itself into its queues again and looks once more
  | steal (k : Nat)           -- a non-blocking pop by somebody else
  | leave (i : Nat)           -- timeout / CLIENT UNBLOCK / disconnect

def mstep (passAcross : Bool) (s : MState) (st : MStep) (lookAgain : Bool := true) : MState :=
  match st with
  | .push k n => { len := incLen s.len k n, cs := mwake k n s.cs }
  | .register keys => { s with cs := s.cs ++ [{ keys := keys, pending := true, token := none, queued := true }] }
  | .look i =>
    match s.cs[i]? with
    | none => s
    | some c =>
      if c.pending then
        match firstNonEmpty s.len c.keys with
        | some j =>
          -- served at once: the command completes; a mwake-up delivered meanwhile was never consumed
          { len := decLen s.len j, cs := if c.token.isSome then mwakeEach c.keys (s.cs.eraseIdx i) else s.cs.eraseIdx i }
        | none => { s with cs := s.cs.set i { c with pending := false } }
      else s
  | .retry i =>
    match s.cs[i]? with
    | none => s
    | some c =>
      match c.token with
      | none => s
      | some k =>
        if c.pending then s else
        match firstNonEmpty s.len c.keys with
        | some j =>
          { len := decLen s.len j,
            cs := if passAcross && j != k then mwake k 1 (s.cs.eraseIdx i) else s.cs.eraseIdx i }
        | none => { s with cs := s.cs.set i { c with token := none } }   -- woken in vain: still in no queue until it re-registers
  | .reenter i =>
    match s.cs[i]? with
    | none => s
    | some c =>
      -- `reenterListBlock` and the look that follows it (`lookAgain`; without it — a seeded change — a push that
      -- landed while the client was in no queue is never noticed)
      if !c.queued && c.token.isNone && !c.pending then
        { s with cs := s.cs.set i { c with queued := true, pending := lookAgain } }
      else s
  | .steal k => { s with len := decLen s.len k }
  | .leave i =>
    match s.cs[i]? with
    | none => s
    | some c =>
      if c.pending then s else
      { s with cs := if c.token.isSome then mwakeEach c.keys (s.cs.eraseIdx i) else s.cs.eraseIdx i }

def mrun (passAcross : Bool) (s : MState) (steps : List MStep) (lookAgain : Bool := true) : MState :=
  steps.foldl (fun s st => mstep passAcross s st lookAgain) s

/-- mwake-ups raised by key `k` and not acted on yet -/
def tokens (k : Nat) (cs : List MC) : Nat := cs.countP fun c => c.token == some k

/-- nobody waits passively for key `k`: whoever is linked in its queue is about to look at the lists -/
def NoPassive (k : Nat) (cs : List MC) : Prop := ∀ c ∈ cs, c.waitsOn k = true → c.pending = true

/-- the accounting invariant of key `k`: as many mwake-ups outstanding as the list has elements, or nobody
    is waiting passively for it -/
def MInv (s : MState) (k : Nat) : Prop := s.len k ≤ tokens k s.cs ∨ NoPassive k s.cs

/-- whoever holds a mwake-up is unlinked from the queues -/
def Unlinked (cs : List MC) : Prop := ∀ c ∈ cs, c.token.isSome = true → c.queued = false

end RedisEmu
