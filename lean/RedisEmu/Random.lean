import RedisEmu.Resp
/-
  The random selection behind SRANDMEMBER and HRANDFIELD (`redisDict.pickRandomItems`,
  `pickUniqueRandomItems`, `getSetRandMember`, `getHashTableRandField`), with the random source made
  explicit: `rs` is the sequence of values `rand.Intn(len(buckets))` returns. A draw keeps consuming the
  sequence until it hits a bucket it can use; `none` means the sequence ran out first (the Go loop would go
  on drawing). What the commands answer is then a function of the table, the count and the sequence, and the
  theorems of C04 / C05 hold for every sequence. Core Lean only.
-/
namespace RedisEmu

abbrev Buckets := List (Option Bytes)      -- one item per bucket: its key (member / field)

/-- the key in bucket `i` (none: empty bucket or no such bucket) -/
def Buckets.key (bs : Buckets) (i : Nat) : Option Bytes := bs[i]?.getD none
def Buckets.occupied (bs : Buckets) (i : Nat) : Bool := (bs.key i).isSome
def Buckets.members (bs : Buckets) : List Bytes := bs.filterMap id

/-- one draw of `pickRandomItems`: the first value of the sequence that names an occupied bucket -/
def drawAny (bs : Buckets) : List Nat → Option (Nat × List Nat)
  | [] => none
  | r :: rs => if bs.occupied (r % bs.length) then some (r % bs.length, rs) else drawAny bs rs

/-- `pickRandomItems(count)`: `count` independent draws (repeats allowed) -/
def pickRandom (bs : Buckets) : Nat → List Nat → Option (List Nat)
  | 0, _ => some []
  | n + 1, rs =>
    match drawAny bs rs with
    | none => none
    | some (i, rs') => (pickRandom bs n rs').map (i :: ·)

/-- one draw of `pickUniqueRandomItems`: occupied and not taken before -/
def drawNew (bs : Buckets) (taken : List Nat) : List Nat → Option (Nat × List Nat)
  | [] => none
  | r :: rs =>
    if bs.occupied (r % bs.length) && !taken.contains (r % bs.length) then some (r % bs.length, rs)
    else drawNew bs taken rs

def pickUniqueFrom (bs : Buckets) : Nat → List Nat → List Nat → Option (List Nat)
  | 0, taken, _ => some taken.reverse
  | n + 1, taken, rs =>
    match drawNew bs taken rs with
    | none => none
    | some (i, rs') => pickUniqueFrom bs n (i :: taken) rs'

/-- `pickUniqueRandomItems(count)`: the count is first cut down to the number of items in the table -/
def pickUnique (bs : Buckets) (count : Nat) (rs : List Nat) : Option (List Nat) :=
  pickUniqueFrom bs (min count bs.members.length) [] rs

def keysAt (bs : Buckets) (is : List Nat) : List Bytes := is.filterMap bs.key

/-- what SRANDMEMBER (and HRANDFIELD without WITHVALUES) answers on an existing, non-empty collection -/
def randReply (bs : Buckets) (count : Option Int) (rs : List Nat) : Option Value :=
  match count with
  | none => (pickRandom bs 1 rs).map fun is => match keysAt bs is with | k :: _ => .bulk k | [] => .nil
  | some n =>
    if n < 0 then (pickRandom bs n.natAbs rs).map fun is => .array ((keysAt bs is).map .bulk)
    else (pickUnique bs n.toNat rs).map fun is => .array ((keysAt bs is).map .bulk)

/-! ### what a reply has to look like (the predicate the correspondence run applies to the
    implementation's replies, which no model can predict) -/

def bulkOf : Value → Option Bytes
  | .bulk b => some b
  | .simple b => some b
  | _ => none

def distinct (l : List Bytes) : Bool :=
  match l with
  | [] => true
  | x :: r => !r.contains x && distinct r

/-- without a count: one member; with a count n ≥ 0: min n |members| distinct members; with n < 0:
    exactly |n| members, repeats allowed -/
def validateRandom (members : List Bytes) (count : Option Int) (got : Value) : Bool :=
  match count with
  | none => (match got with | .bulk b => members.contains b | _ => false)
  | some n =>
    match got with
    | .array xs =>
      match xs.mapM bulkOf with
      | none => false
      | some bs =>
        bs.all members.contains &&
        (if n ≥ 0 then distinct bs && bs.length == min n.toNat members.length
         else bs.length == n.natAbs)
    | _ => false

end RedisEmu
