import RedisEmu.Resp
/-
  The data store as the Go code keeps it: per database a keyspace of entries
  (value, deadline, version id), the object counter and the dirty bit.
-/
namespace RedisEmu

/-- Known deviations of the *current* tree from the property text. Each flag
    switches the model between what the code does (`true`) and what the property
    prescribes (`false`). `Quirks.current` must match `/verif/known_findings.jsonl`. -/
structure Quirks where
  appendDropsTtl : Bool        -- D04 APPEND replaces the key without keeping the deadline
  getrangeMissingNil : Bool    -- D05 GETRANGE on a missing key answers nil instead of ""
  setrangeEmptyCreates : Bool  -- D06 SETRANGE missing-key with "" creates an empty string key
  decrbyMinAccepted : Bool     -- D07 DECRBY -2^63 is negated with wrap-around instead of refused
  lmoveSelfSingleLoses : Bool  -- D09 LMOVE k k on a one-element list loses the element
  hincrbyCmpDelta : Bool       -- D10 HINCRBY overflow test compares with the delta
  hsetnxOverwrites : Bool      -- D11 HSETNX overwrites
  abortedExecStaysMulti : Bool -- D23 aborted EXEC leaves the connection in MULTI with its watches
  queueErrorNoAbort : Bool     -- D24 a command rejected while queueing does not abort EXEC
  inplaceKeepsVersion : Bool   -- D27/D28 in-place mutation keeps the WATCH version
  rawLookupSeesExpired : Bool  -- D22 RENAME/RENAMENX/COPY/DBSIZE/RANDOMKEY see expired keys
  flushDetaches : Bool         -- D42 FLUSHDB/FLUSHALL only replace the caller's database object
  helloAnyVersion : Bool       -- D43 HELLO accepts any protocol number
  resp2Scalars : Bool          -- D03 double/verbatim/bool become simple strings under RESP2
  dirtyIncomplete : Bool       -- D47 several mutators do not mark the database dirty
  bitcountClamp : Bool         -- D44 BITCOUNT start beyond the end is clamped to the last byte
  bitcountEmptyCrash : Bool    -- D37 BITCOUNT on an empty string panics
  bfSignedOverflow64 : Bool    -- D45 signed overflow test wraps for i64
  bfSetOverflowUsesSum : Bool  -- D46 BITFIELD SET overflow test looks at old+value
  unlinkKeepsObject : Bool     -- UNLINK marks the key expired instead of removing it
  getexNoOptPersists : Bool    -- D60 GETEX without an option removes the deadline
  bitposPartialEnd : Bool      -- D62 BITPOS with a BIT range ending inside a byte looks past the end
  bitopEmptyCreates : Bool     -- D61 BITOP whose result is empty stores an empty string
  lcsRunes : Bool              -- D68 LCS compares UTF-8 runes (invalid bytes all equal U+FFFD), not bytes
  sintercardLimitGreedy : Bool -- D88 a trailing `LIMIT <int>` is the option even where numkeys makes the two words keys
  multiBindsAtQueue : Bool     -- D25 a queued command runs on the database selected when it was queued, whatever a SELECT earlier in the same transaction did
  deriving Repr, DecidableEq

def Quirks.none : Quirks :=
  { appendDropsTtl := false, getrangeMissingNil := false, setrangeEmptyCreates := false,
    decrbyMinAccepted := false, lmoveSelfSingleLoses := false, hincrbyCmpDelta := false,
    hsetnxOverwrites := false, abortedExecStaysMulti := false, queueErrorNoAbort := false,
    inplaceKeepsVersion := false, rawLookupSeesExpired := false, flushDetaches := false,
    helloAnyVersion := false, resp2Scalars := false, dirtyIncomplete := false,
    bitcountClamp := false, bitcountEmptyCrash := false, bfSignedOverflow64 := false,
    bfSetOverflowUsesSum := false, unlinkKeepsObject := false,
    getexNoOptPersists := false, bitposPartialEnd := false, bitopEmptyCreates := false, lcsRunes := false,
    sintercardLimitGreedy := false, multiBindsAtQueue := false }

inductive Val where
  | str (b : Bytes)
  | list (l : List Bytes)                 -- head first
  | hash (h : List (Bytes × Bytes))       -- unique fields, insertion order
  | set (s : List Bytes)                  -- unique members, insertion order
  | corrupt (flags : Nat)                 -- RESTORE of a non-string dump: type flag, no payload
  deriving Repr, BEq, DecidableEq, Inhabited

def Val.typeName : Val → Bytes
  | .str _ => sb "string"
  | .list _ => sb "list"
  | .hash _ => sb "hash"
  | .set _ => sb "set"
  | .corrupt f =>
    if f == 1 then sb "string" else if f == 2 then sb "hash" else if f == 4 then sb "set"
    else if f == 8 then sb "list" else sb "none"

structure Entry where
  val : Val
  exp : Option Int := none     -- deadline, ns since the epoch; `none` = no expiry
  id : Nat := 0                -- `storeKey.id`, the version WATCH compares
  deriving Repr, BEq, DecidableEq, Inhabited

structure Db where
  keys : List (Bytes × Entry) := []
  nextId : Nat := 0
  dirty : Bool := false
  deriving Repr, BEq, Inhabited

/-- `isExpiredUnlocked`: `time.Now().After(expiresAt)` -/
def Entry.expired (e : Entry) (now : Int) : Bool :=
  match e.exp with
  | none => false
  | some d => decide (now > d)

namespace Db

/-- `getStoreKey`: raw lookup, expired objects included -/
def raw (db : Db) (k : Bytes) : Option Entry := alookup k db.keys

/-- `getKeyObjectUnlocked`: lookup that treats an expired key as missing -/
def live (db : Db) (now : Int) (k : Bytes) : Option Entry :=
  match db.raw k with
  | some e => if e.expired now then none else some e
  | none => none

/-- `newStoreKeyUnlocked` followed by filling in the fields -/
def put (db : Db) (k : Bytes) (v : Val) (exp : Option Int) : Db :=
  let id := db.nextId + 1
  { keys := ainsert k { val := v, exp := exp, id := id } db.keys, nextId := id, dirty := true }

/-- overwrite an entry in place (pointer write in the Go code): id and dirty bit untouched -/
def poke (db : Db) (k : Bytes) (e : Entry) : Db :=
  { db with keys := ainsert k e db.keys }

/-- `redisDict.remove` on the keyspace: dirty only when the key was stored -/
def del (db : Db) (k : Bytes) : Db :=
  match db.raw k with
  | some _ => { db with keys := aerase k db.keys, dirty := true }
  | none => db

def setDirty (db : Db) : Db := { db with dirty := true }

/-- in-place update of the value of a stored key, marking dirty; deletes the key when the
    aggregate became empty -/
def update (db : Db) (k : Bytes) (e : Entry) (v : Val) : Db :=
  let empty := match v with
    | .list l => l.isEmpty
    | .hash h => h.isEmpty
    | .set s => s.isEmpty
    | _ => false
  if empty then (db.del k).setDirty
  else (db.poke k { e with val := v }).setDirty

def liveKeys (db : Db) (now : Int) : List Bytes :=
  (db.keys.filter fun (_, e) => !e.expired now).map (·.1)

end Db

/-! ### Reply helpers -/

def wrongType : Value := .error (sb "WRONGTYPE Operation against a key holding the wrong kind of value")
def errNotInt : Value := .error (sb "ERR value is not an integer or out of range")
def errSyntax : Value := .error (sb "ERR Syntax error")
def errArgs : Value := .error (sb "ERR Incorrect or wrong number of arguments")
def vOK : Value := .simple (sb "OK")
def bulks (l : List Bytes) : Value := .array (l.map .bulk)
def vInt (n : Nat) : Value := .int (Int.ofNat n)

/-- how the driver compares a reply with the implementation's -/
inductive Match where
  | exact
  | unordered          -- top-level array / set compared as a multiset
  | unorderedPairs     -- map, or flat key/value array, compared as a multiset of pairs
  | intTol (tol : Nat) -- integer within ±tol
  | float              -- decimal compared with relative tolerance; implementation text adopted
  | custom (name : String)  -- validated by a named predicate in the driver (random / scan replies)
  | each (hs : List Match) -- EXEC: one hint per element
  deriving Repr, Inhabited

end RedisEmu
