/-
  Base definitions shared by model, spec and driver. Core Lean only.
-/
namespace RedisEmu

abbrev Bytes := List UInt8

/-- ASCII bytes of a Lean string (used for literals in the model; all literals are ASCII). -/
def sb (s : String) : Bytes := s.toUTF8.toList

def hexDigit (n : UInt8) : Char :=
  if n < 10 then Char.ofNat (48 + n.toNat) else Char.ofNat (87 + n.toNat)

def toHex (b : Bytes) : String :=
  String.ofList (b.flatMap fun x => [hexDigit (x / 16), hexDigit (x % 16)])

def hexVal (c : Char) : Option UInt8 :=
  if '0' ≤ c ∧ c ≤ '9' then some (c.toNat - 48).toUInt8
  else if 'a' ≤ c ∧ c ≤ 'f' then some (c.toNat - 87).toUInt8
  else if 'A' ≤ c ∧ c ≤ 'F' then some (c.toNat - 55).toUInt8
  else none

def fromHexAux : List Char → Bytes → Option Bytes
  | [], acc => some acc.reverse
  | [_], _ => none
  | a :: b :: rest, acc =>
    match hexVal a, hexVal b with
    | some x, some y => fromHexAux rest ((x * 16 + y) :: acc)
    | _, _ => none

/-- `-` denotes the empty byte string on the wire protocol. -/
def fromHex (s : String) : Option Bytes :=
  if s = "-" then some [] else fromHexAux s.toList []

def hexOrDash (b : Bytes) : String := if b.isEmpty then "-" else toHex b

/-! ### 64-bit two's complement on `Int` -/

def twoP63 : Int := 9223372036854775808
def twoP64 : Int := 18446744073709551616

/-- what a Go `int64` holds after an arithmetic result `x` -/
def wrap64 (x : Int) : Int := (x + twoP63) % twoP64 - twoP63

def inRange64 (x : Int) : Bool := decide (-twoP63 ≤ x) && decide (x < twoP63)

/-! ### Decimal integers the way Go's `strconv.ParseInt(s, 10, 64)` reads them -/

def isDigit (c : UInt8) : Bool := 48 ≤ c && c ≤ 57

def digitsVal : Bytes → Nat → Nat
  | [], acc => acc
  | c :: cs, acc => digitsVal cs (acc * 10 + (c.toNat - 48))

/-- Unbounded signed decimal: optional sign, at least one digit, digits only. -/
def parseDec (b : Bytes) : Option Int :=
  match b with
  | [] => none
  | c :: r =>
    if c == 45 then (if r.isEmpty || !r.all isDigit then none else some (-(digitsVal r 0 : Int)))
    else if c == 43 then (if r.isEmpty || !r.all isDigit then none else some (digitsVal r 0 : Int))
    else if !(c :: r).all isDigit then none else some (digitsVal (c :: r) 0 : Int)

/-- Go `ParseInt(s,10,64)`: `parseDec` restricted to the int64 range. -/
def parseInt64 (b : Bytes) : Option Int :=
  match parseDec b with
  | some n => if inRange64 n then some n else none
  | none => none

/-- decimal digits of `n`, most significant first, no leading zeros (Go `%d`) -/
def natDigitsAux : Nat → Nat → Bytes → Bytes
  | 0, _, acc => acc
  | fuel + 1, n, acc =>
    let acc' := (48 + n % 10).toUInt8 :: acc
    if n < 10 then acc' else natDigitsAux fuel (n / 10) acc'

def natDigits (n : Nat) : Bytes := natDigitsAux (n + 1) n []

def showInt (i : Int) : Bytes :=
  if i < 0 then 45 :: natDigits i.natAbs else natDigits i.natAbs

def lower (c : UInt8) : UInt8 := if 65 ≤ c && c ≤ 90 then c + 32 else c
def lowerB (b : Bytes) : Bytes := b.map lower
def eqFold (a b : Bytes) : Bool := lowerB a == lowerB b

/-! ### decimal numbers as Go's `strconv.ParseFloat` reads them (kept exact, never IEEE) -/

/-- value = mant / 10^scale -/
structure Dec where
  mant : Int
  scale : Nat
  deriving Repr

def splitAt46 : Bytes → Bytes × Option Bytes
  | [] => ([], none)
  | 46 :: r => ([], some r)
  | c :: r => let (a, b) := splitAt46 r; (c :: a, b)

def splitAtE : Bytes → Bytes × Option Bytes
  | [] => ([], none)
  | c :: r => if c == 101 || c == 69 then ([], some r) else let (a, b) := splitAtE r; (c :: a, b)

/-- decimal `[+-]ddd[.ddd][e[+-]dd]` as Go's `ParseFloat` reads it (hex floats, inf and nan are
    not produced by the generators and are not modelled) -/
def parseDecimal (b : Bytes) : Option Dec :=
  let (neg, body) := match b with
    | 45 :: r => (true, r)
    | 43 :: r => (false, r)
    | r => (false, r)
  let (mantPart, expPart) := splitAtE body
  let (ip, fp) := splitAt46 mantPart
  let fp' := fp.getD []
  if (ip.isEmpty && fp'.isEmpty) || !ip.all isDigit || !fp'.all isDigit then none
  else
    let m : Int := digitsVal (ip ++ fp') 0
    let m := if neg then -m else m
    match expPart with
    | none => some { mant := m, scale := fp'.length }
    | some e =>
      match parseDec e with
      | none => none
      | some x =>
        if x.natAbs > 400 then none
        else
          let sc : Int := (fp'.length : Int) - x
          if sc ≥ 0 then some { mant := m, scale := sc.toNat }
          else some { mant := m * (10 : Int) ^ (-sc).toNat, scale := 0 }

/-- the spellings of infinity and NaN `ParseFloat` accepts -/
def isInfNan (b : Bytes) : Bool :=
  let u := lowerB (match b with | 43 :: r => r | 45 :: r => r | r => r)
  u == sb "inf" || u == sb "infinity" || u == sb "nan"

/-! ### Go's `[]rune(string)`: UTF-8 decoding where every invalid byte becomes U+FFFD -/

def inR (b lo hi : UInt8) : Bool := lo ≤ b && b ≤ hi

/-- `utf8.DecodeRuneInString`: (rune, width ≥ 1) of a non-empty input -/
def decodeRune (b0 : UInt8) (r : Bytes) : Nat × Nat :=
  if b0 < 128 then (b0.toNat, 1)
  else
    -- second-byte acceptance range depends on the first byte
    let lo : UInt8 := if b0 == 0xE0 then 0xA0 else if b0 == 0xF0 then 0x90 else 0x80
    let hi : UInt8 := if b0 == 0xED then 0x9F else if b0 == 0xF4 then 0x8F else 0xBF
    let need : Nat := if inR b0 0xC2 0xDF then 1 else if inR b0 0xE0 0xEF then 2 else if inR b0 0xF0 0xF4 then 3 else 0
    match need, r with
    | 1, b1 :: _ =>
      if inR b1 lo hi then ((b0.toNat % 32) * 64 + b1.toNat % 64, 2) else (0xFFFD, 1)
    | 2, b1 :: b2 :: _ =>
      if inR b1 lo hi && inR b2 0x80 0xBF then
        ((b0.toNat % 16) * 4096 + (b1.toNat % 64) * 64 + b2.toNat % 64, 3)
      else (0xFFFD, 1)
    | 3, b1 :: b2 :: b3 :: _ =>
      if inR b1 lo hi && inR b2 0x80 0xBF && inR b3 0x80 0xBF then
        ((b0.toNat % 8) * 262144 + (b1.toNat % 64) * 4096 + (b2.toNat % 64) * 64 + b3.toNat % 64, 4)
      else (0xFFFD, 1)
    | _, _ => (0xFFFD, 1)

def toRunesAux : Nat → Bytes → List Nat
  | 0, _ => []
  | _, [] => []
  | fuel + 1, b0 :: r =>
    let (rune, w) := decodeRune b0 r
    rune :: toRunesAux fuel (r.drop (w - 1))

/-- Go's `[]rune(s)` -/
def toRunes (b : Bytes) : List Nat := toRunesAux b.length b

/-! ### association lists keyed by `Bytes`, first binding wins, insertion order kept -/

def alookup {α} (k : Bytes) : List (Bytes × α) → Option α
  | [] => none
  | (k', v) :: r => if k' == k then some v else alookup k r

def aerase {α} (k : Bytes) : List (Bytes × α) → List (Bytes × α)
  | [] => []
  | (k', v) :: r => if k' == k then r else (k', v) :: aerase k r

/-- replace in place if present, else append at the end -/
def ainsert {α} (k : Bytes) (v : α) : List (Bytes × α) → List (Bytes × α)
  | [] => [(k, v)]
  | (k', v') :: r => if k' == k then (k, v) :: r else (k', v') :: ainsert k v r

def akeys {α} (l : List (Bytes × α)) : List Bytes := l.map (·.1)

end RedisEmu
