/-
  The block / wake protocol of `blockOnListChangeWorker`, `waitTable.go` and `clientState.go` as a
  transition system on one list key: elements are natural numbers; a client is either registered in
  the key's wait queue, woken (token in its one-slot `ready` channel, already unlinked from the
  queue), or gone. Core Lean only.
-/
namespace RedisEmu

structure BState where
  list : List Nat := []          -- the list, head first
  queue : List Nat := []         -- registered waiters, longest waiting first
  woken : List Nat := []         -- clients holding a wake-up they have not acted on yet
  delivered : List (Nat × Nat) := []   -- (client, element) handed to a client
  removed : List Nat := []       -- elements explicitly removed by non-blocking commands (LPOP, LTRIM, DEL …)
  pushed : List Nat := []        -- every element ever pushed
  nextId : Nat := 0              -- `signals`: the id the next registering client gets (its age)
  deriving Repr

inductive BStep where
  | push (xs : List Nat)         -- RPUSH: append, then wake up to |xs| queue heads
  | register                     -- a client whose first try found nothing joins the queue with a fresh id
  | retry (c : Nat)              -- a woken client pops the head if there is one, else takes its place again
  | steal                        -- a non-blocking LPOP by someone else
  | leave (c : Nat)              -- timeout / unblock / disconnect: the client gives up
  deriving Repr

def wake (n : Nat) (s : BState) : BState :=
  { s with queue := s.queue.drop n, woken := s.woken ++ s.queue.take n }

/-- `waitTable.reenterWait`: before the first queued client that is younger (has a larger id) -/
def insertAge (c : Nat) : List Nat → List Nat
  | [] => [c]
  | x :: r => if c < x then c :: x :: r else x :: insertAge c r

def bstep (s : BState) : BStep → BState
  | .push xs => wake xs.length { s with list := s.list ++ xs, pushed := s.pushed ++ xs }
  | .register => { s with queue := s.queue ++ [s.nextId], nextId := s.nextId + 1 }
  | .retry c =>
    if c ∈ s.woken then
      match s.list with
      | x :: r => { s with list := r, woken := s.woken.erase c, delivered := s.delivered ++ [(c, x)] }
      | [] => { s with woken := s.woken.erase c, queue := insertAge c s.queue }   -- repaired behaviour: back to its place
    else s
  | .steal =>
    match s.list with
    | x :: r => { s with list := r, removed := s.removed ++ [x] }
    | [] => s
  | .leave c => { s with queue := s.queue.erase c, woken := s.woken.erase c }

def brun (s : BState) (steps : List BStep) : BState := steps.foldl bstep s

end RedisEmu
