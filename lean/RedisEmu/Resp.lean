import RedisEmu.Base
/-
  RESP values, the serializer (`respSerializer.go`), the request parser
  (`respDeserializer.go`) and the RESP3→RESP2 down-conversion (`resp.go: resp3To2`).

  The parser mirrors the Go code including its panics, which are explicit
  `crash` outcomes here.
-/
namespace RedisEmu

/-- mirrors `respValue.data` -/
inductive Value where
  | simple (s : Bytes)
  | error (s : Bytes)
  | int (i : Int)
  | bulk (b : Bytes)
  | nil                       -- Go `nil` data: `$-1`
  | null                      -- `respNull`: `_`
  | array (xs : List Value)
  | map (kvs : List (Value × Value))
  | set (xs : List Value)
  | attr (kvs : List (Value × Value))
  | push (kind : Bytes) (xs : List Value)
  | double (text : Bytes)     -- kept as the decimal text; never compared as a float
  | bool (b : Bool)
  | blobErr (s : Bytes)
  | verbatim (fmt : Bytes) (txt : Bytes)
  | big (text : Bytes)
  | pairs (kvs : List (Value × Value))   -- respPairs: serialize-only helper type
  | endMark                   -- respEnd: only inside dynamic aggregates
  deriving Inhabited, Repr

namespace Value

mutual
  def beq : Value → Value → Bool
    | simple a, simple b => a == b
    | error a, error b => a == b
    | int a, int b => a == b
    | bulk a, bulk b => a == b
    | nil, nil => true
    | null, null => true
    | array a, array b => beqList a b
    | map a, map b => beqPairs a b
    | set a, set b => beqList a b
    | attr a, attr b => beqPairs a b
    | push k a, push k' b => k == k' && beqList a b
    | double a, double b => a == b
    | bool a, bool b => a == b
    | blobErr a, blobErr b => a == b
    | verbatim f a, verbatim f' b => f == f' && a == b
    | big a, big b => a == b
    | pairs a, pairs b => beqPairs a b
    | endMark, endMark => true
    | _, _ => false
  def beqList : List Value → List Value → Bool
    | [], [] => true
    | a :: as, b :: bs => beq a b && beqList as bs
    | _, _ => false
  def beqPairs : List (Value × Value) → List (Value × Value) → Bool
    | [], [] => true
    | (a, a') :: as, (b, b') :: bs => beq a b && beq a' b' && beqPairs as bs
    | _, _ => false
end

instance : BEq Value := ⟨beq⟩

end Value

/-! projections with decidable equality (Value itself is a nested inductive without `DecidableEq`) -/
def Value.isError : Value → Bool | .error _ => true | _ => false
def Value.bulk? : Value → Option Bytes | .bulk b => some b | _ => none
def Value.int? : Value → Option Int | .int i => some i | _ => none
def Value.isNil : Value → Bool | .nil => true | _ => false

def crlf : Bytes := [13, 10]

/-! ## Serializer -/

def serLen (tag : UInt8) (n : Nat) : Bytes := tag :: natDigits n ++ crlf

/-- `serializeSimpleString`: CR and LF inside a simple / error string are sent as spaces -/
def lineSafe (s : Bytes) : Bytes := s.map fun b => if b == 13 || b == 10 then 32 else b

mutual
  def ser : Value → Bytes
    | .simple s => 43 :: lineSafe s ++ crlf
    | .error s => 45 :: lineSafe s ++ crlf
    | .int i => 58 :: showInt i ++ crlf
    | .bulk b => serLen 36 b.length ++ b ++ crlf
    | .nil => sb "$-1\r\n"
    | .null => sb "_\r\n"
    | .array xs => serLen 42 xs.length ++ serList xs
    | .map kvs => serLen 37 kvs.length ++ serPairs kvs
    | .set xs => serLen 126 xs.length ++ serList xs
    | .attr kvs => serLen 124 kvs.length ++ serPairs kvs
    | .push k xs => serLen 62 (1 + xs.length) ++ (43 :: k ++ crlf) ++ serList xs
    | .double t => 44 :: t ++ crlf
    | .bool true => sb "#t\r\n"
    | .bool false => sb "#f\r\n"
    | .blobErr s => serLen 33 s.length ++ s ++ crlf
    | .verbatim f t => serLen 61 (f.length + 1 + t.length) ++ f ++ [58] ++ t ++ crlf
    | .big t => 40 :: t ++ crlf
    | .pairs kvs => serLen 42 kvs.length ++ serPairs2 kvs
    | .endMark => sb ".\r\n"
  def serList : List Value → Bytes
    | [] => []
    | x :: xs => ser x ++ serList xs
  def serPairs : List (Value × Value) → Bytes
    | [] => []
    | (k, v) :: r => ser k ++ ser v ++ serPairs r
  /-- `serializePairs`: each pair as a two-element array -/
  def serPairs2 : List (Value × Value) → Bytes
    | [] => []
    | (k, v) :: r => sb "*2\r\n" ++ ser k ++ ser v ++ serPairs2 r
end

/-- a command as clients send it: an array of bulk strings -/
def encodeCmd (argv : List Bytes) : Bytes := ser (.array (argv.map .bulk))

/-! ## Down-conversion `resp3To2` -/

/-- `Value.toString` of `resp.go` (which types convert to a Go string) -/
def Value.toStr? : Value → Option Bytes
  | .bulk b => some b
  | .simple s => some s
  | .error s => some s
  | .blobErr s => some s
  | .verbatim _ t => some t
  | _ => none

/-- `fmt.Sprintf("%s", v.data)` for the scalar kinds that appear as map keys -/
def Value.fmtS : Value → Bytes
  | .bulk b => b
  | .simple s => s
  | .error s => s
  | .blobErr s => s
  | .int i => showInt i
  | .double t => t
  | .bool true => sb "true"
  | .bool false => sb "false"
  | .big t => t
  | .verbatim f t => f ++ [58] ++ t
  | _ => sb "?"

mutual
  def down : Value → Value
    | .simple s => .simple s
    | .error s => .error s
    | .int i => .int i
    | .bulk b => .bulk b
    | .double t => .bulk t
    | .bool true => .int 1
    | .bool false => .int 0
    | .big t => .bulk t
    | .verbatim _ t => .bulk t
    | .blobErr s => .error s
    | .map kvs => .array (downMap kvs)
    | .pairs kvs => .array (flatPairs kvs)
    | .array xs => .array (downList xs)
    | .set xs => .array (downList xs)
    | .attr kvs => .array (downMap kvs)
    | .null => .nil
    | .nil => .nil
    | .push k xs => .push k xs     -- Go panics here; never produced by a handler
    | .endMark => .endMark
  def downList : List Value → List Value
    | [] => []
    | x :: xs => down x :: downList xs
  def downMap : List (Value × Value) → List Value
    | [] => []
    | (k, v) :: r => .bulk k.fmtS :: down v :: downMap r
  /-- `resp3PairsToResp2` flattens without converting the members -/
  def flatPairs : List (Value × Value) → List Value
    | [] => []
    | (k, v) :: r => k :: v :: flatPairs r
end

mutual
  /-- the conversion the property prescribes: double / big number / verbatim text → (bulk) string,
      boolean → 0/1, map or pair list → flat array, set → array, null → nil -/
  def downSpec : Value → Value
    | .simple s => .simple s
    | .error s => .error s
    | .int i => .int i
    | .bulk b => .bulk b
    | .double t => .bulk t
    | .bool true => .int 1
    | .bool false => .int 0
    | .big t => .bulk t
    | .verbatim _ t => .bulk t
    | .blobErr s => .error s
    | .map kvs => .array (downSpecMap kvs)
    | .pairs kvs => .array (downSpecMap kvs)
    | .array xs => .array (downSpecList xs)
    | .set xs => .array (downSpecList xs)
    | .attr kvs => .array (downSpecMap kvs)
    | .null => .nil
    | .nil => .nil
    | .push k xs => .push k xs
    | .endMark => .endMark
  def downSpecList : List Value → List Value
    | [] => []
    | x :: xs => downSpec x :: downSpecList xs
  def downSpecMap : List (Value × Value) → List Value
    | [] => []
    | (k, v) :: r => downSpec k :: downSpec v :: downSpecMap r
end

/-! ## Parser -/

inductive PR (α : Type) where
  | ok (v : α) (rest : Bytes) (pos : Nat)
  | invalid
  | crash (site : String)
  deriving Inhabited

/-- first CR LF: the line before it and the input after it. Mirrors
    `findNextLine` (needs two bytes, scans for the pair). -/
def splitLine : Bytes → Option (Bytes × Bytes)
  | [] => none
  | [_] => none
  | a :: b :: r =>
    if a == 13 && b == 10 then some ([], r)
    else match splitLine (b :: r) with
      | some (l, rest) => some (a :: l, rest)
      | none => none

/-- `peekBulkLine` + `moveToNextLine`: `n` bytes followed by CR LF; anything shorter is
    "not all there yet" -/
def takeBulk (n : Nat) (inp : Bytes) (pos : Nat) : PR Bytes :=
  if n + 2 > inp.length then .invalid
  else
    let body := inp.take n
    let after := inp.drop n
    match after with
    | 13 :: 10 :: rest => .ok body rest (pos + n + 2)
    | _ => .invalid

/-- (kept for the history of D34: the parser used to allocate by the declared count) -/
def makeCrashes (_ : Nat) : Bool := false

/-- value kinds Go cannot hash (used as set member / map key → runtime panic) -/
def Value.unhashable : Value → Bool
  | .array _ | .map _ | .set _ | .attr _ | .push _ _ | .pairs _ => true
  | _ => false

/-- `respNormalizeKey` -/
def normKey (v : Value) : Value :=
  match v.toStr? with
  | some s => .bulk s
  | none => v

def insertSet (v : Value) (xs : List Value) : List Value :=
  if xs.any (· == v) then xs else xs ++ [v]

def insertMap (k v : Value) : List (Value × Value) → List (Value × Value)
  | [] => [(k, v)]
  | (k', v') :: r => if k' == k then (k', v) :: r else (k', v') :: insertMap k v r

def lineCount (line : Bytes) : Option Int := parseInt64 (line.drop 1)

mutual
  /-- `getNextValueEx`. `fuel` bounds the recursion; `inp.length + 1` always suffices
      because every value consumes at least one CR LF. -/
  def parseValue (fuel : Nat) (endAllowed : Bool) (inp : Bytes) (pos : Nat) : PR Value :=
    match fuel with
    | 0 => .invalid
    | fuel + 1 =>
    match splitLine inp with
    | none => .invalid
    | some (line, rest) =>
      let pos' := pos + line.length + 2
      match line with
      | [] => .invalid
      | c :: body =>
        if c == 43 then .ok (.simple body) rest pos'
        else if c == 45 then .ok (.error body) rest pos'
        else if c == 36 then
          if line == sb "$?" then parseChunked fuel rest pos' []
          else match lineCount line with
            | none => .invalid
            | some n =>
              if n < 0 then .ok .nil rest pos'
              else match takeBulk n.toNat rest pos' with
                | .ok b r p => .ok (.bulk b) r p
                | .invalid => .invalid
                | .crash s => .crash s
        else if c == 58 then
          match lineCount line with
          | none => .invalid
          | some n => .ok (.int n) rest pos'
        else if c == 42 then
          if line == sb "*?" then
            match parseDyn fuel rest pos' [] with
            | .ok xs r p => .ok (.array xs) r p
            | .invalid => .invalid
            | .crash s => .crash s
          else match lineCount line with
            | none => .invalid
            | some n =>
              if n < 0 then .ok .nil rest pos'
              else if makeCrashes n.toNat then .crash "getNextArray: makeslice cap out of range"
              else match parseN fuel n.toNat rest pos' [] with
                | .ok xs r p => .ok (.array xs) r p
                | .invalid => .invalid
                | .crash s => .crash s
        else if c == 37 then
          if line == sb "%?" then
            match parseDynMap fuel rest pos' [] with
            | .ok kvs r p => .ok (.map kvs) r p
            | .invalid => .invalid
            | .crash s => .crash s
          else match lineCount line with
            | none => .invalid
            | some n =>
              if n < 0 then .invalid
              else match parseNMap fuel n.toNat rest pos' [] with
                | .ok kvs r p => .ok (.map kvs) r p
                | .invalid => .invalid
                | .crash s => .crash s
        else if c == 44 then
          -- `strconv.ParseFloat` is not modelled: syntax check only
          if (parseDecimal body).isSome || isInfNan body then .ok (.double body) rest pos' else .invalid
        else if line == sb "#t" then .ok (.bool true) rest pos'
        else if line == sb "#f" then .ok (.bool false) rest pos'
        else if c == 126 then
          if line == sb "~?" then
            match parseDyn fuel rest pos' [] with
            | .ok xs r p =>
              let ys := xs.map normKey
              if ys.any Value.unhashable then .invalid
              else .ok (.set (ys.foldl (fun acc v => insertSet v acc) [])) r p
            | .invalid => .invalid
            | .crash s => .crash s
          else match lineCount line with
            | none => .invalid
            | some n =>
              if n < 0 then .invalid
              else match parseNSet fuel n.toNat rest pos' [] with
                | .ok xs r p => .ok (.set xs) r p
                | .invalid => .invalid
                | .crash s => .crash s
        else if line == sb "." && endAllowed then .ok .endMark rest pos'
        else if line == sb "_" then .ok .null rest pos'
        else if c == 33 then
          if line == sb "!?" then
            match parseChunked fuel rest pos' [] with
            | .ok (.bulk b) r p => .ok (.blobErr b) r p
            | .ok _ _ _ => .invalid
            | .invalid => .invalid
            | .crash s => .crash s
          else match lineCount line with
            | none => .invalid
            | some n =>
              if n < 0 then .invalid
              else match takeBulk n.toNat rest pos' with
                | .ok b r p => .ok (.blobErr b) r p
                | .invalid => .invalid
                | .crash s => .crash s
        else if c == 61 then
          match lineCount line with
          | none => .invalid
          | some n =>
            if n < 0 then .invalid
            else match takeBulk n.toNat rest pos' with
              | .ok b r p =>
                if b.length < 4 || b.getD 3 0 != 58 then .invalid
                else .ok (.verbatim (b.take 3) (b.drop 4)) r p
              | .invalid => .invalid
              | .crash s => .crash s
        else if c == 124 then
          if line == sb "|?" then
            match parseDynMap fuel rest pos' [] with
            | .ok kvs r p => .ok (.attr kvs) r p
            | .invalid => .invalid
            | .crash s => .crash s
          else match lineCount line with
            | none => .invalid
            | some n =>
              if n < 0 then .invalid
              else match parseNMap fuel n.toNat rest pos' [] with
                | .ok kvs r p => .ok (.attr kvs) r p
                | .invalid => .invalid
                | .crash s => .crash s
        else if c == 62 then
          match lineCount line with
          | none => .invalid
          | some n =>
            if n < 1 then .invalid
            else if makeCrashes (n.toNat - 1) then .crash "getNextPush: makeslice cap out of range"
            else match parseValue fuel false rest pos' with
              | .ok k r p =>
                match k.toStr? with
                | none => .invalid
                | some kind =>
                  match parseN fuel (n.toNat - 1) r p [] with
                  | .ok xs r' p' => .ok (.push kind xs) r' p'
                  | .invalid => .invalid
                  | .crash s => .crash s
              | .invalid => .invalid
              | .crash s => .crash s
        else if c == 40 then .ok (.big body) rest pos'
        else .invalid

  /-- `getNextArray`: exactly `n` values -/
  def parseN (fuel : Nat) (n : Nat) (inp : Bytes) (pos : Nat) (acc : List Value) : PR (List Value) :=
    match fuel with
    | 0 => .invalid
    | fuel + 1 =>
      match n with
      | 0 => .ok acc.reverse inp pos
      | n + 1 =>
        match parseValue fuel false inp pos with
        | .ok v r p => parseN fuel n r p (v :: acc)
        | .invalid => .invalid
        | .crash s => .crash s

  /-- `getNextSet` -/
  def parseNSet (fuel : Nat) (n : Nat) (inp : Bytes) (pos : Nat) (acc : List Value) : PR (List Value) :=
    match fuel with
    | 0 => .invalid
    | fuel + 1 =>
      match n with
      | 0 => .ok acc inp pos
      | n + 1 =>
        match parseValue fuel false inp pos with
        | .ok v r p =>
          let v := normKey v
          if v.unhashable then .invalid
          else parseNSet fuel n r p (insertSet v acc)
        | .invalid => .invalid
        | .crash s => .crash s

  /-- `getNextMap` / `getNextAttributeMap` -/
  def parseNMap (fuel : Nat) (n : Nat) (inp : Bytes) (pos : Nat) (acc : List (Value × Value)) :
      PR (List (Value × Value)) :=
    match fuel with
    | 0 => .invalid
    | fuel + 1 =>
      match n with
      | 0 => .ok acc inp pos
      | n + 1 =>
        match parseValue fuel false inp pos with
        | .ok k r p =>
          let k := normKey k
          match parseValue fuel false r p with
          | .ok v r' p' =>
            if k.unhashable then .invalid
            else parseNMap fuel n r' p' (insertMap k v acc)
          | .invalid => .invalid
          | .crash s => .crash s
        | .invalid => .invalid
        | .crash s => .crash s

  /-- `getNextDynamicArray` (also used for dynamic sets before normalisation) -/
  def parseDyn (fuel : Nat) (inp : Bytes) (pos : Nat) (acc : List Value) : PR (List Value) :=
    match fuel with
    | 0 => .invalid
    | fuel + 1 =>
      match parseValue fuel true inp pos with
      | .ok .endMark r p => .ok acc.reverse r p
      | .ok v r p => parseDyn fuel r p (v :: acc)
      | .invalid => .invalid
      | .crash s => .crash s

  def parseDynMap (fuel : Nat) (inp : Bytes) (pos : Nat) (acc : List (Value × Value)) :
      PR (List (Value × Value)) :=
    match fuel with
    | 0 => .invalid
    | fuel + 1 =>
      match parseValue fuel true inp pos with
      | .ok .endMark r p => .ok acc r p
      | .ok k r p =>
        let k := normKey k
        match parseValue fuel false r p with
        | .ok v r' p' =>
          if k.unhashable then .invalid
          else parseDynMap fuel r' p' (insertMap k v acc)
        | .invalid => .invalid
        | .crash s => .crash s
      | .invalid => .invalid
      | .crash s => .crash s

  /-- `getChunkedString` -/
  def parseChunked (fuel : Nat) (inp : Bytes) (pos : Nat) (acc : Bytes) : PR Value :=
    match fuel with
    | 0 => .invalid
    | fuel + 1 =>
      match splitLine inp with
      | none => .invalid
      | some (line, rest) =>
        let pos' := pos + line.length + 2
        match line with
        | 59 :: _ =>
          match lineCount line with
          | none => .invalid
          | some n =>
            if n == 0 then .ok (.bulk acc) rest pos'
            else if n < 0 then .invalid
            else match takeBulk n.toNat rest pos' with
              | .ok b r p => parseChunked fuel r p (acc ++ b)
              | .invalid => .invalid
              | .crash s => .crash s
        | _ => .invalid
end

/-- `deserializeNext` on a fresh buffer: value and consumed length -/
def parse (inp : Bytes) : PR Value := parseValue (inp.length + 1) false inp 0

inductive ParseResult where
  | complete (v : Value) (len : Nat)
  | invalid
  | crash (site : String)

def parseRes (inp : Bytes) : ParseResult :=
  match parse inp with
  | .ok v _ p => .complete v p
  | .invalid => .invalid
  | .crash s => .crash s

/-! ## The connection's inbound buffer (`clientCxn.onWaitForCommand`) -/

structure ConnState where
  inbound : Bytes := []
  emitted : List Value := []   -- commands handed to dispatch, oldest first
  dead : Bool := false         -- the parse panicked: process gone

/-- drain complete commands from the buffer; `fuel` = buffer length + 1 -/
def drain : Nat → ConnState → ConnState
  | 0, s => s
  | fuel + 1, s =>
    if s.dead then s else
    match parseRes s.inbound with
    | .complete v n =>
      if n == 0 then s
      else drain fuel { s with inbound := s.inbound.drop n, emitted := s.emitted ++ [v] }
    | .invalid => s
    | .crash _ => { s with dead := true }

/-- one TCP read delivering `chunk` -/
def feed (s : ConnState) (chunk : Bytes) : ConnState :=
  let s' := { s with inbound := s.inbound ++ chunk }
  drain (s'.inbound.length + 1) s'

end RedisEmu
