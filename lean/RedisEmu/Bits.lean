import RedisEmu.Cmds
/-
  Bitmap commands (`redisBits.go`, `bitMath.go`, `bitfieldWrite`/`changeBits`/`invertBits`).
  Strings are big-endian bit arrays: bit `i` is bit `7 - i % 8` of byte `i / 8`.
-/
namespace RedisEmu

/-- bit `i` of the string, zero beyond the end -/
def bitAt (s : Bytes) (i : Nat) : Bool :=
  match s[i / 8]? with
  | some b => b.toNat.testBit (7 - i % 8)
  | none => false

/-- unsigned value of bits `a … a+w-1` (first bit most significant) -/
def extractBits (s : Bytes) (a w : Nat) : Nat :=
  (List.range w).foldl (fun acc j => acc * 2 + (if bitAt s (a + j) then 1 else 0)) 0

def setBitInByte (b : UInt8) (pos : Nat) (v : Bool) : UInt8 :=
  let m : Nat := 2 ^ (7 - pos)
  if v then (b.toNat ||| m).toUInt8 else (b.toNat &&& (255 - m)).toUInt8

/-- write one bit; the string must already be long enough -/
def setBit1 (s : Bytes) (i : Nat) (v : Bool) : Bytes :=
  match s[i / 8]? with
  | some b => s.set (i / 8) (setBitInByte b (i % 8) v)
  | none => s

/-- write the low `w` bits of `val` (two's complement) at bit offset `a` -/
def setBits (s : Bytes) (a w : Nat) (val : Nat) : Bytes :=
  (List.range w).foldl (fun acc j => setBit1 acc (a + j) (val.testBit (w - 1 - j))) s

def padTo (s : Bytes) (n : Nat) : Bytes := if s.length < n then s ++ List.replicate (n - s.length) 0 else s

/-- two's complement reading of an unsigned `w`-bit value -/
def toSigned (u : Nat) (w : Nat) : Int := if w > 0 && u ≥ 2 ^ (w - 1) then (u : Int) - 2 ^ w else u

/-- low `w` bits of an integer -/
def lowBits (x : Int) (w : Nat) : Nat := (x % (2 ^ w : Int)).toNat

/-! ### the overflow helpers of `bitMath.go`, mirrored on wrapped int64 -/

/-- `isSignedSumOverflow` exactly as written (all arithmetic in int64) -/
def goSignedSumOverflow (a b : Int) (bits : Nat) : Bool :=
  let signBit := wrap64 ((2 : Int) ^ (bits - 1))
  if b > 0 then
    let ceiling := wrap64 (signBit - 1)
    decide (b > wrap64 (ceiling - a))
  else
    let bottom := wrap64 (-(wrap64 (signBit - 1)) - 1)      -- ^(signBit-1)
    decide (b < wrap64 (bottom - a))

/-- what the property asks: the true sum leaves the `bits`-wide signed range -/
def specSignedOverflow (a b : Int) (bits : Nat) : Bool :=
  let s := a + b
  decide (s < -(2 : Int) ^ (bits - 1)) || decide (s ≥ (2 : Int) ^ (bits - 1))

def specSignedRange (v : Int) (bits : Nat) : Bool :=
  decide (v < -(2 : Int) ^ (bits - 1)) || decide (v ≥ (2 : Int) ^ (bits - 1))

inductive OverflowMode where | wrap | sat | fail deriving Repr, BEq, DecidableEq
inductive BfKind where | get | set | incrby deriving Repr, BEq, DecidableEq

structure BfOp where
  kind : BfKind
  enc : Bytes
  off : Bytes
  value : Bytes
  ov : OverflowMode
  deriving Repr

/-- Go `strconv.ParseInt(s, 10, 32)` -/
def parseInt32 (b : Bytes) : Option Int :=
  match parseDec b with
  | some n => if decide (-2147483648 ≤ n) && decide (n ≤ 2147483647) then some n else none
  | none => none

/-- `parseBitfieldEncodingType`: (signed, width); width 0 = invalid -/
def parseEnc (e : Bytes) : Bool × Nat :=
  match e with
  | c :: r =>
    if c == 105 || c == 117 then
      let signed := c == 105
      match parseInt32 r with
      | some w => if w < 1 || (signed && w > 64) || (!signed && w > 63) then (signed, 0) else (signed, w.toNat)
      | none => (signed, 0)
    else (false, 0)
  | [] => (false, 0)

/-- `parseBitfieldOffset` -/
def parseBfOffset (spec : Bytes) (width : Nat) : Option Int :=
  match spec with
  | 35 :: r => match parseInt32 r with
    | some n => if n < 0 || n * width ≥ 4294967296 then none else some (n * width)
    | none => none
  | _ => match parseInt32 spec with
    | some n => if n < 0 then none else some n
    | none => none

def errBfType : Value := .error (sb "ERR Invalid bitfield type. Use something like i16 u8. Note that u64 is not supported but i64 is.")
def errBfOffset : Value := .error (sb "ERR bit offset is not an integer or out of range")

structure BfParsed where
  kind : BfKind
  signed : Bool
  width : Nat
  off : Int
  value : Int
  ov : OverflowMode

/-- validation done by `organizeBitfieldOp` before anything is executed.
    The handler validates INCRBY/SET ops first, then GETs. -/
def bfParse (op : BfOp) : Except Value BfParsed :=
  let (signed, width) := parseEnc op.enc
  if width == 0 then .error errBfType else
  match parseBfOffset op.off width with
  | none => .error errBfOffset
  | some off =>
    if op.kind == .get then .ok { kind := .get, signed, width, off, value := 0, ov := op.ov }
    else match parseInt64 op.value with
      | none => .error (.error [])
      | some v => .ok { kind := op.kind, signed, width, off, value := v, ov := op.ov }

def bfParseAll (ops : List BfOp) : Except Value (List BfParsed) :=
  -- error precedence: writes are organised before reads
  let writes := ops.filter (·.kind != .get)
  let reads := ops.filter (·.kind == .get)
  match (writes ++ reads).findSome? (fun o => match bfParse o with | .error e => some e | .ok _ => none) with
  | some e => .error e
  | none => .ok (ops.filterMap fun o => match bfParse o with | .ok p => some p | .error _ => none)

/-- one operation of `bitfieldWrite` on the working buffer: (buffer, changed, result) -/
def bfStep (c : Ctx) (buf : Bytes) (p : BfParsed) : Bytes × Bool × Value :=
  let a := p.off.toNat
  let u := extractBits buf a p.width
  -- the Go code reads into an int64 and sign-extends when signed
  let n : Int := if p.signed then toSigned u p.width else wrap64 u
  match p.kind with
  | .get => (buf, false, .int n)
  | _ =>
    let newValue : Int := if p.kind == .incrby then wrap64 (n + p.value) else p.value
    let oob : Bool :=
      if p.signed then
        if p.kind == .set && !c.q.bfSetOverflowUsesSum then specSignedRange p.value p.width
        else if c.q.bfSignedOverflow64 then goSignedSumOverflow n p.value p.width
        else specSignedOverflow n p.value p.width
      else decide (newValue < 0) || decide (newValue ≥ (2 : Int) ^ p.width)
    let resolved : Option Int :=
      if !oob then some newValue else
      match p.ov with
      | .wrap =>
        let m := lowBits newValue p.width
        some (if p.signed then toSigned m p.width else (m : Int))
      | .sat =>
        if p.signed then
          -- `saturateValue` looks at the sign of the (wrapped) new value
          let neg := if c.q.bfSignedOverflow64 then decide (newValue < 0)
                     else (if p.kind == .incrby then decide (n + p.value < 0) else decide (p.value < 0))
          some (if neg then -(2 : Int) ^ (p.width - 1) else (2 : Int) ^ (p.width - 1) - 1)
        else some (if p.value < 0 then 0 else (2 : Int) ^ p.width - 1)
      | .fail => none
    match resolved with
    | none => (buf, false, .nil)
    | some v =>
      let buf' := setBits buf a p.width (lowBits v p.width)
      (buf', true, .int (if p.kind == .incrby then v else n))

def cmdBitfieldParsed (c : Ctx) (db : Db) (k : Bytes) (ps : List BfParsed) : R :=
  let maxEnd := (ps.filter (·.kind != .get)).foldl (fun m p => max m (p.off.toNat + p.width - 1)) 0
  let length : Nat := maxEnd / 8 + 1
  match db.live c.now k with
  | some { val := .str _, .. } | none =>
    let (old, exp) : Bytes × Option Int := match db.live c.now k with
      | some { val := .str b, exp := e, .. } => (b, e)
      | _ => ([], none)
    let buf0 := padTo old length
    let (buf, changed, results) := ps.foldl (fun (acc : Bytes × Bool × List Value) p =>
      let (b, ch, rs) := acc
      let (b', ch', r) := bfStep c b p
      (b', ch || ch', rs ++ [r])) (buf0, false, [])
    R.ok (if changed then db.put k (.str buf) exp else db) (.array results)
  | some _ => R.ok db wrongType

def cmdBitfield (c : Ctx) (db : Db) (k : Bytes) (ops : List BfOp) : R :=
  match bfParseAll ops with
  | .error e => R.ok db e
  | .ok ps => cmdBitfieldParsed c db k ps

def cmdGetBit (c : Ctx) (db : Db) (k : Bytes) (off : Int) : R :=
  if off < 0 then R.ok db errBfOffset else
  match db.live c.now k with
  | none => R.ok db (.int 0)
  | some { val := .str b, .. } => R.ok db (.int (if bitAt b off.toNat then 1 else 0))
  | some _ => R.ok db wrongType

def errBitVal : Value := .error (sb "ERR bit is not an integer or out of range")

def cmdSetBit (c : Ctx) (db : Db) (k : Bytes) (off v : Int) : R :=
  if off < 0 || off ≥ 4294967296 then R.ok db errBfOffset
  else if v != 0 && v != 1 then R.ok db errBitVal
  else
    let r := cmdBitfieldParsed c db k [{ kind := .set, signed := false, width := 1, off := off, value := v, ov := .wrap }]
    match r.reply with
    | .array [x] => { r with reply := x }
    | _ => r

def popcount8 (b : UInt8) : Nat := ((List.range 8).filter fun i => b.toNat.testBit i).length

/-- BITCOUNT. `range = (start, end, bitMode)` -/
def cmdBitCount (c : Ctx) (db : Db) (k : Bytes) (range : Option (Int × Int × Bool)) : R :=
  match db.live c.now k with
  | none => R.ok db (.int 0)
  | some { val := .str b, .. } =>
    if b.isEmpty then R.ok db (.int 0) else
    let bitMode := match range with | some (_, _, m) => m | none => false
    let length : Int := if bitMode then b.length * 8 else b.length
    let start : Int := match range with | some (s, _, _) => s | none => 0
    let stop : Int := match range with | some (_, e, _) => e | none => (b.length : Int) - 1
    let start := if start < 0 then length + start else start
    let stop := if stop < 0 then length + stop else stop
    -- Redis: a start beyond the end counts nothing; the code clamps it onto the last unit (D44)
    if !c.q.bitcountClamp && start ≥ length then R.ok db (.int 0) else
    let start := if start < 0 then 0 else if start ≥ length then length - 1 else start
    if stop < start then R.ok db (.int 0) else
    let stop := if stop ≥ length then length - 1 else stop
    if start < 0 then
      (if c.q.bitcountEmptyCrash then R.crashed db "bitcount: slice bounds out of range [-1:]" else R.ok db (.int 0))
    else if bitMode then
      R.ok db (vInt ((List.range (stop - start + 1).toNat).filter fun j => bitAt b (start.toNat + j)).length)
    else
      R.ok db (vInt (((b.drop start.toNat).take (stop - start + 1).toNat).foldl (fun acc x => acc + popcount8 x) 0))
  | some _ => R.ok db wrongType

/-- first position in `[a, b]` whose bit equals `v` -/
def firstBit (s : Bytes) (v : Bool) (a b : Nat) : Option Nat :=
  (List.range (b + 1 - a)).findSome? fun j => if bitAt s (a + j) == v then some (a + j) else none

/-- `findBit` of `bitMath.go`: first bit equal to `bit` between the first bit of unit `startIndex`
    and the last bit of unit `endIndex` (units are bytes or bits; negative indexes count from the
    end); when looking for a clear bit without an explicit end, the position just past the string. -/
def findBitModel (_c : Ctx) (s : Bytes) (startIndex endIndex : Int) (width : Nat) (bit noEnd : Bool) : Int :=
  let bits : Int := s.length * 8
  let last := bits - 1
  let startBit := if startIndex < 0 then bits + startIndex * width else startIndex * width
  let endBit := (if endIndex < 0 then bits + endIndex * width else endIndex * width) + ((width : Int) - 1)
  let startBit := if startBit < 0 then 0 else startBit
  if startBit > last then -1 else
  if endBit < startBit then -1 else
  let endBit := if endBit > last then last else endBit
  match firstBit s bit startBit.toNat endBit.toNat with
  | some p => p
  | none => if !bit && noEnd then bits else -1

def errBitArg : Value := .error (sb "ERR The bit argument must be 1 or 0.")

def cmdBitPos (c : Ctx) (db : Db) (k : Bytes) (bit : Int) (start : Option Int) (stop : Option (Int × Bool)) : R :=
  if bit != 0 && bit != 1 then R.ok db errBitArg else
  match db.live c.now k with
  | none => R.ok db (.int (if bit != 0 then -1 else 0))
  | some { val := .str b, .. } =>
    let width := match stop with | some (_, true) => 1 | _ => 8
    let e := match stop with | some (e, _) => e | none => -1
    R.ok db (.int (findBitModel c b (start.getD 0) e width (bit != 0) stop.isNone))
  | some _ => R.ok db wrongType

def byteOp (op : Bytes) (a b : UInt8) : UInt8 :=
  if op == sb "and" then a &&& b else if op == sb "or" then a ||| b else a ^^^ b

def errBitopNot : Value := .error (sb "ERR BITOP NOT must be called with a single source key.")

def cmdBitOp (c : Ctx) (db : Db) (op d : Bytes) (ks : List Bytes) : R :=
  if op == sb "not" && ks.length != 1 then R.ok db errBitopNot else
  let srcs := ks.map fun k => match db.live c.now k with
    | none => some []
    | some { val := .str b, .. } => some b
    | some _ => none
  if srcs.any Option.isNone then R.ok db wrongType else
  let vals := srcs.map (·.getD [])
  let longest := vals.foldl (fun m v => max m v.length) 0
  let res : Bytes :=
    if op == sb "not" then (vals.headD []).map fun b => (255 - b.toNat).toUInt8
    else match vals with
      | [] => []
      | v :: r => r.foldl (fun acc x => (List.range longest).map fun i => byteOp op (acc.getD i 0) (x.getD i 0)) (padTo v longest)
  if res.isEmpty && !c.q.bitopEmptyCreates then R.ok (db.del d) (.int 0)
  else R.ok (db.put d (.str res) none) (vInt res.length)

end RedisEmu
