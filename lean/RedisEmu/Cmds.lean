import RedisEmu.Store
/-
  Command semantics on one database, written after `dataStoreCommands.go` and the
  `fn*` handlers. Every function takes the already-split arguments.
-/
namespace RedisEmu

structure Ctx where
  q : Quirks
  now : Int
  impl : Option Value := none   -- implementation reply; consulted by float commands only

/-- result of one command on one database -/
structure R where
  db : Db
  reply : Value
  hint : Match := .exact
  crash : Option String := none
  pushed : List (Bytes × Nat) := []   -- (key, number of pushed elements): wake-ups owed
  deriving Inhabited

def R.ok (db : Db) (v : Value) : R := { db := db, reply := v }
def R.crashed (db : Db) (site : String) : R := { db := db, reply := .nil, crash := some site }

def ns : Int := 1000000000
def msNs : Int := 1000000

/-- fresh version id for an in-place change unless the code keeps it (D27) -/
def bump (c : Ctx) (db : Db) (e : Entry) : Db × Entry :=
  if c.q.inplaceKeepsVersion then (db, e)
  else ({ db with nextId := db.nextId + 1 }, { e with id := db.nextId + 1 })

/-- in-place update of a stored aggregate -/
def upd (c : Ctx) (db : Db) (k : Bytes) (e : Entry) (v : Val) : Db :=
  let (db, e) := bump c db e
  db.update k e v

/-- mark dirty, unless this is one of the mutators that forget to (D47) -/
def dirtyUnlessQuirk (c : Ctx) (db : Db) : Db :=
  if c.q.dirtyIncomplete then db else db.setDirty

/-! ## Strings -/

inductive ExpArg where
  | ex (n : Int) | px (n : Int) | exat (n : Int) | pxat (n : Int) | keepttl | persist
  deriving Repr, DecidableEq

def ExpArg.invalid : ExpArg → Bool
  | .ex n | .px n | .exat n | .pxat n => n ≤ 0
  | _ => false

/-- `parseArgsWithExpiration` -/
def ExpArg.deadline (now : Int) : ExpArg → Option Int
  | .ex n => some (now + n * ns - 1)
  | .px n => some (now + n * msNs - 1)
  | .exat n => some (n * ns + now % ns - 1)
  | .pxat n => some (n * msNs)
  | .keepttl => none
  | .persist => none

structure SetOpts where
  nx : Bool := false
  xx : Bool := false
  get : Bool := false
  exp : Option ExpArg := none
  deriving Repr

def parseSetOpts : List Bytes → SetOpts → Option SetOpts
  | [], o => some o
  | t :: r, o =>
    let u := lowerB t
    if u == sb "nx" then (if o.nx || o.xx then none else parseSetOpts r { o with nx := true })
    else if u == sb "xx" then (if o.nx || o.xx then none else parseSetOpts r { o with xx := true })
    else if u == sb "get" then (if o.get then none else parseSetOpts r { o with get := true })
    else if u == sb "keepttl" then (if o.exp.isSome then none else parseSetOpts r { o with exp := some .keepttl })
    else if o.exp.isSome then none
    else match r with
      | [] => none
      | n :: r' =>
        match parseInt64 n with
        | none => none
        | some i =>
          if u == sb "ex" then parseSetOpts r' { o with exp := some (.ex i) }
          else if u == sb "px" then parseSetOpts r' { o with exp := some (.px i) }
          else if u == sb "exat" then parseSetOpts r' { o with exp := some (.exat i) }
          else if u == sb "pxat" then parseSetOpts r' { o with exp := some (.pxat i) }
          else none

def errExpire : Value := .error (sb "ERR invalid expire time")

/-- `setKey`. `append` implies `get`. Returns Go's `(val, wrongType)`; `val = none` is Go nil. -/
def setKey (c : Ctx) (db : Db) (k v : Bytes) (o : SetOpts) (append : Bool) (keepTtlOnAppend : Bool) :
    Db × Option Value × Bool :=
  let deadline : Option Int := match o.exp with
    | some e => e.deadline c.now
    | none => none
  match db.live c.now k with
  | some old =>
    let sbytes : Option Bytes := match old.val with | .str b => some b | _ => none
    -- SET_GET
    if o.get && sbytes.isNone then (db, none, true) else
    let val : Option Value := if o.get then sbytes.map .bulk else some vOK
    if o.nx then (db, (if o.get then val else none), false) else
    let deadline := if o.exp == some .keepttl || (append && keepTtlOnAppend) then old.exp else deadline
    if append && sbytes.isNone then (db, none, true) else
    let newBytes := if append then sbytes.getD [] ++ v else v
    (db.put k (.str newBytes) deadline, val, false)
  | none =>
    if o.xx then (db, none, false) else
    let val : Option Value := if o.get then none else some vOK
    (db.put k (.str v) deadline, val, false)

def optV : Option Value → Value
  | some v => v
  | none => .nil

/-- SET / SETNX / SETEX / PSETEX / GETSET -/
def cmdSet (c : Ctx) (db : Db) (k v : Bytes) (o : SetOpts) (isSetnx : Bool) : R :=
  if (o.exp.map ExpArg.invalid).getD false then R.ok db errExpire else
  let o := if isSetnx then { o with nx := true } else o
  let (db', val, wt) := setKey c db k v o false false
  if wt then R.ok db wrongType
  else if isSetnx then R.ok db' (.int (if val.isNone then 0 else 1))
  else R.ok db' (optV val)

def cmdAppend (c : Ctx) (db : Db) (k v : Bytes) : R :=
  let (db', val, wt) := setKey c db k v { get := true } true (!c.q.appendDropsTtl)
  if wt then R.ok db wrongType
  else
    let oldLen := match val with | some (.bulk b) => b.length | _ => 0
    R.ok db' (vInt (oldLen + v.length))

def cmdGet (c : Ctx) (db : Db) (k : Bytes) : R :=
  match db.live c.now k with
  | some { val := .str b, .. } => R.ok db (.bulk b)
  | some _ => R.ok db wrongType
  | none => R.ok db .nil

def cmdGetDel (c : Ctx) (db : Db) (k : Bytes) : R :=
  match db.live c.now k with
  | some { val := .str b, .. } => R.ok (db.del k) (.bulk b)
  | some _ => R.ok db wrongType
  | none => R.ok db .nil

/-- GETEX: without an option the code still writes `maxTime` (i.e. persists) -/
def cmdGetEx (c : Ctx) (db : Db) (k : Bytes) (e : Option ExpArg) : R :=
  if (e.map ExpArg.invalid).getD false then R.ok db errExpire else
  match db.live c.now k with
  | some ent =>
    match ent.val with
    | .str b =>
      if e.isNone && !c.q.getexNoOptPersists then R.ok db (.bulk b) else
      let dl := match e with | some x => x.deadline c.now | none => none
      let (db1, ent1) := bump c db ent
      R.ok (dirtyUnlessQuirk c (db1.poke k { ent1 with exp := dl })) (.bulk b)
    | _ => R.ok db wrongType
  | none => R.ok db .nil

def cmdStrlen (c : Ctx) (db : Db) (k : Bytes) : R :=
  match db.live c.now k with
  | some { val := .str b, .. } => R.ok db (vInt b.length)
  | some _ => R.ok db wrongType
  | none => R.ok db (.int 0)

/-- index clamping of `fnGetRange` -/
def getRangeBounds (n start stop : Int) : Int × Int :=
  let start := if start < 0 then n + start else start
  let stop := if stop < 0 then n + stop else stop
  let start := if start < 0 then 0 else if start > n then n else start
  let stop := if stop < start then start - 1 else if stop ≥ n then n - 1 else stop
  (start, stop)

def cmdGetRange (c : Ctx) (db : Db) (k : Bytes) (start stop : Int) : R :=
  match db.live c.now k with
  | some { val := .str b, .. } =>
    let (s, e) := getRangeBounds b.length start stop
    R.ok db (.bulk ((b.drop s.toNat).take (e + 1 - s).toNat))
  | some _ => R.ok db wrongType
  | none => R.ok db (if c.q.getrangeMissingNil then .nil else .bulk [])

/-- allocation sizes the harness must never provoke in-process -/
def hugeAlloc : Int := 536870912   -- 512 MiB, Redis' own string limit

def errOffset : Value := .error (sb "ERR offset is out of range")
def errTooBig : Value := .error (sb "ERR string exceeds maximum allowed size (512MB)")

/-- SETRANGE: the offset checks come before the key is looked at -/
def cmdSetRange (c : Ctx) (db : Db) (k : Bytes) (off : Int) (v : Bytes) : R :=
  if off < 0 then R.ok db errOffset
  else if off > hugeAlloc || off + v.length > hugeAlloc then R.ok db errTooBig
  else
  match db.live c.now k with
  | some ent =>
    match ent.val with
    | .str b =>
      let padded := if b.length < off.toNat then b ++ List.replicate (off.toNat - b.length) 0 else b
      let res := padded.take off.toNat ++ v ++ padded.drop (off.toNat + v.length)
      R.ok (db.put k (.str res) ent.exp) (vInt res.length)
    | _ => R.ok db wrongType
  | none =>
    if v.isEmpty && !c.q.setrangeEmptyCreates then R.ok db (.int 0) else
    let res := List.replicate off.toNat 0 ++ v
    R.ok (db.put k (.str res) none) (vInt res.length)

/-- the Go overflow test of `addInt`: `(newVal > value) != (delta > 0)` on wrapped int64 -/
def goAddOverflow (value delta : Int) : Bool :=
  (decide (wrap64 (value + delta) > value)) != (decide (delta > 0))

def cmdIncrBy (c : Ctx) (db : Db) (k : Bytes) (delta : Int) : R :=
  match db.live c.now k with
  | some ent =>
    match ent.val with
    | .str b =>
      match parseInt64 b with
      | none => R.ok db errNotInt
      | some v =>
        if goAddOverflow v delta then R.ok db errNotInt
        else
          let nv := wrap64 (v + delta)
          R.ok (db.put k (.str (showInt nv)) ent.exp) (.int nv)
    | _ => R.ok db wrongType
  | none => R.ok (db.put k (.str (showInt delta)) none) (.int delta)

def cmdDecrBy (c : Ctx) (db : Db) (k : Bytes) (d : Int) : R :=
  if d == -twoP63 && !c.q.decrbyMinAccepted then R.ok db errNotInt
  else cmdIncrBy c db k (wrap64 (-d))

def cmdMGet (c : Ctx) (db : Db) (ks : List Bytes) : R :=
  R.ok db (.array (ks.map fun k =>
    match db.live c.now k with
    | some { val := .str b, .. } => .bulk b
    | _ => .nil))

def putAll (db : Db) : List (Bytes × Bytes) → Db
  | [] => db
  | (k, v) :: r => putAll (db.put k (.str v) none) r

def cmdMSet (c : Ctx) (db : Db) (kvs : List (Bytes × Bytes)) (nx : Bool) : R :=
  if nx then
    if kvs.any fun (k, _) => (db.live c.now k).isSome then R.ok db (.int 0)
    else R.ok (putAll db kvs) (.int 1)
  else R.ok (putAll db kvs) vOK

/-! ### Decimal numbers for INCRBYFLOAT / HINCRBYFLOAT (never IEEE: exact rationals) -/

def Dec.add (a b : Dec) : Dec :=
  let s := max a.scale b.scale
  { mant := a.mant * (10 : Int) ^ (s - a.scale) + b.mant * (10 : Int) ^ (s - b.scale), scale := s }

/-- |a - b| ≤ 10^-9 · max(1, |a|)   (all exact) -/
def Dec.close (a b : Dec) : Bool :=
  let s := max a.scale b.scale
  let x := a.mant * (10 : Int) ^ (s - a.scale)
  let y := b.mant * (10 : Int) ^ (s - b.scale)
  let one := (10 : Int) ^ s
  let bound := max one x.natAbs
  decide ((x - y).natAbs * 1000000000 ≤ bound.natAbs)

/-- closeness of a float64 sum to the exact sum: the operands are rounded to 53 bits before they are
    added, so after cancellation the error is relative to the operands, not to the result
    (`-9223372036854775807 + 9223372036854775808` is `0` in float64 arithmetic, `1` exactly):
    |got - exact| ≤ 10^-9 · max(1, |exact|, |a|, |b|) -/
def Dec.closeSum (got exact a b : Dec) : Bool :=
  let s := max (max got.scale exact.scale) (max a.scale b.scale)
  let sc := fun (x : Dec) => x.mant * (10 : Int) ^ (s - x.scale)
  let bound : Nat := max ((10 : Int) ^ s).natAbs (max (sc exact).natAbs (max (sc a).natAbs (sc b).natAbs))
  decide ((sc got - sc exact).natAbs * 1000000000 ≤ bound)

def implBytes (c : Ctx) : Option Bytes :=
  match c.impl with
  | some (.bulk b) => some b
  | some (.simple b) => some b
  | some (.double b) => some b
  | _ => none

/-- shared by INCRBYFLOAT and HINCRBYFLOAT: the new stored text is the implementation's
    own (validated to be within tolerance of the exact sum) -/
def floatSum (c : Ctx) (old : Option Bytes) (delta : Bytes) : Option Bytes :=
  match parseDecimal delta, (match old with | some o => parseDecimal o | none => some ⟨0, 0⟩) with
  | some d, some o =>
    let exact := o.add d
    match implBytes c with
    | some t =>
      match parseDecimal t with
      | some got => if got.closeSum exact o d then some t else none
      | none => none
    | none => none
  | _, _ => none

def errNotFloat : Value := .error (sb "ERR value is not a valid float")

def cmdIncrByFloat (c : Ctx) (db : Db) (k : Bytes) (delta : Bytes) : R :=
  match db.live c.now k with
  | some ent =>
    match ent.val with
    | .str b =>
      if (parseDecimal b).isNone then { db := db, reply := errNotFloat } else
      match floatSum c (some b) delta with
      | some t => { db := db.put k (.str t) ent.exp, reply := .bulk t, hint := .float }
      | none => { db := db, reply := .error (sb "FLOAT-MISMATCH"), hint := .float }
    | _ => R.ok db wrongType
  | none =>
    match floatSum c none delta with
    | some t => { db := db.put k (.str t) none, reply := .bulk t, hint := .float }
    | none => { db := db, reply := .error (sb "FLOAT-MISMATCH"), hint := .float }

/-! ### LCS (`longestSeq.go`), bytes = runes for ASCII input -/

/-- one row of the classic dynamic programme: `prev[j] = lcs (x[:i]) (y[:j])` -/
def lcsRowGo {α} [BEq α] (a : α) : List α → List Nat → Nat → Nat → List Nat
  | [], _, _, _ => []
  | b :: ys, p :: ps, diag, left =>
    let v := if a == b then diag + 1 else max p left
    v :: lcsRowGo a ys ps p v
  | _ :: _, [], _, _ => []

def lcsRow {α} [BEq α] (a : α) (y : List α) (prev : List Nat) : List Nat :=
  match prev with
  | [] => []
  | p0 :: ps => 0 :: lcsRowGo a y ps p0 0

/-- length of the longest common subsequence -/
def lcsLen {α} [BEq α] (x y : List α) : Nat :=
  let row0 := List.replicate (y.length + 1) 0
  (x.foldl (fun row a => lcsRow a y row) row0).getLast?.getD 0

/-! ## Lists -/

def listOf (c : Ctx) (db : Db) (k : Bytes) : Except Unit (Option (Entry × List Bytes)) :=
  match db.live c.now k with
  | some e => match e.val with
    | .list l => .ok (some (e, l))
    | _ => .error ()
  | none => .ok none

/-- `ensureListUnlocked` + pushes -/
def cmdPush (c : Ctx) (db : Db) (k : Bytes) (vs : List Bytes) (left : Bool) (onlyIfExists : Bool) : R :=
  match listOf c db k with
  | .error _ => R.ok db wrongType
  | .ok none =>
    if onlyIfExists then R.ok db (.int 0) else
    let l := if left then vs.reverse else vs
    { db := db.put k (.list l) none, reply := vInt l.length, pushed := [(k, vs.length)] }
  | .ok (some (e, old)) =>
    let l := if left then vs.reverse ++ old else old ++ vs
    { db := upd c db k e (.list l), reply := vInt l.length, pushed := [(k, vs.length)] }

def errRangePositive : Value := .error (sb "ERR value is out of range, must be positive")

/-- LPOP / RPOP with optional count -/
def cmdPop (c : Ctx) (db : Db) (k : Bytes) (count : Option Int) (left : Bool) : R :=
  match count with
  | some n => if n < 0 then R.ok db errRangePositive else go n.toNat true
  | none => go 1 false
where
  go (n : Nat) (multi : Bool) : R :=
    match listOf c db k with
    | .error _ => R.ok db wrongType
    | .ok none => R.ok db (if multi && n == 0 then .array [] else .nil)
    | .ok (some (e, l)) =>
      let taken := if left then l.take n else (l.reverse.take n)
      let rest := if left then l.drop n else (l.reverse.drop n).reverse
      let db' := if taken.isEmpty then db else upd c db k e (.list rest)
      if multi then R.ok db' (if taken.isEmpty && n > 0 then .nil else bulks taken)
      else R.ok db' (match taken with | [x] => .bulk x | _ => .nil)

def cmdLLen (c : Ctx) (db : Db) (k : Bytes) : R :=
  match listOf c db k with
  | .error _ => R.ok db wrongType
  | .ok none => R.ok db (.int 0)
  | .ok (some (_, l)) => R.ok db (vInt l.length)

def cmdLIndex (c : Ctx) (db : Db) (k : Bytes) (i : Int) : R :=
  match listOf c db k with
  | .error _ => R.ok db wrongType
  | .ok none => R.ok db .nil
  | .ok (some (_, l)) =>
    let n : Int := l.length
    let j := if i ≥ 0 then i else n + i
    if j < 0 || j ≥ n then R.ok db .nil
    else R.ok db (match l[j.toNat]? with | some x => .bulk x | none => .nil)

/-- `lrange`: Redis index rules -/
def lrangeOf (l : List Bytes) (start stop : Int) : List Bytes :=
  let n : Int := l.length
  let start := if start < 0 then n + start else start
  let stop := if stop < 0 then n + stop else stop
  let start := if start < 0 then 0 else start
  if stop < start then [] else (l.drop start.toNat).take (stop - start + 1).toNat

def cmdLRange (c : Ctx) (db : Db) (k : Bytes) (start stop : Int) : R :=
  match listOf c db k with
  | .error _ => R.ok db wrongType
  | .ok none => R.ok db (.array [])
  | .ok (some (_, l)) => R.ok db (bulks (lrangeOf l start stop))

def errNoSuchKey : Value := .error (sb "ERR no such key")
def errIndex : Value := .error (sb "ERR index out of range")

def cmdLSet (c : Ctx) (db : Db) (k : Bytes) (i : Int) (v : Bytes) : R :=
  match listOf c db k with
  | .error _ => R.ok db wrongType
  | .ok none => R.ok db errNoSuchKey
  | .ok (some (e, l)) =>
    let n : Int := l.length
    let j := if i < 0 then n + i else i
    if j < 0 || j ≥ n then R.ok db errIndex
    else
      let (db1, e1) := bump c db e
      R.ok (dirtyUnlessQuirk c (db1.poke k { e1 with val := .list (l.set j.toNat v) })) vOK

def insertAt (l : List Bytes) (pivot v : Bytes) (before : Bool) : Option (List Bytes) :=
  match l with
  | [] => none
  | x :: r =>
    if x == pivot then some (if before then v :: x :: r else x :: v :: r)
    else (insertAt r pivot v before).map (x :: ·)

def cmdLInsert (c : Ctx) (db : Db) (k : Bytes) (before : Bool) (pivot v : Bytes) : R :=
  match listOf c db k with
  | .error _ => R.ok db wrongType
  | .ok none => R.ok db (.int 0)
  | .ok (some (e, l)) =>
    match insertAt l pivot v before with
    | none => R.ok db (.int (-1))
    | some l' => R.ok (upd c db k e (.list l')) (vInt l'.length)

/-- remove up to `n` occurrences from the head side -/
def removeN (v : Bytes) : Nat → List Bytes → List Bytes × Nat
  | 0, l => (l, 0)
  | _, [] => ([], 0)
  | n + 1, x :: r =>
    if x == v then let (r', k) := removeN v n r; (r', k + 1)
    else let (r', k) := removeN v (n + 1) r; (x :: r', k)

/-- `lremove`: the count is negated in a Go int (−2^63 stays negative → nothing removed) -/
def cmdLRem (c : Ctx) (db : Db) (k : Bytes) (count : Int) (v : Bytes) : R :=
  match listOf c db k with
  | .error _ => R.ok db wrongType
  | .ok none => R.ok db (.int 0)
  | .ok (some (e, l)) =>
    let count := if count == 0 then (l.length : Int) else count
    let (l', removed) :=
      if count ≥ 0 then removeN v count.toNat l
      else
        let m := wrap64 (-count)
        if m < 0 then (l, 0)
        else let (r, k) := removeN v m.toNat l.reverse; (r.reverse, k)
    if removed == 0 then R.ok db (.int 0)
    else R.ok (upd c db k e (.list l')) (vInt removed)

/-- `ltrim` -/
def ltrimOf (l : List Bytes) (start stop : Int) : List Bytes :=
  let n : Int := l.length
  let start := if start < 0 then n + start else start
  let stop := if stop < 0 then n + stop else stop
  let start := if start < 0 then 0 else if start > n then n else start
  if stop < start then []
  else
    let stop := if stop > n then n else stop
    (l.drop start.toNat).take (stop - start + 1).toNat

def cmdLTrim (c : Ctx) (db : Db) (k : Bytes) (start stop : Int) : R :=
  match listOf c db k with
  | .error _ => R.ok db wrongType
  | .ok none => R.ok db vOK
  | .ok (some (e, l)) =>
    let l' := ltrimOf l start stop
    if l'.length == l.length then R.ok db vOK
    else R.ok (upd c db k e (.list l')) vOK

/-- positions of matches, scanning `l` (already oriented) with position function -/
def lposScan (v : Bytes) : List (Bytes × Nat) → (rank count maxlen : Nat) → List Nat
  | [], _, _, _ => []
  | (x, pos) :: r, rank, count, maxlen =>
    if maxlen == 0 || count == 0 then []
    else if x == v then
      if rank > 0 then lposScan v r (rank - 1) count (maxlen - 1)
      else pos :: lposScan v r 0 (count - 1) (maxlen - 1)
    else lposScan v r rank count (maxlen - 1)

def errRankZero : Value := .error (sb "ERR RANK can't be zero")
def errCountNeg : Value := .error (sb "ERR COUNT can't be negative")
def errMaxlenNeg : Value := .error (sb "ERR MAXLEN can't be negative")

def cmdLPos (c : Ctx) (db : Db) (k v : Bytes) (rank count maxlen : Option Int) : R :=
  if rank == some 0 then R.ok db errRankZero else
  if (count.map (fun x => decide (x < 0))).getD false then R.ok db errCountNeg else
  if (maxlen.map (fun x => decide (x < 0))).getD false then R.ok db errMaxlenNeg else
  match listOf c db k with
  | .error _ => R.ok db wrongType
  | .ok none => R.ok db (if count.isSome then .array [] else .nil)
  | .ok (some (_, l)) =>
    let n := l.length
    let forward := (rank.getD 1) > 0
    let r := wrap64 (if forward then rank.getD 1 else -(rank.getD 1))
    let r := if r > 0 then (r - 1).toNat else 0
    let cnt := match count with | some 0 => n | some x => x.toNat | none => 1
    let ml := match maxlen with | some 0 => n | some x => x.toNat | none => n
    let idx := (List.range n)
    let items := if forward then l.zip idx else (l.zip idx).reverse
    let ms := lposScan v items r cnt ml
    if count.isSome then R.ok db (.array (ms.map fun i => vInt i))
    else R.ok db (match ms with | i :: _ => vInt i | [] => .nil)

/-- `lmove` -/
def cmdLMove (c : Ctx) (db : Db) (src dst : Bytes) (srcLeft dstLeft : Bool) : R :=
  match listOf c db src with
  | .error _ => R.ok db wrongType
  | .ok none => R.ok db .nil
  | .ok (some (se, sl)) =>
    match listOf c db dst with
    | .error _ => R.ok db wrongType
    | .ok dstInfo =>
      let elem := if srcLeft then sl.head? else sl.getLast?
      match elem with
      | none => R.ok db .nil
      | some x =>
        let srest := if srcLeft then sl.drop 1 else sl.dropLast
        if src == dst then
          if srest.isEmpty && c.q.lmoveSelfSingleLoses then
            -- the key is removed when the pop empties it; the push goes to the detached object
            { db := (db.del src).setDirty, reply := .bulk x, pushed := [(dst, 1)] }
          else if srest.isEmpty then
            -- rotating a one-element list changes nothing
            { db := db, reply := .bulk x, pushed := [(dst, 1)] }
          else
            let l' := if dstLeft then x :: srest else srest ++ [x]
            { db := upd c db src se (.list l'), reply := .bulk x, pushed := [(dst, 1)] }
        else
          -- destination is created (fresh id) before the pop when missing
          let db1 := match dstInfo with
            | none => db.put dst (.list []) none
            | some _ => db
          let db2 := upd c db1 src se (.list srest)
          match db2.raw dst with
          | some de =>
            let dl := match de.val with | .list l => l | _ => []
            let dl' := if dstLeft then x :: dl else dl ++ [x]
            let (db3, de3) := bump c db2 de
            { db := (db3.poke dst { de3 with val := .list dl' }).setDirty, reply := .bulk x,
              pushed := [(dst, 1)] }
          | none => R.crashed db "lmove: destination vanished"

/-- `lmpop` -/
def cmdLMPop (c : Ctx) (db : Db) (ks : List Bytes) (left : Bool) (count : Nat) : R :=
  go ks
where
  go : List Bytes → R
    | [] => R.ok db .nil
    | k :: r =>
      match listOf c db k with
      | .error _ => R.ok db wrongType
      | .ok none => go r
      | .ok (some (e, l)) =>
        if l.isEmpty then go r else
        let taken := if left then l.take count else l.reverse.take count
        let rest := if left then l.drop count else (l.reverse.drop count).reverse
        R.ok (upd c db k e (.list rest)) (.array [.bulk k, bulks taken])

/-! ## Hashes -/

def hashOf (c : Ctx) (db : Db) (k : Bytes) : Except Unit (Option (Entry × List (Bytes × Bytes))) :=
  match db.live c.now k with
  | some e => match e.val with
    | .hash h => .ok (some (e, h))
    | _ => .error ()
  | none => .ok none

def hsetAll (nx : Bool) : List (Bytes × Bytes) → List (Bytes × Bytes) → Nat → List (Bytes × Bytes) × Nat
  | [], h, added => (h, added)
  | (f, v) :: r, h, added =>
    match alookup f h with
    | some _ => if nx then hsetAll nx r h added else hsetAll nx r (ainsert f v h) added
    | none => hsetAll nx r (ainsert f v h) (added + 1)

/-- HSET / HMSET / HSETNX (`setHashTableWorker`) -/
def cmdHSet (c : Ctx) (db : Db) (k : Bytes) (fvs : List (Bytes × Bytes)) (nx : Bool) (replyOk : Bool) : R :=
  let nx := nx && !c.q.hsetnxOverwrites
  match hashOf c db k with
  | .error _ => R.ok db wrongType
  | .ok none =>
    let (h, added) := hsetAll nx fvs [] 0
    R.ok (db.put k (.hash h) none) (if replyOk then vOK else vInt added)
  | .ok (some (e, old)) =>
    let (h, added) := hsetAll nx fvs old 0
    -- every field that is stored (not skipped by NX) counts as a modification (Redis signals HSET
    -- unconditionally): dirty and a new version, changed or not
    let stored := if nx then added > 0 else !fvs.isEmpty
    let db' := if stored then upd c db k e (.hash h) else db
    R.ok db' (if replyOk then vOK else vInt added)

def cmdHGet (c : Ctx) (db : Db) (k f : Bytes) : R :=
  match hashOf c db k with
  | .error _ => R.ok db wrongType
  | .ok none => R.ok db .nil
  | .ok (some (_, h)) => R.ok db (match alookup f h with | some v => .bulk v | none => .nil)

def cmdHMGet (c : Ctx) (db : Db) (k : Bytes) (fs : List Bytes) : R :=
  match hashOf c db k with
  | .error _ => R.ok db wrongType
  | .ok none => R.ok db (.array (fs.map fun _ => .nil))
  | .ok (some (_, h)) =>
    R.ok db (.array (fs.map fun f => match alookup f h with | some v => .bulk v | none => .nil))

def cmdHGetAll (c : Ctx) (db : Db) (k : Bytes) : R :=
  match hashOf c db k with
  | .error _ => R.ok db wrongType
  | .ok none => { db := db, reply := .map [], hint := .unorderedPairs }
  | .ok (some (_, h)) =>
    { db := db, reply := .map (h.map fun (f, v) => (.bulk f, .bulk v)), hint := .unorderedPairs }

def cmdHKeys (c : Ctx) (db : Db) (k : Bytes) (vals : Bool) : R :=
  match hashOf c db k with
  | .error _ => R.ok db wrongType
  | .ok none => R.ok db (.array [])
  | .ok (some (_, h)) =>
    { db := db, reply := bulks (h.map fun (f, v) => if vals then v else f), hint := .unordered }

def cmdHLen (c : Ctx) (db : Db) (k : Bytes) : R :=
  match hashOf c db k with
  | .error _ => R.ok db wrongType
  | .ok none => R.ok db (.int 0)
  | .ok (some (_, h)) => R.ok db (vInt h.length)

def cmdHExists (c : Ctx) (db : Db) (k f : Bytes) : R :=
  match hashOf c db k with
  | .error _ => R.ok db wrongType
  | .ok none => R.ok db (.int 0)
  | .ok (some (_, h)) => R.ok db (.int (if (alookup f h).isSome then 1 else 0))

def cmdHStrlen (c : Ctx) (db : Db) (k f : Bytes) : R :=
  match hashOf c db k with
  | .error _ => R.ok db wrongType
  | .ok none => R.ok db (.int 0)
  | .ok (some (_, h)) => R.ok db (vInt ((alookup f h).getD []).length)

def hdelAll : List Bytes → List (Bytes × Bytes) → Nat → List (Bytes × Bytes) × Nat
  | [], h, n => (h, n)
  | f :: r, h, n =>
    if h.isEmpty then (h, n)   -- the Go loop breaks once the key is gone
    else match alookup f h with
      | some _ => hdelAll r (aerase f h) (n + 1)
      | none => hdelAll r h n

def cmdHDel (c : Ctx) (db : Db) (k : Bytes) (fs : List Bytes) : R :=
  match hashOf c db k with
  | .error _ => R.ok db wrongType
  | .ok none => R.ok db (.int 0)
  | .ok (some (e, h)) =>
    let (h', n) := hdelAll fs h 0
    if n == 0 then R.ok db (.int 0) else R.ok (upd c db k e (.hash h')) (vInt n)

/-- `fieldAddInt`. With the quirk the overflow test compares the sum with the *delta*. -/
def cmdHIncrBy (c : Ctx) (db : Db) (k f : Bytes) (delta : Int) : R :=
  match hashOf c db k with
  | .error _ => R.ok db wrongType
  | .ok none => R.ok (db.put k (.hash [(f, showInt delta)]) none) (.int delta)
  | .ok (some (e, h)) =>
    match alookup f h with
    | none => R.ok (upd c db k e (.hash (ainsert f (showInt delta) h))) (.int delta)
    | some old =>
      match parseInt64 old with
      | none => R.ok db errNotInt
      | some v =>
        let nv := wrap64 (v + delta)
        let ovf := if c.q.hincrbyCmpDelta
          then (decide (nv > delta)) != (decide (delta > 0))
          else goAddOverflow v delta
        if ovf then R.ok db errNotInt
        else R.ok (upd c db k e (.hash (ainsert f (showInt nv) h))) (.int nv)

def cmdHIncrByFloat (c : Ctx) (db : Db) (k f : Bytes) (delta : Bytes) : R :=
  let mismatch : R := { db := db, reply := .error (sb "FLOAT-MISMATCH"), hint := .float }
  match hashOf c db k with
  | .error _ => R.ok db wrongType
  | .ok none =>
    match floatSum c none delta with
    | some t => { db := db.put k (.hash [(f, t)]) none, reply := .double t, hint := .float }
    | none => mismatch
  | .ok (some (e, h)) =>
    match alookup f h with
    | none =>
      match floatSum c none delta with
      | some t =>
        -- new field on an existing hash: the code stores without marking dirty (D47)
        let (db1, e1) := bump c db e
        { db := dirtyUnlessQuirk c (db1.poke k { e1 with val := .hash (ainsert f t h) }),
          reply := .double t, hint := .float }
      | none => mismatch
    | some old =>
      if (parseDecimal old).isNone then R.ok db errNotInt else
      match floatSum c (some old) delta with
      | some t => { db := upd c db k e (.hash (ainsert f t h)), reply := .double t, hint := .float }
      | none => mismatch

/-! ## Sets -/

def setOf (c : Ctx) (db : Db) (k : Bytes) : Except Unit (Option (Entry × List Bytes)) :=
  match db.live c.now k with
  | some e => match e.val with
    | .set s => .ok (some (e, s))
    | _ => .error ()
  | none => .ok none

def saddAll : List Bytes → List Bytes → Nat → List Bytes × Nat
  | [], s, n => (s, n)
  | m :: r, s, n => if s.contains m then saddAll r s n else saddAll r (s ++ [m]) (n + 1)

def cmdSAdd (c : Ctx) (db : Db) (k : Bytes) (ms : List Bytes) : R :=
  match setOf c db k with
  | .error _ => R.ok db wrongType
  | .ok none =>
    let (s, n) := saddAll ms [] 0
    R.ok (db.put k (.set s) none) (vInt n)
  | .ok (some (e, old)) =>
    let (s, n) := saddAll ms old 0
    -- `store` of an existing member still marks the key dirty; version unchanged either way
    R.ok (if n == 0 then db.setDirty else upd c db k e (.set s)) (vInt n)

def sremAll : List Bytes → List Bytes → Nat → List Bytes × Nat
  | [], s, n => (s, n)
  | m :: r, s, n =>
    if s.isEmpty then (s, n)
    else if s.contains m then sremAll r (s.erase m) (n + 1) else sremAll r s n

def cmdSRem (c : Ctx) (db : Db) (k : Bytes) (ms : List Bytes) : R :=
  match setOf c db k with
  | .error _ => R.ok db wrongType
  | .ok none => R.ok db (.int 0)
  | .ok (some (e, s)) =>
    let (s', n) := sremAll ms s 0
    if n == 0 then R.ok db (.int 0) else R.ok (upd c db k e (.set s')) (vInt n)

def cmdSCard (c : Ctx) (db : Db) (k : Bytes) : R :=
  match setOf c db k with
  | .error _ => R.ok db wrongType
  | .ok none => R.ok db (.int 0)
  | .ok (some (_, s)) => R.ok db (vInt s.length)

def cmdSIsMember (c : Ctx) (db : Db) (k m : Bytes) : R :=
  match setOf c db k with
  | .error _ => R.ok db wrongType
  | .ok none => R.ok db (.int 0)
  | .ok (some (_, s)) => R.ok db (.int (if s.contains m then 1 else 0))

def cmdSMIsMember (c : Ctx) (db : Db) (k : Bytes) (ms : List Bytes) : R :=
  match setOf c db k with
  | .error _ => R.ok db wrongType
  | .ok none => R.ok db (.array (ms.map fun _ => .int 0))
  | .ok (some (_, s)) => R.ok db (.array (ms.map fun m => .int (if s.contains m then 1 else 0)))

def cmdSMembers (c : Ctx) (db : Db) (k : Bytes) : R :=
  match setOf c db k with
  | .error _ => R.ok db wrongType
  | .ok none => R.ok db (.array [])
  | .ok (some (_, s)) => { db := db, reply := bulks s, hint := .unordered }

def cmdSMove (c : Ctx) (db : Db) (src dst m : Bytes) : R :=
  match setOf c db src with
  | .error _ => R.ok db wrongType
  | .ok none => R.ok db (.int 0)
  | .ok (some (se, ss)) =>
    if !ss.contains m then R.ok db (.int 0) else
    if src == dst then R.ok db (.int 1) else
    match setOf c db dst with
    | .error _ => R.ok db wrongType
    | .ok dinfo =>
      let db1 := match dinfo with
        | none => db.put dst (.set [m]) none
        | some (de, ds) => if ds.contains m then db else upd c db dst de (.set (ds ++ [m]))
      R.ok (upd c db1 src se (.set (ss.erase m))) (.int 1)

/-- operands of the set algebra: `none` = wrong type somewhere -/
def setOperand (c : Ctx) (db : Db) (k : Bytes) : Option (List Bytes) :=
  match setOf c db k with
  | .error _ => none
  | .ok none => some []
  | .ok (some (_, s)) => some s

def dedup : List Bytes → List Bytes
  | [] => []
  | x :: r => x :: (dedup r).filter (· != x)

inductive SetOp where | inter | union | diff deriving Repr, BEq

/-- the three workers, including their early exits (a wrong-typed later operand is not
    noticed once the intersection is known to be empty because a key is missing) -/
def setAlgebra (c : Ctx) (db : Db) (op : SetOp) (first : Bytes) (rest : List Bytes) : Option (List Bytes) :=
  match setOf c db first with
  | .error _ => none
  | .ok firstInfo =>
    let m := match firstInfo with | some (_, s) => s | none => []
    match op with
    | .diff =>
      if firstInfo.isNone then some [] else
      rest.foldl (fun acc k => match acc with
        | none => none
        | some d => match setOperand c db k with
          | none => none
          | some s => some (d.filter (!s.contains ·))) (some m)
    | .union =>
      rest.foldl (fun acc k => match acc with
        | none => none
        | some d => match setOperand c db k with
          | none => none
          | some s => some (dedup (d ++ s))) (some m)
    | .inter =>
      if firstInfo.isNone then some [] else
      let rec go : List Bytes → List Bytes → Option (List Bytes)
        | [], d => some d
        | k :: r, d =>
          match setOf c db k with
          | .error _ => none
          | .ok none => some []
          | .ok (some (_, s)) => go r (d.filter (s.contains ·))
      go rest m

def cmdSetAlgebra (c : Ctx) (db : Db) (op : SetOp) (ks : List Bytes) : R :=
  match ks with
  | [] => R.ok db errArgs
  | f :: r =>
    match setAlgebra c db op f r with
    | none => R.ok db wrongType
    | some s => { db := db, reply := bulks s, hint := .unordered }

def cmdSetAlgebraStore (c : Ctx) (db : Db) (op : SetOp) (dst : Bytes) (ks : List Bytes) : R :=
  match ks with
  | [] => R.ok db errArgs
  | f :: r =>
    match setAlgebra c db op f r with
    | none => R.ok db wrongType
    | some s =>
      if s.isEmpty then R.ok (db.del dst) (.int 0)
      else R.ok (db.put dst (.set s) none) (vInt s.length)

def errNumKeys : Value := .error (sb "ERR Number of keys can't be greater than number of args")

/-- `intersectWithLimitWorker`: a missing key gives 0 before later keys are type-checked -/
def cmdSInterCard (c : Ctx) (db : Db) (numkeys : Int) (ks : List Bytes) (limit : Int) : R :=
  if numkeys < ks.length then R.ok db errSyntax
  else if numkeys > ks.length then R.ok db errNumKeys
  else
    let rec collect : List Bytes → List (List Bytes) → Option (Option (List (List Bytes)))
      | [], acc => some (some acc.reverse)
      | k :: r, acc =>
        match setOf c db k with
        | .error _ => none
        | .ok none => some none
        | .ok (some (_, s)) => collect r (s :: acc)
    match collect ks [] with
    | none => R.ok db wrongType
    | some none => R.ok db (.int 0)
    | some (some []) => R.ok db (.int 0)
    | some (some (s1 :: others)) =>
      let inter := s1.filter fun m => others.all (·.contains m)
      let n := inter.length
      R.ok db (vInt (if limit > 0 && limit.toNat < n then limit.toNat else n))

/-! ## Keys -/

def cmdDel (c : Ctx) (db : Db) (ks : List Bytes) (reclaim : Bool) : R :=
  let step := fun (acc : Db × Nat) (k : Bytes) =>
    let (db, n) := acc
    match db.live c.now k with
    | some e =>
      if reclaim || !c.q.unlinkKeepsObject then (db.del k, n + 1)
      else
        -- UNLINK: deadline moved to the year 2000; object stays stored
        (db.poke k { e with exp := some 0 }, n + 1)
    | none => if reclaim then (db.del k, n) else (db, n)
  let (db', n) := ks.foldl step (db, 0)
  R.ok db' (vInt n)

def cmdExists (c : Ctx) (db : Db) (ks : List Bytes) : R :=
  R.ok db (vInt (ks.filter fun k => (db.live c.now k).isSome).length)

def cmdType (c : Ctx) (db : Db) (k : Bytes) : R :=
  match db.live c.now k with
  | some e => R.ok db (.simple e.val.typeName)
  | none => R.ok db (.simple (sb "none"))

/-- source lookup of RENAME/COPY: raw in the code (D22), live per the property -/
def srcLookup (c : Ctx) (db : Db) (k : Bytes) : Option Entry :=
  if c.q.rawLookupSeesExpired then db.raw k else db.live c.now k

def cmdRename (c : Ctx) (db : Db) (src dst : Bytes) (nx : Bool) : R :=
  match srcLookup c db src with
  | none => R.ok db errNoSuchKey
  | some e =>
    if nx && (srcLookup c db dst).isSome then R.ok db (.int 0) else
    let db1 := db.del src
    let id := db1.nextId + 1
    let db2 : Db := { keys := ainsert dst { e with id := id } db1.keys, nextId := id, dirty := true }
    R.ok db2 (if nx then .int 1 else vOK)

def cmdCopy (c : Ctx) (db : Db) (src dst : Bytes) (replace : Bool) : R :=
  if src == dst then R.ok db (.error (sb "ERR source and destination objects are the same")) else
  match srcLookup c db src with
  | none => R.ok db (.int 0)
  | some e =>
    if !replace && (srcLookup c db dst).isSome then R.ok db (.int 0) else
    let id := db.nextId + 1
    R.ok { keys := ainsert dst { e with id := id } db.keys, nextId := id, dirty := true } (.int 1)

inductive ExpireOpt where | none | nx | xx | gt | lt deriving Repr, BEq, DecidableEq, Inhabited

/-- `expire` with its option (the grammar admits at most one of NX / XX / GT / LT) -/
def cmdExpireAt (c : Ctx) (db : Db) (k : Bytes) (deadline : Int) (opt : ExpireOpt) : R :=
  match db.live c.now k with
  | none => R.ok db (.int 0)
  | some e =>
    let refuse : Bool := match opt with
      | .nx => e.exp.isSome
      | .xx => e.exp.isNone
      | .gt => (match e.exp with | Option.none => true | some d => !decide (deadline > d))
      | .lt => (match e.exp with | Option.none => false | some d => !decide (deadline < d))
      | .none => false
    if refuse then R.ok db (.int 0)
    else
      let (db1, e1) := bump c db e
      R.ok (dirtyUnlessQuirk c (db1.poke k { e1 with exp := some deadline })) (.int 1)

def cmdPersist (c : Ctx) (db : Db) (k : Bytes) : R :=
  match db.live c.now k with
  | none => R.ok db (.int 0)
  | some e =>
    if e.exp.isNone then R.ok db (.int 0)
    else
      let (db1, e1) := bump c db e
      R.ok (dirtyUnlessQuirk c (db1.poke k { e1 with exp := none })) (.int 1)

inductive TtlKind where | ttl | pttl | expiretime | pexpiretime deriving Repr, BEq

/-- Go `Time.Unix()` / `UnixMilli()`: floor division -/
def cmdTtl (c : Ctx) (db : Db) (k : Bytes) (kind : TtlKind) : R :=
  match db.live c.now k with
  | none => R.ok db (.int (-2))
  | some e =>
    match e.exp with
    | none => R.ok db (.int (-1))
    | some d =>
      match kind with
      | .ttl => { db := db, reply := .int (d / ns - c.now / ns), hint := .intTol 1 }
      | .pttl => { db := db, reply := .int (d / msNs - c.now / msNs), hint := .intTol 20 }
      | .expiretime => { db := db, reply := .int (d / ns), hint := .intTol 1 }
      | .pexpiretime => { db := db, reply := .int (d / msNs), hint := .intTol 20 }

/-! ## SORT -/

/-- a score as `strconv.ParseFloat` reads it: a finite decimal or an infinity; NaN is flagged apart
    (comparisons with it order nothing) -/
inductive SortW where
  | negInf | fin (d : Dec) | posInf | nan

def sortWeight (b : Bytes) : Option SortW :=
  match parseDecimal b with
  | some d => some (.fin d)
  | none =>
    if isInfNan b then
      let u := lowerB (match b with | 43 :: r => r | 45 :: r => r | r => r)
      if u == sb "nan" then some .nan
      else if (match b with | 45 :: _ => true | _ => false) then some .negInf else some .posInf
    else none

def Dec.lt (a b : Dec) : Bool :=
  let s := max a.scale b.scale
  decide (a.mant * (10 : Int) ^ (s - a.scale) < b.mant * (10 : Int) ^ (s - b.scale))

def SortW.rank : SortW → Nat
  | .negInf => 0 | .fin _ => 1 | .posInf => 2 | .nan => 3

def SortW.lt (a b : SortW) : Bool :=
  match a, b with
  | .fin x, .fin y => x.lt y
  | _, _ => decide (a.rank < b.rank)

/-- lexicographic order of byte strings (Go's `<` on strings) -/
def bytesLt : Bytes → Bytes → Bool
  | [], [] => false
  | [], _ :: _ => true
  | _ :: _, [] => false
  | x :: xs, y :: ys => if x < y then true else if y < x then false else bytesLt xs ys

structure SortItem where
  data : Bytes
  str : Bytes          -- what ALPHA compares
  w : SortW            -- what the numeric mode compares

/-- the comparison of the repaired `sort`: by score (or by string with ALPHA), equal ones by the element -/
def sortLess (alpha : Bool) (a b : SortItem) : Bool :=
  if alpha then
    if a.str != b.str then bytesLt a.str b.str else bytesLt a.data b.data
  else
    if a.w.lt b.w then true else if b.w.lt a.w then false else bytesLt a.data b.data

def replaceStar (pat elem : Bytes) : Option Bytes :=
  match pat.span (· != 42) with
  | (_, []) => none                      -- no asterisk
  | (pre, _ :: post) => some (pre ++ elem ++ post)

/-- the string value of a live key (`getKeyUnlocked` with `VALUE_EXISTS`) -/
def strValue (c : Ctx) (db : Db) (k : Bytes) : Option Bytes :=
  match db.live c.now k with
  | some { val := .str b, .. } => some b
  | _ => none

def errSortScore : Value := .error (sb "ERR One or more scores can't be converted into double")

/-- elements of the source key: `(elements, is a set)` -/
def sortSource (c : Ctx) (db : Db) (key : Bytes) : Except Unit (Option (List Bytes × Bool)) :=
  match db.live c.now key with
  | none => .ok none
  | some e => match e.val with
    | .list l => .ok (some (l, false))
    | .set m => .ok (some (m, true))
    | _ => .error ()

/-- what SORT returns (before STORE): `none` = a score is not a number; otherwise the values and how
    the reply is to be compared -/
def sortCompute (c : Ctx) (db : Db) (xs : List Bytes) (isSet : Bool) (by_ : Option Bytes)
    (limit : Option (Int × Int)) (gets : List Bytes) (desc alpha storing : Bool) : Option (List Value × Match) :=
  let noSort0 := match by_ with | some p => !p.contains 42 | none => false
  -- stored output of an unordered source is sorted by the elements
  let forced := noSort0 && isSet && storing
  let by_ := if forced then none else by_
  let alpha := if forced then true else alpha
  let noSort := noSort0 && !forced
  let items : Option (List SortItem) := xs.mapM fun x =>
    let src : Option Bytes := match by_ with
      | none => some x
      | some p => if noSort then some x else (replaceStar p x).bind fun k => strValue c db k
    match src with
    | none => some { data := x, str := sb "0", w := .fin ⟨0, 0⟩ }     -- missing weight key counts as 0
    | some v =>
      if alpha || noSort then some { data := x, str := v, w := .fin ⟨0, 0⟩ }
      else match sortWeight v with
        | some .nan => none                      -- NaN orders nothing: refused like text (as Redis does)
        | some w => some { data := x, str := v, w := w }
        | none => none
  items.map fun its =>
    let hasNan := its.any fun i => match i.w with | .nan => true | _ => false
    -- stable; `a` may stay before `b` unless `b` is strictly less (ascending) / strictly greater (descending)
    let sorted := if noSort then its
      else its.mergeSort fun a b => if desc then !(sortLess alpha a b) else !(sortLess alpha b a)
    let n : Int := sorted.length
    let window : List SortItem := match limit with
      | none => sorted
      | some (off, cnt) =>
        let start := if off < 0 then 0 else off
        let cnt := if cnt < 0 then n else cnt
        let stop := wrap64 (start + cnt)
        if start ≥ n then []
        else
          let stop := if stop < start then start else if stop ≥ n then n else stop
          (sorted.drop start.toNat).take (stop - start).toNat
    let gets' := if gets.isEmpty then [[35]] else gets
    let out : List Value := window.flatMap fun it => gets'.map fun g =>
      if g == [35] then Value.bulk it.data
      else match (replaceStar g it.data).bind fun k => strValue c db k with
        | some v => Value.bulk v
        | none => Value.nil
    (out, if hasNan || (noSort && isSet && limit.isSome) then Match.custom "any"
          else if noSort && isSet then Match.unordered else Match.exact)   -- several GETs: the groups come in any order

/-- reply, or the stored list: the destination is replaced, an empty result leaves no key -/
def sortFinish (db : Db) (store : Option Bytes) (out : List Value) (hint : Match) : R :=
  match store with
  | none => { db := db, reply := .array out, hint := hint }
  | some d =>
    if out.isEmpty then R.ok (db.del d) (.int 0)
    else
      let strs := out.map fun v => match v with | .bulk b => b | _ => []
      R.ok ((db.del d).put d (.list strs) none) (vInt strs.length)

/-- `SORT key [BY pattern] [LIMIT offset count] [GET pattern …] [ASC|DESC] [ALPHA] [STORE destination]`.
    A BY pattern without an asterisk means "do not sort": a list keeps its order; a set has none, so
    its reply is compared as a multiset (not at all when LIMIT cuts it) and what is stored is sorted by
    the elements, as Redis does. -/
def cmdSort (c : Ctx) (db : Db) (key : Bytes) (by_ : Option Bytes) (limit : Option (Int × Int))
    (gets : List Bytes) (desc alpha : Bool) (store : Option Bytes) : R :=
  match sortSource c db key with
  | .error _ => R.ok db wrongType
  | .ok none => sortFinish db store [] .exact
  | .ok (some (xs, isSet)) =>
    match sortCompute c db xs isSet by_ limit gets desc alpha store.isSome with
    | none => R.ok db errSortScore
    | some (out, hint) => sortFinish db store out hint

end RedisEmu
