def hello := "world"
