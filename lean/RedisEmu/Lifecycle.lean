/-
  Lifecycle of one emulator instance (`test-server.go`): listener, cancellation, the wait group
  (accept loop, signal monitor, key monitor, periodic saver) and the instance's own client
  connections. Core Lean only.
-/
namespace RedisEmu

inductive Worker where
  | acceptLoop | signalMonitor | keyMonitor | saver
  deriving Repr, DecidableEq

inductive ConnActivity where
  | idle | midPipeline | inMulti | blockedForever
  deriving Repr, DecidableEq

structure Conn where
  id : Nat
  activity : ConnActivity
  open_ : Bool := true
  deriving Repr, DecidableEq

structure Emu where
  port : Nat
  listening : Bool := false
  cancelled : Bool := false
  workers : List Worker := []
  conns : List Conn := []
  keys : List Nat := []        -- the data (abstract)
  deriving Repr, DecidableEq

def Emu.start (port : Nat) (withSaver withKeyMonitor : Bool) : Emu :=
  { port := port, listening := true,
    workers := [.acceptLoop, .signalMonitor] ++ (if withKeyMonitor then [.keyMonitor] else []) ++ (if withSaver then [.saver] else []) }

/-- a worker has ended: the accept loop when the listener is closed, the others when cancelled -/
def Emu.workerDone (e : Emu) : Worker → Bool
  | .acceptLoop => !e.listening
  | _ => e.cancelled

/-- `RequestTermination` (repaired): close the listener, cancel, and close every own connection,
    releasing blocked commands -/
def Emu.requestTermination (e : Emu) : Emu :=
  { e with listening := false, cancelled := true, conns := e.conns.map fun c => { c with open_ := false, activity := .idle } }

/-- `WaitForTermination` returns when every member of the wait group has ended -/
def Emu.waitReturns (e : Emu) : Bool := e.workers.all e.workerDone

/-- a connection is served only while it is open -/
def Emu.serves (e : Emu) (id : Nat) : Bool := e.conns.any fun c => c.id == id && c.open_

def Emu.connect (e : Emu) (id : Nat) (a : ConnActivity) : Emu :=
  if e.listening then { e with conns := e.conns ++ [{ id := id, activity := a }] } else e

/-- the port is free again once the listener is closed -/
def portFree (running : List Emu) (port : Nat) : Bool := running.all fun e => !(e.port == port && e.listening)

/-! ### termination against connections that are being accepted

`RequestTermination` closes the listener and walks the client table under the table's lock, so the walk is one
step with respect to registrations. A connection the kernel accepted just before the listener was closed is
registered AFTER the walk; `checkLate = true` is the repaired behaviour (D87, 75ebc90): the registration looks at
the termination mark and closes the connection at once. -/

inductive LEv where
  | acceptBegin (id : Nat)       -- the accept loop takes a connection off the listener
  | register (id : Nat)          -- … and enters it into the client table
  | clientCloses (id : Nat)      -- the peer hangs up; the connection leaves the table
  | terminate
  deriving Repr, DecidableEq

structure LState where
  listening : Bool := true
  terminated : Bool := false
  inFlight : List Nat := []       -- accepted, not yet registered
  table : List (Nat × Bool) := [] -- registered connections: (id, open)
  deriving Repr, DecidableEq

def lstep (checkLate : Bool) (s : LState) : LEv → LState
  | .acceptBegin id => if s.listening then { s with inFlight := s.inFlight ++ [id] } else s
  | .register id =>
    if s.inFlight.contains id then
      { s with inFlight := s.inFlight.erase id, table := s.table ++ [(id, !(checkLate && s.terminated))] }
    else s
  | .clientCloses id => { s with table := s.table.filter fun c => c.1 != id }
  | .terminate => { s with listening := false, terminated := true, table := s.table.map fun c => (c.1, false) }

def lrun (checkLate : Bool) (s : LState) (evs : List LEv) : LState := evs.foldl (lstep checkLate) s

end RedisEmu
