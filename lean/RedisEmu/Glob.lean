import RedisEmu.Base
/-
  `redisGlob.go` on byte strings (the Go code works on runes; for ASCII input they coincide,
  and the driver only judges KEYS/SCAN patterns on ASCII data).
-/
namespace RedisEmu

/-- read a `[...]` class starting after the `[`: (members, rest of pattern) -/
def globClass : List UInt8 → List UInt8 → List UInt8 × List UInt8
  | [], acc => (acc.reverse, [])
  | 93 :: r, acc => (acc.reverse, r)                          -- ']'
  | 92 :: x :: r, acc => globClass r (x :: acc)               -- '\' x
  | x :: r, acc => globClass r (x :: acc)

/-- `redisGlob(pattern, candidate)`; `fuel` bounds the `*` backtracking -/
def globAux : Nat → List UInt8 → List UInt8 → Bool
  | 0, _, _ => false
  | fuel + 1, pat, cand =>
    match cand with
    | [] => (pat.dropWhile (· == 42)).isEmpty
    | c :: cs =>
      match pat with
      | [] => false
      | 63 :: p => globAux fuel p cs                              -- '?'
      | 42 :: p =>                                                -- '*'
        if p.isEmpty then true
        else
          let rec try_ (f : Nat) (rest : List UInt8) : Bool :=
            match f with
            | 0 => false
            | f + 1 =>
              match rest with
              | [] => false
              | _ :: t => globAux fuel p rest || try_ f t
          try_ (cand.length + 1) cand
      | 91 :: p =>                                                -- '['
        let (cls, p') := globClass p []
        if cls.contains c then globAux fuel p' cs else false
      | 92 :: x :: p => if x == c then globAux fuel p cs else false   -- '\' x
      | x :: p => if x == c then globAux fuel p cs else false

def glob (pat cand : Bytes) : Bool := globAux (pat.length + cand.length + 2) pat cand

end RedisEmu
