import RedisEmu.Base
/-
  `redisDict.go` and `dictScanUnlocked`: an open table of `2^k` buckets with at most one item per
  bucket; the bucket of a hash is the bit-reversal of its low `k` bits, so that doubling the table
  splits bucket `i` into `2i, 2i+1` and a SCAN cursor (the bit-reversed position) stays meaningful
  across resizes.
-/
namespace RedisEmu

/-- reverse the low `k` bits of `x` -/
def rev : Nat → Nat → Nat
  | 0, _ => 0
  | k + 1, x => (x % 2) * 2 ^ k + rev k (x / 2)

structure Item where
  hash : Nat
  key : Bytes
  deriving Repr, BEq, DecidableEq

structure Dict where
  k : Nat                        -- log2 of the table size (the Go code starts at 16 buckets, k = 4)
  buckets : Array (Option Item)  -- size 2^k
  count : Nat := 0
  removals : Nat := 0
  deriving Repr

/-- `hashToIndex` -/
def bucketOf (k h : Nat) : Nat := rev k (h % 2 ^ k)

def Dict.size (d : Dict) : Nat := 2 ^ d.k

def Dict.empty : Dict := { k := 4, buckets := Array.replicate 16 none }

def Dict.slot (d : Dict) (i : Nat) : Option Item := (d.buckets[i]?).join

/-- `rehash(2^k')`: place every item at its bucket in a table of the new size (later items win,
    as the Go loop overwrites) -/
def rehash (d : Dict) (k' : Nat) : Dict :=
  let empty : Array (Option Item) := Array.replicate (2 ^ k') none
  let bs := d.buckets.foldl (fun acc o => match o with
    | some it => acc.setIfInBounds (bucketOf k' it.hash) (some it)
    | none => acc) empty
  { d with k := k', buckets := bs }

/-- smallest `n ≥ k` (searching at most `fuel` doublings) at which the two hashes fall into
    different buckets: the doubling loop of `store`. `none` = the hashes agree on all examined bits
    (the Go loop then overflows its uint32 counter: D41). -/
def growTo (h1 h2 : Nat) : Nat → Nat → Option Nat
  | 0, _ => none
  | fuel + 1, k => if h1 % 2 ^ (k + 1) != h2 % 2 ^ (k + 1) then some (k + 1) else growTo h1 h2 fuel (k + 1)

inductive StoreResult where
  | ok (d : Dict)
  | crash           -- low-31-bit collision: `n *= 2` wraps to 0 and `rehash(0)` panics
  deriving Repr

/-- `store` (the value is irrelevant for the layout) -/
def Dict.store (d : Dict) (key : Bytes) (h : Nat) : StoreResult :=
  let b := bucketOf d.k h
  match d.slot b with
  | some it =>
    if it.key == key then .ok d
    else
      match growTo it.hash h (31 - d.k) d.k with
      | none => .crash
      | some k' =>
        let d' := rehash d k'
        .ok { d' with buckets := d'.buckets.setIfInBounds (bucketOf k' h) (some { hash := h, key := key }), count := d.count + 1 }
  | none => .ok { d with buckets := d.buckets.setIfInBounds b (some { hash := h, key := key }), count := d.count + 1 }

/-- no even/odd pair of buckets is fully occupied: halving merges `2i, 2i+1` without collision -/
def pairsFree : List (Option Item) → Bool
  | a :: b :: r => !(a.isSome && b.isSome) && pairsFree r
  | _ => true

/-- `remove` -/
def Dict.remove (d : Dict) (key : Bytes) (h : Nat) : Dict × Bool :=
  let b := bucketOf d.k h
  match d.slot b with
  | some it =>
    if it.key != key then (d, false)
    else
      let d1 : Dict := { d with buckets := d.buckets.setIfInBounds b none, count := d.count - 1, removals := d.removals + 1 }
      if d1.removals > d1.size / 2 then
        let d2 := { d1 with removals := 0 }
        if d2.k > 4 && pairsFree d2.buckets.toList then (rehash d2 (d2.k - 1), true) else (d2, true)
      else (d1, true)
  | none => (d, false)

def Dict.get (d : Dict) (key : Bytes) (h : Nat) : Bool :=
  match d.slot (bucketOf d.k h) with
  | some it => it.key == key
  | none => false

/-- first occupied bucket at or after `i` (table size if none) -/
def nextOcc (d : Dict) : Nat → Nat → Nat
  | 0, i => i
  | fuel + 1, i => if i ≥ d.size then d.size else if (d.slot i).isSome then i else nextOcc d fuel (i + 1)

/-- the loop of `dictScanUnlocked` from position `p`: visit bucket `p`, emit its key if the filter
    accepts it, move to the next occupied bucket; stop when `count` keys were emitted or the table
    ends. Returns the next position (= table size when the iteration is complete) and the keys. -/
def scanFrom (d : Dict) (f : Bytes → Bool) : Nat → Nat → Nat → List Bytes → Nat × List Bytes
  | 0, _, p, acc => (p, acc.reverse)
  | _, 0, p, acc => (p, acc.reverse)
  | fuel + 1, count + 1, p, acc =>
    let (acc', count') := match d.slot p with
      | some it => if f it.key then (it.key :: acc, count) else (acc, count + 1)
      | none => (acc, count + 1)
    let p' := nextOcc d d.size (p + 1)
    if p' ≥ d.size then (d.size, acc'.reverse)
    else scanFrom d f fuel count' p' acc'

/-- position a cursor denotes in this table: `cursor &= mask; index = Reverse32(cursor << shift)` -/
def posOf (d : Dict) (cursor : Nat) : Nat := rev d.k (cursor % 2 ^ d.k)

/-- cursor for a position: `Reverse32(next << shift)`, which is 0 at the end of the table -/
def cursorOf (d : Dict) (p : Nat) : Nat := if p ≥ d.size then 0 else rev d.k p

/-- one SCAN / HSCAN / SSCAN call -/
def Dict.scan (d : Dict) (f : Bytes → Bool) (cursor count : Nat) : Nat × List Bytes :=
  let (p', ks) := scanFrom d f (d.size + 1) count (posOf d cursor) []
  (cursorOf d p', ks)

/-! ### SipHash-2-4 with the zero key (`sipHash.go`), on `UInt64` -/

def rotl (x : UInt64) (b : UInt64) : UInt64 := (x <<< b) ||| (x >>> (64 - b))

structure Sip where
  v0 : UInt64
  v1 : UInt64
  v2 : UInt64
  v3 : UInt64

def Sip.round (s : Sip) : Sip :=
  let v0 := s.v0 + s.v1
  let v1 := rotl s.v1 13
  let v1 := v1 ^^^ v0
  let v0 := rotl v0 32
  let v2 := s.v2 + s.v3
  let v3 := rotl s.v3 16
  let v3 := v3 ^^^ v2
  let v0 := v0 + v3
  let v3 := rotl v3 21
  let v3 := v3 ^^^ v0
  let v2 := v2 + v1
  let v1 := rotl v1 17
  let v1 := v1 ^^^ v2
  let v2 := rotl v2 32
  { v0, v1, v2, v3 }

/-- little-endian 64-bit word from 8 bytes -/
def le64 (b : Bytes) : UInt64 :=
  (b.take 8).reverse.foldl (fun acc x => (acc <<< 8) ||| x.toUInt64) 0

def sipBlocks : Nat → Bytes → Sip → Sip × Bytes
  | 0, b, s => (s, b)
  | n + 1, b, s =>
    let m := le64 b
    let s := { s with v3 := s.v3 ^^^ m }
    let s := s.round.round
    let s := { s with v0 := s.v0 ^^^ m }
    sipBlocks n (b.drop 8) s

/-- `calcSipHash`. Note the Go code's tail handling: the bytes after the last full block (the last
    block itself when the length is a multiple of 8) are folded big-endian into the length word. -/
def sipHash (data : Bytes) : UInt64 :=
  let len := data.length
  let nblocks := if len == 0 then 0 else (len - 1) / 8
  let s0 : Sip := { v0 := 0x736f6d6570736575, v1 := 0x646f72616e646f6d, v2 := 0x6c7967656e657261, v3 := 0x7465646279746573 }
  let (s, tail) := sipBlocks nblocks data s0
  let n : UInt64 := tail.foldl (fun acc x => (acc <<< 8) ||| x.toUInt64) 0
  let b : UInt64 := (len.toUInt64 <<< 56) ||| n
  let s := { s with v3 := s.v3 ^^^ b }
  let s := s.round.round
  let s := { s with v0 := s.v0 ^^^ b }
  let s := { s with v2 := s.v2 ^^^ 0xff }
  let s := s.round.round.round.round
  s.v0 ^^^ s.v1 ^^^ s.v2 ^^^ s.v3

/-- the part of the hash the table ever looks at (`uint32(fullHash)`) -/
def hash32 (key : Bytes) : Nat := (sipHash key).toNat % 2 ^ 32

end RedisEmu
